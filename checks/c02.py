"""C02 - shared (fractional) GPU devices are never oversubscribed."""
import os

import st_cluster
import st_fixtures
import st_clustermodel

LEVEL = "model_checking"
PREFIXES = ["C02_"]


def run(ctx):
    ctx.cov["rule"] = ("fraction-heavy seeded random clusters (1-2 nodes with 1-3 GPUs, fraction / gpu-memory / multi-fraction / whole "
                       "requests, existing groups with running, terminating sharers) over 1-3 cycles on the real scheduler with the "
                       "binder's labelling played by the harness; non-trivial = at least one decision; distinct by scenario content")
    ctx.assumptions += ["GPU devices are anonymous to the scheduler: exclusivity = whole devices + open groups <= GPU count",
                        "node-level accounting state machine is covered by the NodeAcct stage (st_nodeacct) when present"]
    st_clustermodel.run_stage(ctx, PREFIXES, thorough=not ctx.quick)
    n = 600 if ctx.quick else 8000
    st_cluster.run_stage(ctx, PREFIXES, [("fraction", n // 2), ("mixed", n // 4), ("sharers", n // 4)])
    # whole-GPU nominations of one cycle on top of each other (victims moved by one statement, taken again by the next)
    st_cluster.run_stage(ctx, ["C02_NominationFits", "C02_Exclusive"], [("abandon", n // 2)], tag="-abandon")
    st_cluster.run_directed(ctx, ["C02_NominationFits"], "C02")
    # every simulation step of real cycles: the shared-GPU maps of every node after each virtual operation (C02 node predicates)
    import st_cycleacct
    k = 1 if ctx.quick else 10
    st_cycleacct.run_stage(ctx, PREFIXES, [("fraction", 120 * k), ("sharers", 120 * k), ("mixed", 80 * k), ("frag", 40 * k)], procs=8, tag="-c02")
    if os.path.exists(os.path.join(os.path.dirname(__file__), "st_nodeacct.READY")):
        import st_nodeacct
        st_nodeacct.run_stage(ctx, ["C02_"])
    if not ctx.quick:
        st_fixtures.run_stage(ctx, PREFIXES)


def replay(ctx, obj):
    if obj.get("replay", {}).get("module") == "NodeAcctCycleTrace":
        import st_cycleacct
        st_cycleacct.replay_stage(ctx, obj, PREFIXES)
        return
    if obj.get("replay", {}).get("module") != st_cluster.MODULE:
        import st_nodeacct
        st_nodeacct.replay_stage(ctx, obj, PREFIXES)
        return
    st_cluster.replay_stage(ctx, obj, PREFIXES)
