"""C16 - priority, then FIFO, decides between equal workloads of a queue."""
import st_cluster

LEVEL = "exploration"
PREFIXES = ["C16_"]


def nontrivial(sc, body):
    shapes = [j["shape"] for j in sc["jobs"] if j["shape"] > 0]
    return len(shapes) >= 2 and any(x["ev"] in ("Bind", "Pipeline") for x in body)


def run(ctx):
    ctx.cov["rule"] = ("clusters with 2-6 comparable pending jobs in one leaf queue (same template, gang shape, preemptibility; shuffled "
                       "creation times and priorities) competing with other queues for too little capacity; judged when allocate is done; "
                       "non-trivial = at least two comparable jobs and at least one placement")
    n = 3000 if ctx.quick else 30000
    st_cluster.run_stage(ctx, PREFIXES, [("fifo", n)], nontrivial_fn=nontrivial)


def replay(ctx, obj):
    st_cluster.replay_stage(ctx, obj, PREFIXES)
