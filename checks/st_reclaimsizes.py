"""ReclaimSizes stage (C15 at rule level for jobs of different sizes; scenario source for C15).

1. TLC model-checks spec/ReclaimSizes.tla - the scheduling cycle (allocate, reclaim, preempt in the real
   queue order; nominations forgotten at the end of the cycle) for single-pod jobs of 1-3 GPUs:
     * Persist = FALSE (the code as it is) on the job set of the known preempt+reclaim livelock: TLC must
       exhibit the eviction cycle (non-vacuity; a design-level prediction that matches the known finding);
     * Persist = TRUE (nominations honoured by the next cycle - the repair direction of the findings) on
       every job vector within the constants: C15_EventuallyQuiet (liveness on the complete graph) and
       C07_Rules; a counterexample here is logged as a prediction.
2. spec -> code: the model's initial clusters in which nothing pending fits (reclaim / preempt territory) are
   exported and a seeded sample is run on the REAL scheduler for 8 closed cycles; ClusterTrace judges the real
   decisions with the caller's predicates (C15_NoLasso).
"""
import concurrent.futures
import json
import os

import vlib
import st_cluster

MODULE = "ReclaimSizes"

LIVELOCK_JOBS = ('<< [q |-> 1, s |-> 3, p |-> 2], [q |-> 1, s |-> 2, p |-> 1], [q |-> 1, s |-> 1, p |-> 1], '
                 '[q |-> 2, s |-> 3, p |-> 2], [q |-> 2, s |-> 2, p |-> 2] >>')


def consts(**over):
    c = dict(NQ=2, NJ=4, Total=4, Sizes="{1,2,3}", Prios="{1,2}", Quotas="{0,2}", M10=10, Persist="TRUE", FixedJobs="<<>>")
    c.update(over)
    return c


def model_stage(ctx, thorough):
    # (a) the code as it is, on the job set of the known livelock: the cycle must be there
    d = vlib.prepare_spec_dir(ctx, "rs-asis")
    c = consts(NJ=5, Total=6, Quotas="{1,2}", Persist="FALSE", FixedJobs=LIVELOCK_JOBS)
    mod, cfg = vlib.write_model(d, MODULE, "RS_asis", c, spec="Spec", invariants=["TypeOK"], properties=["C15_EventuallyQuiet"], view="View")
    r = vlib.tlc(ctx, d, mod, cfg, workers=min(vlib.NCPU, 8), timeout=1200, heap="6g")
    found = (not r.ok) and r.kind == "temporal"
    ctx.stage("reclaimsizes-as-is", persist=False, jobs="3+2+1 GPUs in q1, 3+2 GPUs in q2, 6 GPUs", lasso_found=found, distinct=r.distinct)
    if not found:
        raise vlib.Infra("ReclaimSizes: the model of the code as it is has no eviction cycle on the known livelock's job set - "
                         "the liveness check is vacuous or the model drifted from the code")
    # (b) nominations honoured: no behaviour evicts forever, within the constants
    d = vlib.prepare_spec_dir(ctx, "rs-persist")
    c = consts(Quotas="{0,1,2}") if thorough else consts(Sizes="{1,2}", Total=3)
    mod, cfg = vlib.write_model(d, MODULE, "RS_persist", c, spec="Spec", invariants=["TypeOK"],
                                properties=["C15_EventuallyQuiet", "C07_Rules"], view="View")
    r = vlib.tlc(ctx, d, mod, cfg, workers=min(vlib.NCPU, 12), timeout=3000, heap="12g")
    if not r.ok:
        vlib.log("ReclaimSizes (Persist = TRUE) counterexample (design-level prediction, not a verdict): %s %s\n%s" % (
            r.kind, r.violated, vlib.tail_errors(r.out)[:3000]))
        ctx.stage("reclaimsizes-persist-counterexample", kind=r.kind, violated=r.violated)
    else:
        ctx.add_tlc(r)
        ctx.stage("reclaimsizes-persist-check", distinct=r.distinct, generated=r.generated, wall=round(r.wall, 1), constants=c,
                  properties=["C15_EventuallyQuiet (liveness, complete state graph)", "C07_Rules"])


def export_stage(ctx):
    d = vlib.prepare_spec_dir(ctx, "rs-gen")
    c = consts(Quotas="{0,1,2}")
    mod, cfg = vlib.write_model(d, MODULE, "RS_gen", c, init="GenInit", next_="GenNext", constraints=["Emit"])
    r = vlib.tlc(ctx, d, mod, cfg, workers=1, timeout=1800, heap="6g")
    models = [json.loads(json.loads(line)) for line in r.out.splitlines() if line.startswith('"{')]
    if not models:
        raise vlib.Infra("ReclaimSizes exported no initial states")
    return models


def to_scenario(i, m):
    total = m["total"]
    nodes = [dict(name="n1", cpu=64000, mem=64000, pods=110, gpus=total, gpuMem=40000, labels={}, taints=[], ready=1, unsched=0)]
    if i % 3 == 0 and total % 2 == 0:
        nodes = [dict(name="n%d" % (k + 1), cpu=32000, mem=64000, pods=110, gpus=total // 2, gpuMem=40000, labels={}, taints=[], ready=1, unsched=0)
                 for k in range(2)]
    queues = [dict(name="d1", parent=0, prio=100, gq=-1, gl=-1, gw=1, cq=-1, cl=-1, mq=-1, ml=-1, minRtP=0, minRtR=0)]
    for q in range(m["nq"]):
        queues.append(dict(name="q%d" % (q + 1), parent=1, prio=100, gq=m["des"][q] * 1000, gl=-1, gw=1, cq=-1, cl=-1, mq=-1, ml=-1, minRtP=0, minRtR=0))
    jobs, pods = [], []
    free = [n["gpus"] for n in nodes]
    mj = m["jobs"]
    nj = len(mj)
    for j, jb in enumerate(mj):
        run = jb["run"] == 1
        node = 0
        if run:
            fit = [k for k in range(len(nodes)) if free[k] >= jb["s"]]
            if not fit:
                return None     # the running jobs of the abstract pool do not pack onto two nodes
            node = fit[0] + 1
            free[fit[0]] -= jb["s"]
        # the model's job index is the age order: a smaller index is older
        jobs.append(dict(name="j%d" % (j + 1), queue=1 + jb["q"], prio=[50, 75][jb["p"] - 1], preempt=1, min=1, age=7200 + 60 * (nj - j),
                         lastStart=36000 if run else -1, shape=0, subs=[], topo="", topoReq=0))
        pods.append(dict(name="j%d-p1" % (j + 1), job=j + 1, cpu=500, mem=500, gpu=jb["s"], frac=0, gpuMem=0, devs=0, phase="R" if run else "P",
                         node=node, term=0, groups=[], sub=0, initCpu=0, ovhCpu=0, sel={}, affIn={}, affNot={}, tols=[], labels={}, podAff=[], podAnt=[]))
    cfg = dict(placement=["binpack", "spread"][i % 2], consolidation=0, signatures=(i // 2) % 2, consReclaim=0,
               satMult=1000, cycles=8, env="closed", bindFail=[], evictFail=[], fullHier=1, actions="")
    return dict(id="rs-%d" % i, **{"class": "sizes"}, cfg=cfg, nodes=nodes, queues=queues, jobs=jobs, pods=pods, topo=dict(name="", levels=[]))


def run_stage(ctx, prefixes, thorough=False, cap=None):
    model_stage(ctx, thorough)
    binary = vlib.go_build("cluster")
    models = export_stage(ctx)
    total = len(models)
    cap = cap or (8000 if thorough else 500)
    if len(models) > cap:
        step = len(models) / float(cap)
        off = ctx.seed % max(1, int(step))
        models = [models[min(len(models) - 1, int(k * step) + off)] for k in range(cap)]
    scens = [s for s in (to_scenario(i + ctx.seed, m) for i, m in enumerate(models)) if s is not None]
    parts = 16
    base = os.path.join(ctx.scratch, "rs-scen.ndjson")
    files = []
    for part in range(parts):
        fn = "%s.%d" % (base, part)
        chunk = [s for i, s in enumerate(scens) if i % parts == part]
        if not chunk:
            continue
        files.append(fn)
        with open(fn, "w") as f:
            for s in chunk:
                f.write(json.dumps(s) + "\n")

    def one(fn):
        out = fn + ".trace"
        try:
            vlib.run_harness(binary, ["-in", fn, "-out", out], timeout=3000)
        except vlib.Infra as e:
            vlib.log("harness part %s failed (%s); retrying once" % (os.path.basename(fn), str(e)[:160].replace("\n", " ")))
            vlib.run_harness(binary, ["-in", fn, "-out", out, "-watchdog", "600"], timeout=6000)
        return out
    with concurrent.futures.ThreadPoolExecutor(max_workers=parts) as ex:
        traces = list(ex.map(one, files))
    trace = st_cluster.merge(ctx, traces, "rs-trace.ndjson")
    stats = st_cluster.account(ctx, trace, nontrivial_fn=lambda sc, body: any(x["ev"] == "Evict" for x in body))
    ctx.stage("reclaimsizes-real-runs", exported_initial_states=total, run=len(scens), **stats)
    vlib.validate_traces_parallel(ctx, st_cluster.MODULE, trace, st_cluster.invariants(prefixes), tuple(prefixes), chunks=8, timeout=3000, heap="10g",
                         sig_detail=st_cluster.sig_detail)
