"""C20 - status controllers (and operator) converge to the true aggregate.

 1. TLC model-checks spec/StatusAgg.tla (pods x phase x scheduled condition x whole/fraction request in 2
    pod groups, queue tree of depth 3, histories of PodStep / PodDelete (down to zero pods) / Flip(preemptibility) / ReconcilePodGroup /
    ReconcileQueue in all orders) with ClearStale = TRUE (what the property demands: must hold) and
    ClearStale = FALSE (transcription of getStatusWithMetadata as read: a counterexample is a
    *prediction*, replayed below).
 2. TLC exports every transition of the history graph; a history = shortest path + transition. The
    harness (harness/cmd/statusagg) executes them (quick: seeded sample, always including the
    predicted counterexample and a hand-written skeleton) plus seeded random scenarios (random queue
    forests, groups, pods, histories) on the real PodGroupReconciler / QueueReconciler; every history
    is followed by a settle phase (bottom-up, or top-down for depth rounds + one fixpoint round).
 3. TLC validates the recorded statuses (spec/StatusAggTrace.tla): verdicts come only from the C20_
    predicates evaluated by TLC on the real observations.
 4. Operator clause (C20_Operator): the real ConfigReconciler operands are deployed twice by the real
    DeployableOperands.Deploy on the fake client for a small lattice of configs; see run_operator.
"""
import json
import os
import random
import re

import vlib

LEVEL = "model_checking"
MODULE = "StatusAgg"
TRACE = "StatusAggTrace"

SCEN = dict(par=[0, 1, 2, 1], gq=[3, 4], pgof=[1, 1, 2],
            preq=[{"gpu": 1000, "cpu": 100}, {"gpu": 500, "cpu": 100}, {"gpu": 1000, "cpu": 200}], pre=[0, 1])
SCEN2 = dict(par=[0, 1, 1], gq=[2, 2], pgof=[1, 2],
             preq=[{"gpu": 2000, "cpu": 500}, {"gpu": 250, "cpu": 100}], pre=[1, 0])


def tla_seq(xs):
    return "<<" + ",".join(str(x) for x in xs) + ">>"


def consts(sc, max_events, clear):
    return dict(Parent=tla_seq(sc["par"]), GroupQueue=tla_seq(sc["gq"]), PodGroupOf=tla_seq(sc["pgof"]),
                PodReq="<<" + ",".join("[gpu |-> %d, cpu |-> %d]" % (r["gpu"], r["cpu"]) for r in sc["preq"]) + ">>",
                InitPre="<<" + ",".join("TRUE" if p else "FALSE" for p in sc["pre"]) + ">>",
                MaxEvents=max_events, ClearStale="TRUE" if clear else "FALSE")


DUMMY = consts(dict(par=[0], gq=[1], pgof=[1], preq=[{"gpu": 0, "cpu": 0}], pre=[0]), 0, True)
MODEL_INVS = ["TypeOK", "C20_PodGroupRequested", "C20_PodGroupAllocated", "C20_PodGroupNonPreemptibleSet", "C20_PodGroupNonPreemptibleCleared",
              "C20_QueueLocal", "C20_Queue", "C20_Fixpoint"]
TRACE_INVS = MODEL_INVS[1:] + ["C20_Operator", "D_NoError", "D_Shape", "D_PodLifecycle", "D_Consumed"]
TRACE_PROPS = ["D_OnlyOwnStatus"]


def model_check(ctx, name, sc, max_events, clear):
    d = vlib.prepare_spec_dir(ctx, "mc-" + name)
    mod, cfg = vlib.write_model(d, MODULE, "SA_mc", consts(sc, max_events, clear), spec="Spec", invariants=MODEL_INVS)
    r = vlib.tlc(ctx, d, mod, cfg, workers=4, timeout=1500, heap="6g")
    if r.ok:
        ctx.add_tlc(r)
        ctx.stage("model-check", config=name, clear_stale=clear, max_events=max_events, distinct=r.distinct, generated=r.generated, depth=r.depth,
                  wall=round(r.wall, 1))
        return None
    hist = []
    for s in r.trace_states[1:]:
        m = re.search(r"last = \[\s*a \|-> \"(\w+)\",\s*i \|-> (\d+)", s)
        if m:
            hist.append({"a": m.group(1), "i": int(m.group(2))})
    ctx.stage("model-counterexample (prediction, replayed on the real reconcilers)", config=name, clear_stale=clear, violated=r.violated,
              history=" ".join("%s%d" % (h["a"], h["i"]) for h in hist))
    return hist


def export_histories(ctx, name, sc, max_events):
    d = vlib.prepare_spec_dir(ctx, "gen-" + name)
    mod, cfg = vlib.write_model(d, TRACE, "SA_gen", consts(sc, max_events, True), init="GenInit", next_="GenNext", view="GenView",
                                action_constraints=["Edge"])
    r = vlib.tlc(ctx, d, mod, cfg, workers=1, timeout=2500, heap="6g")
    succ, edges = {}, []
    for line in r.out.splitlines():
        if line.startswith('"EDGE '):
            e = json.loads(json.loads(line)[5:])
            s, t = json.dumps(e["s"], sort_keys=True), json.dumps(e["t"], sort_keys=True)
            edges.append((s, e["a"], t))
            succ.setdefault(s, []).append((e["a"], t))
    if not edges:
        raise vlib.Infra("TLC exported no transitions:\n" + vlib.tail_errors(r.out))
    # breadth-first search with one worker: the first transition TLC generates leaves the initial state
    # (the initial state can be re-entered, e.g. by flipping preemptibility twice)
    init = edges[0][0]
    path = {init: []}
    frontier = [init]
    while frontier:
        nxt = []
        for s in frontier:
            for a, t in succ.get(s, []):
                if t not in path:
                    path[t] = path[s] + [a]
                    nxt.append(t)
        frontier = nxt
    hs = {json.dumps(path[s] + [a]) for s, a, t in edges if s in path}
    pref = set()
    for h in hs:
        st = json.loads(h)
        for i in range(1, len(st)):
            pref.add(json.dumps(st[:i]))
    keep = sorted(h for h in hs if h not in pref)
    ctx.stage("history-export", config=name, transitions=len(edges), states=len(path), histories=len(keep), wall=round(r.wall, 1))
    return [json.loads(k) for k in keep], len(edges)


def H(s):
    out = []
    for tok in s.split():
        m = re.match(r"([A-Za-z]+)(\d+)", tok)
        out.append({"a": m.group(1), "i": int(m.group(2))})
    return out


SKELETON = [
    "Pod1 Pod2 RecPG1 RecQ3 Del1 RecPG1 Del2 RecPG1 RecPG1 RecQ3 RecQ2 RecQ1",   # pods deleted one by one down to zero
    "Pod3 Pod3 RecPG2 RecQ4 RecQ1 Del3 RecPG2 RecQ4 RecQ1 Flip2 RecPG2",         # single pod running, deleted: empty sums, then a flip of the empty group
    "Pod1 RecPG1 RecPG1 Flip1 RecPG1 RecPG1 RecQ3 RecQ2 RecQ1",               # non-preemptible -> preemptible with allocation
    "Pod3 Pod3 RecPG2 Flip2 RecPG2 Flip2 RecPG2 RecQ4 RecQ1",                   # preemptible -> non-preemptible -> preemptible
    "RecPG1 RecPG2 RecQ1 RecQ2 RecQ3 RecQ4 RecQ1 RecQ2 RecQ3 RecQ4",            # pending-unscheduled only: requested, nothing allocated; top-down
    "Pod1 Pod1 Pod2 RecPG1 RecQ3 RecQ3 Pod1 RecPG1 RecQ3 RecQ2 RecQ1 RecQ1",    # running -> done drops out of both sums
    "Pod1 Pod2 Pod3 RecQ1 RecPG1 RecQ1 RecQ2 RecQ3 RecPG2 RecQ4 RecQ1 RecQ2 RecQ1",  # parent before child
]


# ---- batching heuristic (NOT a verdict), mirrors the bookkeeping of StatusAgg.tla -----------------
def triage_all(scen):
    """all (predicate, class) pairs failing at the first event where anything fails (else [])."""
    sc = scen[0]
    par, gq, pgof, preq = sc["par"], sc["gq"], sc["pgof"], sc["preq"]
    nq, ng, np_ = len(par), len(gq), len(pgof)
    Z = {"gpu": 0, "cpu": 0}

    def anc(q):
        out = [q]
        while par[q - 1] != 0:
            q = par[q - 1]
            out.append(q)
        return out

    def sub(q):
        out = {q}
        for c in range(1, nq + 1):
            if par[c - 1] == q:
                out |= sub(c)
        return out

    def add(a, b):
        return {"gpu": a["gpu"] + b["gpu"], "cpu": a["cpu"] + b["cpu"]}

    def adds(a, b):
        return {k: add(a[k], b[k]) for k in ("req", "alloc", "nonpre")}

    ZS = {"req": Z, "alloc": Z, "nonpre": Z}
    st = ["PU"] * np_
    pre = [p == 1 for p in sc["pre"]]
    pgfresh, pgfix = [False] * ng, [False] * ng
    qfresh, qfix = [False] * nq, [False] * nq

    def truepg(g):
        req, alloc = Z, Z
        for p in range(np_):
            if pgof[p] == g:
                if st[p] in ("PU", "PS", "R"):
                    req = add(req, preq[p])
                if st[p] in ("PS", "R"):
                    alloc = add(alloc, preq[p])
        return {"req": req, "alloc": alloc, "nonpre": Z if pre[g - 1] else alloc}

    def env(g):
        pgfresh[g - 1] = False
        pgfix[g - 1] = False
        for q in anc(gq[g - 1]):
            qfresh[q - 1] = False

    for ev in scen[1:]:
        out = []
        if ev.get("err"):
            return [("D_NoError", "error")]
        if ev["ev"] == "Deploy":
            if ev["ch"] or (ev["round"] > 1 and ev["w"] > 0):
                return [("C20_Operator", "second-deploy-writes" if not ev["ch"] else "object-set-or-content-changed")]
            continue
        a, i, w = ev["ev"], ev["i"], ev["w"]
        fix = False
        if a in ("Pod", "Del"):
            st[i - 1] = ev["st"]
            env(pgof[i - 1])
        elif a == "Flip":
            pre[i - 1] = ev["pre"] == 1
            env(i)
        elif a == "RecPG":
            fix = pgfix[i - 1]
            pgfresh[i - 1] = True
            pgfix[i - 1] = True
            if w > 0:
                for q in anc(gq[i - 1]):
                    qfresh[q - 1] = False
                qfix[gq[i - 1] - 1] = False
        elif a == "RecQ":
            fix = qfix[i - 1]
            fresh = all(pgfresh[g] for g in range(ng) if gq[g] == i) and all(qfresh[c] for c in range(nq) if par[c] == i)
            if w > 0:
                for q in anc(i)[1:]:
                    qfresh[q - 1] = False
                if par[i - 1] != 0:
                    qfix[par[i - 1] - 1] = False
            qfresh[i - 1] = fresh
            qfix[i - 1] = True
        pgst, qst = ev["pgst"], ev["qst"]
        for g in range(1, ng + 1):
            if pgfresh[g - 1]:
                t = truepg(g)
                gone = all(st[p] == "X" for p in range(np_) if pgof[p] == g)
                if pgst[g - 1]["req"] != t["req"]:
                    out.append(("C20_PodGroupRequested", "requested-stale-after-all-pods-deleted" if gone else "requested-mismatch"))
                if pgst[g - 1]["alloc"] != t["alloc"]:
                    out.append(("C20_PodGroupAllocated", "allocated-stale-after-all-pods-deleted" if gone else "allocated-mismatch"))
                if not pre[g - 1] and pgst[g - 1]["nonpre"] != t["alloc"]:
                    out.append(("C20_PodGroupNonPreemptibleSet", "allocatedNonPreemptible-not-allocated-for-non-preemptible-group"))
                if pre[g - 1] and pgst[g - 1]["nonpre"] != Z:
                    out.append(("C20_PodGroupNonPreemptibleCleared", "stale-allocatedNonPreemptible-after-flip-to-preemptible"))
        if a == "RecQ":
            s = ZS
            for c in range(nq):
                if par[c] == i:
                    s = adds(s, qst[c])
            for g in range(ng):
                if gq[g] == i:
                    s = adds(s, pgst[g])
            if qst[i - 1] != s:
                out.append(("C20_QueueLocal", "queue-not-sum-of-children-and-podgroups"))
        for q in range(1, nq + 1):
            if qfresh[q - 1]:
                s = ZS
                for g in range(1, ng + 1):
                    if gq[g - 1] in sub(q):
                        s = adds(s, truepg(g))
                if qst[q - 1] != s:
                    out.append(("C20_Queue", "queue-aggregate-mismatch"))
        if a in ("RecPG", "RecQ") and fix and (w != 0 or ev["ch"] != 0):
            what = "podgroup" if a == "RecPG" else "queue"
            out.append(("C20_Fixpoint", "%s-status-%s" % (what, "changed-on-repeat" if ev["ch"] else "patched-without-change")))
        if out:
            return out
    return []


def triage(scen):
    t = triage_all(scen)
    return t[0] if t else None


class SigCtx:
    def __init__(self, ctx, affected):
        self._ctx = ctx
        self._affected = affected

    def __getattr__(self, k):
        return getattr(self._ctx, k)

    def violation(self, signature, text, replay_obj):
        inv = replay_obj.get("invariant", signature.split(" ")[0])
        scen = replay_obj.get("trace", [])
        at = replay_obj.get("at_event")
        ts = triage_all(scen[:at] if at else scen) if scen else []
        cls = next((c for (i, c) in ts if i == inv), "unclassified")
        n = self._affected.get((inv, cls), 0)
        if n:
            text += "\nscenarios of this run in the same violation class: %d" % n
        if scen:
            sc = scen[0]
            text += "\nscenario: par=%s gq=%s pgof=%s preq=%s pre=%s via=%s history: %s" % (sc["par"], sc["gq"], sc["pgof"], sc["preq"], sc["pre"], sc["via"], sc["hist"])
        self._ctx.violation("%s %s" % (inv, cls), text, replay_obj)


def split_scenarios(trace):
    evs = vlib.read_ndjson(trace)
    return [evs[s - 1:e] for (s, e) in vlib.scenario_index(evs)]


def write_scenarios(path, scens):
    with open(path, "w") as f:
        for sc in scens:
            for ev in sc:
                f.write(json.dumps(ev) + "\n")


def validate(ctx, trace):
    scens = split_scenarios(trace)
    clean, suspects = [], {}
    for sc in scens:
        t = triage(sc)
        ctx.count_case([sc[0][k] for k in ("par", "gq", "pgof", "preq", "pre", "via", "hist", "settle")], len(sc) > 3)
        if t is None:
            clean.append(sc)
        else:
            suspects.setdefault(t, []).append(sc)
    affected = {k: len(v) for k, v in suspects.items()}
    ctx.stage("batching", scenarios=len(scens), clean=len(clean), suspect_classes={"%s %s" % k: v for k, v in affected.items()})
    sctx = SigCtx(ctx, affected)
    if clean:
        p = os.path.join(ctx.scratch, "clean.ndjson")
        write_scenarios(p, clean)
        vlib.validate_traces(sctx, TRACE, p, TRACE_INVS, "C20_", constants=DUMMY, properties=TRACE_PROPS, timeout=2500, heap="6g", workers=4)
    if suspects:
        reps = []
        for k in sorted(suspects):
            reps += sorted(suspects[k], key=len)[:3]
        p = os.path.join(ctx.scratch, "suspects.ndjson")
        write_scenarios(p, reps)
        vlib.validate_traces(sctx, TRACE, p, TRACE_INVS, "C20_", constants=DUMMY, properties=TRACE_PROPS, timeout=1500, heap="4g", workers=2)
        ctx.cov["scenarios_not_revalidated_same_class_as_reported"] = sum(affected.values()) - len(reps)
    for sc in [x for x in scens if x[0]["class"] != "operator"][::max(1, len(scens) // 5)]:
        ctx.sample({"scenario": {k: sc[0][k] for k in ("par", "gq", "pgof", "preq", "pre", "via")}, "history": sc[0]["hist"],
                    "final_podgroup_status_milli": sc[-1]["pgst"], "final_queue_status_milli": sc[-1]["qst"]})


# ---- operator clause -----------------------------------------------------------------------------
def run_operator(ctx, binary):
    """real ConfigReconciler operands, real DeployableOperands.Deploy, 3 rounds x 2 fresh stores x config lattice;
    the Deploy events are judged by TLC (C20_Operator in StatusAggTrace)."""
    trace = os.path.join(ctx.scratch, "operator.ndjson")
    p = vlib.run_harness(binary, ["-operator", "-out", trace, "-seed", str(ctx.seed)], timeout=900)
    evs = vlib.read_ndjson(trace)
    if not evs:
        raise vlib.Infra("operator run produced no events: " + p.stdout[-500:] + p.stderr[-1500:])
    skipped = [e for e in evs if e["ev"] == "OperatorSkipped"]
    if skipped:
        ctx.assumptions.append("C20_Operator DROPPED: " + skipped[0]["why"])
        ctx.stage("operator", skipped=skipped[0]["why"])
        return
    deploys = [e for e in evs if e["ev"] == "Deploy"]
    ctx.stage("operator", deploys=len(deploys), configs=sorted({e["config"] for e in deploys}), objects_per_config={e["config"]: e["nobjects"] for e in deploys},
              second_round_calls=sorted({e["calls"] for e in deploys if e["round"] > 1}))
    validate(ctx, trace)


def run(ctx):
    binary = vlib.go_build("statusagg")
    quick = ctx.quick
    me = 6 if quick else 7
    # 1. design: the demanded behaviour holds in the model; the transcription of the code as read is expected to fail (F7)
    bad = model_check(ctx, "tree3", SCEN, me, True)
    if bad is not None:
        vlib.log("the model with ClearStale=TRUE has a counterexample - specification problem?")
    pred = model_check(ctx, "tree3-asread", SCEN, me, False)
    model_check(ctx, "flat", SCEN2, me + 1, True)
    # 2. histories
    rnd = random.Random(ctx.seed)
    scen_path = os.path.join(ctx.scratch, "histories.ndjson")
    total_edges = 0
    n = 0
    with open(scen_path, "w") as f:
        def emit(sc, hist, ident):
            nonlocal n
            f.write(json.dumps(dict(sc, id=ident, hist=hist, via=[(n + g) % 2 for g in range(len(sc["gq"]))])) + "\n")
            n += 1
        if pred:
            emit(SCEN, pred, "tlc-prediction-0")
            emit(SCEN, pred, "tlc-prediction-1")
        for k, s in enumerate(SKELETON):
            emit(SCEN, H(s), "skeleton-%d-a" % k)
            emit(SCEN, H(s), "skeleton-%d-b" % k)
        for name, sc, mev, cap in (("tree3", SCEN, 5 if quick else 6, 600 if quick else 8000), ("flat", SCEN2, 5 if quick else 6, 200 if quick else 3000)):
            hs, ne = export_histories(ctx, name, sc, mev)
            total_edges += ne
            if cap and len(hs) > cap:
                hs = rnd.sample(hs, cap)
            else:
                ctx.add("edges_replayed_on_impl", ne)
            for k, h in enumerate(hs):
                emit(sc, h, "%s-%d" % (name, k))
    trace = os.path.join(ctx.scratch, "trace.ndjson")
    p = vlib.run_harness(binary, ["-in", scen_path, "-out", trace, "-seed", str(ctx.seed), "-random", "900" if quick else "8000"], timeout=3000)
    ctx.stage("real-run", tlc_histories=n, out=p.stdout.strip())
    ctx.cov["rule"] = ("one case = (queue forest, pod groups, pods with requests, initial preemptibility, how preemptibility is expressed, history, "
                       "settle order) executed on the real PodGroupReconciler/QueueReconciler in a fresh fake store; histories = TLC prediction + "
                       "skeleton + TLC transition-cover histories (quick: seeded sample) + seeded random scenarios; non-trivial = at least "
                       "three events; plus operator Deploy rounds per config")
    ctx.assumptions += [
        "the API server is the controller-runtime fake client (status sub-resources for PodGroup, Queue, Pod); typed Get/List results carry their GroupVersionKind as the manager's cache-backed client does",
        "QueueReconciler's resourceUpdater/childQueuesUpdater are injected through reflection instead of SetupWithManager; the two field indexes it registers (.spec.parentQueue, .spec.queue) are re-declared in the harness with the same one-line functions",
        "pods can be deleted from any state, down to zero pods in a group", "pods request whole GPUs (container request) or a GPU fraction (gpu-fraction annotation; the binder's received-resource-type annotation is set when the pod becomes scheduled) and CPU; gpu-memory requests and DRA claims are not exercised",
        "preemptibility flips are edits of spec.preemptibility or of the priority class name (train=50 / build=100), alternating per scenario",
        "a mutating call = create/update/delete or a patch with a non-empty body; the Queue controller always issues a status patch whose body is empty when nothing changed (counted as no write)",
        "quantities are compared in milli-units of nvidia.com/gpu and cpu",
    ]
    validate(ctx, trace)
    run_operator(ctx, binary)
    ctx.cov["exhaustive"] = False  # exhaustive in the model; the real code runs a sample of the transition cover unless it fits the cap


def replay(ctx, obj):
    binary = vlib.go_build("statusagg")
    rp = obj["replay"]
    sc = rp["trace"][0]
    if sc.get("class") == "operator":
        run_operator(ctx, binary)
        return
    p = os.path.join(ctx.scratch, "one.ndjson")
    with open(p, "w") as f:
        f.write(json.dumps(dict(id=sc["id"], par=sc["par"], gq=sc["gq"], pgof=sc["pgof"], preq=sc["preq"], pre=sc["pre"], via=sc["via"],
                                hist=H(sc["hist"]), settle=sc["settle"])) + "\n")
    trace = os.path.join(ctx.scratch, "trace.ndjson")
    vlib.run_harness(binary, ["-in", p, "-out", trace])
    validate(ctx, trace)
