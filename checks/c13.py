"""C13 - what-if simulations are transactional.

Statement-level check (module Stmt): see st_stmt.py. Verdicts come only from TLC evaluating
C13_RollbackObs / C13_DiscardObs / C13_CommitNetObs / C13_UnevictObs / C13_NoPhantomObs (spec/StmtTrace.tla)
on projections recorded from a real framework.Statement running on a real framework.Session.
Real cycles (module StmtCycleTrace, st_cyclestmt.py): every statement scope that the REAL actions / solvers abandon
(Rollback to a checkpoint, Discard) - TLC compares the projection of the session view recorded before with the one
recorded after (C13_RollbackCycleObs / C13_DiscardCycleObs; C13_EvictedAgainWhileNominated for the scopes of
statements that evicted a merely nominated pod, finding G37).
"""
import json
import os

import st_cluster
import st_cyclestmt
import st_stmt
import vlib

LEVEL = "model_checking"


def run(ctx):
    st_stmt.run_stage(ctx, ["C13_"])
    # the Rollbacks / Discards the real actions and solvers perform during real cycles: the session view recorded at the
    # checkpoint / before the statement's first operation against the view recorded after
    k = 1 if ctx.quick else 10
    st_cyclestmt.run_stage(ctx, st_cyclestmt.DEFAULT, [(profile, n * k) for profile, n in st_cyclestmt.QUICK_PLAN])
    # cluster part: the Cache calls of real scheduling cycles (every action, statement commit brackets from the
    # verif hook): each pod is bound / nominated / evicted at most once per committed statement and per cycle
    n = 400 if ctx.quick else 6000
    st_cluster.run_stage(ctx, ["C13_"], [("mixed", n // 2), ("full", n // 4), ("elastic", n // 4)])
    # the solver's abandoned node attempts (by_pod_solver rolls back to a checkpoint and tries the next node): what an
    # abandoned attempt evicted must not reach the cluster - judged on the victims the real cycle emits
    st_cluster.run_stage(ctx, ["C13_Abandoned"], [("abandon", 600 if ctx.quick else 8000)], tag="-abandon")


def replay(ctx, obj):
    if obj.get("replay", {}).get("module") == st_cyclestmt.TRACE:
        st_cyclestmt.replay_stage(ctx, obj)
        return
    if obj.get("replay", {}).get("module") == st_cluster.MODULE:
        st_cluster.replay_stage(ctx, obj, ["C13_"])
        return
    st_stmt.replay_one(ctx, obj, ["C13_"])
