"""C13 - what-if simulations are transactional.

Statement-level check (module Stmt): see st_stmt.py. Verdicts come only from TLC evaluating
C13_RollbackObs / C13_DiscardObs / C13_CommitNetObs (spec/StmtTrace.tla) on projections recorded from
a real framework.Statement running on a real framework.Session.
"""
import json
import os

import st_stmt
import vlib

LEVEL = "model_checking"


def run(ctx):
    st_stmt.run_stage(ctx, ["C13_"])


def replay(ctx, obj):
    st_stmt.replay_one(ctx, obj, ["C13_"])
