"""C10 - a scheduling cycle completes on any API state.

 1. TLC model-checks spec/Totality.tla: the queue handling of the snapshot (LinkChildren /
    PruneOrphans) and the "walk to the root" loops over every parent function on <= 4 queues.
    For the code as written TLC is EXPECTED to find the non-terminating lasso (a parent cycle that
    survives pruning and is reachable from a job's queue) - a prediction, not a verdict. The same
    model restricted to the scenarios for which no hang is predicted, and the repaired design
    (PruneCycles), must satisfy C10_Terminates.
 2. TLC exports every scenario of Totality!Init (families Q, S, P, N of malformed API states); a
    seeded sampler grafts the families onto each other.
 3. harness/cmd/totality runs ONE real scheduling cycle per scenario (real cache, snapshot,
    default configuration, every action) in child processes under a watchdog.
 4. TLC validates the recorded traces (spec/TotalityTrace.tla): C10_NoPanic, C10_Completes,
    C10_HealthyScheduled are evaluated on the real runs only; D_LiveQueues binds the model's queue
    algorithm to the real snapshot.
"""
import json
import os
import random
import re

import vlib

LEVEL = "fault_enumeration"
MODULE = "Totality"
TRACE = "TotalityTrace"

FRAC = ["absent", "empty", "dec", "dec3", "subcenti", "one", "gt1", "zero", "neg", "exp", "hex", "plus", "ws", "nan", "inf", "ovf", "udf", "u64", "nonnum"]
MEM = ["absent", "empty", "pos", "lead0", "zero", "neg", "exp", "hex", "plus", "ws", "nan", "ovf", "u64", "max64", "nonnum", "dec"]
DEV = ["absent", "empty", "one", "two", "zero", "neg", "exp", "hex", "plus", "ws", "nan", "ovf", "u64", "max64", "big32", "huge", "nonnum", "dec"]
NODE = ["healthy", "nolabels", "zeroalloc", "emptyalloc", "nopods", "gpumem-garbage", "gpumem-bytes", "gpumem-zero", "gpumem-neg",
        "gpumem-small", "gpucount-mismatch", "gpucount-garbage", "gpucount-zero", "gpucount-neg", "notready", "noconditions", "unschedulable"]


def tla_set(xs):
    return "{" + ", ".join(('"%s"' % x) if isinstance(x, str) else str(x) for x in xs) + "}"


SITS = ("alloc", "vreclaim", "vpreempt", "vconsol", "reclaimer", "preemptor", "stale")


def consts(nq, prune=False, families=("Q0",), canonical=True, only_terminating=False, minset=(-1, 0, 1, 5), sits=SITS):
    return dict(NQ=str(nq), PruneCycles="TRUE" if prune else "FALSE", Families=tla_set(families),
                Canonical="TRUE" if canonical else "FALSE", OnlyTerminating="TRUE" if only_terminating else "FALSE",
                MinSet=tla_set(minset), SitSet=tla_set(sits), FracSet=tla_set(FRAC), MemSet=tla_set(MEM), DevSet=tla_set(DEV), NodeSet=tla_set(NODE))


DUMMY = dict(NQ="1", PruneCycles="FALSE", Families="{}", Canonical="FALSE", OnlyTerminating="FALSE", MinSet="{}", SitSet="{}", FracSet="{}",
             MemSet="{}", DevSet="{}", NodeSet="{}")

MODEL_INVS = ["TypeOK", "I_LiveIsStatic", "I_ChildrenIsStatic", "I_ControlUntouched", "I_StepsBoundedIffNoHang"]


def trace_invariants():
    return vlib.spec_defs(TRACE, "D_") + vlib.spec_defs(TRACE, "C10_")


def model_check(ctx, name, nq, canonical, **kw):
    d = vlib.prepare_spec_dir(ctx, "mc-" + name)
    mod, cfg = vlib.write_model(d, MODULE, "Tot_mc", consts(nq, canonical=canonical, **kw), spec="Spec",
                                invariants=MODEL_INVS, properties=["C10_Terminates"])
    r = vlib.tlc(ctx, d, mod, cfg, workers=4, timeout=1500, heap="6g")
    return r


def design_checks(ctx, nq, canonical):
    # the three TLC runs are independent: run them concurrently (4 workers each), judge them in order below
    import concurrent.futures

    def guarded(name, **kw):
        try:
            return model_check(ctx, name, nq, canonical, **kw)
        except Exception as e:      # re-raised in the main thread
            return e
    with concurrent.futures.ThreadPoolExecutor(max_workers=3) as ex:
        futs = {"asis": ex.submit(guarded, "asis"), "asis-term": ex.submit(guarded, "asis-term", only_terminating=True),
                "repaired": ex.submit(guarded, "repaired", prune=True)}
        results = {k: f.result() for k, f in futs.items()}

    def get(name):
        r = results[name]
        if isinstance(r, Exception):
            raise r
        return r
    # (a) the code as written: the lasso is expected
    # (vlib.parse_tlc does not know this TLC version's "Temporal property X was violated" message and
    #  raises Infra for it; the helper below recognises it.)
    try:
        r = get("asis")
    except vlib.Infra as e:
        msg = str(e)
        if "Temporal property C10_Terminates was violated" not in msg:
            raise
        r = None
        m = re.search(r"with (\d+) total distinct states", msg)
        n = int(m.group(1)) if m else 0
        lasso = re.findall(r"scn = \[ par \|-> (\[[^\]]*\]).*?jobq \|-> (\"[^\"]*\")", msg, re.S)
        vlib.log("model-level lasso for C10_Terminates (prediction, executed on the real code below)")
        ctx.stage("model-asis-counterexample", property="C10_Terminates", kind="lasso (non-terminating queue walk)",
                  states=n, scenario=("par=%s jobq=%s" % lasso[0]) if lasso else "")
        ctx.add("states", n)
    if r is not None and not r.ok and r.kind == "temporal" and r.violated in ("C10_Terminates", "temporal"):
        n = r.distinct or 0
        lasso = re.findall(r"scn = \[ par \|-> (\[[^\]]*\]).*?jobq \|-> (\"[^\"]*\")", r.out, re.S)
        vlib.log("model-level lasso for C10_Terminates (prediction, executed on the real code below)")
        ctx.stage("model-asis-counterexample", property="C10_Terminates", kind="lasso (non-terminating queue walk)",
                  states=n, scenario=("par=%s jobq=%s" % lasso[0]) if lasso else "")
        ctx.add("states", n)
        r = None
    predicted = r is None
    if r is not None:
        if not r.ok:
            raise vlib.Infra("Totality as-is model: unexpected TLC result %s %s\n%s" % (r.kind, r.violated, vlib.tail_errors(r.out)))
        ctx.add_tlc(r)
        ctx.stage("model-asis", result="C10_Terminates holds on the transcription as written", distinct=r.distinct)
    # (b) as written, restricted to the scenarios for which the static predictor says "terminates"
    r = get("asis-term")
    if not r.ok:
        raise vlib.Infra("Totality: the hang predictor disagrees with the loop model (%s %s)\n%s" % (r.kind, r.violated, vlib.tail_errors(r.out)))
    ctx.add_tlc(r)
    ctx.stage("model-asis-terminating-subset", distinct=r.distinct, generated=r.generated, depth=r.depth, wall=round(r.wall, 1))
    # (c) the repaired design terminates on every parent function
    r = get("repaired")
    if not r.ok:
        raise vlib.Infra("Totality: the repaired design does not satisfy the model properties (%s %s)\n%s" % (r.kind, r.violated, vlib.tail_errors(r.out)))
    ctx.add_tlc(r)
    ctx.stage("model-repaired-design", distinct=r.distinct, generated=r.generated, depth=r.depth, wall=round(r.wall, 1))
    return predicted


def export(ctx, nq, canonical, families, minset, sits=SITS):
    d = vlib.prepare_spec_dir(ctx, "gen")
    mod, cfg = vlib.write_model(d, TRACE, "Tot_gen", consts(nq, families=families, canonical=canonical, minset=minset, sits=sits),
                                init="GenInit", next_="GenNext", constraints=["Emit"])
    r = vlib.tlc(ctx, d, mod, cfg, workers=1, timeout=1500, heap="6g")
    out = []
    for line in r.out.splitlines():
        if line.startswith('"{'):
            out.append(json.loads(json.loads(line)))
    if not out:
        raise vlib.Infra("TLC exported no scenarios:\n" + r.out[-2000:])
    ctx.stage("export", scenarios=len(out), wall=round(r.wall, 1))
    return out


def mix(scens, rnd, n):
    """graft the families onto each other (seeded)."""
    by = {}
    for s in scens:
        by.setdefault(s["fam"], []).append(s)
    out = []
    if not all(by.get(f) for f in "QSPN"):
        return out
    for _ in range(n):
        q, s, p, nn = (rnd.choice(by[f]) for f in "QSPN")
        m = dict(q)
        m["fam"] = "M"
        for k in ("subs", "labels", "pgmin"):
            m[k] = s[k]
        for k in ("frac", "mem", "dev", "gpu"):
            m[k] = p[k]
        m["node"], m["pin"] = nn["node"], nn["pin"]
        m["run"] = rnd.randrange(2)
        m["press"] = q["press"]
        m["sit"] = q["sit"] if q["sit"] != "alloc" else rnd.choice(SITS)
        if m["sit"] != "alloc":
            m["run"], m["press"] = 0, 0
        if m["press"]:
            m["node"], m["pin"], m["gpu"] = "notready", 1, max(1, m["gpu"])
        if rnd.random() < 0.5:   # the node family fixes the request kind: keep it half of the time
            for k in ("frac", "mem", "gpu"):
                m[k] = nn[k]
            m["dev"] = "absent"
        m["var"] = rnd.randrange(3)
        m["detail"] = " + ".join([s["sig"], "frac=%s mem=%s dev=%s gpu=%d" % (m["frac"], m["mem"], m["dev"], m["gpu"]),
                                  "node=%s pin=%d run=%d" % (m["node"], m["pin"], m["run"])])
        if not q["hang"]:
            # the queue part names the signature (the full graft is in the replay file)
            m["sig"] = "mixed: " + q["sig"].replace(" running-pod", "").split(" sit=")[0] \
                + ((" sit=" + m["sit"]) if m["sit"] != "alloc" else "")
        out.append(m)
    return out


def run_real(ctx, binary, scens, name, timeout_s=15):
    scen = os.path.join(ctx.scratch, "scen-%s.ndjson" % name)
    with open(scen, "w") as f:
        for i, s in enumerate(scens):
            s = dict(s)
            s.setdefault("var", 0)
            s["id"] = "%s-%05d" % (name, i + 1)
            f.write(json.dumps(s) + "\n")
    trace = os.path.join(ctx.scratch, "trace-%s.ndjson" % name)
    par = max(4, min(24, vlib.NCPU * 3 // 2))   # the children mostly wait for the 100 ms informer sync poll
    p = vlib.run_harness(binary, ["-in", scen, "-out", trace, "-par", str(par), "-timeout", "%ds" % timeout_s, "-hangcap", "1"],
                         timeout=3000)
    ctx.stage("real-run-" + name, scenarios=len(scens), out=p.stdout.strip())
    m = re.search(r"fake_overflow_dropped=(\d+)", p.stdout)
    if m and int(m.group(1)) > max(5, len(scens) // 500):
        # scenarios whose fake API server overflowed its watch channel in five attempts give no verdict; a few of them on a
        # loaded machine are left out (the count is in the evidence), more than that means the run says nothing
        raise vlib.Infra("%s scenarios dropped: the fake API server's watch channel overflowed in five attempts each" % m.group(1))
    return trace


def account(ctx, trace):
    evs = vlib.read_ndjson(trace)
    cur = None
    pred = {"predicted_hang_run": 0, "confirmed_timeout": 0, "completed(code prunes cycles)": 0}
    outcomes = {"CycleEnd": 0, "Panic": 0, "Timeout": 0}
    nsample = 0
    for e in evs:
        if e["ev"] == "Scenario":
            cur = e
            key = {k: v for k, v in e.items() if k not in ("id", "ev")}
            ctx.count_case(key, e["fam"] != "B")
            if e["hang"]:
                pred["predicted_hang_run"] += 1
            continue
        if e["ev"] == "Panic" and "channel full" in e.get("msg", ""):
            # the fake API server's buffered watch channel overflowed twice in a row (the harness retries once): an
            # artefact of the fake, nothing the scheduler did - no verdict from this run
            raise vlib.Infra("scenario %s: the fake API server's watch channel overflowed in two attempts (%s)" % (cur["id"], e["msg"]))
        if e["ev"] in outcomes:
            outcomes[e["ev"]] += 1
            if cur["hang"]:
                pred["confirmed_timeout" if e["ev"] == "Timeout" else "completed(code prunes cycles)"] += 1
            if e["ev"] == "CycleEnd" and cur["fam"] != "Q" and nsample % 499 == 0:
                ctx.sample({"scenario": cur["sig"], "outcome": "cycle completed in %d ms" % e["ms"]})
            nsample += 1
    ctx.stage("outcomes", **outcomes)
    ctx.stage("model-predictions-executed-on-real-code", **pred)


def validate(ctx, trace):
    """one TLC run with -continue over the whole trace: every violated invariant is reported by TLC with its
    behaviour; each (invariant, input signature) becomes one ctx.violation (vlib.validate_traces would re-run
    TLC once per violating scenario). D_ failures are specification drift."""
    evs = vlib.read_ndjson(trace)
    spans = vlib.scenario_index(evs)
    d = vlib.prepare_spec_dir(ctx, "tv")
    with open(os.path.join(d, "trace.ndjson"), "w") as f:
        for e in evs:
            f.write(json.dumps(e) + "\n")
    mod, cfg = vlib.write_model(d, TRACE, "Tot_tv", DUMMY, spec="TraceSpec", invariants=trace_invariants())
    r = vlib.tlc(ctx, d, mod, cfg, workers=min(vlib.NCPU, 8), timeout=3000, heap="8g", continue_=True)
    chunks = re.split(r"^Error: Invariant (\w+) is violated\.?$", r.out, flags=re.M)
    viols = [(chunks[i], chunks[i + 1]) for i in range(1, len(chunks), 2)]
    if r.kind == "error" or (not viols and not r.ok):
        raise vlib.Infra("TLC failed on the trace:\n" + vlib.tail_errors(r.out))
    ctx.add_tlc(r)
    start_of = {a: (a, b) for (a, b) in spans}
    seen, drift = {}, []
    for inv, body in viols:
        m = re.search(r"^/\\ l0 = (\d+)", body, re.M)
        if not m or int(m.group(1)) not in start_of:
            raise vlib.Infra("cannot locate the scenario of a counterexample:\n" + body[:1500])
        a, b = start_of[int(m.group(1))]
        sc = evs[a - 1:b]
        if inv.startswith("D_"):
            drift.append((inv, sc))
            continue
        key = (inv, sc[0]["sig"])
        seen[key] = seen.get(key, 0) + 1
        if seen[key] > 1:
            continue
        what = [e for e in sc if e["ev"] in ("Panic", "Timeout")]
        text = "TLC: invariant %s violated on the real run of scenario %s (%s)\nevents: %s\n%s" % (
            inv, sc[0]["id"], sc[0]["sig"], " ".join(e["ev"] for e in sc[1:]), json.dumps(what[0]) if what else "")
        ctx.violation("%s %s" % (inv, sc[0]["sig"]), text, {"module": TRACE, "invariant": inv, "trace": sc})
    if seen:
        ctx.stage("violating-scenarios", **{"%s %s" % k: v for k, v in sorted(seen.items())})
    if drift and not ctx.violations and not ctx.known:
        inv, sc = drift[0]
        raise vlib.Infra("specification drift: %s fails on %d scenario(s), first: %s" % (inv, len(drift), json.dumps(sc)[:2500]))
    if drift:
        ctx.stage("drift-monitor-failures", count=len(drift), first="%s %s" % (drift[0][0], drift[0][1][0]["sig"]))
    ctx.add("traces_validated_against_impl", len(spans))
    ctx.add("trace_events_validated", len(evs) - len(spans))


def run(ctx):
    binary = vlib.go_build("totality")
    rnd = random.Random(ctx.seed)
    ctx.cov["rule"] = ("scenario = one API state: control workload (queues cdept<-cteam, node cnode, pod cpod) + one malformed aspect "
                       "crossed with the SITUATION of the malformed job (allocate-only / running reclaim victim / running preempt victim / "
                       "running on a fragmented cluster for consolidation / pending reclaimer / pending preemptor; all default actions run) "
                       "(family Q: every parent function over 4 queues with values in queues+{root, missing} x queue of the job "
                       "[quick: one representative per renaming orbit]; S: sub-group specs / minMember / sub-group labels; "
                       "P: GPU annotation classes; N: node shapes x request kind x pinned) + seeded grafts of the families onto "
                       "each other; every scenario is one real scheduling cycle in a child process; distinct by scenario content; "
                       "plus a cluster-trace stage: well-formed clusters of every generator profile, all actions, C10_NoPanic on each cycle")
    ctx.assumptions += [
        "the scheduler is driven in-process exactly as cmd/snapshot-tool does (fake clientsets, real cache/informers/snapshot, default configuration and default server options), one cycle per scenario",
        "a cycle that has not completed within 15 s (normal: < 0.2 s) and, re-run in a fresh child process, within 45 s is judged non-terminating; the child process is killed",
        "panics in goroutines the harness does not own (status updater workers) are observed as process death",
        "after a scenario of some input signature timed out, the remaining scenarios with the same signature are not run (each would cost a watchdog period and add no new signature)",
        "the model explains non-termination only for the queue walks; for the other families the real run is the only oracle",
        "valid API states: the cluster generator's profiles (elastic, mixed, full, closed, sat, reclaim2, constr, nested, sharers, topo) are run through the real scheduler (harness/cmd/cluster) and Cluster.tla's C10_NoPanic is evaluated on those traces; a panic of a cycle is recovered by that harness into the CycleEnd event",
    ]
    if ctx.quick:
        nq, canonical, minset, nmix = 4, True, (-1, 0, 1, 5), 400
        predicted = design_checks(ctx, 3, False)      # every parent function over 3 queues
    else:
        nq, canonical, minset, nmix = 4, False, (-1, 0, 1, 2, 5), 6000
        predicted = design_checks(ctx, 4, False)      # every parent function over 4 queues
    if ctx.quick:
        scens = export(ctx, nq, canonical, ("Q", "S", "P", "N"), minset)
    else:
        # every parent function in the allocate-only situation; one representative per renaming orbit in every situation
        scens = export(ctx, nq, False, ("Q", "S", "P", "N"), minset, sits=("alloc",))
        seen = {json.dumps(s, sort_keys=True) for s in scens}
        scens += [s for s in export(ctx, nq, True, ("Q", "S", "P", "N"), minset) if json.dumps(s, sort_keys=True) not in seen]
    if not ctx.quick:
        # every scenario additionally with the other representatives of its annotation classes
        scens = scens + [dict(s, var=v) for s in scens if s["fam"] == "P" for v in (1, 2)]
    mixed = mix(scens, rnd, nmix)
    ctx.stage("mixed", scenarios=len(mixed))
    if predicted and not any(s["hang"] for s in scens):
        raise vlib.Infra("the model has a lasso but no exported scenario is predicted to hang")
    trace = run_real(ctx, binary, scens + mixed, "all")
    account(ctx, trace)
    validate(ctx, trace)
    ctx.cov["exhaustive"] = True
    # 5. VALID API states of every kind, under every action: the cluster generator's profiles, one real cycle
    #    sequence each; spec/Cluster.tla's C10_NoPanic (the cluster harness recovers a panic of a real cycle into
    #    the CycleEnd event) is evaluated by TLC on the recorded cluster traces.
    import st_cluster
    plan = [("elastic", 300), ("mixed", 200), ("full", 100), ("closed", 60), ("sat", 100), ("reclaim2", 60), ("constr", 100),
            ("nested", 60), ("sharers", 60), ("topo", 60)]
    if not ctx.quick:
        plan = [(p, 10 * n) for p, n in plan]
    st_cluster.run_stage(ctx, ["C10_"], plan)


def replay(ctx, obj):
    if obj["replay"].get("module") == "ClusterTrace":
        import st_cluster
        st_cluster.replay_stage(ctx, obj, ["C10_"])
        return
    binary = vlib.go_build("totality")
    sc = dict(obj["replay"]["trace"][0])
    sc.pop("ev", None)
    trace = run_real(ctx, binary, [sc], "replay")
    validate(ctx, trace)
