"""ClusterModel stage: TLC model-checks the scheduler's RULES (bind only onto really idle capacity,
sharer group rules) against the capacity properties over every interleaving of scheduler, binder,
kubelet and failures on every small cluster within the constants (design level), then exports
those initial clusters as scenarios, runs the REAL scheduler on each for two cycles and validates
the recorded decisions with ClusterTrace (spec -> code)."""
import json
import os

import vlib
import st_cluster

KIND = {
    "cpu": dict(cpu=1000, mem=500, gpu=0, frac=0, gpuMem=0, devs=0),
    "g1": dict(cpu=500, mem=500, gpu=1, frac=0, gpuMem=0, devs=0),
    "g2": dict(cpu=500, mem=500, gpu=2, frac=0, gpuMem=0, devs=0),
    "f50": dict(cpu=500, mem=500, gpu=0, frac=50, gpuMem=0, devs=1),
    "f30": dict(cpu=500, mem=500, gpu=0, frac=30, gpuMem=0, devs=1),
    "m2": dict(cpu=500, mem=500, gpu=0, frac=50, gpuMem=0, devs=2),
}


def to_scenario(i, m, env, seed):
    nodes = [dict(name="n%d" % (k + 1), cpu=4000, mem=64000, pods=110, gpus=n["gpus"], gpuMem=40000, labels={}, taints=[], ready=1, unsched=0)
             for k, n in enumerate(m["nodes"])]
    queues = [dict(name="d1", parent=0, prio=100, gq=-1, gl=-1, gw=1, cq=-1, cl=-1, mq=-1, ml=-1, minRtP=0, minRtR=0),
              dict(name="q1", parent=1, prio=100, gq=-1, gl=-1, gw=1, cq=-1, cl=-1, mq=-1, ml=-1, minRtP=0, minRtR=0),
              dict(name="q2", parent=1, prio=100, gq=1000, gl=-1, gw=2, cq=-1, cl=-1, mq=-1, ml=-1, minRtP=0, minRtR=0)]
    jobs, pods = [], []
    for k, p in enumerate(m["pods"]):
        jobs.append(dict(name="j%d" % (k + 1), queue=2 + (k % 2), prio=50, preempt=1, min=1, age=600 + 60 * k, lastStart=(600 if p["st"] != "pending" else -1), shape=0, subs=[], topo="", topoReq=0))
        rec = dict(KIND[p["kind"]])
        groups = []
        if p["st"] != "pending" and rec["devs"] >= 1:
            groups = ["g%d" % (k + 1)] + (["g%d" % (k + 1 + len(m["pods"]))] if rec["devs"] == 2 else [])
        rec.update(name="j%d-p1" % (k + 1), job=k + 1, phase="P" if p["st"] == "pending" else "R", node=p["node"],
                   term=1 if p["st"] == "terminating" else 0, groups=groups, sub=0, initCpu=0, ovhCpu=0, sel={}, affIn={}, affNot={}, tols=[], labels={}, podAff=[], podAnt=[])
        pods.append(rec)
    cfg = dict(placement=["binpack", "spread"][i % 2], consolidation=i % 3 != 0 and 1 or 0, signatures=i % 2, consReclaim=0, satMult=1000, cycles=2,
               env=env, bindFail=[2] if i % 5 == 0 else [], evictFail=[], fullHier=1, actions="")
    return dict(id="tlc-%d-%s" % (i, env), **{"class": "tlc-" + env}, cfg=cfg, nodes=nodes, queues=queues, jobs=jobs, pods=pods)


def run_stage(ctx, prefixes, thorough=False):
    binary = vlib.go_build("cluster")
    if thorough:
        consts = dict(NNodes=2, GpuChoices="{1,2}", NPods=3, Kinds='{"g1","f50","m2","g2"}', MaxSteps=5)
    else:
        consts = dict(NNodes=2, GpuChoices="{1,2}", NPods=3, Kinds='{"g1","f50","m2"}', MaxSteps=3)
    d = vlib.prepare_spec_dir(ctx, "cm-mc")
    mod, cfg = vlib.write_model(d, "ClusterModel", "CM_mc", consts, spec="Spec",
                                invariants=["TypeOK"] + vlib.spec_defs("ClusterModel", "C01_") + vlib.spec_defs("ClusterModel", "C02_"))
    r = vlib.tlc(ctx, d, mod, cfg, workers=min(vlib.NCPU, 8), timeout=2400, heap="10g")
    if not r.ok:
        vlib.log("ClusterModel counterexample (design-level prediction, not a verdict): %s\n%s" % (r.violated, vlib.tail_errors(r.out)[:2000]))
        ctx.stage("clustermodel-counterexample", invariant=r.violated)
    else:
        ctx.add_tlc(r)
        ctx.stage("clustermodel-check", distinct=r.distinct, generated=r.generated, depth=r.depth, wall=round(r.wall, 1), constants=consts)
    d = vlib.prepare_spec_dir(ctx, "cm-gen")
    mod, cfg = vlib.write_model(d, "ClusterModel", "CM_gen", consts, init="Init", next_="GenNext", constraints=["Emit"])
    r = vlib.tlc(ctx, d, mod, cfg, workers=1, timeout=1200, heap="6g")
    models = [json.loads(json.loads(line)) for line in r.out.splitlines() if line.startswith('"{')]
    if not models:
        raise vlib.Infra("ClusterModel exported no initial states")
    # every initial cluster with a pending pod is interesting; sample deterministically by seed when there are many
    models = [m for m in models if any(p["st"] == "pending" for p in m["pods"])]
    cap = 4000 if thorough else 500
    if len(models) > cap:
        step = len(models) / float(cap)
        off = ctx.seed % max(1, int(step))
        models = [models[min(len(models) - 1, int(k * step) + off)] for k in range(cap)]
    scen = os.path.join(ctx.scratch, "cm-scen.ndjson")
    parts = 16
    files = []
    for part in range(parts):
        fn = "%s.%d" % (scen, part)
        files.append(fn)
        with open(fn, "w") as f:
            for i, m in enumerate(models):
                if i % parts == part:
                    f.write(json.dumps(to_scenario(i, m, "closed" if i % 4 else "stall", ctx.seed)) + "\n")
    import concurrent.futures

    def one(fn):
        out = fn + ".trace"
        try:
            vlib.run_harness(binary, ["-in", fn, "-out", out], timeout=3000)
        except vlib.Infra as e:
            vlib.log("harness part %s failed (%s); retrying once" % (os.path.basename(fn), str(e)[:160].replace("\n", " ")))
            vlib.run_harness(binary, ["-in", fn, "-out", out, "-watchdog", "600"], timeout=6000)
        return out
    with concurrent.futures.ThreadPoolExecutor(max_workers=parts) as ex:
        traces = list(ex.map(one, files))
    trace = st_cluster.merge(ctx, traces, "cm-trace.ndjson")
    stats = st_cluster.account(ctx, trace)
    ctx.stage("clustermodel-real-runs", exported_initial_states=len(models), **stats)
    vlib.validate_traces_parallel(ctx, st_cluster.MODULE, trace, st_cluster.invariants(prefixes), tuple(prefixes), chunks=8, timeout=3000, heap="10g", sig_detail=st_cluster.sig_detail)
