"""C15 - no eviction livelock in a closed system."""
import st_cluster
import st_reclaimrules
import st_reclaimsizes

LEVEL = "model_checking"
PREFIXES = ["C15_"]


def nontrivial(sc, body):
    return any(x["ev"] == "Evict" for x in body)


def run(ctx):
    ctx.cov["rule"] = ("closed clusters (fixed nodes/queues/jobs; binds complete, evicted pods recreated pending) run for 8 cycles on the real "
                       "scheduler with consolidation / consolidating-reclaim / saturation multiplier varied (profile closed: gangs, elastic jobs, sharers; profile flat: "
                       "single-pod whole-GPU jobs of 1-3 GPUs in 2-3 queues with small quotas, weights and two priorities, sometimes a third queue level; profile chains: "
                       "2-3 separate queue chains of depth 2-3 whose leaves diverge at the top of the tree, big jobs at the head of a queue; profile satc: quota trees in which the "
                       "saturation comparison one level up decides, multipliers 1.2-3; profile frag: fragmented nodes, elastic jobs above their minimum, consolidation on); lasso detection on the canonical "
                       "cluster state by TLC; non-trivial = at least one eviction happened")
    ctx.assumptions += ["rule level: ReclaimRules.tla is model-checked for 2 departments x 2 leaf queues, 3 GPUs, <= 2 jobs per leaf, "
                        "every fair-share vector the C09 contract allows (liveness on the complete state graph); its full initial "
                        "clusters are the systematic scenario source for the real scheduler",
                        "cycle level: ReclaimSizes.tla (allocate / reclaim / preempt in the real queue order, jobs of 1-3 GPUs, nominations forgotten at the "
                        "end of the cycle) exhibits the known eviction cycle for the code as it is and is quiet when nominations are honoured (2 queues, "
                        "4 jobs, every fair-share vector the contract allows); its initial clusters in which nothing pending fits are the second "
                        "systematic scenario source"]
    st_reclaimrules.run_stage(ctx, PREFIXES, thorough=not ctx.quick)
    st_reclaimsizes.run_stage(ctx, PREFIXES, thorough=not ctx.quick)
    n = 320 if ctx.quick else 5000
    st_cluster.run_stage(ctx, PREFIXES, [("closed", n), ("flat", 1200 if ctx.quick else 20000), ("chains", 600 if ctx.quick else 10000),
                                         ("satc", 600 if ctx.quick else 10000), ("frag", 400 if ctx.quick else 6000)], nontrivial_fn=nontrivial)
    st_cluster.run_directed(ctx, PREFIXES, "C15")


def replay(ctx, obj):
    st_cluster.replay_stage(ctx, obj, PREFIXES)
