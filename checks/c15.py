"""C15 - no eviction livelock in a closed system."""
import st_cluster

LEVEL = "model_checking"
PREFIXES = ["C15_"]


def nontrivial(sc, body):
    return any(x["ev"] == "Evict" for x in body)


def run(ctx):
    ctx.cov["rule"] = ("closed clusters (fixed nodes/queues/jobs; binds complete, evicted pods recreated pending) run for 8 cycles on the real "
                       "scheduler with consolidation / consolidating-reclaim / saturation multiplier varied; lasso detection on the canonical "
                       "cluster state by TLC; non-trivial = at least one eviction happened")
    n = 160 if ctx.quick else 4000
    st_cluster.run_stage(ctx, PREFIXES, [("closed", n)], nontrivial_fn=nontrivial)
