"""C09 - fair-share division obeys its documented contract.

 1. TLC model-checks the integer transcription of the division algorithm (spec/FairShare.tla)
    against the contract predicates on an exhaustive input grid (design check + liveness).
 2. TLC exports every grid input; the real resource_division.SetResourcesShare is run on each
    (several runs with permuted map insertion order) plus seeded random inputs (larger, fractional,
    hierarchical: children divide the parent's real fair share).
 3. TLC validates the recorded Divide events against the same contract predicates
    (spec/FairShareTrace.tla): verdicts come only from these real results.
"""
import json
import os

import vlib
import st_cluster

LEVEL = "model_checking"
MODULE = "FairShare"
TRACE = "FairShareTrace"

GRID_QUICK = dict(NQ=2, TotalSet="{0,1000,2000,3500}", KnSet="{0,1}", KD=1, DesSet="{0,1000,-1}", LimSet="{-1,2000}",
                  WSet="{0,1,2}", PrioSet="{0,1}", ReqSet="{0,500,3000}", UseSet="{0,500}")
# (TLC builds the set of inputs explicitly: at most 10^6 elements - 288^2 queue pairs x 6 totals x 2 k values = 995 328)
GRID_THOROUGH_2 = dict(NQ=2, TotalSet="{0,1000,2000,3000,4500,6000}", KnSet="{0,3}", KD=2, DesSet="{0,1000,2000,-1}",
                       LimSet="{-1,1000,3000}", WSet="{0,1,2}", PrioSet="{0,1}", ReqSet="{0,500,3000,4000}", UseSet="{0}")
GRID_THOROUGH_3 = dict(NQ=3, TotalSet="{1000,2500,4000}", KnSet="{0,1}", KD=1, DesSet="{0,1000,-1}", LimSet="{-1,2000}",
                       WSet="{1,2}", PrioSet="{0,1}", ReqSet="{1500,3000}", UseSet="{0}")      # 48^3 x 6 = 663 552 inputs

DUMMY = dict(NQ=1, TotalSet="{}", KnSet="{}", KD=1, DesSet="{}", LimSet="{}", WSet="{}", PrioSet="{}", ReqSet="{}", UseSet="{}")


def model_invariants():
    return [x for x in vlib.spec_defs(MODULE, "C09_") if x != "C09_Terminates"]


def trace_invariants():
    return model_invariants() + vlib.spec_defs(TRACE, "C09_") + vlib.spec_defs(TRACE, "D_")


def run_grid(ctx, binary, name, grid, model_check=True):
    # 1. design check
    if model_check:
        d = vlib.prepare_spec_dir(ctx, "mc-" + name)
        consts = dict(grid, Scale=1000, Slack=0)
        mod, cfg = vlib.write_model(d, MODULE, "FS_mc", consts, spec="Spec",
                                    invariants=["TypeOK"] + model_invariants(), properties=["C09_Terminates"])
        r = vlib.tlc(ctx, d, mod, cfg, workers=min(vlib.NCPU, 12), timeout=3000, heap="12g")
        if not r.ok:
            # a counterexample in the model is a prediction, not a verdict: the real code decides below.
            vlib.log("model-level counterexample for %s (prediction only):\n%s" % (r.violated, vlib.tail_errors(r.out)[:3000]))
            ctx.stage("model-counterexample-" + name, invariant=r.violated)
        else:
            ctx.add_tlc(r)
            ctx.stage("model-check-" + name, distinct=r.distinct, generated=r.generated, depth=r.depth, wall=round(r.wall, 1))
    # 2. export the grid
    d = vlib.prepare_spec_dir(ctx, "gen-" + name)
    mod, cfg = vlib.write_model(d, TRACE, "FS_gen", dict(grid, Scale=1000, Slack=0), init="GenInit", next_="GenNext", constraints=["Emit"])
    r = vlib.tlc(ctx, d, mod, cfg, workers=1, timeout=3000, heap="8g")
    scen = os.path.join(ctx.scratch, "scen-%s.ndjson" % name)
    n = 0
    with open(scen, "w") as f:
        for line in r.out.splitlines():
            if line.startswith('"{'):
                f.write(json.loads(line) + "\n")
                n += 1
    if n == 0:
        raise vlib.Infra("TLC exported no scenarios")
    # 3. real code
    trace = os.path.join(ctx.scratch, "trace-%s.ndjson" % name)
    p = vlib.run_harness(binary, ["-in", scen, "-out", trace, "-seed", str(ctx.seed), "-runs", "3"])
    ctx.stage("real-run-" + name, scenarios=n, out=p.stdout.strip())
    return trace


def account(ctx, trace):
    evs = vlib.read_ndjson(trace)
    for i in range(0, len(evs), 2):
        sc, dv = evs[i], evs[i + 1]
        nontrivial = sc["total"] > 0 and any(q["req"] > 0 for q in sc["queues"]) and any(x > 0 for x in dv["fs"])
        ctx.count_case([sc["total"], sc["kn"], sc["kd"], sc["queues"]], nontrivial)
        if nontrivial and i % 997 == 0:
            ctx.sample({"scenario": {k: sc[k] for k in ("total", "kn", "kd", "queues")}, "fair_share_from_real_code": dv["fs"]})


def run(ctx):
    binary = vlib.go_build("fairshare")
    consts = dict(DUMMY, Scale=1000, Slack=2)
    ctx.cov["rule"] = ("inputs = every element of FairShare!Inputs for the grid constants (exported by TLC) + seeded random "
                       "inputs (<= 8 siblings, totals <= 8000 units, fractional amounts, k in [0,10], 2-level trees); each is run "
                       "3-4 times on the real SetResourcesShare with permuted map insertion order; non-trivial = total > 0, "
                       "some request > 0 and some fair share > 0; distinct by (total,k,queues)")
    ctx.assumptions += [
        "fair shares are judged in 1/1000 units with a tolerance of 2/1000 per queue (float rounding)",
        "the 2-level recursion of proportion.setFairShareForQueues is re-implemented in the harness (total := parent's real fair share); the session-level recursion of the real plugin is validated on cluster traces: profiles mixed / full and profile quota (departments with zero quota and weight in some or all resources, children over-subscribing the parent, limits below quotas) - gpu with the full contract, cpu and memory with its bounds (lower, upper, conservation)",
        "TLC, CommunityModules Json, the harness conversion float<->milli-units are trusted",
    ]
    traces = []
    if ctx.quick:
        traces.append(run_grid(ctx, binary, "q2", GRID_QUICK))
        nrandom = 20000
    else:
        traces.append(run_grid(ctx, binary, "t2", GRID_THOROUGH_2))
        traces.append(run_grid(ctx, binary, "t3", GRID_THOROUGH_3))
        nrandom = 400000
    rnd = os.path.join(ctx.scratch, "trace-rnd.ndjson")
    p = vlib.run_harness(binary, ["-random", str(nrandom), "-out", rnd, "-seed", str(ctx.seed), "-runs", "4"])
    ctx.stage("real-run-random", out=p.stdout.strip())
    traces.append(rnd)
    for t in traces:
        account(ctx, t)
        vlib.validate_traces(ctx, TRACE, t, trace_invariants(), "C09_", constants=consts, overrides={"ModelWf": "TraceWf"}, timeout=3000, heap="12g")
    ctx.cov["exhaustive"] = False
    # the hierarchical recursion of the real proportion plugin: every QueueInfo of real sessions is judged
    # level by level with the same contract (Cluster!C09_SessionContract)
    n = 200 if ctx.quick else 4000
    st_cluster.run_stage(ctx, ["C09_"], [("mixed", n // 2), ("full", n // 2), ("quota", n * 2)])


def replay(ctx, obj):
    """re-run one recorded scenario on the current tree and re-validate it."""
    binary = vlib.go_build("fairshare")
    sc = obj["replay"]["trace"][0]
    scen = os.path.join(ctx.scratch, "scen.ndjson")
    with open(scen, "w") as f:
        f.write(json.dumps({k: sc[k] for k in ("id", "total", "kn", "kd", "queues")}) + "\n")
    trace = os.path.join(ctx.scratch, "trace.ndjson")
    vlib.run_harness(binary, ["-in", scen, "-out", trace, "-seed", str(ctx.seed), "-runs", "50"])
    vlib.validate_traces(ctx, TRACE, trace, trace_invariants(), "C09_", constants=dict(DUMMY, Scale=1000, Slack=2), overrides={"ModelWf": "TraceWf"})
