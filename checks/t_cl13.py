import st_cluster
LEVEL = "model_checking"
def run(ctx):
    n = 300
    st_cluster.run_stage(ctx, ["C13_"], [("full", n // 2), ("closed", n // 4), ("mixed", n // 4)])
