"""C19 - admission, scheduler and binder agree on GPU requests.

 1. TLC model-checks spec/GpuRequest.tla: the pipeline Mutate / Validate / Mutate2 / Schedule / Bind over
    the full product of lexical annotation classes, driven by class tables that transcribe how strconv
    and the three components read each class - once for the code as written (counterexamples are
    predictions: NaN, [2^63,2^64), sub-centi fractions) and once for the repaired validator (must hold).
 2. TLC exports the class product; harness/cmd/gpureq concretises every combination to strings, computes
    the DENOTED quantities with its own grammar, and records what the real admission webhook
    (mutate, validate, mutate again), the real PodInfo construction and - for admitted pods - a real
    scheduling cycle plus the real binder gpusharing plugin do with the pod.
 3. TLC evaluates the C19_ predicates on every recorded observation (spec/GpuRequestTrace.tla);
    D_ monitors hold the model's class tables against the real verdicts.
"""
import json
import os
import re

import vlib

LEVEL = "model_checking"
MODULE = "GpuRequest"
TRACE = "GpuRequestTrace"

FRAC = ["absent", "empty", "dec", "dec3", "subcenti", "one", "gt1", "zero", "neg", "exp", "hex", "plus", "ws", "nan", "inf", "ovf", "udf", "u64", "nonnum", "cent"]
MEM = ["absent", "empty", "pos", "lead0", "zero", "neg", "exp", "hex", "plus", "ws", "nan", "ovf", "u64", "max64", "nonnum", "dec"]
DEV = ["absent", "empty", "one", "two", "three", "zero", "neg", "exp", "hex", "plus", "ws", "nan", "ovf", "u64", "max64", "big32", "huge", "nonnum", "dec"]
CTR = ["none", "one", "two", "init"]
FCN = ["absent", "main", "init", "unknown"]


def tla_set(xs):
    return "{" + ", ".join(('"%s"' % x) if isinstance(x, str) else str(x) for x in xs) + "}"


def tla_bool(b):
    return "TRUE" if b else "FALSE"


def consts(max_noncore, fix=(False, False, False), frac=FRAC, mem=MEM, dev=DEV):
    return dict(FracSet=tla_set(frac), MemSet=tla_set(mem), DevSet=tla_set(dev), CtrSet=tla_set(CTR), FcnSet=tla_set(FCN),
                SharingSet="{0, 1}", MaxNonCore=str(max_noncore), FixNaN=tla_bool(fix[0]), FixUint=tla_bool(fix[1]),
                FixSubCenti=tla_bool(fix[2]))


def model_invariants():
    return [x for x in vlib.spec_defs(MODULE, "C19_") if x != "C19_Terminates"]


def trace_invariants():
    return model_invariants() + vlib.spec_defs(TRACE, "D_")


def tlc_all_violations(ctx, d, mod, cfg, **kw):
    """run TLC with -continue and return every violated invariant with the first state of its behaviour.
    (vlib.tlc stops at / reports only the first violation.)"""
    r = vlib.tlc(ctx, d, mod, cfg, continue_=True, **kw)
    out = []
    chunks = re.split(r"^Error: Invariant (\w+) is violated\.?$", r.out, flags=re.M)
    for i in range(1, len(chunks), 2):
        out.append((chunks[i], chunks[i + 1]))
    return r, out


def design_check(ctx, name, max_noncore, fix, expect_clean):
    d = vlib.prepare_spec_dir(ctx, "mc-" + name)
    mod, cfg = vlib.write_model(d, MODULE, "GR_mc", consts(max_noncore, fix), spec="Spec",
                                invariants=["TypeOK"] + model_invariants(), properties=["C19_Terminates"])
    r, viols = tlc_all_violations(ctx, d, mod, cfg, workers=min(vlib.NCPU, 8), timeout=1500, heap="6g")
    if r.kind == "error" or (not viols and not r.ok):
        raise vlib.Infra("TLC failed on GpuRequest (%s):\n%s" % (name, vlib.tail_errors(r.out)))
    ctx.add_tlc(r)
    preds = {}
    for inv, body in viols:
        m = re.search(r"pod = (\[[^\]]*\])", body)
        if m:
            pod = " ".join(m.group(1).split())
            fr = re.search(r'frac \|-> "(\w+)"', pod).group(1)
            me = re.search(r'mem \|-> "(\w+)"', pod).group(1)
            de = re.search(r'dev \|-> "(\w+)"', pod).group(1)
            preds.setdefault(inv, set()).add("frac=%s mem=%s dev=%s" % (fr, me, de))
    summary = {k: sorted(v)[:12] for k, v in preds.items()}
    ctx.stage("model-" + name, distinct=r.distinct, generated=r.generated, wall=round(r.wall, 1),
              violated_in_model=summary if summary else "none")
    if expect_clean and viols:
        raise vlib.Infra("GpuRequest: the repaired design still violates %s in the model" % sorted(preds))
    if not expect_clean and viols:
        vlib.log("model-level counterexamples (predictions, executed on the real code below): %s" % json.dumps(summary))
    return preds


def export(ctx, max_noncore):
    d = vlib.prepare_spec_dir(ctx, "gen")
    mod, cfg = vlib.write_model(d, TRACE, "GR_gen", consts(max_noncore), init="GenInit", next_="GenNext", constraints=["Emit"])
    r = vlib.tlc(ctx, d, mod, cfg, workers=1, timeout=1500, heap="6g")
    out = []
    for line in r.out.splitlines():
        if line.startswith('"{'):
            out.append(json.loads(json.loads(line)))
    if not out:
        raise vlib.Infra("TLC exported no scenarios:\n" + r.out[-2000:])
    ctx.stage("export", class_combinations=len(out), wall=round(r.wall, 1))
    return out


def select_variant(evs):
    """which validator is installed? three probe observations of the trace itself."""
    probes = {"gpu-fraction=nan": None, "gpu-memory=u64": None, "gpu-fraction=subcenti": None}
    want = {"gpu-fraction=nan": ("nan", "absent"), "gpu-memory=u64": ("absent", "u64"), "gpu-fraction=subcenti": ("subcenti", "absent")}
    cur = None
    for e in evs:
        if e["ev"] == "Scenario":
            cur = e
        elif e["ev"] == "Observe" and cur["cls"] == "class" and cur["sig"] in probes and probes[cur["sig"]] is None:
            if (cur["frac"], cur["mem"]) == want[cur["sig"]] and cur["dev"] == "absent" and cur["ctr"] == "none" \
                    and cur["fcn"] == "absent" and cur["sharing"] == 1:
                probes[cur["sig"]] = e["a_admitted"]
    if any(v is None for v in probes.values()):
        raise vlib.Infra("probe observations missing: %s" % probes)
    return (probes["gpu-fraction=nan"] == 0, probes["gpu-memory=u64"] == 0, probes["gpu-fraction=subcenti"] == 0)


def validate(ctx, trace, max_reports_per_sig=1):
    """one TLC run with -continue over the whole trace; every (invariant, input signature) is reported once."""
    evs = vlib.read_ndjson(trace)
    spans = vlib.scenario_index(evs)
    fix = select_variant(evs)
    ctx.stage("model-variant-selected-from-probes", FixNaN=fix[0], FixUint=fix[1], FixSubCenti=fix[2])
    d = vlib.prepare_spec_dir(ctx, "tv")
    with open(os.path.join(d, "trace.ndjson"), "w") as f:
        for e in evs:
            f.write(json.dumps(e) + "\n")
    mod, cfg = vlib.write_model(d, TRACE, "GR_tv", consts(0, fix), spec="TraceSpec", invariants=trace_invariants())
    r, viols = tlc_all_violations(ctx, d, mod, cfg, workers=min(vlib.NCPU, 8), timeout=3000, heap="8g")
    if r.kind == "error" or (not viols and not r.ok):
        raise vlib.Infra("TLC failed on the trace:\n" + vlib.tail_errors(r.out))
    ctx.add_tlc(r)
    start_of = {a: (a, b) for (a, b) in spans}
    seen = {}
    drift = []
    for inv, body in viols:
        m = re.search(r"^/\\ l0 = (\d+)", body, re.M)
        if not m or int(m.group(1)) not in start_of:
            raise vlib.Infra("cannot locate the scenario of a counterexample:\n" + body[:1500])
        a, b = start_of[int(m.group(1))]
        sc = evs[a - 1:b]
        if inv.startswith("D_"):
            drift.append((inv, sc))
            continue
        key = (inv, sc[0]["sig"])
        seen[key] = seen.get(key, 0) + 1
        if seen[key] > max_reports_per_sig:
            continue
        o = sc[1]
        text = ("TLC: invariant %s violated by pod %s  gpu-fraction=%r gpu-memory=%r num-devices=%r ctr=%s fcn=%s sharing=%s\n"
                "admitted=%s denoted: frac=%s mem=%s dev=%s gpus=%s | scheduler: type=%s portion=%s mem=%s count=%s GPUs()=%s requiresGPU=%s | "
                "binder: reached=%s type=%s count=%s groups=%s GPU_PORTION=%s prebind_ok=%s err=%r" % (
                    inv, sc[0]["id"], sc[0]["s_frac"], sc[0]["s_mem"], sc[0]["s_dev"], sc[0]["ctr"], sc[0]["fcn"], sc[0]["sharing"],
                    o["a_admitted"], o["d_frac"]["x"], o["d_mem"]["x"], o["d_dev"]["x"], o["d_gpu"]["x"],
                    o["s_type"], o["s_portion"]["x"], o["s_mem"]["x"], o["s_count"]["x"], o["s_gpus"]["x"], o["s_requires"],
                    o["b_reached"], o["b_type"], o["b_count"], o["b_groups"], o["b_portion"]["x"], o["b_prebind_ok"], o["b_err"]))
        ctx.violation("%s %s" % (inv, sc[0]["sig"]), text, {"module": TRACE, "invariant": inv, "trace": sc})
    if seen:
        ctx.stage("violating-observations", **{"%s %s" % k: v for k, v in sorted(seen.items())})
    if drift and not ctx.violations and not ctx.known:
        inv, sc = drift[0]
        raise vlib.Infra("specification drift: %s fails on %d scenario(s), first: %s\n%s" % (
            inv, len(drift), json.dumps(sc[0]), json.dumps(sc[1])[:1500]))
    if drift:
        ctx.stage("drift-monitor-failures", count=len(drift), first="%s %s" % (drift[0][0], drift[0][1][0]["sig"]))
    ctx.add("traces_validated_against_impl", len(spans))
    ctx.add("trace_events_validated", len(evs) - len(spans))
    return drift


def account(ctx, trace):
    evs = vlib.read_ndjson(trace)
    n = 0
    for i in range(0, len(evs), 2):
        sc, o = evs[i], evs[i + 1]
        ctx.count_case([sc["s_frac"], sc["s_mem"], sc["s_dev"], sc["ctr"], sc["fcn"], sc["sharing"]],
                       o["d_frac"]["p"] + o["d_mem"]["p"] + o["d_dev"]["p"] + o["d_gpu"]["sgn"] > 0)
        if o["a_admitted"] and o["b_reached"] and o["d_frac"]["p"] and n % 97 == 0:
            ctx.sample({"pod": {"gpu-fraction": sc["s_frac"], "num-devices": sc["s_dev"], "fcn": sc["fcn"]},
                        "denoted_microGPU": o["d_frac"]["n"], "scheduler_portion": o["s_portion"]["x"], "scheduler_count": o["s_count"]["x"],
                        "binder_GPU_PORTION": o["b_portion"]["x"], "binder_count": o["b_count"]})
        n += 1


def run(ctx):
    binary = vlib.go_build("gpureq")
    ctx.cov["rule"] = ("pod = class combination of (gpu-fraction x gpu-memory x num-devices) with at most K annotations outside "
                       "{absent, plain valid} (quick K=1, thorough K=2) x whole-GPU container (none,1,2,init) x fraction-container-name "
                       "(absent,main,init,unknown) x sharing enabled, plus EVERY two-decimal gpu-fraction 0.01..0.99 x num-devices (absent,1,2,3); each concretised to 2 (quick) / 3 (thorough) strings, thorough adds "
                       "seeded random string mutations around class boundaries; non-trivial = the pod carries some GPU request; "
                       "distinct by (strings, ctr, fcn, sharing)")
    ctx.assumptions += [
        "the denoted quantity of a string is computed by the harness's own recogniser (decimal / exponent / hex-float literal with optional sign -> exact rational; anything else denotes nothing); strconv is not used for it",
        "class representatives, not all strings: the for-all-strings quantifier is sampled (plus seeded mutations in the thorough tier)",
        "materialised GPU_PORTION has two decimals by design; it is compared with the denoted portion within half a centi-GPU and must be positive; the scheduler's accounted GPUs()/GetGpusQuota() must be, per device and in total, the denoted fraction rounded to 1/100 GPU (half up on the exact decimal value; a value exactly on a half may go either way); the raw portion, memory and device count must be exactly the denoted ones",
        "binder stage: the admitted pods go through real scheduling cycles on a cluster with one 8-GPU / 10000 MiB node per pod; the BindRequest created by the real scheduler is given to the real binder gpusharing plugin on a controller-runtime fake client; reservation pods / the binding sub-resource are C11/C17's subject",
        "the validator variant (as written / repaired) described by the model's class tables is selected from three probe observations of the same trace; the D_ monitors then check the selected tables on every class combination",
    ]
    k = 1 if ctx.quick else 2
    # 1. design: as written (predictions) and repaired (must hold)
    design_check(ctx, "as-written", k, (False, False, False), expect_clean=False)
    design_check(ctx, "repaired", k, (True, True, True), expect_clean=True)
    # 2. scenarios -> real code
    scens = export(ctx, k)
    scen = os.path.join(ctx.scratch, "scen.ndjson")
    with open(scen, "w") as f:
        for s in scens:
            f.write(json.dumps(s) + "\n")
    trace = os.path.join(ctx.scratch, "trace.ndjson")
    args = ["-in", scen, "-out", trace, "-seed", str(ctx.seed), "-variants", "2" if ctx.quick else "3"]
    if not ctx.quick:
        args += ["-mutate", "20000"]
    p = vlib.run_harness(binary, args, timeout=3000)
    ctx.stage("real-run", out=p.stdout.strip())
    account(ctx, trace)
    # 3. TLC judges
    validate(ctx, trace)
    ctx.cov["exhaustive"] = True


def replay(ctx, obj):
    binary = vlib.go_build("gpureq")
    sc = obj["replay"]["trace"][0]
    if sc.get("cls") != "class":
        raise vlib.Infra("replay of mutated strings: re-run the thorough tier with seed %s" % obj.get("seed"))
    scen = os.path.join(ctx.scratch, "scen.ndjson")
    probes = [dict(frac="nan", mem="absent", dev="absent", ctr="none", fcn="absent", sharing=1, sig="gpu-fraction=nan"),
              dict(frac="absent", mem="u64", dev="absent", ctr="none", fcn="absent", sharing=1, sig="gpu-memory=u64"),
              dict(frac="subcenti", mem="absent", dev="absent", ctr="none", fcn="absent", sharing=1, sig="gpu-fraction=subcenti")]
    with open(scen, "w") as f:
        for s in probes + [{k: sc.get(k, 0) for k in ("frac", "mem", "dev", "ctr", "fcn", "sharing", "cv", "sig")}]:
            f.write(json.dumps(dict(s, cv=s.get("cv", 0))) + "\n")
    trace = os.path.join(ctx.scratch, "trace.ndjson")
    vlib.run_harness(binary, ["-in", scen, "-out", trace, "-variants", "3"])
    validate(ctx, trace)
