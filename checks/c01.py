"""C01 - node resources are never oversubscribed by scheduling decisions."""
import st_cluster
import st_fixtures
import st_clustermodel

LEVEL = "model_checking"
PREFIXES = ["C01_"]


def run(ctx):
    ctx.cov["rule"] = ("seeded random clusters (1-4 nodes, 0-4 GPUs, 2-7 jobs, <= ~16 pods; whole/fractional/gpu-memory/multi-fraction "
                       "requests; pending/running/terminating pods; 1-3 cycles with binder/kubelet environment or stalled binder; "
                       "injected BindRequest-creation and eviction failures) run on the real scheduler; non-trivial = the real "
                       "scheduler issued at least one Bind/Evict/Pipeline; distinct by scenario content")
    ctx.assumptions += ["API store = client-go / KAI fake clientsets; one fresh SchedulerCache per cycle on a quiescent store",
                        "the environment (binder, kubelet) between cycles is played by the harness with the binder's labelling conventions",
                        "TLC evaluates C01_* after every decision of every recorded real cycle and at every cycle start"]
    st_clustermodel.run_stage(ctx, PREFIXES, thorough=not ctx.quick)
    n = 600 if ctx.quick else 8000
    plan = [("mixed", n // 3), ("slots", n // 8), ("fraction", n // 8), ("full", n // 8), ("bindfail", n // 6), ("overhead", n // 6), ("ext", n // 5)]
    st_cluster.run_stage(ctx, PREFIXES, plan)
    if not ctx.quick:
        st_fixtures.run_stage(ctx, PREFIXES)


def replay(ctx, obj):
    st_cluster.replay_stage(ctx, obj, PREFIXES)
