"""Stage `CycleAcct`: the node accounting of REAL scheduling cycles, judged at every simulation step
(node part of C14 "as issued by snapshot construction, by every action and by every simulation step inside
the solvers"; the node part of C02 can be judged on the same observations).

run_stage(ctx, prefixes, plan) with prefixes out of ["C14_", "C02_"], plan = [(generator profile, n), ...]:

 1. harness/cmd/cluster -acct runs the REAL scheduler (real SchedulerCache snapshot, real session, real
    actions and solvers) on `n` generated cluster scenarios per profile. The statement hook
    (framework.VerifStatementHook: linearization point of every virtual operation, begin / end of
    Checkpoint / Rollback / Discard / Commit / Convert) and every action boundary trigger an observation of
    every node: (a) the projection of the session's real NodeInfo (Idle / Used / Releasing, vector twins, the
    GPU-sharing maps, PodInfos - the projection of harness/cmd/nodeacct) and (b) the accounting ENTRIES
    recomputed from the job side of the session (ssn.ClusterInfo.PodGroupInfos: status, NodeName, GPUGroups,
    request of every task), the reservation pods of the API store and the recorder's book of terminating
    incarnations left behind by re-nominations - never from the NodeInfo (harness/internal/world/acctobs.go).
    Consecutive identical observations of a node are dropped, at most 300 are kept per cycle and node.
 2. TLC validates the recorded observations with spec/NodeAcctCycleTrace.tla (EXTENDS NodeAcct): one trace
    scenario per (cluster scenario, node, cycle), every line an observation; the selected Cxx_ predicates of
    spec/NodeAcct.tla (declarative truth of the entries) are evaluated on the REAL values. A triage pass
    lists every failing (scenario, observation, predicate); per node and cycle the FIRST failing observation
    counts (later ones inherit the drift). For every distinct signature that is not a known finding the
    earliest scenario is confirmed with the predicates as ordinary TLC INVARIANTs (vlib.validate_traces)
    -> ctx.violation. D_* failures and unconsumed lines are specification drift (exit 2).

Signature of a violation = st_nodeacct.classify: "<first failing predicate> <class> <hook event>/Obs
dgpu=idle<d>,rel<d> dbase=<0|X>" with the classes of the NodeAcct stage (pipegpu: a nominated GPU pod is on
the node in this or the previous observation), so that the known findings of the NodeAcct stage are
recognised by the same regular expressions when the same root cause shows in a real cycle.
"""
import concurrent.futures
import json
import os
import sys

if __name__ == "__main__":      # development aid (see the end of the file): make lib/ importable
    sys.path.insert(0, os.path.join(os.path.dirname(os.path.dirname(os.path.abspath(__file__))), "lib"))

import vlib
import st_nodeacct

MODULE = "NodeAcct"
TRACE = "NodeAcctCycleTrace"
DUMMY = st_nodeacct.DUMMY
NOMEV = "C14_EndNodeAfterNominatedEviction"

# profiles whose pods fit the vocabulary of NodeAcct (no MIG / extended resources, no DRA)
QUICK_PLAN = [("mixed", 120), ("fraction", 100), ("sharers", 100), ("elastic", 60), ("full", 60), ("abandon", 60), ("frag", 60)]


def all_trace_predicates():
    seen, out = set(), []
    for mod in (MODULE, TRACE):
        for pre in ("C14_", "C02_", "D_"):
            for n in vlib.spec_defs(mod, pre):
                if n not in seen:
                    seen.add(n)
                    out.append(n)
    return out


# ------------------------------------------------------------------------------------------------
# 1. real cycles
# ------------------------------------------------------------------------------------------------
def run_profiles(ctx, binary, plan, procs=8, tag=""):
    """plan: list of (profile, n). Returns (list of acct trace paths, {scenario id: scenario}, merged harness counters)."""
    jobs, k = [], 0
    for profile, n in plan:
        per = max(1, n // max(1, min(procs, n // 10 or 1)))
        left = n
        while left > 0:
            m = min(per, left)
            k += 1
            base = os.path.join(ctx.scratch, "ca%s-%s-%d" % (tag, profile, k))
            jobs.append((profile, m, ctx.seed * 1000 + k, base))
            left -= m

    def one(j):
        profile, m, seed, base = j
        args = ["-random", str(m), "-profile", profile, "-seed", str(seed), "-out", base + ".dec.ndjson",
                "-acct", base + ".acct.ndjson", "-dump-scenarios", base + ".scen.ndjson"]
        try:
            p = vlib.run_harness(binary, args, timeout=3600)
        except vlib.Infra as e:
            vlib.log("harness chunk %s/%d failed (%s); retrying once" % (profile, seed, str(e)[:200].replace("\n", " ")))
            p = vlib.run_harness(binary, args + ["-watchdog", "600"], timeout=3600)
        os.remove(base + ".dec.ndjson")
        return base, json.loads(p.stdout.strip().splitlines()[-1])

    traces, scen, stats = [], {}, {}
    with concurrent.futures.ThreadPoolExecutor(max_workers=procs) as ex:
        for base, info in ex.map(one, jobs):
            traces.append(base + ".acct.ndjson")
            for sc in vlib.read_ndjson(base + ".scen.ndjson"):
                scen[sc["id"]] = sc
            os.remove(base + ".scen.ndjson")
            stats["scenarios"] = stats.get("scenarios", 0) + info["scenarios"]
            for key, v in info.get("acct", {}).items():
                stats[key] = stats.get(key, 0) + v
    return traces, scen, stats


# ------------------------------------------------------------------------------------------------
# 2. trace validation: triage pass, then confirmation per unknown signature
# ------------------------------------------------------------------------------------------------
def triage(ctx, trace_path, tag):
    d = vlib.prepare_spec_dir(ctx, "ca-triage-" + tag, extra_files={trace_path: "trace.ndjson"})
    mod, cfg = vlib.write_model(d, TRACE, "CA_tr", DUMMY, overrides={"CurE": "TraceE"}, spec="TraceSpec", invariants=["Triage"])
    r = vlib.tlc(ctx, d, mod, cfg, workers=2, timeout=3000, heap="6g")
    if not r.ok:
        raise vlib.Infra("NodeAcctCycleTrace triage failed: %s\n%s" % (r.violated, vlib.tail_errors(r.out)))
    ctx.add_tlc(r)
    verdicts = []
    for line in r.out.splitlines():
        if line.startswith('"VERDICT '):
            verdicts.append(json.loads(json.loads(line)[len("VERDICT "):]))
    import shutil
    shutil.rmtree(d, ignore_errors=True)
    return r, verdicts


def validate(ctx, trace_path, tag, prefixes, scen=None):
    """returns {signature: count of node-cycles whose first failure has it}"""
    events = vlib.read_ndjson(trace_path)
    spans = vlib.scenario_index(events)
    if not spans:
        raise vlib.Infra("acct trace %s has no Scenario line" % trace_path)
    span_of = {s: (s, e) for s, e in spans}
    r, verdicts = triage(ctx, trace_path, tag)
    # exactly one TLC state per line, else the trace was not consumed
    if r.distinct != len(events):
        raise vlib.Infra("acct trace %s: %d lines but %d states validated (unconsumed or malformed lines)" % (tag, len(events), r.distinct))
    names = all_trace_predicates()
    drift = {"D_Units", "D_NoError"}
    first = {}   # (scenario start line, property prefix) -> (verdict, first failing predicate of that prefix)
    tainted = set()
    for v in sorted(verdicts, key=lambda x: (x["l0"], x["l"])):
        hit = False
        for pre in prefixes:
            fp = [n for n in names if n in v["failing"] and n.startswith(pre)]
            if pre == "C14_" and NOMEV in v["failing"]:
                # an observation after the eviction of a merely nominated pod on this node (finding G37): TLC evaluated
                # NOMEV (the conjunction of the node predicates under that antecedent) FALSE; the failure is attributed to it
                fp = [NOMEV]
            if fp:
                hit = True
                first.setdefault((v["l0"], pre), (v, fp[0]))
        if hit:
            tainted.add(v["l0"])
        fail_drift = [n for n in v["failing"] if n in drift]
        if fail_drift and v["l0"] not in tainted:
            s, e = span_of[v["l0"]]
            raise vlib.Infra("specification drift %s at observation %d of %s (%s) with no property failing:\n%s" % (
                fail_drift, v["l"] - v["l0"], events[s - 1].get("id"), v["op"], json.dumps(events[v["l"] - 1], default=str)[:3000]))
    by_sig = {}
    for (l0, pre), (v, name) in first.items():
        by_sig.setdefault(st_nodeacct.classify(v, name), []).append((l0, v))
    ctx.add("traces_validated_against_impl", len(spans) - len(tainted))
    ctx.add("trace_events_validated", len(events) - len(spans))
    ctx.stage("cycleacct-triage-" + tag, node_cycles=len(spans), observations=len(events) - len(spans), wall=round(r.wall, 1),
              node_cycles_with_failure=len(tainted), signatures={k: len(x) for k, x in sorted(by_sig.items())})
    unknown = []
    for sig, lst in sorted(by_sig.items()):
        l0, v = min(lst, key=lambda x: (x[1]["l"] - x[0], x[0]))
        sc = dict(events[l0 - 1])
        sc["sig"] = sig.split(" ", 1)[1]
        cut = [sc] + events[l0:v["l"]]
        text = "TLC: %s violated at observation %d (hook event #%s %s of action %s) of %s: real %s, recomputed %s" % (
            sig.split(" ")[0], v["l"] - l0, v.get("k"), v["op"], v.get("act") or "-", sc["id"],
            json.dumps(v.get("real"), sort_keys=True), json.dumps(v.get("truth"), sort_keys=True))
        if st_nodeacct.is_known(ctx, sig):
            # TLC (triage pass) evaluated the predicate FALSE on this recorded state
            ctx.violation(sig, text, {"module": TRACE, "invariant": sig.split(" ")[0], "at_event": v["l"] - l0, "trace": cut,
                                      "scenario": (scen or {}).get(sc.get("scid"))})
        else:
            unknown.append((sig, cut, text))
    if unknown:
        for pre in prefixes:
            part = [(sig, cut, text) for sig, cut, text in unknown if sig.startswith(pre)][:12]
            if not part:
                continue
            conf = os.path.join(ctx.scratch, "ca-confirm-%s-%s.ndjson" % (tag, pre))
            with open(conf, "w") as f:
                for sig, cut, text in part:
                    for ev in cut:
                        f.write(json.dumps(ev) + "\n")
            invs = [n for n in names if n.startswith(pre)]
            before = len(ctx.violations)
            vlib.validate_traces(ctx, TRACE, conf, invs, pre, constants=DUMMY, overrides={"CurE": "TraceE"},
                                 timeout=3000, heap="4g", workers=1, max_reports=50, tag="-ca" + tag)
            new = ctx.violations[before:]
            if len(new) < len(part):
                raise vlib.Infra("triage reported %d failing node-cycles for %s but only %d were confirmed" % (len(part), pre, len(new)))
            # make the replay files self-contained: the cluster scenario + the two values
            texts = {cut[0]["id"]: text for sig, cut, text in part}
            for i, (sig, vtext, path) in enumerate(new):
                try:
                    obj = json.load(open(path))
                    sc0 = obj["replay"]["trace"][0]
                    obj["replay"]["scenario"] = (scen or {}).get(sc0.get("scid"))
                    obj["text"] = texts.get(sc0.get("id"), "") + "\n" + obj["text"]
                    json.dump(obj, open(path, "w"), indent=1, default=str)
                    ctx.violations[before + i] = (sig, obj["text"], path)
                except (OSError, ValueError, KeyError):
                    pass
    return {k: len(x) for k, x in by_sig.items()}


def split_trace(paths, out_prefix, max_lines):
    """concatenate the harness traces into parts of <= max_lines lines cut at Scenario boundaries."""
    parts, chunk, n = [], [], 0

    def flush():
        nonlocal chunk, n
        if chunk:
            path = "%s.part%d" % (out_prefix, len(parts))
            with open(path, "w") as g:
                g.writelines(chunk)
            parts.append(path)
            chunk, n = [], 0
    for p in paths:
        with open(p) as f:
            for line in f:
                if '"ev":"Scenario"' in line and n >= max_lines:
                    flush()
                chunk.append(line)
                n += 1
    flush()
    return parts


def account(ctx, path):
    for ev in vlib.read_ndjson(path):
        if ev["ev"] != "Obs":
            continue
        key = [ev["pods"], ev["idle"], ev["rel"], ev["used"], ev["um"], ev["am"], ev["rm"], ev["mk"]]
        nontrivial = ev["op"] not in ("open", "action-done")
        ctx.count_case(key, nontrivial)
        if nontrivial and ctx.cov["evaluations"] % 4999 == 0:
            ctx.sample({"hook_event": ev["op"], "action": ev["act"], "pod": ev["p"], "entries_recomputed_from_job_side": ev["pods"],
                        "real_idle": ev["idle"], "real_releasing": ev["rel"], "real_used": ev["used"], "real_used_mem": ev["um"]})


def run_stage(ctx, prefixes, plan=None, procs=8, tag="", parallel_tlc=4):
    prefixes = list(prefixes)
    assert prefixes and all(p in ("C14_", "C02_") for p in prefixes)
    plan = plan or QUICK_PLAN
    binary = vlib.go_build("cluster")
    rule = ("CycleAcct: real scheduling cycles on generated cluster scenarios %s; a case = one observation of one node after a "
            "Statement hook event / action (real NodeInfo projection + entries recomputed from the job side), non-trivial if it follows "
            "a statement operation; distinct by (entries, idle, releasing, used, per-group maps)" % (plan,))
    ctx.cov["rule"] = (ctx.cov["rule"] + " | " if ctx.cov["rule"] else "") + rule
    ctx.assumptions += [
        "CycleAcct: cluster scenarios whose pods fit the vocabulary of NodeAcct: cpu, whole GPUs, GPU fractions / GPU memory on 1..k "
        "devices, pod slots; no MIG instances, no other extended resources, no DRA claims (such scenarios are counted and skipped); "
        "cycles in which a workload pod is outside every job of the session (pod groups outside the node pool) are skipped; RAM is "
        "accounted like CPU and not judged here (cycle start / end: C14_Snapshot* / C14_End*)",
        "CycleAcct: ground truth = tasks of ssn.ClusterInfo.PodGroupInfos (status, NodeName, GPUGroups, request) + reservation pods of the "
        "API store + the terminating incarnation left behind when a virtually evicted pod is re-nominated onto another node / GPU group "
        "(noted from the statement hook, forgotten when the task is back at that place); an eviction of a merely nominated pod counts as "
        "Releasing (NodeAcct's reading; the physical reading is C14_EndNodeAfterNominatedEviction in Cluster.tla)",
        "CycleAcct: per node and cycle the first failing observation is judged (later observations inherit the drift); at most 300 "
        "observations per node and cycle, consecutive identical ones dropped",
    ]
    traces, scen, stats = run_profiles(ctx, binary, plan, procs=procs, tag=tag)
    ctx.stage("cycleacct-real-runs" + tag, plan=plan, **stats)
    if stats.get("observations", 0) == 0:
        raise vlib.Infra("cycleacct: the harness recorded no observation")
    parts = split_trace(traces, os.path.join(ctx.scratch, "ca-trace%s" % tag), 40000)
    for t in traces:
        os.remove(t)
    sigs = {}

    def one(ip):
        i, path = ip
        return validate(ctx, path, "%s%d" % (tag, i), prefixes, scen)
    for path in parts:
        account(ctx, path)       # single-threaded: count_case is not thread safe
    errs = []
    with concurrent.futures.ThreadPoolExecutor(max_workers=max(1, min(parallel_tlc, len(parts)))) as ex:
        futs = [ex.submit(one, ip) for ip in enumerate(parts)]
        for f in futs:
            try:
                for k, v in f.result().items():
                    sigs[k] = sigs.get(k, 0) + v
            except vlib.Infra as e:
                errs.append(e)
    for path in parts:
        try:
            os.remove(path)
        except OSError:
            pass
    if errs:
        raise errs[0]
    ctx.stage("cycleacct-summary" + tag, signatures=sigs, **stats)
    return stats, sigs


def replay_stage(ctx, obj, prefixes):
    """re-run the cluster scenario of a reported violation on the current tree (all its nodes and cycles are recorded and
    judged again; Go map order and fresh GPU-group UUIDs are part of the run, so a scenario may need several runs)."""
    binary = vlib.go_build("cluster")
    sc = obj["replay"].get("scenario")
    if not sc:
        raise vlib.Infra("replay file carries no cluster scenario")
    scen = os.path.join(ctx.scratch, "ca-scen.ndjson")
    with open(scen, "w") as f:
        f.write(json.dumps(sc) + "\n")
    for attempt in range(5):
        trace = os.path.join(ctx.scratch, "ca-replay-%d.ndjson" % attempt)
        vlib.run_harness(binary, ["-in", scen, "-out", os.path.join(ctx.scratch, "ca-replay-dec.ndjson"), "-acct", trace], timeout=600)
        if not vlib.read_ndjson(trace):
            raise vlib.Infra("replay recorded no observation (scenario outside the vocabulary of the stage)")
        before = len(ctx.violations) + len(ctx.known)
        validate(ctx, trace, "replay%d" % attempt, prefixes, {sc.get("id"): sc})
        if len(ctx.violations) + len(ctx.known) > before:
            return


if __name__ == "__main__":
    # development aid:  python3 checks/st_cycleacct.py <prefixes> <profile> <n>   (scratch context, no evidence written)
    pre, profile, n = sys.argv[1].split(","), sys.argv[2], int(sys.argv[3])
    c = vlib.Ctx("C14" if "C14_" in pre else "C02", "quick", int(os.environ.get("VERIF_SEED", "1") or "1"), "model_checking")
    rc = 2
    try:
        plan = [(x, n) for x in profile.split(",")]
        st, sg = run_stage(c, pre, plan)
        print(json.dumps({"stats": st, "signatures": sg}, indent=1))
        for k in c.known:
            print("DEV-KNOWN", k[0])
        for sig, text, path in c.violations:
            print("DEV-VIOLATION", sig, path)
            print("  " + text[:1500].replace("\n", "\n  "))
        rc = 1 if c.violations else 0
    except vlib.Infra as e:
        print("INFRA:", e)
    finally:
        import shutil
        shutil.rmtree(c.scratch, ignore_errors=True)
    sys.exit(rc)
