"""Cluster stage: run the REAL scheduler on scenarios, validate the recorded traces with TLC
against the Cxx_ predicates of spec/Cluster.tla selected by `prefixes`."""
import concurrent.futures
import json
import os

import vlib

MODULE = "ClusterTrace"


def invariants(prefixes):
    inv = []
    for pre in prefixes:
        inv += vlib.spec_defs("Cluster", pre)
    inv += vlib.spec_defs("ClusterTrace", "D_")
    return inv


def sig_detail(name, scen_events, at):
    """extra words for the signature of a violation found on a cluster trace (known findings are matched on it)"""
    if name == "C15_NoLasso":
        sc = scen_events[0]
        ev = [e for e in scen_events if e.get("ev") == "Evict" and e.get("ok") == 1]
        acts = sorted({e.get("mdact", "") or e.get("act", "") for e in ev})
        # moved: a victim is re-nominated by the statement that evicts it (the nomination is not persisted)
        moved = 0
        cyc = 0
        piped = set()
        evicted = set()
        for e in scen_events:
            if e.get("ev") == "CycleStart":
                cyc += 1
            if e.get("ev") == "Evict" and e.get("ok") == 1:
                evicted.add((cyc, e.get("stmt"), e["p"]))
            if e.get("ev") == "Pipeline":
                piped.add((cyc, e.get("stmt"), e["p"]))
        if evicted & piped:
            moved = 1
        # gang: a victim's or a claimant's job has several pods (gang, elastic, pod sets)
        size = {}
        for p in sc["pods"]:
            size[p["job"]] = size.get(p["job"], 0) + 1
        jobs = {sc["pods"][e["p"] - 1]["job"] for e in ev} | {e["pre"] for e in ev if e.get("pre")}
        gang = 1 if any(size.get(j, 0) > 1 for j in jobs) else 0
        # sizes: do the jobs involved in the evictions (victims and the jobs they were evicted for) all ask for the
        # same amount of GPU? (mixed: a bigger victim is evicted for a smaller claimant, the freed rest goes elsewhere)
        req = {}
        for p in sc["pods"]:
            req[p["job"]] = req.get(p["job"], 0) + (p["gpu"] * 100 if p["devs"] == 0 else p["devs"] * (p["frac"] or 1))
        sizes = "uniform" if len({req.get(j, 0) for j in jobs}) <= 1 else "mixed"
        return "evictions=%s moved=%d gang=%d sizes=%s" % ("+".join(acts), moved, gang, sizes)
    if name == "C02_NominationFits":
        # overnominated=<why>: in the violating cycle a statement moved a victim (evicted it and nominated it elsewhere) and a
        # LATER statement of the same cycle nominated another pod onto the node of that nomination without evicting the
        # moved pod again (finding G37: nominated pods are offered as victims; here the statement un-evicts the wrong eviction)
        cyc_events = []
        for k, e in enumerate(scen_events):
            if at is not None and k > at:
                break
            if e.get("ev") == "CycleStart":
                cyc_events = []
            cyc_events.append(e)
        moved = {}
        for e in cyc_events:
            if e.get("ev") == "Pipeline":
                if any(x.get("ev") == "Evict" and x.get("ok") == 1 and x.get("p") == e["p"] and x.get("stmt") == e.get("stmt") and x.get("act") == e.get("act")
                       for x in cyc_events):
                    moved[e["p"]] = (e.get("act"), e.get("stmt"), e["n"])
        why = "other"
        seen = []
        for e in cyc_events:
            seen.append(e)
            if e.get("ev") != "Pipeline":
                continue
            for p, (act, stmt, n) in moved.items():
                if p == e["p"] or e["n"] != n or (e.get("act"), e.get("stmt")) == (act, stmt):
                    continue
                first = next(i for i, x in enumerate(cyc_events) if x.get("ev") == "Pipeline" and x.get("p") == p and (x.get("act"), x.get("stmt")) == (act, stmt))
                if len(seen) - 1 > first and not any(x.get("ev") == "Evict" and x.get("p") == p for x in cyc_events[first + 1:]):
                    why = "moved-victim-not-evicted-again"
        return "overnominated=%s" % why
    return ""


def run_profiles(ctx, binary, plan, procs=16):
    """plan: list of (profile, n). Runs `procs` harness processes in parallel; returns trace paths."""
    jobs = []
    k = 0
    for profile, n in plan:
        per = max(1, n // max(1, min(procs, n // 10 or 1)))
        left = n
        while left > 0:
            m = min(per, left)
            k += 1
            out = os.path.join(ctx.scratch, "cl-%s-%d.ndjson" % (profile, k))
            jobs.append((profile, m, ctx.seed * 1000 + k, out))
            left -= m
    traces = []

    def one(j):
        profile, m, seed, out = j
        args = ["-random", str(m), "-profile", profile, "-seed", str(seed), "-out", out]
        try:
            p = vlib.run_harness(binary, args, timeout=3600)
        except vlib.Infra as e:
            # a scenario hit the per-scenario watchdog (machine overloaded): run the chunk once more with a longer one
            vlib.log("harness chunk %s/%d failed (%s); retrying once" % (profile, seed, str(e)[:200].replace("\n", " ")))
            p = vlib.run_harness(binary, args + ["-watchdog", "600"], timeout=3600)
        return out, json.loads(p.stdout.strip().splitlines()[-1])

    with concurrent.futures.ThreadPoolExecutor(max_workers=procs) as ex:
        for out, info in ex.map(one, jobs):
            traces.append(out)
    return traces


def merge(ctx, traces, name):
    path = os.path.join(ctx.scratch, name)
    with open(path, "w") as f:
        for t in traces:
            with open(t) as g:
                for line in g:
                    f.write(line)
    return path


def account(ctx, trace, nontrivial_fn=None):
    evs = vlib.read_ndjson(trace)
    spans = vlib.scenario_index(evs)
    stats = {"Bind": 0, "Evict": 0, "Pipeline": 0, "scenarios": len(spans), "cycles": 0}
    for (s, e) in spans:
        sc = evs[s - 1]
        body = evs[s:e]
        kinds = [x["ev"] for x in body]
        for k in ("Bind", "Evict", "Pipeline"):
            stats[k] += kinds.count(k)
        stats["cycles"] += kinds.count("CycleStart")
        nt = any(k in ("Bind", "Evict", "Pipeline") for k in kinds)
        if nontrivial_fn:
            nt = nontrivial_fn(sc, body)
        ctx.count_case({k: sc[k] for k in ("cfg", "nodes", "queues", "jobs", "pods")}, nt)
        if nt and len(ctx.cov["samples"]) < 3:
            ctx.sample({"scenario": {"id": sc["id"], "cfg": sc["cfg"], "nodes": len(sc["nodes"]), "queues": len(sc["queues"]),
                                     "jobs": len(sc["jobs"]), "pods": len(sc["pods"])},
                        "decisions_of_real_scheduler": [x for x in body if x["ev"] in ("Bind", "Evict", "Pipeline")][:12]})
    return stats


def run_stage(ctx, prefixes, plan, nontrivial_fn=None, procs=16, tag=""):
    binary = vlib.go_build("cluster")
    traces = run_profiles(ctx, binary, plan, procs=procs)
    trace = merge(ctx, traces, "cluster-trace%s.ndjson" % tag)
    stats = account(ctx, trace, nontrivial_fn)
    ctx.stage("cluster-real-runs" + tag, plan=plan, predicates=invariants(prefixes) if tag else None, **stats)
    vlib.validate_traces_parallel(ctx, MODULE, trace, invariants(prefixes), tuple(prefixes), chunks=8, timeout=3000, heap="12g", sig_detail=sig_detail)
    return stats


def run_directed(ctx, prefixes, prop):
    """hand-kept scenarios under /verif/scenarios/<prop>-*.ndjson (reproducers of known findings that the random
    profiles hit rarely, transcribed reports): run on the real scheduler and judged like every other scenario, so
    that a known finding is demonstrated - and its signature re-derived - on every run."""
    import glob
    files = sorted(glob.glob(os.path.join(vlib.VERIF, "scenarios", "%s-*.ndjson" % prop)))
    if not files:
        return
    binary = vlib.go_build("cluster")
    scen = os.path.join(ctx.scratch, "directed-%s.ndjson" % prop)
    with open(scen, "w") as f:
        for fn in files:
            f.write(open(fn).read())
    trace = os.path.join(ctx.scratch, "directed-%s-trace.ndjson" % prop)
    vlib.run_harness(binary, ["-in", scen, "-out", trace], timeout=1200)
    stats = account(ctx, trace)
    ctx.stage("directed-scenarios", files=[os.path.basename(x) for x in files], **stats)
    vlib.validate_traces(ctx, MODULE, trace, invariants(prefixes), tuple(prefixes), timeout=1200, heap="4g", sig_detail=sig_detail, tag="-dir")


def replay_stage(ctx, obj, prefixes):
    """`./verif replay <file>` for a violation reported by a ClusterTrace validation: the scenario of the
    recorded trace is run again on the REAL scheduler built from the current tree and the new trace is
    validated with the same predicates (exit 1 when a property predicate fails again). Rounds recorded
    from the repository's fixtures cannot be re-run one by one: their recorded trace is re-validated."""
    rep = obj["replay"]
    tr = rep["trace"]
    sc = dict(tr[0])
    sc.pop("ev", None)
    if str(sc.get("class", "")).startswith("fixture"):
        trace = os.path.join(ctx.scratch, "replay-trace.ndjson")
        with open(trace, "w") as f:
            for e in tr:
                f.write(json.dumps(e) + "\n")
    else:
        binary = vlib.go_build("cluster")
        scen = os.path.join(ctx.scratch, "replay-scen.ndjson")
        with open(scen, "w") as f:
            f.write(json.dumps(sc) + "\n")
        trace = os.path.join(ctx.scratch, "replay-trace.ndjson")
        vlib.run_harness(binary, ["-in", scen, "-out", trace], timeout=600)
    account(ctx, trace)
    vlib.validate_traces(ctx, MODULE, trace, invariants(prefixes), tuple(prefixes), timeout=600, heap="4g", sig_detail=sig_detail)
