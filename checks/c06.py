"""C06 - only eligible victims are evicted, and only to place a workload."""
import st_cluster
import st_fixtures

LEVEL = "model_checking"
PREFIXES = ["C06_"]
ABANDON = ["C06_VictimRoomTaken", "C06_Together", "C06_Preempt", "C06_Reclaim", "C06_Consolidation", "C06_MinRuntime"]


def nontrivial(sc, body):
    return any(x["ev"] == "Evict" for x in body)


def run(ctx):
    ctx.cov["rule"] = ("seeded random full clusters (over-quota / low-priority preemptible work running, pending work of other queues or "
                       "higher priority), preemptible and non-preemptible jobs, 2-3 priorities, 2-3 level queue trees, leaf min-runtime "
                       "settings with start times hours away from the limits; non-trivial = the real scheduler evicted at least one pod")
    n = 1200 if ctx.quick else 12000
    st_cluster.run_stage(ctx, PREFIXES, [("full", n // 4), ("closed", n // 8), ("mixed", n // 8), ("minrt", n // 2)], nontrivial_fn=nontrivial)
    # the solver's node-by-node attempts (spread victim gangs, claimants that need most of one node): every C06 predicate
    # except C06_VictimHolds (the known finding G37 is frequent in this profile and would use up the report budget)
    m = 400 if ctx.quick else 6000
    st_cluster.run_stage(ctx, ABANDON, [("abandon", m)], nontrivial_fn=nontrivial, tag="-abandon")
    # fragmented clusters: consolidation may only move pods (elastic jobs above their minimum, gangs, mixed sizes)
    st_cluster.run_stage(ctx, ["C06_Consolidation", "C06_Together", "C06_Preemptible"], [("frag", m)], nontrivial_fn=nontrivial, tag="-frag")
    if not ctx.quick:
        st_fixtures.run_stage(ctx, PREFIXES)


def replay(ctx, obj):
    st_cluster.replay_stage(ctx, obj, PREFIXES)
