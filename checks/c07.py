"""C07 - reclaim protects deserved quota and moves resources toward fair share."""
import st_cluster

LEVEL = "model_checking"
PREFIXES = ["C07_"]


def nontrivial(sc, body):
    return any(x["ev"] == "Evict" and x.get("mdact") == "reclaim" for x in body)


def run(ctx):
    ctx.cov["rule"] = ("seeded random full clusters over 1-3 level queue trees (quotas incl. 0 / unlimited, limits, weights, priorities), "
                       "over-quota queues running preemptible work, pending reclaimers of several shapes, saturation multipliers 1-2; "
                       "non-trivial = the real scheduler committed at least one reclaim eviction; per-queue allocations are recomputed "
                       "by the spec from pods, fair shares are the session's (their contract is C09)")
    ctx.assumptions += ["saturation clause (C07_Saturation): ratios are cross-multiplied on recomputed allocations; the session's float fair "
                        "shares are logged rounded to 1/1000 GPU, 1 milli-CPU, 1 MB - when the logged value is not exact a violation is "
                        "reported only if it survives the rounding error"]
    n = 1200 if ctx.quick else 12000
    st_cluster.run_stage(ctx, PREFIXES, [("full", n // 4), ("closed", n // 8), ("mixed", n // 8), ("reclaim2", n // 4), ("sat", n * 3 // 2), ("npfs", n // 4), ("satc", n // 4)], nontrivial_fn=nontrivial)


def replay(ctx, obj):
    st_cluster.replay_stage(ctx, obj, PREFIXES)
