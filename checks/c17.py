"""C17 - GPU reservation pods track shared-GPU usage exactly.

 1. TLC model-checks spec/Binder.tla in c17 mode: two concurrent reconciles on the same GPU group and node
    (and a multi-fraction pod next to a single-fraction pod), the pod-deleted / pod-completed /
    BindRequest-deleted handlers and Sync / SyncForNode as concurrent actors, the per-group mutex as a
    variable, bind failure and crash, PodRunning / reservation-pod annotation as environment events;
    invariants C17_AtMostOne, C17_Index, C17_Iff, C17_IffAfterEvent, C17_NoOrphanConsumer.
 2. Real code: (a) every crash / failure point of a single reconcile of the shared-GPU pod kinds (exported by
    TLC from the c11 driver: covers every crash point between creating a reservation pod and labelling the
    consumer), (b) histories of the c17 environment sampled by TLC -simulate, (c) every single-preemption
    interleaving of two reconciles / a reconcile and a handler / a reconcile and a sync, followed by the pods'
    life cycle, (d) seeded random schedules. The two reconciles run as two real goroutines; every client
    call and every acquisition of the group mutex is a gate of the harness, which forces the interleaving.
 3. TLC (spec/BinderTrace.tla) evaluates the C17_* invariants on the store projection after every event.
"""
import json

import st_binder as sb
import vlib

LEVEL = "model_checking"

SHARED = ["fracn", "fracx", "multi", "multin"]


def run(ctx):
    binary, dry = sb.build(ctx)
    invs = sb.invariants("C17_")
    ctx.cov["rule"] = ("schedules = (a) every (shared-GPU pod kind, call k, Fail|Crash) of one reconcile, (b) TLC -simulate histories of the "
                       "c17 environment over {bind, bind failure, consumer completes, consumer deleted, BindRequest deleted, crash, sync, "
                       "PodRunning, reservation annotates} for 2 consumers x 1-2 groups, (c) all single-preemption interleavings of "
                       "two actors + pod life cycle, (d) seeded random; non-trivial = a fault, an environment event or two actors; "
                       "distinct by (configuration, event list)")
    ctx.assumptions += [
        "crash = whole binder process (every in-flight actor abandoned, fresh service instance and mutexes); handlers and syncs are fault-free",
        "model checking of the c17 environment uses a partial-order reduction: calls on objects private to the actor's own pod (its BindRequest, ConfigMaps, claim, PodBound condition) are scheduled first and alone; c17-mode faults: Fail at the label patch and the binding sub-resource, Crash after every call visible to other actors",
        "the harness plays the reservation pod: it reports a fresh GPU index per reservation pod when the service starts watching it, or by itself (Annotate) while no ReserveGpuDevice holds the group",
        "consumers deleted by the service itself (running pod without reservation) do not trigger the pod-deleted handler in the harness",
        "C17_Iff / C17_NoOrphanConsumer are judged at check points (a Sync / SyncForNode has ended, nothing in flight), C17_IffAfterEvent after the handler of a pod / BindRequest event has ended with nothing else in flight, for the groups the pod carried",
    ]
    if ctx.quick:
        b = dict(MaxFail=1, MaxCrash=1, MaxFaults=1, MaxRec=1, MaxEnv=1, MaxSync=1, MaxConc=2)
        sb.model_check(ctx, "c17-pairs", sb.consts("c17", ["pairx", "pairn"], **b), invs, timeout=900)
        sb.model_check(ctx, "c17-multi", sb.consts("c17", ["multi"], **dict(b, MaxEnv=2)), invs, timeout=900)
        nsim, nrandom = 60, 120
    else:
        b = dict(MaxFail=1, MaxCrash=1, MaxFaults=2, MaxRec=1, MaxEnv=2, MaxSync=1, MaxConc=2)
        sb.model_check(ctx, "c17-pairn", sb.consts("c17", ["pairn"], **b), invs, timeout=3000, heap="10g", workers=8)
        sb.model_check(ctx, "c17-pairx", sb.consts("c17", ["pairx"], **b), invs, timeout=3000, heap="10g", workers=8)
        sb.model_check(ctx, "c17-pairm", sb.consts("c17", ["pairm"], **dict(b, MaxFaults=1, MaxEnv=1)), invs, timeout=3000, heap="10g", workers=8)
        sb.model_check(ctx, "c17-multi", sb.consts("c17", ["multi", "multin"], **dict(b, MaxRec=2)), invs, timeout=3000, heap="10g", workers=8)
        nsim, nrandom = 1500, 3000
    s1, model_k = sb.export_c11(ctx, SHARED, 1, 5, "single")
    kdrift = sb.check_K(ctx, dry, model_k)
    s2 = sb.export_c17(ctx, ["pairn", "pairx", "pairm", "multi"], nsim, "c17", MaxFail=1, MaxCrash=1, MaxFaults=2, MaxRec=2, MaxEnv=3,
                       MaxSync=2, MaxConc=3)
    s3 = sb.directed_c17(ctx.quick, {k: v["K"] for k, v in dry.items()})
    scheds = s1 + s2 + s3
    sb.account(ctx, scheds)
    t1 = sb.run(ctx, binary, scheds, "c17")
    t2 = sb.run(ctx, binary, [], "random", extra=["-random", str(nrandom), "-seed", str(ctx.seed),
                                                  "-kmax", json.dumps({k: v["K"] for k, v in dry.items()})])
    for t in (t1, t2):
        sb.validate(ctx, t, "C17_")
    if kdrift:
        raise vlib.Infra(kdrift)
    ctx.cov["edges_replayed_on_impl"] = len(scheds)
    ctx.cov["exhaustive"] = False


def replay(ctx, obj):
    sb.replay(ctx, obj, "C17_")
