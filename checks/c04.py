"""C04 - hard placement constraints hold for every bind and nomination."""
import st_cluster

LEVEL = "exploration"
PREFIXES = ["C04_"]


def nontrivial(sc, body):
    constrained = any(p["sel"] or p["affIn"] or p["affNot"] or p["podAff"] or p["podAnt"] for p in sc["pods"]) or \
        any(n["taints"] or not n["ready"] or n["unsched"] for n in sc["nodes"]) or any(j.get("topo") for j in sc["jobs"])
    return constrained and any(x["ev"] in ("Bind", "Pipeline") for x in body)


def run(ctx):
    ctx.cov["rule"] = ("seeded random clusters with node labels (zone, disk), taints (NoSchedule/NoExecute/PreferNoSchedule), not-ready and "
                       "unschedulable nodes, pods with node selectors, required node affinity (In/NotIn), tolerations (Equal/Exists), pod labels and "
                       "required pod (anti-)affinity terms on hostname/zone, under allocate, reclaim, preempt and consolidation over 1-3 cycles; "
                       "non-trivial = a constrained scenario in which the real scheduler placed something")
    ctx.assumptions += ["topology constraints: one topology object (1-3 levels, nodes missing labels), required level on the pod group; sub-group level constraints (flat pod sets and a parent sub-group) are generated in profile topo; preferred levels are soft and not judged; NodePorts, volume and DRA constraints are not generated",
                        "the spec restates the upstream filter semantics (InterPodAffinity incl. the self-affinity bootstrap rule) independently"]
    n = 1600 if ctx.quick else 16000
    st_cluster.run_stage(ctx, PREFIXES, [("constr", n * 2 // 3), ("topo", n // 3)], nontrivial_fn=nontrivial)


def replay(ctx, obj):
    st_cluster.replay_stage(ctx, obj, PREFIXES)
