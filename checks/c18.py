"""C18 - pod-grouper is a deterministic, idempotent function of the workload.

 1. TLC model-checks spec/Grouper.tla for every grouping shape (gang <<1,1,1>>, one-PodGroup-per-pod
    <<1,2,3>>, mixed <<1,1,2>> ...): all orders of reconciling the sibling pods interleaved with
    foreign updates of the PodGroup and repeated reconciles, against C18_SameGroup,
    C18_Deterministic, C18_Idempotent and the action property C18_ForeignPreserved.
 2. TLC exports every transition of the schedule graph (EDGE lines); a schedule = shortest path to
    the transition's source + the transition. The harness (harness/cmd/grouper) executes every
    schedule (quick: a seeded sample of them per kind, always including the order/repeat skeleton)
    plus seeded random schedules on the real PodReconciler, once per catalogue entry (every
    GroupVersionKind registered in the plugins hub, chains, skip-top-owner kinds, bare pod), per
    replica count 1..3, plain and labelled (queue / priority / preemptibility / node-pool labels).
 3. TLC validates the recorded steps (spec/GrouperTrace.tla): verdicts come only from the C18_
    predicates evaluated by TLC on the real observations.
"""
import json
import os
import threading
import time

import vlib

LEVEL = "model_checking"
MODULE = "Grouper"
TRACE = "GrouperTrace"

# shape -> (MaxSteps, MaxForeign, MaxOwner) for the model check / the schedule export
SHAPES = {
    "quick": {"<<1>>": (6, 2, 1), "<<1,1>>": (7, 2, 1), "<<1,2>>": (7, 2, 1), "<<1,1,1>>": (8, 2, 1), "<<1,2,3>>": (7, 1, 1), "<<1,1,2>>": (7, 1, 1)},
    "thorough": {"<<1>>": (8, 3, 2), "<<1,1>>": (9, 3, 2), "<<1,2>>": (9, 2, 2), "<<1,1,1>>": (10, 3, 2), "<<1,2,3>>": (9, 2, 1), "<<1,1,2>>": (9, 2, 2)},
}
EXPORT = {
    "quick": {"<<1>>": (6, 2, 1), "<<1,1>>": (7, 2, 1), "<<1,2>>": (7, 1, 1), "<<1,1,1>>": (8, 1, 1), "<<1,2,3>>": (7, 1, 1), "<<1,1,2>>": (7, 1, 1)},
    "thorough": {"<<1>>": (8, 3, 2), "<<1,1>>": (9, 2, 2), "<<1,2>>": (9, 2, 1), "<<1,1,1>>": (10, 2, 1), "<<1,2,3>>": (9, 1, 1), "<<1,1,2>>": (9, 2, 1)},
}
_LOCK = threading.Lock()     # the TLC stages run in threads
DUMMY = dict(GroupOf="<<1>>", MaxSteps=0, MaxForeign=0, MaxOwner=0)
MODEL_INVS = ["TypeOK", "C18_SameGroup", "C18_Deterministic", "C18_Idempotent"]
TRACE_INVS = ["C18_SameGroup", "C18_Deterministic", "C18_Idempotent", "D_NoError", "D_Shape", "D_ForeignApplied", "D_Consumed"]
TRACE_PROPS = ["C18_ForeignPreservedTrace", "D_OwnerOnly"]


def shape_list(s):
    return [int(x) for x in s.strip("<>").split(",")]


def model_check(ctx, shape, steps, foreign, owner):
    d = vlib.prepare_spec_dir(ctx, "mc-" + shape.strip("<>").replace(",", ""))
    mod, cfg = vlib.write_model(d, MODULE, "Grouper_mc", dict(GroupOf=shape, MaxSteps=steps, MaxForeign=foreign, MaxOwner=owner), spec="Spec",
                                invariants=MODEL_INVS, properties=["C18_ForeignPreserved"])
    r = vlib.tlc(ctx, d, mod, cfg, workers=2 if ctx.quick else 4, timeout=1700, heap="4g")
    if not r.ok:
        # a counterexample in the model alone is a prediction; the real code decides below
        vlib.log("model-level counterexample %s for shape %s (prediction only)\n%s" % (r.violated, shape, vlib.tail_errors(r.out)[:2000]))
        with _LOCK:
            ctx.stage("model-counterexample", shape=shape, violated=r.violated)
        return
    with _LOCK:
        ctx.add_tlc(r)
        ctx.stage("model-check", shape=shape, max_steps=steps, max_foreign=foreign, max_owner=owner, distinct=r.distinct, generated=r.generated,
                  depth=r.depth, wall=round(r.wall, 1))


def export_schedules(ctx, shape, steps, foreign, owner):
    """every transition of the schedule graph -> shortest path to its source + the transition."""
    d = vlib.prepare_spec_dir(ctx, "gen-" + shape.strip("<>").replace(",", ""))
    mod, cfg = vlib.write_model(d, TRACE, "Grouper_gen", dict(GroupOf=shape, MaxSteps=steps, MaxForeign=foreign, MaxOwner=owner), init="GenInit", next_="GenNext",
                                view="GenView", action_constraints=["Edge"])
    r = vlib.tlc(ctx, d, mod, cfg, workers=1, timeout=1500, heap="4g")
    edges = []
    for line in r.out.splitlines():
        if line.startswith('"EDGE '):
            e = json.loads(json.loads(line)[5:])
            edges.append((json.dumps(e["s"], sort_keys=True), e["a"], json.dumps(e["t"], sort_keys=True)))
    if not edges:
        raise vlib.Infra("TLC exported no transitions for shape %s:\n%s" % (shape, vlib.tail_errors(r.out)))
    # breadth-first search from the initial states (one per install: plain / labelled); an initial state is
    # never the target of a transition (every action sets done, oc or fc, which never go back)
    succ = {}
    targets = set()
    for s, a, t in edges:
        succ.setdefault(s, []).append((a, t))
        targets.add(t)
    roots = [s for s in succ if s not in targets]
    if len(roots) != 2:
        raise vlib.Infra("expected two initial states (plain, labelled install) in the schedule graph of %s, found %d" % (shape, len(roots)))
    path = {}
    for root in roots:
        lab0 = json.loads(root)["ov"]["pe"]
        path[root] = (lab0, [])
    frontier = list(roots)
    while frontier:
        nxt = []
        for s in frontier:
            for a, t in succ.get(s, []):
                if t not in path:
                    path[t] = (path[s][0], path[s][1] + [a])
                    nxt.append(t)
        frontier = nxt
    # a schedule without an edit of the preemptibility / priority class label runs the same from either install
    either = lambda st: not any(a["n"] == "Owner" and a["f"] in OWNER_SETS for a in st)
    scheds = set()
    for s, a, t in edges:
        if s in path:
            st = path[s][1] + [a]
            scheds.add((2 if either(st) else path[s][0], json.dumps(st)))
    # drop schedules that are proper prefixes of another one (every step of a run is judged)
    allp = set()
    for lab0, sc in scheds:
        st = json.loads(sc)
        for i in range(1, len(st)):
            pre = st[:i]
            allp.add((2 if either(pre) else lab0, json.dumps(pre)))
    keep = sorted(x for x in scheds if x not in allp)
    covered = {}
    for lab0, sc in keep:
        for a in json.loads(sc):
            key = a["n"] + ("/" + a["f"] if a["n"] in ("Owner", "Raced") else "")
            covered[key] = covered.get(key, 0) + 1
    with _LOCK:
        ctx.stage("schedule-export", shape=shape, transitions=len(edges), states=len(path), schedules=len(keep), steps_by_kind=covered, wall=round(r.wall, 1))
    return [(lab0, json.loads(k)) for lab0, k in keep], len(edges)


FIELDS = ("queue", "mark", "backoff", "nodepool", "stamp")
OWNER_SETS = ("pe", "pr")     # owner labels a derived spec field follows: state 0 absent, 1 (labelled install), 2


def skeleton(shape):
    """schedules that are always executed for every kind, as (install, steps); install 0 = plain, 1 = labelled,
    2 = either:
    A  every permutation of first reconciles, each pod reconciled twice in a row;
    B  every foreign field (incl. a scheduler annotation on the PodGroup) then a pod reconciled twice;
    C  foreign update, then a LEGITIMATE change of the workload (label / annotation added on the owner),
       then a sibling reconciled twice: the write is expected, the foreign field must survive it;
    D  owner label / annotation added with nothing else going on, every pod reconciled twice;
    E  the owner's preemptibility / priority class label REMOVED (labelled install), CHANGED then removed
       (labelled install), SET then removed (plain install), every pod reconciled twice after each edit: the
       PodGroup must equal a fresh grouping of the workload as it is then, and the repeats must be silent;
    F  an owner edit (inherited label / annotation; preemptibility / priority class label set, changed,
       removed), then the reconcile that carries it to the PodGroup RACED by a foreign update of each field
       (409 Conflict), then the requeued reconcile twice and a sibling twice: the foreign value must stand and
       the owner edit must arrive."""
    import itertools
    n = len(shape)
    R = lambda p: {"n": "Reconcile", "p": p, "g": 0, "f": ""}
    X = lambda p, f: {"n": "Raced", "p": p, "g": shape[p - 1], "f": f}
    F = lambda g, f: {"n": "Foreign", "p": 0, "g": g, "f": f}
    O = lambda k, v=0: {"n": "Owner", "p": 0, "g": v, "f": k}
    out = []
    for perm in itertools.permutations(range(1, n + 1)):
        st = []
        for p in perm:
            st += [R(p)] * 2
        out.append((2, st))
    allp = [R(q) for q in range(1, n + 1)]
    twice = []
    for p in range(1, n + 1):
        twice += [R(p)] * 2
    for i, f in enumerate(FIELDS):
        p = 1 + (i % n)
        out.append((2, allp + [F(shape[p - 1], f)] + [R(p)] * 2))
    for i, f in enumerate(FIELDS):
        for k in ("l", "a"):
            p = 1 + (i % n)            # the pod whose group gets the foreign update
            q = n - (i % n)            # the sibling that is reconciled after the owner change
            out.append((2, allp + [F(shape[p - 1], f), O(k), R(q), R(q), R(p), R(p)]))
    for k in ("l", "a"):
        out.append((2, allp + [O(k)] + twice))
    for k in OWNER_SETS:
        out.append((1, allp + [O(k, 0)] + twice))
        out.append((1, allp + [O(k, 2)] + twice + [O(k, 0)] + twice))
        out.append((0, allp + [O(k, 1)] + twice + [O(k, 0)] + twice))
    for i, f in enumerate(FIELDS):
        p = 1 + (i % n)
        q = n - (i % n)
        out.append((2, allp + [O(("l", "a")[i % 2]), X(p, f), R(p), R(p), R(q), R(q)]))
    for i, f in enumerate(FIELDS[:3]):   # the fields the grouper masks in the spec
        p = 1 + ((i + 1) % n)
        q = n - ((i + 1) % n)
        k = OWNER_SETS[i % 2]
        out.append((1, allp + [O(k, (0, 2)[(i // 2) % 2]), X(p, f), R(p), R(p), R(q), R(q)]))
        out.append((0, allp + [O(k, 1 + (i // 2) % 2), X(p, f), R(p), R(p), R(q), R(q)]))
    return out


# ---- batching heuristic (NOT a verdict): which scenarios probably violate which predicate, so that
# TLC is asked about clean scenarios in one batch and about one representative per violation class.
def fval(f, k):
    """Grouper!FVal"""
    return {"queue": "fq%d" % k, "mark": "true" if k % 2 == 1 else "false", "backoff": "-1" if k == 1 else "1", "nodepool": "pool-f%d" % k,
            "stamp": "ts%d" % k}[f]


def triage_all(scen):
    """all (predicate, class) pairs that fail at the first step where anything fails (else [])."""
    sc = scen[0]
    grp, exp, expo, expsub = sc["grp"], sc["exp"], sc["expo"], sc["expsub"]
    done, dirty, odirty = set(), set(), set()
    fq, fn = set(), set()
    ov = {"l": 0, "a": 0, "pe": sc["ov0"], "pr": sc["ov0"]}
    removed = set()        # owner labels that were present and are absent now
    oval = lambda k: "" if k == 0 else "v%d" % k
    ngroups = len(exp)
    prev = None
    FOR = ("queue", "mark", "backoff", "nodepool", "stamp")
    DER = ("name", "min", "sub", "owner", "topo")
    for ev in scen[1:]:
        out = []
        groups, pods = ev["groups"], ev["pods"]
        raced = ev["ev"] == "Raced" and ev["fired"] == 1
        if ev.get("err") and not (raced and ev["cf"] == 1):
            out.append(("D_NoError", "error"))
        if ev["ev"] == "Foreign":
            dirty.add(ev["g"])
            if ev["f"] == "queue":
                fq.add(ev["g"])
            if ev["f"] == "nodepool":
                fn.add(ev["g"])
        elif ev["ev"] == "Owner":
            if ev["f"] in OWNER_SETS:
                (removed.add if ev["k"] == 0 else removed.discard)(ev["f"])
            ov[ev["f"]] = ev["k"]
            dirty |= set(range(1, ngroups + 1))
            odirty |= set(range(1, ngroups + 1))
        else:
            p = ev["p"]
            g = grp[p - 1]
            idem = p in done and g not in dirty and not raced
            if raced:
                if ev["f"] == "queue":
                    fq.add(g)
                if ev["f"] == "nodepool":
                    fn.add(g)
            if prev is not None:
                for gi, old in enumerate(prev["groups"]):
                    want = dict(old)
                    if raced and gi + 1 == g:
                        want[ev["f"]] = fval(ev["f"], ev["k"])
                    if old["ex"] and (not groups[gi]["ex"] or any(want[k] != groups[gi][k] for k in FOR)):
                        bad = [k for k in FOR if groups[gi]["ex"] and want[k] != groups[gi][k]] or ["podgroup-gone"]
                        out.append(("C18_ForeignPreservedTrace", ("foreign-update-racing-with-the-reconcile-overwritten-" if raced else "foreign-field-overwritten-") + "+".join(bad)))
                        break
            if idem and ev["wpg"] + ev["wpod"] + ev["wother"] > 0:
                same = prev is not None and prev["groups"] == groups and prev["pods"] == pods
                strip = lambda gs: [{k: v for k, v in x.items() if k != "meta"} for x in gs]
                only_pg = ev["wpg"] > 0 and ev["wpod"] == 0 and ev["wother"] == 0
                if only_pg and same:
                    out.append(("C18_Idempotent", "noop-podgroup-update"))
                elif only_pg and prev is not None and strip(prev["groups"]) == strip(groups) and any("pod-group-name=" in x["meta"] for x in groups):
                    out.append(("C18_Idempotent", "pod-group-name-annotation-copied-to-podgroup-on-repeat"))
                else:
                    out.append(("C18_Idempotent", "writes-on-repeat"))
            if raced and ev["err"]:
                dirty.add(g)           # 409: the reconcile did not complete
            else:
                done.add(p)
                dirty.discard(g)
                odirty.discard(g)
        if ev["extra"] != 0:
            out.append(("C18_Deterministic", "undocumented-podgroup"))
        else:
            for gi, gr in enumerate(groups):
                if gr["ex"]:
                    e = exp[gi]
                    bad = [k for k in DER if gr[k] != e[k]]
                    if (gi + 1) not in fq and gr["queue"] != e["queue"]:
                        bad.append("queue")
                    if (gi + 1) not in fn and gr["nodepool"] != e["nodepool"]:
                        bad.append("nodepool")
                    if (gi + 1) not in odirty:
                        if gr["ol"] != oval(ov["l"]):
                            bad.append("inherited-owner-label-not-propagated")
                        if gr["oa"] != oval(ov["a"]):
                            bad.append("inherited-owner-annotation-not-propagated")
                        for k, fld in (("pe", "preempt"), ("pr", "prio")):
                            if gr[fld] != expo[gi][k][ov[k]]:
                                bad.append(fld + ("-kept-after-owner-label-removed" if k in removed else "-differs-from-fresh-grouping" if ov[k] != sc["ov0"] else ""))
                    if bad:
                        out.append(("C18_Deterministic", "derived-" + "+".join(bad)))
                        break
            else:
                if any(pods[p - 1]["sub"] != expsub[p - 1] for p in done):
                    out.append(("C18_Deterministic", "subgroup-label"))
        for p in sorted(done):
            g = grp[p - 1]
            if not pods[p - 1]["ann"] or not groups[g - 1]["ex"] or groups[g - 1]["name"] != pods[p - 1]["ann"]:
                out.append(("C18_SameGroup", "annotation-does-not-name-the-documented-podgroup"))
                break
            if any((pods[p - 1]["ann"] == pods[q - 1]["ann"]) != (grp[p - 1] == grp[q - 1]) for q in done):
                out.append(("C18_SameGroup", "siblings-grouped-differently-than-documented"))
                break
        if out:
            return out
        prev = ev
    return []


def triage(scen):
    t = triage_all(scen)
    return t[0] if t else None


class SigCtx:
    """forwards everything to ctx; refines the signature of a TLC-established violation with the
    violation class observed at the violating step (what was written, which derived field differs)."""

    def __init__(self, ctx, affected):
        self._ctx = ctx
        self._affected = affected

    def __getattr__(self, k):
        return getattr(self._ctx, k)

    def violation(self, signature, text, replay_obj):
        inv = replay_obj.get("invariant", signature.split(" ")[0])
        scen = replay_obj.get("trace", [])
        at = replay_obj.get("at_event")
        ts = triage_all(scen[:at] if at else scen) if scen else []
        cls = next((c for (i, c) in ts if i == inv), "unclassified")
        kinds = sorted(self._affected.get((inv, cls), []))
        sig = "%s %s" % (inv, cls)
        if kinds:
            text += "\nscenarios with the same violation class in this run: %d kinds: %s" % (len(kinds), ", ".join(kinds)[:1500])
        text += "\nreproduce: bin/grouper -one '%s:%d:%d:%s' -out /tmp/t.ndjson" % (scen[0]["kind"], scen[0]["n"], scen[0]["labelled"], scen[0]["sched"]) if scen else ""
        self._ctx.violation(sig, text, replay_obj)


def split_scenarios(trace):
    evs = vlib.read_ndjson(trace)
    spans = vlib.scenario_index(evs)
    return [evs[s - 1:e] for (s, e) in spans]


def write_scenarios(path, scens):
    with open(path, "w") as f:
        for sc in scens:
            for ev in sc:
                f.write(json.dumps(ev) + "\n")


def validate(ctx, trace):
    scens = split_scenarios(trace)
    clean, suspects, affected = [], {}, {}
    for sc in scens:
        t = triage(sc)
        nontrivial = len(sc) > 2
        ctx.count_case([sc[0]["kind"], sc[0]["n"], sc[0]["labelled"], sc[0]["sched"]], nontrivial)
        if t is None:
            clean.append(sc)
        else:
            suspects.setdefault(t, []).append(sc)
            affected.setdefault(t, set()).add(sc[0]["kind"])
    ctx.stage("batching", scenarios=len(scens), clean=len(clean), suspect_classes={"%s %s" % k: len(v) for k, v in suspects.items()})
    sctx = SigCtx(ctx, affected)
    if clean:
        p = os.path.join(ctx.scratch, "clean.ndjson")
        write_scenarios(p, clean)
        vlib.validate_traces(sctx, TRACE, p, TRACE_INVS, "C18_", constants=DUMMY, properties=TRACE_PROPS, timeout=1500, heap="6g", workers=4)
    if suspects:
        # one (shortest) representative per class and kind for the first kinds, TLC decides
        reps = []
        for k in sorted(suspects):
            byk = {}
            for sc in suspects[k]:
                cur = byk.get(sc[0]["kind"])
                if cur is None or len(sc) < len(cur):
                    byk[sc[0]["kind"]] = sc
            if len(reps) < 16:
                reps += [byk[kk] for kk in sorted(byk)][:2]
        p = os.path.join(ctx.scratch, "suspects.ndjson")
        write_scenarios(p, reps)
        vlib.validate_traces(sctx, TRACE, p, TRACE_INVS, "C18_", constants=DUMMY, properties=TRACE_PROPS, timeout=1500, heap="4g", workers=2)
        n = sum(len(v) for v in suspects.values()) - len(reps)
        ctx.cov["scenarios_not_revalidated_same_class_as_reported"] = n
    for sc in scens[::max(1, len(scens) // 5)]:
        ctx.sample({"kind": sc[0]["kind"], "n": sc[0]["n"], "labelled": sc[0]["labelled"], "schedule": sc[0]["sched"],
                    "last_step": {k: sc[-1][k] for k in ("ev", "p", "wpg", "wpod", "wother")}, "podgroups_after": [g["name"] for g in sc[-1]["groups"] if g["ex"]]})


def run_pool(fns, width):
    """vlib.run_parallel with a bounded number of stages at a time: the first failure is re-raised after all have ended."""
    import concurrent.futures
    errs = []
    with concurrent.futures.ThreadPoolExecutor(max_workers=width) as ex:
        for f in [ex.submit(fn) for fn in fns]:
            try:
                f.result()
            except BaseException as e:      # noqa: B902 - re-raised below
                errs.append(e)
    for e in errs:
        if not isinstance(e, vlib.Infra):
            raise e
    if errs:
        raise errs[0]


def run(ctx):
    binary = vlib.go_build("grouper")
    cat = json.loads(vlib.run_harness(binary, ["-list"]).stdout)
    if cat["missing"]:
        raise vlib.Infra("plugins hub registers kinds without a catalogue entry: %s (add them to harness/cmd/grouper/catalogue.go)" % cat["missing"])
    ctx.stage("catalogue", hub_kinds=len(cat["hub_keys"]), entries=len(cat["entries"]))
    ctx.cov["kinds_covered"] = cat["entries"]
    ctx.cov["hub_gvks_covered"] = cat["hub_keys"]
    tier = "quick" if ctx.quick else "thorough"
    t0 = time.time()
    # TLC runs are independent of each other: three at a time (2 workers each) in the quick tier, two (4 workers) in the thorough one
    exported = {}

    def export(shape, st, fo, ow):
        exported[shape] = export_schedules(ctx, shape, st, fo, ow)

    jobs = [(lambda a=(shape,) + b: model_check(ctx, *a)) for shape, b in SHAPES[tier].items()]
    jobs += [(lambda a=(shape,) + b: export(*a)) for shape, b in EXPORT[tier].items()]
    run_pool(jobs, 3 if ctx.quick else 2)
    t1 = time.time()
    sched_path = os.path.join(ctx.scratch, "schedules.ndjson")
    total_edges = 0
    with open(sched_path, "w") as f:
        for shape in EXPORT[tier]:
            scheds, ne = exported[shape]
            total_edges += ne
            sl = shape_list(shape)
            for lab0, s in skeleton(sl):
                f.write(json.dumps({"shape": sl, "steps": s, "skeleton": 1, "lab": lab0}) + "\n")
            for lab0, s in scheds:
                f.write(json.dumps({"shape": sl, "steps": s, "lab": lab0}) + "\n")
    ctx.cov["schedule_graph_transitions"] = total_edges
    trace = os.path.join(ctx.scratch, "trace.ndjson")
    args = ["-schedules", sched_path, "-out", trace, "-seed", str(ctx.seed)]
    args += ["-cap", "6", "-random", "1", "-rlen", "8"] if ctx.quick else ["-cap", "120", "-random", "15", "-rlen", "10"]
    p = vlib.run_harness(binary, args, timeout=3000)
    out = json.loads(p.stdout.strip().splitlines()[-1])
    t2 = time.time()
    ctx.stage("real-run", **out)
    ctx.cov["rule"] = ("one case = (catalogue kind, replica count 1..3, plain|labelled, schedule) executed on the real PodReconciler in a fresh fake "
                       "store; schedules = skeleton (all first-reconcile orders with immediate repeats; each foreign field then a repeated "
                       "reconcile; owner label / annotation added; preemptibility / priority class label set, changed, removed; each of "
                       "these followed by a reconcile raced by a foreign update of each field) + TLC-exported transition-cover schedules (quick: seeded sample per kind) + seeded random schedules; "
                       "non-trivial = at least two steps; distinct by (kind, n, variant, schedule)")
    ctx.assumptions += [
        "the API server is the controller-runtime fake client; typed Get/List results carry their GroupVersionKind as the manager's cache-backed client does",
        "PodReconciler dependencies (podGrouper, configs, eventRecorder) are injected through reflection instead of SetupWithManager; configs = production defaults (search-legacy-pg, knative gang scheduling, node-pool and queue label keys)",
        "kinds documented as one-PodGroup-per-pod: Deployment, bare Pod, batch Job (the Job plugin names the group after the pod), Argo Workflow pods; JobSet InOrder groups per replicated job, LeaderWorkerSet per group index",
        "the expected derived fields per kind are written in harness/cmd/grouper/catalogue.go from docs/developer/pod-grouper.md and the plugins' doc comments",
        "owner objects are minimal unstructured objects (only the fields the plugins read); LWS startupPolicy LeaderReady, MPI delayed launcher, Ray legacy (no sub-groups) PodGroups and knative per-pod backward compatibility are state-dependent by design and not in the catalogue",
        "a merge patch with an empty body is not counted as a mutating call",
        "OwnerChange = a label / annotation added to (then changed on) the object the PodGroups inherit metadata from (top owner; CronJob: the Job; Knative: the Revision; Grove: the PodGang; skip-top-owner kinds: the skipped owner); not run for kinds where the pod itself is that object (bare Pod, Spark driver): an annotated orphan pod is skipped by the reconciler by design",
        "the foreign annotation is kai.scheduler/last-start-timestamp written on the PodGroup",
        "OwnerSet = the kai.scheduler/preemptibility (non-preemptible | preemptible) or priorityClassName (build | inference) label of the same object set, changed or removed; the expected PodGroup afterwards is the catalogue's documented fresh grouping for that label state (catalogue.go ownerExpectations: plain install for a removed label, labelled install for the labelled value, the label's value where the labelled install shows the kind follows the label; Grove labelled install: the PodGangSet / PodCliqueSet carries the same labels as the documented fallback, so a label removed from the PodGang uncovers the labelled value); the queue label is not edited: spec.queue and the queue label belong to other actors after creation (handler.go ignoreFields), they are foreign fields here",
        "ReconcileRaced = the foreign update is applied inside the fake client's Update interceptor when the reconciler updates that PodGroup (after its Get), then the Update is passed on to the fake store, whose resourceVersion check answers 409 Conflict; a reconcile that returns this conflict is not complete (the work queue retries it: a later Reconcile step of the schedule) and the error is expected; a raced step whose reconcile has nothing to write (kind ignores the edited label) is an ordinary reconcile",
    ]
    validate(ctx, trace)
    ctx.stage("wall", model_and_export=round(t1 - t0, 1), real_run=round(t2 - t1, 1), trace_validation=round(time.time() - t2, 1))
    ctx.cov["exhaustive"] = False  # exhaustive in the model; the real code runs a per-kind sample of the transition cover


def replay(ctx, obj):
    binary = vlib.go_build("grouper")
    sc = obj["replay"]["trace"][0]
    trace = os.path.join(ctx.scratch, "trace.ndjson")
    vlib.run_harness(binary, ["-one", "%s:%d:%d:%s" % (sc["kind"], sc["n"], sc["labelled"], sc["sched"]), "-out", trace])
    validate(ctx, trace)
