"""C08 - queue limits and non-preemptible-within-quota hold at every level."""
import st_cluster
import st_fixtures

LEVEL = "model_checking"
PREFIXES = ["C08_"]


def run(ctx):
    ctx.cov["rule"] = ("seeded random queue hierarchies (2-3 levels, limits/quotas incl. 0, -1, 0.5 GPU; cpu quotas/limits), whole / fractional / "
                       "gpu-memory / elastic jobs, all actions, 1-3 cycles; profile hetero: nodes whose devices differ in memory, gpu-memory pods that are a small portion of a "
                       "device on the node scored first and a big one on the node they can land on, limits / deserved quotas that hold some of them; running sums recomputed by the spec after every Bind/Pipeline; "
                       "non-trivial = a decision was taken")
    n = 1200 if ctx.quick else 12000
    st_cluster.run_stage(ctx, PREFIXES, [("mixed", n // 2), ("full", n // 4), ("fraction", n // 4), ("hetero", n // 4)])
    if not ctx.quick:
        st_fixtures.run_stage(ctx, PREFIXES)


def replay(ctx, obj):
    st_cluster.replay_stage(ctx, obj, PREFIXES)
