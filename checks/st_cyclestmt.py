"""Stage `CycleStmt`: C13 ("what-if simulations are transactional") judged on the statement scopes that the REAL
actions and solvers abandon during REAL scheduling cycles (the Rollbacks to a checkpoint of common.allocateSubGroupSet /
allocatePodSet and of by_pod_solver's node attempts, the Discards of the allocate action, of unsolved / invalid /
partial solver scenarios).

run_stage(ctx, names, plan) with names out of PREDICATES, plan = [(generator profile, n), ...]:

 1. harness/cmd/cluster -stmtobs runs the REAL scheduler (real SchedulerCache snapshot, real session, real actions and
    solvers) on `n` generated cluster scenarios per profile. At every framework.VerifStatementHook event (after every
    virtual operation, at Checkpoint, begin / end of Rollback / Discard / Commit / Convert) and every action boundary the
    recorder (harness/internal/world/stmtobs.go) takes the canonical projection of the session view - pods, nodes incl.
    GPU-sharing maps / PodInfos / pod-affinity pod set, workloads incl. pod-set counters, queue usage of the proportion
    plugin: the projection of harness/cmd/stmt - and writes one line per abandoned scope:
      rollback: projection at the Checkpoint() that returned cp  vs  projection at the end of Rollback(cp)
      discard:  projection before the statement's first operation (= after the previous hook event; the cycle is single
                threaded)  vs  projection at the end of Discard()
      outside:  (only where the canonical texts differ) projection after the previous event vs projection at an event
                that is reported BEFORE anything changes - the single-writer assumption, observed
    Identical (kind, pre, post) lines of one cluster scenario are written once.
 2. TLC evaluates the predicates of spec/StmtCycleTrace.tla on every line (one initial state per line; no model, no
    prediction: the verdict is the equality of two logged projections of the real code under the normalisation written
    in the specification) and prints the FALSE ones. A selected C13_ predicate that is FALSE -> ctx.violation (a few
    of the smallest scopes per signature, replay file = the cluster scenario + the line); a FALSE D_ monitor, an
    unconsumed line or a run without rollbacks / discards -> vlib.Infra (exit 2).

Signature: "<predicate> [<profile>,<shape words>] diff=<sorted field groups>", field groups as in st_stmt
("nodes.ig", "pods.virt", "jobs.idx", "queues.ag" ...), shape words: pipeonshared (a nominated pod sat on a node
with shared GPUs during the statement: finding G27), nomevict (a pod that was only nominated was taken as a victim:
finding G37), movegpu (an evicted sharer re-nominated onto other GPUs of its node), convert.
"""
import concurrent.futures
import hashlib
import json
import os
import shutil
import sys

if __name__ == "__main__":      # development aid (see the end of the file): make lib/ importable
    sys.path.insert(0, os.path.join(os.path.dirname(os.path.dirname(os.path.abspath(__file__))), "lib"))

import vlib

TRACE = "StmtCycleTrace"
MODULE = TRACE
PREDICATES = ["C13_RollbackCycleObs", "C13_DiscardCycleObs", "C13_EvictedAgainWhileNominated", "C13_AffinityCycleObs"]
# the predicates of the registered check. C13_EvictedAgainWhileNominated: the scopes of statements that evicted a pod
# which was only nominated (finding G37; the other two predicates judge all other scopes). C13_AffinityCycleObs (the pod
# set of the nodes' pod-affinity info) is evaluated on request only: it is FALSE on the tree as it is (a rolled back
# move of a sharer to another GPU of its node leaves the pod twice in the set) and no known-findings entry covers it.
DEFAULT = ["C13_RollbackCycleObs", "C13_DiscardCycleObs", "C13_EvictedAgainWhileNominated", "C13_AffinityCycleObs"]
DRIFT = ["D_SingleWriter", "D_NotInterleaved", "D_Kind"]

QUICK_PLAN = [("mixed", 100), ("fraction", 100), ("sharers", 100), ("elastic", 60), ("full", 60), ("abandon", 80), ("frag", 60),
              ("reclaim2", 60)]

ACTIVE_ALLOCATED = ("Allocated", "Pipelined", "Binding", "Bound", "Running")


# ------------------------------------------------------------------------------------------------
# 1. real cycles
# ------------------------------------------------------------------------------------------------
def run_profiles(ctx, binary, plan, procs=6, tag=""):
    """plan: list of (profile, n). Returns (trace paths, {scenario id: scenario}, merged recorder counters)."""
    jobs, k = [], 0
    for profile, n in plan:
        per = max(1, n // max(1, min(procs, n // 10 or 1)))
        left = n
        while left > 0:
            m = min(per, left)
            k += 1
            base = os.path.join(ctx.scratch, "cs%s-%s-%d" % (tag, profile, k))
            jobs.append((profile, m, ctx.seed * 1000 + k, base))
            left -= m

    def one(j):
        profile, m, seed, base = j
        args = ["-random", str(m), "-profile", profile, "-seed", str(seed), "-out", base + ".dec.ndjson",
                "-stmtobs", base + ".stmt.ndjson", "-dump-scenarios", base + ".scen.ndjson"]
        try:
            p = vlib.run_harness(binary, args, timeout=3600)
        except vlib.Infra as e:
            # the fake API server's watch-channel overflow / a loaded machine: one retry with a longer watchdog
            vlib.log("harness chunk %s/%d failed (%s); retrying once" % (profile, seed, str(e)[:200].replace("\n", " ")))
            p = vlib.run_harness(binary, args + ["-watchdog", "600"], timeout=3600)
        os.remove(base + ".dec.ndjson")
        return base, json.loads(p.stdout.strip().splitlines()[-1])

    traces, scen, stats = [], {}, {}
    with concurrent.futures.ThreadPoolExecutor(max_workers=procs) as ex:
        for base, info in ex.map(one, jobs):
            traces.append(base + ".stmt.ndjson")
            for sc in vlib.read_ndjson(base + ".scen.ndjson"):
                scen[sc["id"]] = sc
            os.remove(base + ".scen.ndjson")
            stats["scenarios"] = stats.get("scenarios", 0) + info["scenarios"]
            for key, v in info.get("stmt", {}).items():
                stats[key] = stats.get(key, 0) + v
    return traces, scen, stats


# ------------------------------------------------------------------------------------------------
# 2. trace validation
# ------------------------------------------------------------------------------------------------
def _norm(P):
    """the normalisation of StmtCycleTrace!Norm (for signatures and texts only; the verdict is TLC's)"""
    P = json.loads(json.dumps(P))
    for p in P["pods"].values():
        if p["st"] in ("Pending", "Gated"):
            p["groups"] = []
        if p["st"] not in ACTIVE_ALLOCATED:
            p["acc"] = 0
    for n in P["nodes"].values():
        for e in n["pods"]:
            if e["st"] not in ("Releasing", "Pipelined"):
                e["st"] = "Held"
    return P


def _flat(d, pre=""):
    out = {}
    if isinstance(d, dict):
        for k, v in d.items():
            out.update(_flat(v, pre + "." + k if pre else k))
    else:
        out[pre] = json.dumps(d, sort_keys=True)
    return out


def field_diff(sc, affinity=False):
    """[(path, value before, value after)] between the two logged projections of a scope line."""
    a, b = _norm(sc["pre"]), _norm(sc["post"])
    for P in (a, b):
        for n in P["nodes"].values():
            if affinity:
                for k in list(n):
                    if k != "aff":
                        del n[k]
            else:
                n["aff"] = []
        if affinity:
            P["pods"], P["jobs"], P["queues"] = {}, {}, {}
    fa, fb = _flat(a), _flat(b)
    return [(k, fa.get(k), fb.get(k)) for k in sorted(set(fa) | set(fb)) if fa.get(k) != fb.get(k)]


def diff_groups(diff):
    """pods.p3.virt -> pods.virt, nodes.n1.ig -> nodes.ig, jobs.j2.idx.Running -> jobs.idx"""
    out = set()
    for k, _, _ in diff:
        parts = k.split(".")
        out.add(".".join([parts[0]] + parts[2:3]))
    return sorted(out)


def signature(name, sc):
    diff = field_diff(sc, affinity=(name == "C13_AffinityCycleObs"))
    return "%s [%s] diff=%s" % (name, ",".join([str(sc.get("class", ""))] + list(sc.get("feat", []))), ",".join(diff_groups(diff))), diff


def triage(ctx, trace_path, tag, workers=2):
    d = vlib.prepare_spec_dir(ctx, "cs-triage-" + tag, extra_files={trace_path: "trace.ndjson"})
    mod, cfg = vlib.write_model(d, TRACE, "CS_tr", {}, spec="TraceSpec", invariants=["Triage"])
    r = vlib.tlc(ctx, d, mod, cfg, workers=workers, timeout=3000, heap="6g")
    if not r.ok:
        raise vlib.Infra("StmtCycleTrace triage failed: %s\n%s" % (r.violated, vlib.tail_errors(r.out)))
    ctx.add_tlc(r)
    verdicts = []
    for line in r.out.splitlines():
        if line.startswith('"VERDICT '):
            verdicts.append(json.loads(json.loads(line)[len("VERDICT "):]))
    shutil.rmtree(d, ignore_errors=True)
    return r, verdicts


def validate(ctx, trace_path, tag, names, scen=None, per_signature=2):
    """returns ({signature: number of scopes}, {kind: number of lines judged})"""
    events = vlib.read_ndjson(trace_path)
    if not events or any(e.get("ev") != "Scenario" for e in events):
        raise vlib.Infra("stmt trace %s is empty or has a line that is no scope" % trace_path)
    spec_txt = open(os.path.join(vlib.SPEC, TRACE + ".tla")).read()
    missing = [n for n in list(names) + DRIFT if 'F("%s"' % n not in spec_txt]
    if missing:
        raise vlib.Infra("StmtCycleTrace!Failing does not evaluate %s" % missing)
    r, verdicts = triage(ctx, trace_path, tag)
    # exactly one TLC state per line, else the trace was not consumed
    if r.distinct != len(events):
        raise vlib.Infra("stmt trace %s: %d lines but %d states validated (unconsumed or malformed lines)" % (tag, len(events), r.distinct))
    kinds = {}
    for e in events:
        kinds[e["kind"]] = kinds.get(e["kind"], 0) + 1
    by_sig, drifts, ignored = {}, [], 0
    # a cluster scenario in which a selected property predicate is FALSE on some scope is tainted: what the recorder
    # assumes about the rest of that run (single writer) is void there, its drift monitors are not reported
    tainted = {events[v["l0"] - 1].get("scid") for v in verdicts if any(n in v["failing"] for n in names)}
    for v in sorted(verdicts, key=lambda x: x["l0"]):
        sc = events[v["l0"] - 1]
        hit = False
        for name in names:
            if name in v["failing"]:
                hit = True
                sig, diff = signature(name, sc)
                by_sig.setdefault(sig, []).append((len(sc.get("ops", [])) + 1000 * sc.get("nops", 0), v["l0"], name, diff))
        fd = [n for n in v["failing"] if n in DRIFT]
        if fd and not hit and sc.get("scid") in tainted:
            ignored += 1
        elif fd and not hit:
            diff = field_diff(sc) + field_diff(sc, affinity=True)
            drifts.append("%s FALSE on %s (%s of action %s, hook event #%s): %s" % (
                fd, sc.get("id"), sc.get("ops"), sc.get("act") or "-", sc.get("k"),
                "; ".join("%s %s -> %s" % x for x in diff[:12])))
    for sig in sorted(by_sig):
        cases = sorted(by_sig[sig])
        for (_, l0, name, diff) in cases[:per_signature]:
            sc = events[l0 - 1]
            what = {"rollback": "Rollback(%s) vs the Checkpoint that returned %s" % (sc.get("cp"), sc.get("cp")),
                    "discard": "Discard vs the view before the statement's first operation"}.get(sc["kind"], sc["kind"])
            text = ("TLC: %s is FALSE on the real observation %s (cycle %s, action %s, statement #%s, hook event #%s; %s); "
                    "%d scope(s) with this signature\noperation log when it began (%d operations): %s\nnot restored: %s" % (
                        name, sc.get("id"), sc.get("cycle"), sc.get("act") or "-", sc.get("stmt"), sc.get("k"), what, len(cases),
                        sc.get("nops", 0), "; ".join(sc.get("ops", [])),
                        "; ".join("%s %s -> %s" % x for x in diff[:16]) + (" ..." if len(diff) > 16 else "")))
            ctx.violation(sig, text, {"module": TRACE, "invariant": name, "at_event": 1, "trace": [sc],
                                      "scenario": (scen or {}).get(sc.get("scid"))})
    judged = sum(n for k, n in kinds.items() if k in ("rollback", "discard"))
    ctx.add("traces_validated_against_impl", judged)
    ctx.add("trace_events_validated", len(events))
    ctx.stage("cyclestmt-triage-" + tag, lines=len(events), kinds=kinds, wall=round(r.wall, 1),
              signatures={k: len(x) for k, x in sorted(by_sig.items())}, drift=len(drifts), drift_in_tainted_scenarios=ignored)
    if drifts:
        raise vlib.Infra("specification drift in %d line(s) of the stmt trace (the recorder's assumptions do not hold); first:\n%s" % (
            len(drifts), drifts[0]))
    return {k: len(x) for k, x in by_sig.items()}, kinds


def split_trace(paths, out_prefix, max_bytes):
    """concatenate the harness traces into parts of about max_bytes (every line is a scope of its own)."""
    parts, out, size = [], None, 0
    for p in paths:
        with open(p) as f:
            for line in f:
                if out is None or size >= max_bytes:
                    if out is not None:
                        out.close()
                    path = "%s.part%d" % (out_prefix, len(parts))
                    parts.append(path)
                    out, size = open(path, "w"), 0
                out.write(line)
                size += len(line)
    if out is not None:
        out.close()
    return parts


def account(ctx, path):
    n = 0
    with open(path) as f:
        for line in f:
            ev = json.loads(line)
            if ev["kind"] not in ("rollback", "discard"):
                continue
            n += 1
            h = hashlib.sha1(line.encode()).hexdigest()
            ctx.count_case([ev["kind"], ev["cp"], ev["ops"], h], True)
            if n % 997 == 1:
                ctx.sample({"scope": ev["id"], "kind": ev["kind"], "action": ev["act"], "checkpoint": ev["cp"],
                            "operation_log_of_the_real_statement": ev["ops"][-20:], "shape": ev["feat"],
                            "pod_statuses_after": {p: v["st"] for p, v in sorted(ev["post"]["pods"].items())[:12]}})


def run_stage(ctx, names=None, plan=None, procs=6, tag="", parallel_tlc=4):
    names = list(names or DEFAULT)
    assert names and all(n in PREDICATES for n in names), names
    plan = plan or QUICK_PLAN
    binary = vlib.go_build("cluster")
    rule = ("CycleStmt: real scheduling cycles on generated cluster scenarios %s; a case = one statement scope that a real action / "
            "solver abandoned (Rollback to a checkpoint that undoes at least one operation, Discard of a non-empty statement) with the "
            "projection of the real session view before and after; distinct by (kind, checkpoint, operation log, the two projections)" % (plan,))
    ctx.cov["rule"] = (ctx.cov["rule"] + " | " if ctx.cov["rule"] else "") + rule
    for a in [
        "CycleStmt: the view before a statement's first operation is the projection taken at the previous hook event / action boundary "
        "(single-threaded cycle; the projected view changes through statement operations only): observed at every Checkpoint, *-begin "
        "event and action boundary (D_SingleWriter); a change right before an operation is attributed to that operation - GPU groups of "
        "a pod that holds nothing are such a caller scratch field and are normalised as in StmtTrace",
        "CycleStmt: statuses of a node's PodInfos entries are compared by accounting bucket (Releasing / Pipelined / held): committing "
        "an allocation turns the workload-side status into Binding without telling the node, the next UpdateTask of the pod refreshes the "
        "node's clone; zero-valued entries of the per-GPU-group maps are equal to absent ones",
        "CycleStmt: generated cluster scenarios carry no DRA resource claims (claims are judged on generated statement programs: "
        "C13_ClaimsObs); identical (kind, before, after) scopes of one cluster scenario are judged once; at most 400 scopes per scenario",
    ]:
        if a not in ctx.assumptions:
            ctx.assumptions.append(a)
    traces, scen, stats = run_profiles(ctx, binary, plan, procs=procs, tag=tag)
    ctx.stage("cyclestmt-real-runs" + tag, plan=plan, **stats)
    if stats.get("rollbacks", 0) == 0 or stats.get("discards", 0) == 0:
        raise vlib.Infra("cyclestmt: vacuous run, the harness recorded %d rollback and %d discard scopes" % (
            stats.get("rollbacks", 0), stats.get("discards", 0)))
    noref = {k: v for k, v in stats.items() if k.endswith("_without_reference")}
    if noref:
        raise vlib.Infra("cyclestmt: scopes without a reference projection (a Rollback to an index no Checkpoint event returned, a Discard "
                         "of a statement whose first operation was not seen): %s - the hook events no longer bracket the statements" % noref)
    parts = split_trace(traces, os.path.join(ctx.scratch, "cs-trace%s" % tag), 24e6)
    for t in traces:
        os.remove(t)
    for path in parts:
        account(ctx, path)       # single-threaded: count_case is not thread safe
    sigs, kinds, errs = {}, {}, []

    def one(ip):
        i, path = ip
        return validate(ctx, path, "%s%d" % (tag, i), names, scen)
    with concurrent.futures.ThreadPoolExecutor(max_workers=max(1, min(parallel_tlc, len(parts)))) as ex:
        futs = [ex.submit(one, ip) for ip in enumerate(parts)]
        for f in futs:
            try:
                sg, kd = f.result()
                for k, v in sg.items():
                    sigs[k] = sigs.get(k, 0) + v
                for k, v in kd.items():
                    kinds[k] = kinds.get(k, 0) + v
            except vlib.Infra as e:
                errs.append(e)
    for path in parts:
        try:
            os.remove(path)
        except OSError:
            pass
    if errs:
        raise errs[0]
    ctx.stage("cyclestmt-summary" + tag, predicates=names, judged=kinds, signatures=sigs, **stats)
    return stats, sigs


def replay_stage(ctx, obj, names=None):
    """re-run the cluster scenario of a reported violation on the current tree: every scope of every cycle is recorded and
    judged again (Go map order and fresh GPU-group UUIDs are part of the run, so a scenario may need several runs)."""
    names = list(names or DEFAULT)
    inv = obj.get("replay", {}).get("invariant")
    if inv in PREDICATES and inv not in names:
        names.append(inv)
    binary = vlib.go_build("cluster")
    sc = obj["replay"].get("scenario")
    if not sc:
        raise vlib.Infra("replay file carries no cluster scenario")
    scen = os.path.join(ctx.scratch, "cs-scen.ndjson")
    with open(scen, "w") as f:
        f.write(json.dumps(sc) + "\n")
    for attempt in range(5):
        trace = os.path.join(ctx.scratch, "cs-replay-%d.ndjson" % attempt)
        vlib.run_harness(binary, ["-in", scen, "-out", os.path.join(ctx.scratch, "cs-replay-dec.ndjson"), "-stmtobs", trace], timeout=600)
        if not os.path.getsize(trace):
            raise vlib.Infra("replay recorded no abandoned statement scope")
        before = len(ctx.violations) + len(ctx.known)
        validate(ctx, trace, "replay%d" % attempt, names, {sc.get("id"): sc}, per_signature=1)
        if len(ctx.violations) + len(ctx.known) > before:
            return


if __name__ == "__main__":
    # development aid:  python3 checks/st_cyclestmt.py <predicates|default|all> <profile,...|quick> <n>   (scratch context, no evidence written;
    # `quick k` = k times the quick plan; set VERIF_OUT so that replay files do not land in /verif/replays)
    sel, profile, n = sys.argv[1], sys.argv[2], int(sys.argv[3])
    names_ = {"default": DEFAULT, "all": PREDICATES}.get(sel) or sel.split(",")
    c = vlib.Ctx("C13", "quick", int(os.environ.get("VERIF_SEED", "1") or "1"), "model_checking")
    rc = 2
    try:
        plan_ = [(x, m * n) for x, m in QUICK_PLAN] if profile == "quick" else [(x, n) for x in profile.split(",")]   # quick 1 = the quick plan
        st, sg = run_stage(c, names_, plan_)
        print(json.dumps({"stats": st, "signatures": sg}, indent=1))
        for k in c.known:
            print("DEV-KNOWN", k[0])
        for sig_, text_, path_ in c.violations:
            print("DEV-VIOLATION", sig_, path_)
            print("  " + text_[:1800].replace("\n", "\n  "))
        rc = 1 if c.violations else 0
    except vlib.Infra as e:
        print("INFRA:", e)
    finally:
        shutil.rmtree(c.scratch, ignore_errors=True)
    sys.exit(rc)
