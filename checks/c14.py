"""C14 - scheduler accounting always equals ground truth recomputed from pods.

Node level (module NodeAcct, st_nodeacct.py): the real node_info.NodeInfo (Idle/Used/Releasing,
their vector twins, the four GPU-sharing maps, PodInfos) after every AddTask/RemoveTask/UpdateTask/
Consolidate/Restore call of every operation sequence the scheduler can issue on a node, judged by TLC
against the declarative truth of spec/NodeAcct.tla (C14_Node*).
Statement / job / queue level (module Stmt, st_stmt.py, when present): C14_*Obs predicates on the
projections recorded from a real framework.Statement on a real framework.Session.
Real cycles, every simulation step (module NodeAcctCycleTrace, st_cycleacct.py): the NodeInfo of every node of
the session after every Statement hook event of the real actions / solvers, judged by the same C14_Node*
predicates against entries recomputed from the job side of the session.
"""
import os

import st_cluster
import st_cycleacct
import st_nodeacct

LEVEL = "model_checking"
PREFIXES = ["C14_"]


def _st_stmt():
    if os.path.exists(os.path.join(os.path.dirname(__file__), "st_stmt.py")):
        import st_stmt
        return st_stmt
    return None


def run(ctx):
    stmt = _st_stmt()
    stages = [lambda: st_nodeacct.run_stage(ctx, PREFIXES)]
    if stmt is not None:
        stages.append(lambda: stmt.run_stage(ctx, PREFIXES))
    # node accounting DURING real cycles: after every virtual operation the real actions and solvers issue
    k = 1 if ctx.quick else 10
    cycle_plan = [("mixed", 120 * k), ("fraction", 100 * k), ("sharers", 100 * k), ("elastic", 80 * k), ("full", 80 * k),
                  ("abandon", 80 * k), ("frag", 60 * k), ("bindfail", 60 * k), ("reclaim2", 60 * k)]
    stages.append(lambda: st_cycleacct.run_stage(ctx, PREFIXES, cycle_plan, procs=6))
    import vlib
    vlib.run_parallel(stages)      # independent stages (node level, statement level)
    # snapshot construction: the freshly opened session of every real cycle (real SchedulerCache snapshot of the
    # API objects) against the truth recomputed by Cluster.tla from those objects (C14_Snapshot*)
    n = 600 if ctx.quick else 8000
    st_cluster.run_stage(ctx, PREFIXES, [("mixed", n // 3), ("fraction", n // 6), ("sharers", n // 6), ("full", n // 6), ("elastic", n // 6)])


def replay(ctx, obj):
    rep = obj.get("replay", {})
    if rep.get("module") == st_cluster.MODULE:
        st_cluster.replay_stage(ctx, obj, PREFIXES)
        return
    if rep.get("module") == st_nodeacct.TRACE:
        st_nodeacct.replay_stage(ctx, obj, PREFIXES)
        return
    if rep.get("module") == st_cycleacct.TRACE:
        st_cycleacct.replay_stage(ctx, obj, PREFIXES)
        return
    stmt = _st_stmt()
    if stmt is None:
        raise Exception("replay file is not from the NodeAcct stage and st_stmt.py is absent")
    stmt.replay_one(ctx, obj, PREFIXES)
