"""Stage `NodeAcct`: per-node resource accounting (node part of C14 and of C02).

run_stage(ctx, prefixes) with prefixes a list out of ["C14_", "C02_"]:

 1. ONE TLC pass over spec/NodeAcct.tla (workers 1): every reachable behaviour of the node-level calls
    the scheduler can issue is followed until its first predicted property failure
    (INVARIANT ModelTriage prints the failing predicates, no transition leaves a failing state) and every
    labelled transition is exported (ACTION_CONSTRAINT Edge). Model-level failures are PREDICTIONS.
 2. harness/cmd/nodeacct rebuilds paths from Init covering every exported edge and executes them on
    a REAL node_info.NodeInfo with real PodInfo objects (direction spec -> code); plus seeded random
    sessions (more pods / GPUs / longer than TLC's bound) whose placement decisions are taken by the
    real fit functions and the real gpu_sharing.GetNodePreferableGpuForSharing.
 3. TLC validates the recorded traces (spec/NodeAcctTrace.tla): the selected Cxx_ predicates are
    evaluated on the REAL values against the declarative truth of the logged pod set. A triage
    pass lists every failing (scenario, step, predicate); for every distinct signature the earliest
    scenario is then confirmed with the predicates as ordinary TLC INVARIANTs
    (vlib.validate_traces) -> ctx.violation. D_* failures are specification drift (exit 2).

Signature of a violation: "<first failing predicate> <class>", class built by TLC-computed facts of
the failing step: the call, the deviation real - truth, and the context flags
  ghost-readd   unevict AddTask()s a pod whose terminating copy (left by a move to another GPU group) is still accounted
  pipegpu       a nominated (Pipelined) fraction or whole-GPU pod is on the node before or after the call
  plain         none of the above
"""
import json
import os
import re

import vlib

MODULE = "NodeAcct"
TRACE = "NodeAcctTrace"

FRAC = lambda cpu, mem, dev=1: dict(k="frac", cpu=cpu, gpus=0, mem=mem, dev=dev, bymem=0)
WHOLE = lambda cpu, n: dict(k="whole", cpu=cpu, gpus=n, mem=0, dev=0, bymem=0)
CPU = lambda cpu: dict(k="cpu", cpu=cpu, gpus=0, mem=0, dev=0, bymem=0)
RESV = lambda cpu: dict(k="resv", cpu=cpu, gpus=1, mem=0, dev=0, bymem=0)

MODELS = {
    # name: (node, kinds, groups, snapshot statuses, MaxSnap, MaxOps)
    "q": (dict(n=2, gpumem=100, cpu=3000, maxpods=3),
          [FRAC(1000, 50), FRAC(2000, 50), WHOLE(1000, 1)],
          ["g1", "g2", "g3", "g4"], ["Running", "Releasing"], 2, 9),
    "t0": (dict(n=2, gpumem=100, cpu=4000, maxpods=3),
           [FRAC(1000, 50), FRAC(1000, 50), FRAC(2000, 30), WHOLE(1000, 1)],
           ["g1", "g2", "g3", "g4"], ["Running", "Releasing"], 2, 8),
    "t1": (dict(n=2, gpumem=100, cpu=4000, maxpods=4),
           [FRAC(1000, 50), FRAC(1000, 50), FRAC(2000, 70), WHOLE(1000, 1), CPU(2000)],
           ["g1", "g2", "g3", "g4", "g5"], ["Running", "Releasing", "Binding"], 3, 8),
    "t2": (dict(n=3, gpumem=100, cpu=5000, maxpods=4),
           [FRAC(1000, 50, 2), FRAC(1000, 50), FRAC(1000, 30), WHOLE(1000, 2), RESV(1000)],
           ["g1", "g2", "g3", "g4", "g5"], ["Running", "Releasing", "Bound"], 3, 8),
}

def _op(op, p, st="None", grp=()):
    return {"op": op, "p": p, "st": st, "grp": list(grp)}


# Directed scenarios (run in every tier): the reproducers of the defects this stage found, so that a
# regression is caught independently of the model bound and of the random seed. "Place" lets the REAL
# fit functions decide (st "A" = allocate action, "B" = solver; grp = order in which fitting GPUs are
# offered, "*" = a whole GPU; new groups are named f1, f2, ...).
DIRECTED = [
    # move of an evicted fraction pod to another GPU group of the node, rolled back (fixed by 98c33d5)
    dict(id="d-move-rollback", n=2, gpumem=100, cpu=4000, maxpods=4, kinds=[FRAC(1000, 50), FRAC(1000, 50)], ops=[
        _op("SnapAdd", 1, "Running", ["g1"]), _op("SnapAdd", 2, "Running", ["g2"]), _op("Evict", 1, "Releasing", ["g1"]),
        _op("Consolidate", 1, "Pipelined", ["g2"]), _op("UnpipelineMoved", 1, "Releasing", ["g1"]), _op("Unevict", 1, "Running", ["g1"])]),
    # Idle-GPU drift next to nominated GPU pods (known finding): last running sharer evicted next to a nominated whole-GPU pod
    dict(id="d-evict-next-to-nominated-whole", n=2, gpumem=100, cpu=3000, maxpods=4, kinds=[FRAC(1000, 50), FRAC(2000, 50), WHOLE(1000, 1)], ops=[
        _op("SnapAdd", 1, "Running", ["g1"]), _op("SnapAdd", 2, "Releasing", ["g1"]), _op("Place", 3, "A", []),
        _op("Evict", 1, "Releasing", ["g1"])]),
    # ... and ConvertAllAllocatedToPipelined with a nominated co-sharer on the fresh group
    dict(id="d-convert-with-nominated-cosharer", n=2, gpumem=100, cpu=3000, maxpods=4, kinds=[FRAC(1000, 50), FRAC(2000, 50), WHOLE(1000, 1)], ops=[
        _op("SnapAdd", 3, "Releasing"), _op("Place", 1, "A", ["*"]), _op("Place", 2, "A", ["f1"]),
        _op("Unallocate", 1), _op("ConvPipeline", 1, "Pipelined", ["f1"])]),
    # allocation onto a group that only holds nominated sharers (fixed by 8808e31): the third pod must be nominated
    dict(id="d-allocate-on-nominated-only-group", n=3, gpumem=100, cpu=8000, maxpods=8,
         kinds=[WHOLE(500, 1), WHOLE(500, 1), FRAC(500, 50), FRAC(500, 50), FRAC(500, 50)], ops=[
        _op("SnapAdd", 1, "Running"), _op("SnapAdd", 2, "Releasing"), _op("Place", 3, "A", ["*"]), _op("Place", 4, "A", ["*"]),
        _op("Unallocate", 3), _op("ConvPipeline", 3, "Pipelined", ["f1"]), _op("Place", 5, "A", ["f1", "f2", "*"])]),
    # ... with a 2-device pod: one nominated-only group + one fresh group would take two devices while one is idle
    dict(id="d-multidevice-on-nominated-only-group", n=4, gpumem=100, cpu=8000, maxpods=8,
         kinds=[WHOLE(500, 1), WHOLE(500, 1), WHOLE(500, 1), FRAC(500, 50), FRAC(500, 50), FRAC(500, 50, 2)], ops=[
        _op("SnapAdd", 1, "Running"), _op("SnapAdd", 2, "Releasing"), _op("SnapAdd", 3, "Releasing"),
        _op("Place", 4, "A", ["*"]), _op("Place", 5, "A", ["*"]),
        _op("Unallocate", 4), _op("ConvPipeline", 4, "Pipelined", ["f1"]), _op("Place", 6, "A", ["f1", "*"])]),
    # fresh group for immediate allocation only on an idle device (fixed by af5bd95): whole GPU offered first
    dict(id="d-fresh-group-on-releasing-device", n=2, gpumem=100, cpu=4000, maxpods=4, kinds=[FRAC(1000, 50), FRAC(1000, 50), FRAC(1000, 30)], ops=[
        _op("SnapAdd", 1, "Running", ["g1"]), _op("SnapAdd", 2, "Releasing", ["g2"]), _op("Place", 3, "A", ["*", "g1"])]),
]

DUMMY = dict(NGpu=1, GpuMem=100, NodeCpu=1, MaxPods=1, Kind="<<>>", GroupSeq="<<>>", SnapSt="{}", MaxSnap=0, MaxOps=0)


def tla_str(s):
    return '"%s"' % s


def tla_kinds(kinds):
    return "<< " + ", ".join('[k |-> "%s", cpu |-> %d, gpus |-> %d, mem |-> %d, dev |-> %d]' % (
        k["k"], k["cpu"], k["gpus"], k["mem"], k["dev"]) for k in kinds) + " >>"


def model_constants(m):
    node, kinds, groups, snapst, maxsnap, maxops = m
    return dict(NGpu=node["n"], GpuMem=node["gpumem"], NodeCpu=node["cpu"], MaxPods=node["maxpods"],
                Kind=tla_kinds(kinds), GroupSeq="<< " + ", ".join(map(tla_str, groups)) + " >>",
                SnapSt="{" + ", ".join(map(tla_str, snapst)) + "}", MaxSnap=maxsnap, MaxOps=maxops)


def selected(prefixes, names):
    return [n for n in names if any(n.startswith(p) for p in prefixes)]


def all_trace_predicates():
    seen, out = set(), []
    for mod in (MODULE, TRACE):
        for pre in ("C14_", "C02_", "D_"):
            for n in vlib.spec_defs(mod, pre):
                if n not in seen:
                    seen.add(n)
                    out.append(n)
    return out


# ------------------------------------------------------------------------------------------------
# 1. model pass: triage + edges
# ------------------------------------------------------------------------------------------------
def model_pass(ctx, name, prefixes):
    m = MODELS[name]
    d = vlib.prepare_spec_dir(ctx, "na-mc-" + name)
    mod, cfg = vlib.write_model(d, MODULE, "NA_mc", model_constants(m), spec="Spec", invariants=["ModelTriage"],
                                action_constraints=["Edge"], view="view")
    # quick: 1 worker (deterministic BFS). thorough: 4 workers; every printed line is parsed and the
    # number of state identities is compared with TLC's distinct-state count below
    r = vlib.tlc(ctx, d, mod, cfg, workers=1 if ctx.quick else 4, timeout=6000, heap="6g")
    if not r.ok:
        raise vlib.Infra("NodeAcct model pass failed: %s\n%s" % (r.violated, vlib.tail_errors(r.out)))
    ctx.add_tlc(r)
    ids = {}
    edges_path = os.path.join(ctx.scratch, "na-edges-%s.ndjson" % name)
    nedges = 0
    predicted = {}
    example = {}
    with open(edges_path, "w") as f:
        for line in r.out.splitlines():
            if line.startswith('<<"EDGE", '):
                # <<"EDGE", "<json label>", "<state>", "<state>">>  (TLC string escapes = JSON string escapes)
                parts = json.loads("[" + line[2:-2] + "]")
                a = json.loads(parts[1])
                s = ids.setdefault(parts[2], len(ids))
                t = ids.setdefault(parts[3], len(ids))
                f.write(json.dumps({"a": a, "s": s, "t": t}) + "\n")
                nedges += 1
            elif line.startswith('"MVERDICT '):
                v = json.loads(json.loads(line)[len("MVERDICT "):])
                for n in v["failing"]:
                    predicted[n] = predicted.get(n, 0) + 1
                    example.setdefault(n, v)
    if nedges == 0:
        raise vlib.Infra("TLC exported no edges")
    if len(ids) != r.distinct:
        raise vlib.Infra("edge export: %d state identities for %d distinct states" % (len(ids), r.distinct))
    if "TypeOK" in predicted:
        raise vlib.Infra("NodeAcct model violates TypeOK: %s" % example["TypeOK"])
    ctx.stage("model-pass-" + name, distinct=r.distinct, generated=r.generated, depth=r.depth, wall=round(r.wall, 1), edges=nedges,
              predicted_first_failures={k: v for k, v in sorted(predicted.items()) if any(k.startswith(x) for x in prefixes)},
              note="model-level failures are predictions; every one is replayed on the real NodeInfo below")
    return edges_path, m


# ------------------------------------------------------------------------------------------------
# 3. trace validation: triage pass, then confirmation per signature
# ------------------------------------------------------------------------------------------------
def classify(v, name):
    """signature class of a failing step from facts computed by TLC (deviation = real - truth)."""
    di, du, dr = v["didle"], v["dused"], v["drel"]
    base = any(d[k] != 0 for d in (di, du, dr) for k in ("cpu", "pods")) or du["gpu"] != 0
    if v["ghostb"] and v["op"] == "Unevict" and v["call"] == "Add":
        ctxflag = "ghost-readd"
    elif v["pipegpu"]:
        ctxflag = "pipegpu"
    else:
        ctxflag = "plain"
    return "%s %s %s/%s dgpu=idle%+d,rel%+d dbase=%s" % (name, ctxflag, v["op"], v["call"], di["gpu"], dr["gpu"], "X" if base else "0")


def triage(ctx, trace_path, tag):
    d = vlib.prepare_spec_dir(ctx, "na-triage-" + tag, extra_files={trace_path: "trace.ndjson"})
    mod, cfg = vlib.write_model(d, TRACE, "NA_tr", DUMMY, overrides={"CurE": "TraceE"}, spec="TraceSpec", invariants=["Triage"])
    r = vlib.tlc(ctx, d, mod, cfg, workers=1 if ctx.quick else 4, timeout=6000, heap="8g")
    if not r.ok:
        raise vlib.Infra("NodeAcctTrace triage failed: %s\n%s" % (r.violated, vlib.tail_errors(r.out)))
    ctx.add_tlc(r)
    verdicts = []
    for line in r.out.splitlines():
        if line.startswith('"VERDICT '):
            verdicts.append(json.loads(json.loads(line)[len("VERDICT "):]))
    return r, verdicts


def is_known(ctx, sig):
    return any(f.get("status") == "known" and f["property"] == ctx.prop and vlib.sig_match(f["signature"], sig) for f in ctx.findings)


def validate(ctx, trace_path, tag, prefixes):
    events = vlib.read_ndjson(trace_path)
    spans = vlib.scenario_index(events)
    span_of = {s: (s, e) for s, e in spans}
    r, verdicts = triage(ctx, trace_path, tag)
    # exactly one TLC state per line, else the trace was not consumed
    if r.distinct != len(events):
        raise vlib.Infra("trace %s: %d lines but %d states validated (unconsumed or malformed lines)" % (tag, len(events), r.distinct))
    names = all_trace_predicates()
    drift = {"D_Units", "D_NoError", "D_Decision"} | ({"D_Drift", "D_Model"} if "C14_" in prefixes else set())
    first = {}   # (scenario start line, property prefix) -> (verdict, first failing predicate of that prefix)
    tainted = set()
    for v in sorted(verdicts, key=lambda x: (x["l0"], x["l"])):
        hit = False
        for pre in prefixes:
            fp = [n for n in names if n in v["failing"] and n.startswith(pre)]
            if fp:
                hit = True
                first.setdefault((v["l0"], pre), (v, fp[0]))
        if hit:
            tainted.add(v["l0"])
        fail_drift = [n for n in v["failing"] if n in drift]
        if fail_drift and v["l0"] not in tainted:
            s, e = span_of[v["l0"]]
            raise vlib.Infra("specification drift %s at step %d of scenario %s (%s/%s) with no property failing:\n%s" % (
                fail_drift, v["l"] - v["l0"], events[s - 1].get("id"), v["op"], v["call"],
                json.dumps(events[s - 1:v["l"]], default=str)[:3000]))
    by_sig = {}
    for (l0, pre), (v, name) in first.items():
        by_sig.setdefault(classify(v, name), []).append((l0, v))
    ctx.add("traces_validated_against_impl", len(spans) - len(tainted))
    ctx.add("trace_events_validated", len(events) - len(spans))
    ctx.stage("trace-triage-" + tag, scenarios=len(spans), steps=len(events) - len(spans), wall=round(r.wall, 1),
              scenarios_with_failure=len(tainted), signatures={k: len(x) for k, x in sorted(by_sig.items())})
    # one report per signature: the shortest scenario, cut after the failing step
    unknown = []
    for sig, lst in sorted(by_sig.items()):
        l0, v = min(lst, key=lambda x: (x[1]["l"] - x[0], x[0]))
        sc = dict(events[l0 - 1])
        sc["sig"] = sig.split(" ", 1)[1]
        sc["id"] = "%s:%s" % (tag, sc.get("id"))
        cut = [sc] + events[l0:v["l"]]
        if is_known(ctx, sig):
            # TLC (triage pass) evaluated the predicate FALSE on this recorded state
            ctx.violation(sig, "TLC: %s violated at trace line %d of scenario %s" % (sig.split(" ")[0], v["l"] - l0, sc["id"]),
                          {"module": TRACE, "invariant": sig.split(" ")[0], "at_event": v["l"] - l0, "trace": cut})
        else:
            unknown.append((sig, cut))
    if unknown:
        # confirmation by TLC with the predicates as ordinary INVARIANTs -> ctx.violation (vlib.validate_traces)
        for pre in prefixes:
            part = [(sig, cut) for sig, cut in unknown if sig.startswith(pre)][:12]
            if not part:
                continue
            conf = os.path.join(ctx.scratch, "na-confirm-%s-%s.ndjson" % (tag, pre))
            with open(conf, "w") as f:
                for sig, cut in part:
                    for ev in cut:
                        f.write(json.dumps(ev) + "\n")
            invs = [n for n in names if n.startswith(pre)]
            before = len(ctx.violations)
            vlib.validate_traces(ctx, TRACE, conf, invs, pre, constants=DUMMY, overrides={"CurE": "TraceE"},
                                 timeout=3000, heap="6g", workers=1, max_reports=50)
            if len(ctx.violations) - before < len(part):
                raise vlib.Infra("triage reported %d failing scenarios for %s but only %d were confirmed" % (
                    len(part), pre, len(ctx.violations) - before))


def validate_chunked(ctx, trace_path, tag, prefixes, max_lines=100000):
    """validate a big trace in chunks cut at scenario boundaries (TLC holds the whole trace in memory)."""
    chunk, part, paths = [], 0, []
    with open(trace_path) as f:
        for line in f:
            if '"ev":"Scenario"' in line and len(chunk) >= max_lines:
                path = "%s.part%d" % (trace_path, part)
                with open(path, "w") as g:
                    g.writelines(chunk)
                paths.append((path, "%s.%d" % (tag, part)))
                chunk, part = [], part + 1
            chunk.append(line)
    if not paths:
        return validate(ctx, trace_path, tag, prefixes)
    path = "%s.part%d" % (trace_path, part)
    with open(path, "w") as g:
        g.writelines(chunk)
    paths.append((path, "%s.%d" % (tag, part)))
    for path, t in paths:
        validate(ctx, path, t, prefixes)
        os.remove(path)


def account(ctx, trace_path):
    for ev in vlib.read_ndjson(trace_path):
        if ev["ev"] != "Step":
            continue
        key = [ev["call"], ev["p"], ev["st"], ev["grp"], ev["ost"], ev["ogrp"], ev["pods"], ev["idle"], ev["rel"], ev["um"], ev["rm"], ev["mk"]]
        nontrivial = len(ev["pods"]) >= 2 or ev["call"] != "Add"
        ctx.count_case(key, nontrivial)
        if nontrivial and ctx.cov["evaluations"] % 9973 == 0:
            ctx.sample({"call": ev["call"], "op": ev["op"], "p": ev["p"], "st": ev["st"], "grp": ev["grp"], "pods_after": ev["pods"],
                        "real_idle": ev["idle"], "real_releasing": ev["rel"], "real_used_mem": ev["um"]})


def run_stage(ctx, prefixes):
    prefixes = list(prefixes)
    assert prefixes and all(p in ("C14_", "C02_") for p in prefixes)
    binary = vlib.go_build("nodeacct")
    rule = ("NodeAcct: every labelled transition of the reachable graph of spec/NodeAcct.tla (behaviours cut at their first "
            "predicted failure) replayed on a real NodeInfo along paths from Init; plus seeded random sessions (1-4 GPUs, 5-10 pods, "
            "<= 60 calls) decided by the real fit functions; a case = one NodeInfo call with its pre/post projection, non-trivial if "
            ">= 2 entries on the node or the call is not a plain Add; distinct by (call, pod, status, groups, clone, entries, idle, "
            "releasing, per-group maps)")
    ctx.cov["rule"] = (ctx.cov["rule"] + " | " if ctx.cov["rule"] else "") + rule
    ctx.assumptions += [
        "NodeAcct: the operation sequences are those of framework.Statement/actions on ONE node (no concurrent statements; within a "
        "solver statement evictions precede placements; unpipeline only by LIFO rollback; unallocate also out of order: "
        "ConvertAllAllocatedToPipelined, failed bind); job/queue level effects are other stages",
        "NodeAcct: accounting entries = pods the session believes are on the node (status, GPU groups) plus the terminating "
        "incarnation of a fraction pod re-nominated onto another GPU group of the same node (ConsolidateSharedPodInfoToDifferentGPU)",
        "NodeAcct: GPU group names are reused only as the code would see fresh UUIDs; RAM is accounted like CPU and not logged",
    ]
    models = ["q"] if ctx.quick else ["q", "t0", "t1", "t2"]
    for name in models:
        edges, m = model_pass(ctx, name, prefixes)
        node, kinds = m[0], m[1]
        consts = json.dumps({"N": node["n"], "GpuMem": node["gpumem"], "Cpu": node["cpu"], "MaxPods": node["maxpods"], "Kinds": kinds})
        trace = os.path.join(ctx.scratch, "na-trace-%s.ndjson" % name)
        p = vlib.run_harness(binary, ["-edges", edges, "-consts", consts, "-out", trace, "-maxlen", "40"])
        info = json.loads(p.stdout.strip().splitlines()[-1])
        if info["uncovered"] != 0:
            raise vlib.Infra("harness left %d edges uncovered" % info["uncovered"])
        ctx.add("edges_replayed_on_impl", info["edges"])
        ctx.stage("real-replay-" + name, **info)
        account(ctx, trace)
        validate_chunked(ctx, trace, name, prefixes)
    scen = os.path.join(ctx.scratch, "na-directed.ndjson")
    with open(scen, "w") as f:
        for sc in DIRECTED:
            f.write(json.dumps(dict(sc, **{"class": "directed"})) + "\n")
    dtrace = os.path.join(ctx.scratch, "na-trace-directed.ndjson")
    p = vlib.run_harness(binary, ["-in", scen, "-out", dtrace])
    ctx.stage("real-run-directed", **json.loads(p.stdout.strip().splitlines()[-1]))
    account(ctx, dtrace)
    validate(ctx, dtrace, "directed", prefixes)
    nrandom, steps = (1500, 40) if ctx.quick else (20000, 60)
    rnd = os.path.join(ctx.scratch, "na-trace-rnd.ndjson")
    p = vlib.run_harness(binary, ["-random", str(nrandom), "-steps", str(steps), "-seed", str(ctx.seed), "-out", rnd])
    ctx.stage("real-run-random", **json.loads(p.stdout.strip().splitlines()[-1]))
    account(ctx, rnd)
    validate_chunked(ctx, rnd, "rnd", prefixes)


def replay_stage(ctx, obj, prefixes):
    """re-run one recorded scenario (its operation list) on the current tree and re-validate it."""
    binary = vlib.go_build("nodeacct")
    sc = obj["replay"]["trace"][0]
    scen = os.path.join(ctx.scratch, "na-scen.ndjson")
    with open(scen, "w") as f:
        f.write(json.dumps({k: sc[k] for k in ("id", "class", "n", "gpumem", "cpu", "maxpods", "kinds", "ops")}) + "\n")
    trace = os.path.join(ctx.scratch, "na-replay.ndjson")
    vlib.run_harness(binary, ["-in", scen, "-out", trace])
    validate(ctx, trace, "replay", prefixes)
