"""C05 - progress: runnable work is placed (work conservation after the allocate action)."""
import st_cluster

LEVEL = "exploration"
PREFIXES = ["C05_"]


def nontrivial(sc, body):
    return any(p["phase"] == "P" for p in sc["pods"])


def run(ctx):
    ctx.cov["rule"] = ("seeded random clusters with pending jobs, all plugin configurations of the generator (binpack/spread, consolidation "
                       "on/off, scheduling signatures on/off); after the allocate action TLC searches, for every untouched ready pending job of "
                       "non-sharing unconstrained pods, an assignment of its tasks to nodes within truth-idle capacity and queue rules; "
                       "non-trivial = the scenario has pending pods")
    ctx.assumptions += ["work conservation is judged for jobs of whole-GPU / cpu-only pods without placement constraints; sharing pods and the "
                        "reclaim/preempt progress is judged on generated members of the unobstructed class: profile unobs (K identical claimants of one queue) and "
                        "profile unobs2 (claimants of several queues, priorities and preemptibilities, bystanders that cannot be served; judged claimant by "
                        "claimant: C05_ReclaimEach / C05_PreemptEach), the antecedent being re-derived by the spec from the scenario",
                        "the harness process runs many scenarios with the same action objects, as the scheduler runs many cycles: state kept across cycles by an action shows up as interference between scenarios"]
    n = 1200 if ctx.quick else 12000
    st_cluster.run_stage(ctx, PREFIXES, [("mixed", n // 2), ("fifo", n // 8), ("slots", n // 8), ("unobs", n // 4), ("unobs2", n // 2)], nontrivial_fn=nontrivial)
    st_cluster.run_directed(ctx, PREFIXES, "C05")


def replay(ctx, obj):
    st_cluster.replay_stage(ctx, obj, PREFIXES)
