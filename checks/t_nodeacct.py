"""Development entry for the NodeAcct stage (not a listed property): ./verif check T_NODEACCT --tier quick

Runs st_nodeacct.run_stage with both C14_ and C02_ predicates selected. The findings of this stage
that are already reported to the coordinator are declared here (known_findings.json is matched by
property id, and this entry has its own id), so that the unchanged tree exits 0 and anything else
is a VIOLATION.
"""
import st_nodeacct

LEVEL = "model_checking"

KNOWN = [
    {"signature": r"C14_Node(Idle|Releasing|Marker) pipegpu \S+ dgpu=idle-\d,rel\+\d dbase=0",
     "what": "whole-device transfer Idle<->Releasing of shared GPU groups: the guards N < Idle+usedGPUs / N >= Idle+usedGPUs count "
             "nominated (Pipelined) whole-GPU pods and nominated-only groups as used devices -> Idle.gpu ends below the value "
             "recomputed from the pods (order dependent; conservative)"},
]


def run(ctx):
    ctx.findings = list(ctx.findings) + [dict(f, property=ctx.prop, status="known") for f in KNOWN]
    st_nodeacct.run_stage(ctx, ["C14_", "C02_"])


def replay(ctx, obj):
    ctx.findings = list(ctx.findings) + [dict(f, property=ctx.prop, status="known") for f in KNOWN]
    st_nodeacct.replay_stage(ctx, obj, ["C14_", "C02_"])
