"""ReclaimRules stage (C15, C07, C05 at rule level).

1. TLC model-checks spec/ReclaimRules.tla: the proportion plugin's reclaim rules (CanReclaim, strategy,
   saturation) over a two-level queue tree of interchangeable 1-GPU jobs in a closed system, for EVERY
   fair-share vector the C09 contract allows: no behaviour evicts forever (C15_EventuallyQuiet, a
   liveness property checked on the complete state graph) and every reclaim respects C07_Rules.
2. Non-vacuity: the same model with the saturation rule switched off must exhibit the eviction cycle
   (reported as a design-level prediction, never as a verdict).
3. spec -> code: the model's full initial clusters (every distribution of running / pending jobs and
   quotas within the constants) are exported, materialised as scenarios and run on the REAL scheduler
   for 8 closed-system cycles; ClusterTrace judges the real decisions with the caller's predicates.
"""
import concurrent.futures
import json
import os

import vlib
import st_cluster

MODULE = "ReclaimRules"


def consts(thorough, **over):
    c = dict(NDepts=2, LeavesPer=2, Total=3, MaxReq=2, Quotas="{0,1,2}" if thorough else "{0,2}", M10=10,
             UseCanReclaim="TRUE", UseStrategy="TRUE", UseSaturation="TRUE", UseContract="TRUE")
    c.update(over)
    return c


def to_scenario(i, m, seed):
    total = m["total"]
    leaves = m["leaves"]
    keys = sorted(leaves.keys(), key=int)
    depts = sorted({leaves[k]["dept"] for k in keys})
    # interchangeable nodes: one node per GPU in a third of the scenarios, one big node otherwise
    if i % 3 == 0:
        nodes = [dict(name="n%d" % (k + 1), cpu=16000, mem=64000, pods=110, gpus=1, gpuMem=40000, labels={}, taints=[], ready=1, unsched=0)
                 for k in range(total)]
    else:
        nodes = [dict(name="n1", cpu=64000, mem=64000, pods=110, gpus=total, gpuMem=40000, labels={}, taints=[], ready=1, unsched=0)]
    queues = []
    for d in depts:
        des = sum(leaves[k]["des"] for k in keys if leaves[k]["dept"] == d)
        queues.append(dict(name="d%d" % d, parent=0, prio=100, gq=des * 1000, gl=-1, gw=1, cq=-1, cl=-1, mq=-1, ml=-1, minRtP=0, minRtR=0))
    qidx = {}
    for k in keys:
        lf = leaves[k]
        queues.append(dict(name="q%s" % k, parent=depts.index(lf["dept"]) + 1, prio=100, gq=lf["des"] * 1000, gl=-1, gw=1,
                           cq=-1, cl=-1, mq=-1, ml=-1, minRtP=0, minRtR=0))
        qidx[k] = len(queues)
    jobs, pods = [], []
    slot = 0
    for k in keys:
        lf = leaves[k]
        for r in range(lf["run"]):
            j = len(jobs) + 1
            jobs.append(dict(name="j%d" % j, queue=qidx[k], prio=50, preempt=1, min=1, age=7200 + 60 * j, lastStart=36000, shape=0, subs=[], topo="", topoReq=0))
            node = (slot % len(nodes)) + 1 if len(nodes) > 1 else 1
            slot += 1
            pods.append(dict(name="j%d-p1" % j, job=j, cpu=500, mem=500, gpu=1, frac=0, gpuMem=0, devs=0, phase="R", node=node, term=0, groups=[],
                             sub=0, initCpu=0, ovhCpu=0, sel={}, affIn={}, affNot={}, tols=[], labels={}, podAff=[], podAnt=[]))
    for k in keys:
        lf = leaves[k]
        for r in range(lf["pend"]):
            j = len(jobs) + 1
            jobs.append(dict(name="j%d" % j, queue=qidx[k], prio=50, preempt=1, min=1, age=600 + 60 * j, lastStart=-1, shape=0, subs=[], topo="", topoReq=0))
            pods.append(dict(name="j%d-p1" % j, job=j, cpu=500, mem=500, gpu=1, frac=0, gpuMem=0, devs=0, phase="P", node=0, term=0, groups=[],
                             sub=0, initCpu=0, ovhCpu=0, sel={}, affIn={}, affNot={}, tols=[], labels={}, podAff=[], podAnt=[]))
    cfg = dict(placement=["binpack", "spread"][i % 2], consolidation=(i // 2) % 2, signatures=(i // 4) % 2, consReclaim=(i // 8) % 2,
               satMult=[1000, 1000, 1200, 2000][(i // 16) % 4], cycles=8, env="closed", bindFail=[], evictFail=[], fullHier=1, actions="")
    return dict(id="rr-%d" % i, **{"class": "rules"}, cfg=cfg, nodes=nodes, queues=queues, jobs=jobs, pods=pods,
                topo=dict(name="", levels=[]))


def model_stage(ctx, thorough):
    d = vlib.prepare_spec_dir(ctx, "rr-mc")
    c = consts(thorough)
    mod, cfg = vlib.write_model(d, MODULE, "RR_mc", c, spec="Spec", invariants=["TypeOK"],
                                properties=["C15_EventuallyQuiet", "C07_Rules"], view="View")
    r = vlib.tlc(ctx, d, mod, cfg, workers=min(vlib.NCPU, 8), timeout=3000, heap="8g")
    if not r.ok:
        # design-level counterexample: a prediction about the rules, not a verdict on the code
        vlib.log("ReclaimRules counterexample (design-level prediction, not a verdict): %s %s\n%s" % (r.kind, r.violated, vlib.tail_errors(r.out)[:3000]))
        ctx.stage("reclaimrules-counterexample", kind=r.kind, violated=r.violated)
    else:
        ctx.add_tlc(r)
        ctx.stage("reclaimrules-check", distinct=r.distinct, generated=r.generated, wall=round(r.wall, 1), constants=c,
                  properties=["C15_EventuallyQuiet (liveness, complete state graph)", "C07_Rules"])
    # non-vacuity: without the saturation rule the eviction cycle must exist
    d = vlib.prepare_spec_dir(ctx, "rr-nosat")
    c2 = consts(thorough, UseSaturation="FALSE")
    mod, cfg = vlib.write_model(d, MODULE, "RR_nosat", c2, spec="Spec", invariants=["TypeOK"], properties=["C15_EventuallyQuiet"], view="View")
    r2 = vlib.tlc(ctx, d, mod, cfg, workers=min(vlib.NCPU, 8), timeout=3000, heap="8g")
    ctx.stage("reclaimrules-nonvacuity", saturation_rule="off", lasso_found=(not r2.ok and r2.kind == "temporal"), distinct=r2.distinct)
    if r2.ok:
        raise vlib.Infra("ReclaimRules: the model without the saturation rule has no eviction cycle - the liveness check is vacuous")


def export_stage(ctx, thorough):
    d = vlib.prepare_spec_dir(ctx, "rr-gen")
    c = consts(True)
    mod, cfg = vlib.write_model(d, MODULE, "RR_gen", c, init="GenInit", next_="GenNext", constraints=["Emit"])
    r = vlib.tlc(ctx, d, mod, cfg, workers=1, timeout=1800, heap="6g")
    models = [json.loads(json.loads(line)) for line in r.out.splitlines() if line.startswith('"{')]
    if not models:
        raise vlib.Infra("ReclaimRules exported no initial states")
    return models


def run_stage(ctx, prefixes, thorough=False, cap=None):
    model_stage(ctx, thorough)
    binary = vlib.go_build("cluster")
    models = export_stage(ctx, thorough)
    total = len(models)
    cap = cap or (6000 if thorough else 400)
    if len(models) > cap:
        step = len(models) / float(cap)
        off = ctx.seed % max(1, int(step))
        models = [models[min(len(models) - 1, int(k * step) + off)] for k in range(cap)]
    parts = 16
    scen = os.path.join(ctx.scratch, "rr-scen.ndjson")
    files = []
    for part in range(parts):
        fn = "%s.%d" % (scen, part)
        files.append(fn)
        with open(fn, "w") as f:
            for i, m in enumerate(models):
                if i % parts == part:
                    f.write(json.dumps(to_scenario(i + ctx.seed, m, ctx.seed)) + "\n")

    def one(fn):
        out = fn + ".trace"
        try:
            vlib.run_harness(binary, ["-in", fn, "-out", out], timeout=3000)
        except vlib.Infra as e:
            vlib.log("harness part %s failed (%s); retrying once" % (os.path.basename(fn), str(e)[:160].replace("\n", " ")))
            vlib.run_harness(binary, ["-in", fn, "-out", out, "-watchdog", "600"], timeout=6000)
        return out
    with concurrent.futures.ThreadPoolExecutor(max_workers=parts) as ex:
        traces = list(ex.map(one, files))
    trace = st_cluster.merge(ctx, traces, "rr-trace.ndjson")
    stats = st_cluster.account(ctx, trace, nontrivial_fn=lambda sc, body: any(x["ev"] == "Evict" for x in body))
    ctx.stage("reclaimrules-real-runs", exported_initial_states=total, run=len(models), **stats)
    vlib.validate_traces_parallel(ctx, st_cluster.MODULE, trace, st_cluster.invariants(prefixes), tuple(prefixes), chunks=8, timeout=3000, heap="10g", sig_detail=st_cluster.sig_detail)
