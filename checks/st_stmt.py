"""Stmt stage shared by C13 (transactional what-if simulations) and C14 (accounting = truth,
workload / queue part at statement level).

 1. TLC model-checks spec/Stmt.tla exhaustively on small scenarios (design check of the
    transcription of statement.go against C13_* / C14_*; a counterexample here is a prediction).
 2. TLC exports every transition of that state graph as a labelled path from Init
    (ACTION_CONSTRAINT PathOut); harness/cmd/stmt executes the paths on a REAL Statement of a REAL
    Session (real snapshot, real plugins, recording Cache) and records ndjson traces; it also
    generates seeded random well-formed programs much longer than TLC's bound.
 3. TLC validates the traces with spec/StmtTrace.tla: C13_* / C14_* are evaluated on the REAL logged
    projections only (verdicts), D_* compare the model's prediction with the real state (drift).
"""
import json
import os
import re

import vlib

MODULE = "Stmt"
TRACE = "StmtTrace"


# ------------------------------------------------------------------------------------------------
# scenarios (single source of truth for TLC constants and the harness)
# ------------------------------------------------------------------------------------------------
def pod(job, kind, cpu, st="Pending", node="", groups=(), gpu=1, frac=500):
    if kind == "whole":
        return dict(job=job, kind="whole", gpu=gpu, gq=1000 * gpu, mem=0, cpu=cpu, st=st, node=node, groups=list(groups))
    return dict(job=job, kind="frac", gpu=0, gq=frac, mem=frac // 10, cpu=cpu, st=st, node=node, groups=list(groups))


def scenario(nodes, queues, jobs, pods, groups):
    for i, p in enumerate(sorted(pods)):
        pods[p]["ord"] = i + 1
    return dict(nodes=nodes, queues=queues, jobs=jobs, pods=pods, groups=list(groups))


QUEUES = {"d": dict(parent=""), "q1": dict(parent="d"), "q2": dict(parent="d")}

# A: whole-GPU pods only. gang j1 (min 2 of 3, one running) + single j2 (non-preemptible) running.
SCN_WHOLE = scenario(
    nodes={"n1": dict(gpu=2, cpu=4000), "n2": dict(gpu=1, cpu=4000)},
    queues=QUEUES,
    jobs={"j1": dict(queue="q1", np=0, min=2), "j2": dict(queue="q2", np=1, min=1)},
    pods={"p1": pod("j1", "whole", 1000, "Running", "n1"), "p2": pod("j1", "whole", 1000), "p3": pod("j1", "whole", 1000),
          "p4": pod("j2", "whole", 1000, "Running", "n2")},
    groups=["g1"])

# B: shared GPUs. gang j1 (min 2 of 3: one whole running, one whole pending, one fractional pending)
# + fractional single j2 running on group g1 of n1.
SCN_FRAC = scenario(
    nodes={"n1": dict(gpu=2, cpu=4000), "n2": dict(gpu=1, cpu=4000)},
    queues=QUEUES,
    jobs={"j1": dict(queue="q1", np=0, min=2), "j2": dict(queue="q2", np=1, min=1)},
    pods={"p1": pod("j1", "whole", 1000, "Running", "n1"), "p2": pod("j1", "whole", 1000), "p3": pod("j1", "frac", 500),
          "p4": pod("j2", "frac", 500, "Running", "n1", ["g1"])},
    groups=["g1", "g2", "g3"])


def tla(v):
    """python value -> TLA+ expression"""
    if isinstance(v, bool):
        return "TRUE" if v else "FALSE"
    if isinstance(v, int):
        return str(v)
    if isinstance(v, str):
        return json.dumps(v)
    if isinstance(v, (list, tuple)):
        return "<<" + ", ".join(tla(x) for x in v) + ">>"
    if isinstance(v, dict):
        assert v, "empty record"
        return "[" + ", ".join("%s |-> %s" % (k, tla(x)) for k, x in v.items()) + "]"
    raise TypeError(v)


def model_invariants(prefixes):
    out = []
    for pre in prefixes:
        out += vlib.spec_defs(MODULE, pre)
    return out


ACTION_PROPS = {"C13_Rollback", "C13_Discard"}
