"""Stmt stage shared by C13 (transactional what-if simulations) and C14 (accounting = truth,
workload / queue part at statement level).

 1. TLC model-checks spec/Stmt.tla exhaustively on small scenarios (design check of the
    transcription of statement.go against C13_* / C14_*; a counterexample here is a prediction).
 2. TLC exports every transition of that state graph as a labelled path from Init
    (ACTION_CONSTRAINT PathOut); harness/cmd/stmt executes the paths on a REAL Statement of a REAL
    Session (real snapshot, real plugins, recording Cache) and records ndjson traces; it also
    generates seeded random well-formed programs much longer than TLC's bound.
 3. TLC validates the traces with spec/StmtTrace.tla: C13_* / C14_* are evaluated on the REAL logged
    projections only (verdicts), D_* compare the model's prediction with the real state (drift).

A violation's signature is "<predicate> [<risk features seen in the program prefix>]" plus, for the
rollback / discard predicates, " diff=<kinds of fields that were not restored>" (C13_RollbackObs / C13_DiscardObs:
pods, nodes, workloads, queues; C13_ClaimsObs: the resource-claim part, also after an un-eviction).

Scenario D (and the random generator's extra clusters) publish GPUs as DRA devices and give every pod a
ResourceClaim: harness/cmd/stmt/dra.go builds the resource.k8s.io/v1 objects and projects what the session believes
about claims (the pod's own record, the DRA manager's claim, the devices counted as in use) into every logged state.
"""
import json
import os
import random
import re

import vlib

MODULE = "Stmt"
TRACE = "StmtTrace"


# ------------------------------------------------------------------------------------------------
# scenarios (single source of truth for TLC constants and the harness)
# ------------------------------------------------------------------------------------------------
def pod(job, kind, cpu, st="Pending", node="", groups=(), gpu=1, frac=500, mem=0):
    """kind: whole (gpu devices) | frac (gpu-fraction annotation, frac/1000 of a device) | mem (gpu-memory annotation, MiB)"""
    if kind == "whole":
        return dict(job=job, kind="whole", gpu=gpu, gq=1000 * gpu, mem=0, cpu=cpu, st=st, node=node, groups=list(groups))
    if kind == "mem":
        return dict(job=job, kind="mem", gpu=0, gq=0, mem=mem, cpu=cpu, st=st, node=node, groups=list(groups))
    return dict(job=job, kind="frac", gpu=0, gq=frac, mem=0, cpu=cpu, st=st, node=node, groups=list(groups))


def claim_pod(job, cpu, claim, pcn=None, st="Pending", node="", dev=-1):
    """a pod that requests its GPU through ONE DRA ResourceClaim object `claim` (one device of the GPU device class);
    pcn = name of the entry in pod.spec.resourceClaims (the key of the scheduler's per-pod bookkeeping): it differs
    from the object's name when the claim was generated from a ResourceClaimTemplate. dev = index of the device of
    `node` the claim is allocated to and reserved for the pod (Running pods). In the model: a whole-GPU pod."""
    p = pod(job, "whole", cpu, st, node)
    p.update(claim=claim, pcn=pcn or claim, dev=dev)
    return p


def scenario(nodes, queues, jobs, pods, groups):
    for i, p in enumerate(sorted(pods)):
        pods[p]["ord"] = i + 1
        pods[p].setdefault("claim", "")  # no resource claim
        pods[p].setdefault("pcn", "")
        pods[p].setdefault("dev", -1)
    for n in nodes.values():
        n.setdefault("gmem", 100)       # no nvidia.com/gpu.memory label: the code's default of 100 units per device
        n.setdefault("dra", 0)          # > 0: the node's GPUs are DRA devices (a ResourceSlice), not an extended resource
    return dict(nodes=nodes, queues=queues, jobs=jobs, pods=pods, groups=list(groups))


QUEUES = {"d": dict(parent=""), "q1": dict(parent="d"), "q2": dict(parent="d")}

# A: whole-GPU pods only. gang j1 (min 2 of 3, one running) + single j2 (non-preemptible) running.
SCN_WHOLE = scenario(
    nodes={"n1": dict(gpu=2, cpu=4000), "n2": dict(gpu=1, cpu=4000)},
    queues=QUEUES,
    jobs={"j1": dict(queue="q1", np=0, min=2), "j2": dict(queue="q2", np=1, min=1)},
    pods={"p1": pod("j1", "whole", 1000, "Running", "n1"), "p2": pod("j1", "whole", 1000), "p3": pod("j1", "whole", 1000),
          "p4": pod("j2", "whole", 1000, "Running", "n2")},
    groups=["g1"])

# B: shared GPUs. gang j1 (min 2 of 3: one whole running, one whole pending, one fractional pending)
# + fractional single j2 running on group g1 of n1.
SCN_FRAC = scenario(
    nodes={"n1": dict(gpu=2, cpu=4000), "n2": dict(gpu=1, cpu=4000)},
    queues=QUEUES,
    jobs={"j1": dict(queue="q1", np=0, min=2), "j2": dict(queue="q2", np=1, min=1)},
    pods={"p1": pod("j1", "whole", 1000, "Running", "n1"), "p2": pod("j1", "whole", 1000), "p3": pod("j1", "frac", 500),
          "p4": pod("j2", "frac", 500, "Running", "n1", ["g1"])},
    groups=["g1", "g2", "g3"])

# C: two sharers on one GPU + a really terminating pod + a pending whole-GPU pod (thorough tier)
SCN_SHARE = scenario(
    nodes={"n1": dict(gpu=2, cpu=4000), "n2": dict(gpu=2, cpu=4000)},
    queues=QUEUES,
    jobs={"j1": dict(queue="q1", np=0, min=1), "j2": dict(queue="q2", np=1, min=1), "j3": dict(queue="q1", np=0, min=1)},
    pods={"p1": pod("j1", "frac", 500, "Running", "n1", ["g1"], frac=250), "p2": pod("j2", "frac", 500, "Running", "n1", ["g1"]),
          "p3": pod("j3", "whole", 1000), "p4": pod("j3", "whole", 1000, "Releasing", "n2"), "p5": pod("j1", "frac", 500)},
    groups=["g1", "g2", "g3"])


# M: gpu-memory requests on nodes whose devices have different memory sizes (the accepted GPU quota, which the
# queues are charged with, depends on the node: 4000 MiB is half a device on n1 and a quarter on n2)
SCN_MEM = scenario(
    nodes={"n1": dict(gpu=2, cpu=4000, gmem=8000), "n2": dict(gpu=2, cpu=4000, gmem=16000)},
    queues=QUEUES,
    jobs={"j1": dict(queue="q1", np=0, min=1), "j2": dict(queue="q2", np=1, min=1)},
    pods={"p1": pod("j1", "mem", 1000, "Running", "n1", ["g1"], mem=4000), "p2": pod("j1", "mem", 1000, mem=2000),
          "p3": pod("j2", "frac", 500, "Running", "n2", ["g2"]), "p4": pod("j2", "whole", 1000)},
    groups=["g1", "g2", "g3"])


# D: GPUs published as DRA devices (2 nodes x 3 devices), every pod asks for its GPU through a ResourceClaim of its own.
# gang j1 (min 2 of 3): p1 running on n1 device 1 (device 0 - the one the allocator would pick first - and device 2
# are free) with a template-generated claim (pod-level name "gpu" != object name), p2 pending with a template-generated
# claim, p3 pending with a directly named claim; single j2 (non-preemptible): p4 running on n2 device 2 with a directly
# named claim.
SCN_DRA = scenario(
    nodes={"n1": dict(gpu=3, cpu=4000, dra=3), "n2": dict(gpu=3, cpu=4000, dra=3)},
    queues=QUEUES,
    jobs={"j1": dict(queue="q1", np=0, min=2), "j2": dict(queue="q2", np=1, min=1)},
    pods={"p1": claim_pod("j1", 1000, "p1-gpu-x7k2q", "gpu", "Running", "n1", 1),
          "p2": claim_pod("j1", 1000, "p2-gpu-m4c9z", "gpu"),
          "p3": claim_pod("j1", 1000, "p3-claim"),
          "p4": claim_pod("j2", 1000, "p4-claim", None, "Running", "n2", 2)},
    groups=["g1"])


def tla(v):
    """python value -> TLA+ expression"""
    if isinstance(v, bool):
        return "TRUE" if v else "FALSE"
    if isinstance(v, int):
        return str(v)
    if isinstance(v, str):
        return json.dumps(v)
    if isinstance(v, (list, tuple)):
        return "<<" + ", ".join(tla(x) for x in v) + ">>"
    if isinstance(v, dict):
        assert v, "empty record"
        return "[" + ", ".join("%s |-> %s" % (k, tla(x)) for k, x in v.items()) + "]"
    raise TypeError(v)


def model_invariants(prefixes):
    out = []
    for pre in prefixes:
        out += vlib.spec_defs(MODULE, pre)
    return out


ACTION_PROPS = {"C13_Rollback", "C13_Discard"}


# ------------------------------------------------------------------------------------------------
# model checking and export of behaviours
# ------------------------------------------------------------------------------------------------
def short_label(txt):
    m = dict(re.findall(r"(\w+) \|-> (\"[^\"]*\"|<<[^>]*>>|\w+)", txt))
    return "%s(%s)" % (m.get("n", "?").strip('"'),
                       ",".join(v.strip('"') for k, v in m.items() if k != "n" and v not in ('""', "<<>>", "0", "FALSE", "TRUE")))


def model_check(ctx, name, scn, bounds, prefixes, workers=None, timeout=2400, heap="6g"):
    """exhaustive TLC run of Stmt on one scenario: design check. A counterexample here is only a
    prediction (returned as list of violated names); the real code is judged by the traces."""
    d = vlib.prepare_spec_dir(ctx, "mc-" + name)
    consts = dict(bounds, Cfg=tla(scn))
    names = model_invariants(prefixes)
    invs = ["TypeOK"] + [n for n in names if n not in ACTION_PROPS]
    props = [n for n in names if n in ACTION_PROPS]
    predicted = []
    # TLC stops at the first violation: drop the violated predicate and repeat so that the graph is
    # explored completely at least once and every predicted violation is known.
    while True:
        mod, cfg = vlib.write_model(d, MODULE, "Stmt_mc", consts, spec="Spec", invariants=invs, properties=props, view="view")
        r = vlib.tlc(ctx, d, mod, cfg, workers=workers or min(vlib.NCPU, 8), timeout=timeout, heap=heap)
        if r.ok:
            ctx.add_tlc(r)
            ctx.stage("model-check-" + name, distinct=r.distinct, generated=r.generated, depth=r.depth, wall=round(r.wall, 1),
                      bounds=bounds, checked=invs + props, predicted_violations=predicted)
            return predicted
        if r.violated in invs:
            invs.remove(r.violated)
        elif r.violated in props:
            props.remove(r.violated)
        else:
            raise vlib.Infra("TLC: unexpected failure %s/%s on %s:\n%s" % (r.kind, r.violated, name, vlib.tail_errors(r.out)))
        labels = [re.sub(r"\s+", " ", m) for m in re.findall(r"^/\\ act = (\[.*?\])\s*$", "\n".join(r.trace_states), re.M | re.S)]
        predicted.append(r.violated)
        vlib.log("model-level counterexample for %s on %s (prediction only, %d states): %s" % (
            r.violated, name, len(r.trace_states), " ; ".join(short_label(x) for x in labels)[:1500]))


def compact(l):
    out = {"n": l["n"]}
    for k in ("p", "node", "j"):
        if l.get(k):
            out[k] = l[k]
    if l["n"] in ("Pipeline", "Allocate"):
        out["g"] = l.get("g", [])
    if l["n"] == "Pipeline":
        out["upd"] = bool(l.get("upd"))
    if l["n"] == "Rollback":
        out["cp"] = l.get("cp", 0)
    if l["n"] == "CommitStep":
        out["ok"] = bool(l.get("ok"))
    return out


def export_paths(ctx, name, scn, bounds, timeout=2400, heap="6g"):
    """every transition of the state graph as a labelled path from Init (BFS tree path + the edge)."""
    d = vlib.prepare_spec_dir(ctx, "gen-" + name)
    consts = dict(bounds, Cfg=tla(scn))
    mod, cfg = vlib.write_model(d, MODULE, "Stmt_gen", consts, spec="Spec", action_constraints=["PathOut"], view="view")
    r = vlib.tlc(ctx, d, mod, cfg, workers=1, timeout=timeout, heap=heap)
    if not r.ok:
        raise vlib.Infra("path export failed on %s:\n%s" % (name, vlib.tail_errors(r.out)))
    paths = set()
    for line in r.out.splitlines():
        if line.startswith('"PATH '):
            labels = json.loads(json.loads(line)[5:])
            paths.add(tuple(json.dumps(compact(l), sort_keys=True) for l in labels))
    if not paths:
        raise vlib.Infra("TLC exported no paths for %s" % name)
    prefixes = set()
    for p in paths:
        for k in range(1, len(p)):
            prefixes.add(p[:k])
    leaves = sorted(p for p in paths if p not in prefixes)
    ctx.stage("export-" + name, transitions=len(paths), maximal_paths=len(leaves), distinct=r.distinct, wall=round(r.wall, 1))
    return len(paths), leaves


def replay_paths(ctx, binary, name, scn, leaves):
    cfgp = os.path.join(ctx.scratch, "cfg-%s.json" % name)
    with open(cfgp, "w") as f:
        json.dump(scn, f)
    progp = os.path.join(ctx.scratch, "prog-%s.ndjson" % name)
    with open(progp, "w") as f:
        for i, p in enumerate(leaves):
            f.write(json.dumps({"id": "%s-%d" % (name, i), "class": "tlc-" + name, "prog": [json.loads(x) for x in p]}) + "\n")
    trace = os.path.join(ctx.scratch, "trace-%s.ndjson" % name)
    p = vlib.run_harness(binary, ["-cfg", cfgp, "-in", progp, "-out", trace])
    ctx.stage("replay-" + name, programs=len(leaves), out=p.stdout.strip())
    return trace


# ------------------------------------------------------------------------------------------------
# trace validation (own driver: the C13_/C14_ predicates are evaluated by TLC in every state of every
# scenario and reported as VIOL lines, so that one genuine defect that shows in hundreds of programs
# costs one TLC run; the signature of a violation names what led to it)
# ------------------------------------------------------------------------------------------------
TV_CONSTS = dict(Cfg="0", MaxOps="0", MaxFail="0", MaxStmts="0")



def features(prefix):
    """risk features of a trace prefix (Scenario event first)."""
    f = set()
    state = prefix[0].get("state")
    cfg = prefix[0].get("cfg", {})
    for e in prefix[1:]:
        if e["ev"] == "Call" and e["op"] == "Pipeline" and state is not None:
            on = state["nodes"].get(e["node"], {}).get("pods", {}).get(e["p"], {})
            if cfg.get("pods", {}).get(e["p"], {}).get("kind") in ("frac", "mem") and on.get("st", "none") != "none" and on.get("groups") != e["g"]:
                f.add("movegpu")          # an evicted shared pod re-nominated onto another GPU of its node (finding F14)
        if e["ev"] == "Call" and e["op"] == "Convert":
            f.add("convert")
        if e["ev"] == "Cache" and e["ok"] == 0:
            f.add(e["c"] + "fail")        # bindfail / evictfail
        if e["ev"] == "H" and e["h"] == "evict" and cfg.get("pods", {}).get(e["p"], {}).get("claim"):
            f.add("reevictclaim")         # the eviction of a pod with a resource claim is REDONE (undo of its un-eviction) inside Rollback / Discard / Commit
        if "state" in e:
            state = e["state"]
            held = {}
            for v in state.get("claims", {}).get("pods", {}).values():
                for d in v["odev"]:
                    held.setdefault(d, set()).add(v["obj"])
            if any(len(o) > 1 for o in held.values()):
                f.add("twoclaimsonedevice")  # two ResourceClaim objects are allocated the same device (un-eviction onto a device that was given away)
            for nd in state["nodes"].values():
                if any(v["st"] == "Pipelined" for v in nd["pods"].values()) and any(x != 0 for x in nd["um"].values()):
                    f.add("pipeonshared")  # a nominated pod on a node that has shared GPUs (finding F23)
    return sorted(f)


def _flat(d, pre=""):
    out = {}
    if isinstance(d, dict):
        for k, v in d.items():
            out.update(_flat(v, pre + "." + k if pre else k))
    else:
        out[pre] = json.dumps(d)
    return out


def diff_classes(prefix, claims=False):
    """for a prefix that ends with Rollback / Discard: which kinds of fields differ between the real state logged
    after it and the real state logged at the checkpoint (names of nodes / pods / workloads / queues removed).
    claims: the resource-claim part of the state (C13_ClaimsObs; also after an un-eviction: the pod's part against the
    state logged before its latest eviction) instead of the pods / nodes / workloads / queues part."""
    cps = {0: prefix[0]["state"]}
    last, ref = None, None
    evb, before = {}, prefix[0]["state"]
    for e in prefix[1:]:
        if e["ev"] != "Call":
            before = e.get("state", before)
            continue
        if e["op"] == "Evict" and e["err"] == 0:
            evb[e["p"]] = before
        before = e.get("state", before)
        last = e
        if e["op"] in ("Discard", "CommitEnd"):
            ref = cps.get(0)
            cps = {0: e["state"]}
        elif e["op"] == "Rollback":
            ref = cps.get(e["cp"])
        else:
            ref = None
            cps[e["cp"] if e["op"] == "Checkpoint" else len(e["ops"])] = e["state"]
    if claims and last is not None and last["op"] in ("Unevict", "Pipeline") and last["p"] in evb:
        a, b = (_flat({"claims": {"pods": {last["p"]: st["claims"]["pods"].get(last["p"], {})}}}) for st in (evb[last["p"]], last["state"]))
    elif last is None or last["op"] not in ("Rollback", "Discard") or ref is None:
        return []
    else:
        a, b = _flat(ref), _flat(last["state"])
    out = set()
    for k in a:
        if a[k] == b.get(k):
            continue
        parts = k.split(".")
        if (parts[0] == "claims") != claims:
            continue
        if parts[0] == "pods" and parts[-1] == "groups":
            stk = ".".join(parts[:-1] + ["st"])
            if json.loads(a[stk]) == "Pending" and json.loads(b.get(stk, '""')) == "Pending":
                continue
        if parts[0] == "pods" and parts[-1] == "acc":
            stk = ".".join(parts[:-1] + ["st"])
            held = ("Allocated", "Pipelined", "Binding", "Bound", "Running")
            if json.loads(a[stk]) not in held and json.loads(b.get(stk, '""')) not in held:
                continue
        out.add(".".join(parts[:2 if claims else 1] + [x for x in parts[2:] if not re.fullmatch(r"[pgnjqd]\d+", x)]))
    return sorted(out)


def program_of(events):
    """labels of the program a trace was recorded from (for replay on the current tree)."""
    prog = []
    for e in events[1:]:
        if e["ev"] == "Call":
            op = e["op"]
            if op in ("CommitEnd", "CommitBegin"):
                prog.append({"n": op})
            else:
                prog.append(compact({"n": op, "p": e["p"], "node": e["node"], "j": e["j"], "g": e["g"], "upd": e["upd"] == 1, "cp": e["cp"]}))
        elif e["ev"] == "Cache":
            prog.append({"n": "CommitStep", "p": e["p"], "ok": e["ok"] == 1})
    return prog


def describe(events, limit=40):
    out = []
    for e in events[1:]:
        if e["ev"] == "Call":
            a = [str(e[k]) for k in ("p", "node", "j") if e.get(k)]
            if e["op"] in ("Pipeline", "Allocate") and e["g"]:
                a.append("gpu=" + "/".join(e["g"]))
            if e["op"] == "Pipeline":
                a.append("upd=%d" % e["upd"])
            if e["op"] == "Rollback":
                a.append("cp=%d" % e["cp"])
            out.append("%s(%s)%s" % (e["op"], ",".join(a), " ERR" if e["err"] else ""))
        elif e["ev"] == "Cache":
            out.append("  Cache.%s(%s)%s" % (e["c"], e["p"], "" if e["ok"] else " FAILS"))
        elif e["ev"] == "H":
            out.append("  [%s %s]" % (e["h"], e["p"]))
    if len(out) > limit:
        out = out[:3] + ["... %d steps ..." % (len(out) - limit + 3)] + out[-(limit - 3):]
    return "; ".join(out)


def validate(ctx, trace_path, prefixes, label, timeout=3000, heap="8g", per_signature=3):
    events = vlib.read_ndjson(trace_path)
    spans = vlib.scenario_index(events)
    if not spans:
        raise vlib.Infra("trace %s has no Scenario line" % trace_path)
    own = [n for pre in prefixes for n in vlib.spec_defs(TRACE, pre)]
    drift = vlib.spec_defs(TRACE, "D_")
    stop = "all" if len(prefixes) > 1 else prefixes[0].rstrip("_")
    spec_txt = open(os.path.join(vlib.SPEC, TRACE + ".tla")).read()
    missing = [n for n in own if 'Viol("%s"' % n not in spec_txt]
    if missing or not own:
        raise vlib.Infra("StmtTrace!Report does not evaluate %s" % (missing or prefixes))
    d = vlib.prepare_spec_dir(ctx, "tv-" + label)
    os.symlink(os.path.abspath(trace_path), os.path.join(d, "trace.ndjson"))
    mod, cfg = vlib.write_model(d, TRACE, TRACE + "_tv", dict(TV_CONSTS, StopOn=json.dumps(stop)), spec="TraceSpec",
                                constraints=["Report"])
    r = vlib.tlc(ctx, d, mod, cfg, workers=min(vlib.NCPU, 8), timeout=timeout, heap=heap)
    if not r.ok:
        raise vlib.Infra("TLC failed on trace validation %s:\n%s" % (label, vlib.tail_errors(r.out)))
    found = []
    # TLC wraps long tuples over several lines
    for m in re.finditer(r'<<\s*"VIOL",\s*"(\w+)",\s*(\d+),\s*(\d+)\s*>>', r.out):
        found.append((m.group(1), int(m.group(2)), int(m.group(3)), ""))
    for m in re.finditer(r'<<\s*"DRIFT",\s*"(\w+)",\s*(\d+),\s*(\d+),\s*"(.*?)"\s*>>', r.out, re.S):
        found.append((m.group(1), int(m.group(2)), int(m.group(3)), m.group(4)))
    missing_d = [n for n in drift if 'Drift("%s"' % n not in spec_txt]
    if missing_d:
        raise vlib.Infra("StmtTrace!Report does not evaluate %s" % missing_d)
    by_start = {s: e for (s, e) in spans}
    nviol = 0
    drifts = []
    viol = {}
    for name, l0, ln, dmsg in found:
        scen = events[l0 - 1:by_start[l0]]
        prefix = events[l0 - 1:ln - 1]
        if name in own:
            nviol += 1
            sig = "%s [%s]" % (name, ",".join(features(prefix)))
            if name in ("C13_RollbackObs", "C13_DiscardObs"):
                sig += " diff=" + ",".join(diff_classes(prefix))
            if name == "C13_ClaimsObs":
                sig += " diff=" + ",".join(diff_classes(prefix, claims=True))
            viol.setdefault(sig, []).append((len(prefix), name, scen, prefix))
        elif name.startswith("D_"):
            drifts.append("%s at step %d of program %s%s\nprogram prefix: %s" % (
                name, len(prefix) - 1, scen[0].get("id"), (" (" + dmsg + ")") if dmsg else "", describe(prefix)))
        # else: a predicate of the other property (judged by that property's check)
    for sig in sorted(viol):          # per signature: the shortest programs first, a few of each
        cases = sorted(viol[sig], key=lambda c: c[0])
        for (n, name, scen, prefix) in cases[:per_signature]:
            text = ("TLC: %s is FALSE on the real observation after step %d of program %s (%s); %d program(s) with this signature\n"
                    "program prefix: %s" % (name, n - 1, scen[0].get("id"), scen[0].get("class"), len(cases), describe(prefix)))
            ctx.violation(sig, text, {"module": TRACE, "invariant": name, "at_event": n, "cfg": scen[0]["cfg"],
                                      "prog": program_of(scen), "observed": prefix[-1].get("state") if n > 1 else None})
    ctx.add_tlc(r)
    ctx.add("traces_validated_against_impl", len(spans))
    ctx.add("trace_events_validated", len(events) - len(spans))
    ctx.stage("validate-" + label, scenarios=len(spans), events=len(events), property_violations=nviol,
              signatures={k: len(v) for k, v in viol.items()}, drift=len(drifts), wall=round(r.wall, 1))
    if drifts:
        raise vlib.Infra("specification drift (model of Stmt.tla and real code disagree) in %d scenario(s); first:\n%s" % (len(drifts), drifts[0]))
    return nviol


# ------------------------------------------------------------------------------------------------
# the stage
# ------------------------------------------------------------------------------------------------
RULE = ("programs = (a) every transition of the exhaustive TLC state graph of spec/Stmt.tla over the listed scenarios/bounds, "
        "each as a labelled path from Init (maximal paths: all of them for the small-scope configurations Ax / Bx / Dx / Mx, a seeded sample covering as many program shapes as the tier's cap allows for the larger ones; D* = GPUs as DRA devices, every pod with a ResourceClaim), and "
        "(b) seeded random well-formed programs from harness/cmd/stmt on random clusters (nested checkpoints, rollback, unevict, "
        "evict-then-pipeline of the same pod incl. to another GPU / node, gpu-fraction and gpu-memory pods on nodes whose devices "
        "have different memory sizes, clusters with DRA devices and resource claims, convert, several statements per session, commit with injected Bind/Evict failures); every program runs on a real Statement of a fresh real Session; non-trivial = the program "
        "contains a Rollback, Discard or Commit; distinct by (scenario, operation sequence)")

ASSUMPTIONS = [
    "GPU groups of a Pending pod are a caller scratch field (gpu_sharing assigns them before Allocate/Pipeline and nothing restores them): normalised to empty in the C13 comparison",
    "zero-valued entries of the per-GPU-group maps are equal to absent entries (group ids are fresh UUIDs in production)",
    "sessions come from the real snapshot of a real SchedulerCache on fake clientsets; only Session.Cache is wrapped (recording, failure injection); storage is not part of the scenarios",
    "resource claims: scenario D and two extra random clusters per run publish the nodes' GPUs as DRA devices (ResourceSlice per node, one DeviceClass, resource.k8s.io/v1 in the fake clientset; the scheduler cache enables DynamicResourceAllocation itself from the fake discovery data, the dynamicresources plugin is part of the default configuration) and every pod there has ONE ResourceClaim for one device, template-generated (pod-level name != object name) or directly named; shared claims, several claims per pod, really terminating claim pods and claims on clusters with device-plugin GPUs are not covered",
    "Stmt.tla treats a pod with a claim as a whole-GPU pod; the claim state itself (device, remembered allocation, reservedFor, devices in use) is judged on the real observations only (C13_ClaimsObs, C14_ClaimDevicesObs), nothing is normalised in that comparison",
    "a pod with a claim is put back on its node (Unevict, Pipeline onto its own node) only when the node passes the fit check the actions run first: idle or releasing resources and a device the DRA manager counts as free (random generator; in scenario D the node always has one)",
    "every program starts from the projection of the first session of its world: when a program leaves something behind in the shared scheduler cache (observed: DRA manager's in-use devices after a committed move of a claim pod to another node) the world is rebuilt (reported as worlds_rebuilt)",
    "Stmt.tla models the repaired behaviour for findings F14, F15, F21, F22 and for a Commit stopped by a failed bind (6091c57); the whole-device transfer heuristics of gpu_sharing_node_info.go (known finding F23) and the other oddities of statement.go are transcribed as they are",
    "un-evict is judged against the projection logged before the pod's latest Evict in the session; the phantom check compares the pods' virtual flags at Commit end with those at the statement's begin",
    "well-formed programs are those the actions can issue: Evict on Running pods, Allocate on Pending pods that fit idle resources, Pipeline on Pending or virtually evicted pods that fit idle+releasing resources, Convert on allocate-shaped statements, Rollback only to logged checkpoints",
    "TLC, CommunityModules Json and the harness projection (floats -> milli-units) are trusted",
]


def count_cases(ctx, trace_path, sample_every=499):
    events = vlib.read_ndjson(trace_path)
    n = 0
    for (s, e) in vlib.scenario_index(events):
        scen = events[s - 1:e]
        prog = program_of(scen)
        nontrivial = any(l["n"] in ("Rollback", "Discard", "CommitBegin") for l in prog)
        ctx.count_case([scen[0]["cfg"], prog], nontrivial)
        n += 1
        if nontrivial and n % sample_every == 1:
            last = [x for x in scen if "state" in x][-1]
            ctx.sample({"program": describe(scen, 30), "class": scen[0].get("class"),
                        "final_pod_statuses_from_real_code": {p: v["st"] for p, v in last["state"]["pods"].items()}})


def plans_for(ctx):
    if ctx.quick:
        # small scope, every maximal path executed (Ax, Bx, Dx); larger scope, a shape-covering sample (A, B, M)
        return ([("Ax", SCN_WHOLE, dict(MaxOps=2, MaxFail=1, MaxStmts=1), 10 ** 9),
                 ("Bx", SCN_FRAC, dict(MaxOps=2, MaxFail=1, MaxStmts=1), 10 ** 9),
                 ("Dx", SCN_DRA, dict(MaxOps=2, MaxFail=1, MaxStmts=1), 10 ** 9),
                 ("A", SCN_WHOLE, dict(MaxOps=4, MaxFail=1, MaxStmts=1), 450),
                 ("B", SCN_FRAC, dict(MaxOps=4, MaxFail=1, MaxStmts=1), 700),
                 ("M", SCN_MEM, dict(MaxOps=3, MaxFail=1, MaxStmts=1), 500)], 110, 50)
    # measured (TLC, 4 workers): A/6 67,073 distinct states 35 s; A2 41,468 / 37 s; B/5 69,769 / 43 s; C/4 47,602 / 33 s
    return ([("Ax", SCN_WHOLE, dict(MaxOps=3, MaxFail=1, MaxStmts=1), 10 ** 9),
             ("Bx", SCN_FRAC, dict(MaxOps=3, MaxFail=1, MaxStmts=1), 10 ** 9),
             ("Mx", SCN_MEM, dict(MaxOps=2, MaxFail=1, MaxStmts=1), 10 ** 9),
             ("Dx", SCN_DRA, dict(MaxOps=3, MaxFail=1, MaxStmts=1), 10 ** 9),
             ("D", SCN_DRA, dict(MaxOps=5, MaxFail=1, MaxStmts=1), 5000),
             ("A", SCN_WHOLE, dict(MaxOps=6, MaxFail=1, MaxStmts=1), 5000),
             ("A2", SCN_WHOLE, dict(MaxOps=3, MaxFail=2, MaxStmts=2), 5000),
             ("B", SCN_FRAC, dict(MaxOps=5, MaxFail=1, MaxStmts=1), 6000),
             ("C", SCN_SHARE, dict(MaxOps=4, MaxFail=1, MaxStmts=1), 5000),
             ("M", SCN_MEM, dict(MaxOps=4, MaxFail=1, MaxStmts=1), 5000)], 800, 100)


def shape_of(scn, path):
    """abstract shape of a program: operation kinds, which operations touch the same pod (pods renamed by kind and
    order of appearance), whether a placement goes to the pod's own node, checkpoints and commit outcomes - GPU
    group names and concrete pod / node names are dropped."""
    names = {}
    out = []
    for x in path:
        l = json.loads(x)
        t = [l["n"]]
        if l.get("p"):
            pd = scn["pods"][l["p"]]
            key = l["p"]
            if key not in names:
                names[key] = "%s-%s-%d" % (pd["kind"], pd["st"], len(names))
            t.append(names[key])
            if l["n"] in ("Pipeline", "Allocate"):
                t.append("own" if l.get("node") == pd["node"] else "other")
                t.append(len(l.get("g", [])))
        if l["n"] == "Pipeline":
            t.append(l.get("upd"))
        if l["n"] == "Rollback":
            t.append(l.get("cp"))
        if l["n"] == "CommitStep":
            t.append(l.get("ok"))
        out.append(tuple(t))
    return tuple(out)


def sample_by_shape(ctx, name, scn, leaves, cap, rnd):
    """a seeded sample of the maximal paths that covers as many program shapes as the cap allows: one path of every
    shape first (shapes in seeded random order), the rest drawn uniformly."""
    by = {}
    for p in leaves:
        by.setdefault(shape_of(scn, p), []).append(p)
    shapes = sorted(by)
    rnd.shuffle(shapes)
    chosen = [rnd.choice(by[sh]) for sh in shapes[:cap]]
    if len(chosen) < cap:
        rest = sorted(set(leaves) - set(chosen))
        chosen += rnd.sample(rest, min(cap - len(chosen), len(rest)))
    ctx.stage("sample-" + name, maximal_paths=len(leaves), shapes=len(shapes), replayed=len(chosen), shapes_covered=min(len(shapes), cap))
    return sorted(chosen)


def run_stage(ctx, prefixes):
    """C13 and/or C14 (workload/queue part) judged on statement-level traces of the real code."""
    binary = vlib.go_build("stmt")
    ctx.cov["rule"] = RULE
    for a in ASSUMPTIONS:
        if a not in ctx.assumptions:
            ctx.assumptions.append(a)
    rnd = random.Random(ctx.seed)
    plans, nrandom, rlen = plans_for(ctx)
    traces = []
    for name, scn, bounds, cap in plans:
        model_check(ctx, name, scn, bounds, prefixes)
        ntrans, leaves = export_paths(ctx, name, scn, bounds)
        if len(leaves) > cap:
            leaves = sample_by_shape(ctx, name, scn, leaves, cap, rnd)
        ctx.add("edges_replayed_on_impl", sum(len(p) for p in leaves))
        traces.append(replay_paths(ctx, binary, name, scn, leaves))
    rt = os.path.join(ctx.scratch, "trace-random.ndjson")
    p = vlib.run_harness(binary, ["-random", str(nrandom), "-seed", str(ctx.seed), "-len", str(rlen), "-out", rt])
    ctx.stage("random-programs", out=p.stdout.strip())
    traces.append(rt)
    # TLC validates the traces in batches cut at scenario boundaries (the whole batch is one TLA+ value in memory)
    limit = 60e6 if ctx.quick else 90e6
    k, size, out = 0, 0, None

    def close():
        nonlocal out, k, size
        if out is not None:
            out.close()
            validate(ctx, out.name, prefixes, "batch%d" % k)
            os.remove(out.name)
            out, k, size = None, k + 1, 0
    for t in traces:
        if os.path.getsize(t) == 0:
            continue
        count_cases(ctx, t)
        with open(t) as f:
            for line in f:
                if line.startswith('{"cfg"') and size > limit:     # a Scenario line (keys are sorted: cfg comes first)
                    close()
                if out is None:
                    out = open(os.path.join(ctx.scratch, "trace-batch-%d.ndjson" % k), "w")
                out.write(line)
                size += len(line)
    close()
    ctx.cov["exhaustive"] = False


def replay_one(ctx, obj, prefixes):
    """re-run one recorded program on the current tree and re-validate it."""
    binary = vlib.go_build("stmt")
    rep = obj["replay"]
    cfgp = os.path.join(ctx.scratch, "cfg.json")
    with open(cfgp, "w") as f:
        json.dump(rep["cfg"], f)
    progp = os.path.join(ctx.scratch, "prog.ndjson")
    with open(progp, "w") as f:
        f.write(json.dumps({"id": "replay", "class": "replay", "prog": rep["prog"]}) + "\n")
    trace = os.path.join(ctx.scratch, "trace.ndjson")
    vlib.run_harness(binary, ["-cfg", cfgp, "-in", progp, "-out", trace])
    validate(ctx, trace, prefixes, "replay")
