"""C11 - binding is all-or-nothing under any API failure or crash point.

 1. TLC model-checks spec/Binder.tla in c11 mode (one reconcile driver: reconcile -> Sync -> check point ->
    retry ...; one action per client call of Reconcile -> Bind -> (SyncForNode, ReserveGpuDevice per group,
    PreBind plugins, annotation patch, binding sub-resource) -> Rollback -> UpdateStatus) for the pod kinds
    whole GPU, fraction on a fresh / on an existing group, multi-fraction on two groups, DRA with one claim,
    with Fail(k) and Crash(k) enabled at EVERY call k: single faults and all pairs; invariants C11_*,
    temporal C11_Recoverable. A counterexample in the model is a prediction only.
 2. TLC exports every fault schedule; harness/cmd/binder executes them on the real BindRequestReconciler /
    Binder / resource reservation service / plugins (fault_enumeration flavour: every call index of every
    pod kind, Fail and Crash; quick: all single faults + a seeded sample of the pairs, thorough: all pairs),
    plus seeded random schedules (two pods, environment events).
 3. TLC (spec/BinderTrace.tla) binds the store projection recorded after every call to the spec state and
    evaluates the C11_* invariants on it; the call sequence is compared with the model as drift only.
"""
import json
import random

import st_binder as sb
import vlib

LEVEL = "model_checking"


def run(ctx):
    binary, dry = sb.build(ctx)
    invs = sb.invariants("C11_")
    ctx.cov["rule"] = ("schedules = every (pod kind, reconcile r, client call k, Fail|Crash) of the c11 driver of Binder.tla, single "
                       "faults and pairs (exported by TLC; quick: all singles + seeded sample of pairs), each followed by a fault-free "
                       "Sync, a check point and fault-free retries; + for every single-fault schedule that leaves the pod bound without a Succeeded request: "
                       "the recovery reconcile once per call index k with its k-th real call failing; + seeded random schedules; non-trivial = at least one fault; "
                       "distinct by (configuration, fault points)")
    ctx.assumptions += [
        "crash model: the call is performed, then every in-flight actor is abandoned (none of its later calls reaches the store) and a fresh reconciler/binder/service/plugins instance is used; only the store survives; after a crash the binder's start-up Sync runs",
        "fail model: the call is not performed and an error is returned (an applied-but-reported-as-failed call is not modelled)",
        "the controller-runtime fake client + a client-go fake clientset (ResourceClaims) stand in for the API server; the harness plays the binding sub-resource (rejects a second binding), the reservation pod (GPU-index annotation at watch time, fresh index per reservation pod) and the spec.nodeName / metadata.name field selectors",
        "all-or-nothing is judged per concluded attempt against the store at the start of that attempt; a cleanup call that was itself failed by injection excuses its own side object; a leftover received-resource-type annotation and PodBound condition on an unbound pod are tolerated",
        "pods have no volumes (the volume-binding plugin is skipped as for any pod without PVCs); one node, <= 2 GPU groups, DRA: one claim",
    ]
    single = dict(MaxFail=1, MaxCrash=1, MaxFaults=1, MaxRec=5)
    pairs = dict(MaxFail=2, MaxCrash=2, MaxFaults=2, MaxRec=5)
    _, pred1 = sb.model_check(ctx, "c11-single", sb.consts("c11", sb.C11_KINDS, **single), invs, props=["C11_Recoverable"])
    _, pred2 = sb.model_check(ctx, "c11-pairs", sb.consts("c11", sb.C11_KINDS, **pairs), invs, timeout=2400, skip=pred1)
    scheds, model_k = sb.export_c11(ctx, sb.C11_KINDS, 1, 5, "single")
    kdrift = sb.check_K(ctx, dry, model_k)
    if ctx.quick:
        more, _ = sb.export_c11(ctx, ["whole", "dra", "fracx"], 2, 5, "pairs")
        more = [s for s in more if s["nfaults"] == 2]
        rnd = random.Random(ctx.seed)
        rnd.shuffle(more)
        scheds += more[:260]
        nrandom = 150
    else:
        more, _ = sb.export_c11(ctx, sb.C11_KINDS, 2, 5, "pairs")
        scheds += [s for s in more if s["nfaults"] == 2]
        nrandom = 3000
    sb.account(ctx, scheds)
    t1 = sb.run(ctx, binary, scheds, "c11")
    t2 = sb.run(ctx, binary, [], "random", extra=["-random", str(nrandom), "-seed", str(ctx.seed),
                                                  "-kmax", json.dumps({k: v["K"] for k, v in dry.items()})])
    probes = sb.bound_probes(t1)
    if not probes:
        raise vlib.Infra("no schedule left the pod bound without a Succeeded request: the already-bound probes are vacuous")
    ctx.stage("bound-probes", schedules=len(probes))
    t3 = sb.run(ctx, binary, probes, "bound")
    for t in (t1, t3, t2):
        sb.validate(ctx, t, "C11_")
    if kdrift:
        raise vlib.Infra(kdrift)
    ctx.cov["edges_replayed_on_impl"] = len(scheds) + len(probes)
    ctx.cov["exhaustive"] = not ctx.quick
    ctx.cov["model_predictions"] = sorted(set(pred1 + pred2))


def replay(ctx, obj):
    sb.replay(ctx, obj, "C11_")
