"""Shared stages of the Binder module (C11, C17): spec/Binder.tla, spec/BinderTrace.tla, harness/cmd/binder.

 model_check   TLC, exhaustive: c11 mode = one reconcile driver with Fail/Crash at every client call
               (single faults, pairs), c17 mode = concurrent reconciles / handlers / syncs / env events.
 export_c11    TLC prints every fault schedule of the c11 driver (hist = the faults of the behaviour).
 export_c17    TLC -simulate prints histories of the c17 environment (labels of every step).
 directed_c17  single-preemption interleavings of two actors (every preemption point) + pod life cycle.
 run           the schedules are executed on the REAL binder code by harness/cmd/binder.
 validate      TLC (BinderTrace) binds the store projection of every recorded event to the spec state and
               evaluates the Cxx_ invariants on it; every FALSE is reported through a PrintT line, so one TLC run
               reports all violating scenarios (vlib.validate_traces needs one TLC run per violating
               scenario, too slow for fault enumeration); drift (D_) -> Infra, after the violations.
"""
import json
import os
import random
import re
import time

import vlib

MODULE = "Binder"
TRACE = "BinderTrace"

CFGS = {
    "whole": {"kinds": ["whole", "none", "none"], "grps": [[], [], []]},
    "fracn": {"kinds": ["frac", "none", "none"], "grps": [[1], [], []]},
    "fracx": {"kinds": ["frac", "none", "cons"], "grps": [[1], [], [1]]},
    "multi": {"kinds": ["multi", "none", "cons"], "grps": [[1, 2], [], [1]]},
    "multin": {"kinds": ["multi", "none", "none"], "grps": [[1, 2], [], []]},
    "dra": {"kinds": ["dra", "none", "none"], "grps": [[], [], []]},
    "pairn": {"kinds": ["frac", "frac", "none"], "grps": [[1], [1], []]},
    "pairx": {"kinds": ["frac", "frac", "cons"], "grps": [[1], [1], [1]]},
    "pairm": {"kinds": ["multi", "frac", "cons"], "grps": [[1, 2], [2], [1]]},
}
C11_KINDS = ["whole", "fracn", "fracx", "multi", "dra"]
TEMPORAL = {"C11_Recoverable"}


def cfg_key(c):
    return json.dumps({"kinds": c["kinds"], "grps": c["grps"]}, sort_keys=True)


CFG_NAME = {cfg_key(c): n for n, c in CFGS.items()}


def tla_seq(xs):
    return "<<" + ", ".join(xs) + ">>"


def tla_cfg(c):
    return "[kinds |-> %s, grps |-> %s]" % (tla_seq('"%s"' % k for k in c["kinds"]),
                                            tla_seq(tla_seq(str(g) for g in gs) for gs in c["grps"]))


def consts(mode, cfgnames, **kw):
    c = dict(Mode='"%s"' % mode, Configs="{" + ", ".join(tla_cfg(CFGS[n]) for n in cfgnames) + "}",
             MaxFail=0, MaxCrash=0, MaxFaults=0, MaxRec=0, MaxEnv=0, MaxSync=0, MaxConc=1, MaxHist=0)
    c.update(kw)
    return c


TRACE_CONSTS = consts("trace", [])


def invariants(prefix):
    return [x for x in vlib.spec_defs(MODULE, prefix) if x not in TEMPORAL]


# ----------------------------------------------------------------------------------------------
# build + dry run
# ----------------------------------------------------------------------------------------------
def build(ctx):
    binary = vlib.go_build("binder")
    p = vlib.run_harness(binary, ["-dry"], timeout=300)
    dry = json.loads(p.stdout.strip().splitlines()[-1])
    ks = {k: v["K"] for k, v in dry.items()}
    ctx.stage("dry-run", K=ks)
    return binary, dry


# ----------------------------------------------------------------------------------------------
# TLC: exhaustive model check; a violated invariant in the model is a prediction (logged), it is
# removed and the run repeated so that the remaining invariants are checked on the full state space
# ----------------------------------------------------------------------------------------------
def model_check(ctx, tag, cst, invs, props=(), timeout=1500, workers=None, heap="6g", skip=()):
    """skip: invariants already predicted to fail by a smaller run (not checked again)"""
    invs = [i for i in invs if i not in skip]
    predictions = list(skip)
    while True:
        d = vlib.prepare_spec_dir(ctx, "mc-" + tag)
        mod, cfg = vlib.write_model(d, MODULE, "B_mc", cst, spec="Spec" if props else None,
                                    init=None if props else "Init", next_=None if props else "Next",
                                    invariants=["TypeOK"] + invs, properties=list(props))
        r = vlib.tlc(ctx, d, mod, cfg, workers=workers or min(vlib.NCPU, 6), timeout=timeout, heap=heap)
        if r.ok:
            ctx.add_tlc(r)
            ctx.stage("model-check-" + tag, distinct=r.distinct, generated=r.generated, depth=r.depth, wall=round(r.wall, 1),
                      invariants=len(invs), predicted_violations=predictions)
            return r, predictions
        if r.kind == "invariant" and r.violated in invs and len(predictions) < 10:
            vlib.log("model-level counterexample for %s in %s (a prediction; the real code decides)" % (r.violated, tag))
            predictions.append(r.violated)
            invs.remove(r.violated)
            continue
        raise vlib.Infra("TLC model check %s: %s %s\n%s" % (tag, r.kind, r.violated, vlib.tail_errors(r.out)[:3000]))


# ----------------------------------------------------------------------------------------------
# TLC -> schedules
# ----------------------------------------------------------------------------------------------
def point(f):
    pc = f.get("pc", "")
    if pc.startswith("RV_"):
        pc += str(f.get("gi", ""))
    elif f.get("g"):
        pc += "g%d" % f["g"]
    return "%s@%s/%s:%s" % ({"fail": "Fail", "crash": "Crash"}[f["res"]], f["verb"], f["kind"], pc)


def sched_c11(cfgname, faults, nrec, cls="c11"):
    """reconcile (with the faults of that round) -> Sync -> check, nrec times, then final"""
    steps = []
    for r in range(1, nrec + 1):
        st = {"n": "run", "acts": [{"i": 1, "a": 1, "t": "rec", "p": 1, "e": ""}]}
        fs = [{"a": 1, "k": f["k"], "f": f["res"]} for f in faults if f["r"] == r]
        if fs:
            st["faults"] = fs
        steps += [st, {"n": "run", "acts": [{"i": 1, "a": 3, "t": "sync", "p": 0, "e": ""}]}, {"n": "check"}]
    steps.append({"n": "final"})
    fid = "-".join("%d.%d.%s" % (f["r"], f["k"], f["res"]) for f in faults) or "none"
    return {"id": "%s-%s" % (cfgname, fid), "class": cls, "cfg": CFGS[cfgname], "steps": steps,
            "sig": "kind=%s fault=%s" % (cfgname, "+".join(point(f) for f in faults) or "none"),
            "expect": [[f["r"], f["k"], f["verb"], f["kind"], f["res"]] for f in faults],
            "nfaults": len(faults)}


def tlc_lines(out, tag):
    for line in out.splitlines():
        if line.startswith('"' + tag + " "):
            yield json.loads(json.loads(line)[len(tag) + 1:])


def export_c11(ctx, cfgnames, maxfaults, maxrec, tag):
    d = vlib.prepare_spec_dir(ctx, "gen-" + tag)
    open(os.path.join(d, "trace.ndjson"), "w").write('{"ev":"none"}\n')
    cst = consts("c11", cfgnames, MaxFail=maxfaults, MaxCrash=maxfaults, MaxFaults=maxfaults, MaxRec=maxrec, MaxHist=maxfaults + 1)
    mod, cfg = vlib.write_model(d, TRACE, "B_gen", cst, init="GenInit", next_="GenNext", invariants=["Emit11"])
    r = vlib.tlc(ctx, d, mod, cfg, workers=1, timeout=3000, heap="6g")
    if not r.ok:
        raise vlib.Infra("TLC export failed:\n" + vlib.tail_errors(r.out)[:3000])
    seen, out, k1 = set(), [], {}
    for o in tlc_lines(r.out, "SCHED"):
        name = CFG_NAME[cfg_key(o["cfg"])]
        key = (name, tuple((f["r"], f["k"], f["res"]) for f in o["faults"]))
        if key in seen:
            continue
        seen.add(key)
        if not o["faults"]:
            k1[name] = o["k1"]
        out.append(sched_c11(name, o["faults"], o["nrec"]))
    if not out:
        raise vlib.Infra("TLC exported no schedules")
    ctx.stage("export-" + tag, schedules=len(out), model_K=k1, tlc_distinct=r.distinct, wall=round(r.wall, 1))
    return out, k1


def conv_hist(cfgname, hist, n, cls):
    """labels of a c17 behaviour -> harness schedule (segments of concurrently running actor instances)"""
    steps, seg, inflight, calls, evs, waiting = [], None, {}, {}, [], set()
    for lab in hist:
        if lab["n"] == "start":
            if seg is None:
                seg = {"n": "run", "acts": [], "order": [], "faults": [], "envs": []}
            inst = len(seg["acts"]) + 1
            seg["acts"].append({"i": inst, "a": lab["a"], "t": lab["t"], "p": lab["p"], "e": lab["e"]})
            seg["order"].append(inst)
            calls[inst] = 0
            if lab["end"] == 0:
                inflight[lab["a"]] = inst
            evs.append(lab["e"] + "(%d)" % lab["p"] if lab["t"] == "hdl" else (lab["t"] + (str(lab["p"]) if lab["t"] == "rec" else "")))
        elif lab["n"] == "wait":
            inst = inflight.get(lab["a"])
            if inst is not None and seg is not None:
                seg["order"].append(inst)      # the lock request is granted while the mutex is taken: really blocks
                waiting.add(lab["a"])
        elif lab["n"] in ("call", "lock"):
            inst = inflight.get(lab["a"])
            if inst is None or seg is None:
                raise vlib.Infra("history: step of an actor that is not running: %s" % lab)
            if lab["n"] == "lock" and lab["a"] in waiting:
                waiting.discard(lab["a"])      # a waiter is woken by the release: no scheduling decision
            else:
                seg["order"].append(inst)
            if lab["n"] == "call":
                calls[inst] += 1
                if lab["res"] != "ok":
                    seg["faults"].append({"a": inst, "k": calls[inst], "f": lab["res"]})
                    evs.append(point(lab))
            if lab["end"] == 1:
                del inflight[lab["a"]]
            elif lab["end"] == 2:
                inflight.clear()
                waiting.clear()
        elif lab["n"] == "env":
            e = {"n": "env", "e": lab["e"], "p": lab["p"], "g": lab["g"]}
            evs.append("%s(%d)" % (lab["e"], lab["p"] or lab["g"]))
            if seg is None:
                steps.append(e)
            else:
                seg["envs"].append(e)
                seg["order"].append(-len(seg["envs"]))
        if seg is not None and not inflight:
            steps.append(seg)
            seg = None
    if seg is not None:
        steps.append(seg)
    steps += [{"n": "run", "acts": [{"i": 1, "a": 3, "t": "sync", "p": 0, "e": ""}]}, {"n": "check"}]
    return {"id": "%s-%s-%d" % (cls, cfgname, n), "class": cls, "cfg": CFGS[cfgname], "steps": steps,
            "sig": "kind=%s ev=%s" % (cfgname, ",".join(evs)), "nfaults": sum(1 for x in hist if x["n"] == "call" and x["res"] != "ok")}


def export_c17(ctx, cfgnames, num, tag, **budgets):
    d = vlib.prepare_spec_dir(ctx, "sim-" + tag)
    open(os.path.join(d, "trace.ndjson"), "w").write('{"ev":"none"}\n')
    cst = consts("c17", cfgnames, MaxHist=600, **budgets)
    mod, cfg = vlib.write_model(d, TRACE, "B_sim", cst, init="GenInit", next_="GenNext", invariants=["Emit17"])
    r = tlc_simulate(ctx, d, mod, cfg, num, 700)
    seen, out = set(), []
    for o in tlc_lines(r.out, "HIST"):
        key = json.dumps(o, sort_keys=True)
        if key in seen or not o["steps"]:
            continue
        seen.add(key)
        out.append(conv_hist(CFG_NAME[cfg_key(o["cfg"])], o["steps"], len(out), "c17sim"))
    if not out:
        raise vlib.Infra("TLC simulation exported no history")
    ctx.stage("export-" + tag, histories=len(out), wall=round(r.wall, 1))
    return out


def tlc_simulate(ctx, d, module, cfg, num, depth, timeout=1200):
    """`tlc -simulate num=N`: vlib.tlc only accepts the model-checking success message, so simulation runs are
    started here (same JVM flags); success = TLC reports the number of generated traces and no error."""
    import shutil
    import subprocess
    import tempfile
    import time
    meta = tempfile.mkdtemp(prefix="meta-", dir=d)
    cmd = ["java", "-XX:+UseParallelGC", "-Xmx4g", "-Xss256m", "-cp", vlib.TLA_CP, "tlc2.TLC", "-metadir", meta, "-workers", "1",
           "-config", cfg, "-simulate", "num=%d" % num, "-depth", str(depth), "-seed", str(ctx.seed), module]
    env = dict(os.environ)
    env.pop("JAVA_TOOL_OPTIONS", None)
    t = time.time()
    try:
        p = subprocess.run(cmd, cwd=d, stdout=subprocess.PIPE, stderr=subprocess.STDOUT, text=True, timeout=timeout, env=env)
    except subprocess.TimeoutExpired:
        raise vlib.Infra("TLC simulation timeout after %ds" % timeout)
    finally:
        shutil.rmtree(meta, ignore_errors=True)
    r = vlib.parse_tlc(p.stdout)
    r.wall = time.time() - t
    if r.violated or "Error:" in p.stdout or not re.search(r"(\d+) traces generated", p.stdout):
        raise vlib.Infra("TLC simulation failed:\n" + vlib.tail_errors(p.stdout)[:3000])
    return r


def act(i, a, t, p=0, e=""):
    return {"i": i, "a": a, "t": t, "p": p, "e": e}


def run1(*acts, **kw):
    st = {"n": "run", "acts": list(acts)}
    st.update(kw)
    return st


def lifecycle_tail(pods):
    """everything is retried until bound, runs, completes / is deleted; each event followed by its handler"""
    steps = []
    for _ in range(2):
        steps.append(run1(*[act(i + 1, p, "rec", p) for i, p in enumerate(pods)]))
        steps += [run1(act(1, 3, "syncnode")), {"n": "check"}]
    for p in pods:
        steps.append({"n": "env", "e": "PodRunning", "p": p, "g": 0})
    steps += [run1(act(1, 3, "sync")), {"n": "check"}]
    for j, p in enumerate(pods):
        steps.append(run1(act(1, 4, "hdl", p, "PodCompleted" if j % 2 == 0 else "PodDeleted")))
    steps += [run1(act(1, 3, "sync")), {"n": "check"}]
    return steps


def directed_c17(quick, K):
    """single-preemption interleavings: actor X runs i steps, then Y runs as far as it can, then the rest"""
    out = []

    def add(cfgname, name, steps, ev):
        out.append({"id": "dir-%s-%s" % (cfgname, name), "class": "c17dir", "cfg": CFGS[cfgname], "steps": steps,
                    "sig": "kind=%s ev=%s" % (cfgname, ev), "nfaults": 0})

    for cfgname in ("pairn", "pairx", "pairm"):
        pods = [1, 2]
        step_i = 1 if not quick else 2
        for i in range(0, 34, step_i):
            for first, second in ((1, 2), (2, 1)):
                order = [first] * i + [second] * 60
                add(cfgname, "rr-%d-%d" % (first, i),
                    [run1(act(1, 1, "rec", 1), act(2, 2, "rec", 2), order=order)] + lifecycle_tail(pods),
                    "rec%d|%d|rec%d" % (first, i, second))
        if CFGS[cfgname]["kinds"][2] == "cons":
            for i in range(0, 34, step_i):
                for e in ("PodCompleted", "PodDeleted"):
                    add(cfgname, "rh-%s-%d" % (e, i),
                        [run1(act(1, 1, "rec", 1), act(2, 4, "hdl", 3, e), order=[1] * i + [2] * 30)] + lifecycle_tail(pods),
                        "rec1|%d|%s(3)" % (i, e))
        for i in range(0, 34, step_i):
            for t in ("sync", "syncnode"):
                add(cfgname, "rs-%s-%d" % (t, i),
                    [run1(act(1, 1, "rec", 1), act(2, 3, t), order=[1] * i + [2] * 30)] + lifecycle_tail(pods),
                    "rec1|%d|%s" % (i, t))
    # a running consumer of the group terminates gracefully while another pod is bound into the group / onto the node,
    # or while its group mate completes
    for cfgname in ("pairn", "pairx", "pairm"):
        if CFGS[cfgname]["kinds"][2] == "cons":
            add(cfgname, "term3-rec",
                [{"n": "env", "e": "PodTerminating", "p": 3, "g": 0}, run1(act(1, 1, "rec", 1)), {"n": "check"},
                 run1(act(1, 3, "sync")), {"n": "check"}, run1(act(1, 2, "rec", 2)), run1(act(1, 3, "syncnode")), {"n": "check"},
                 run1(act(1, 4, "hdl", 3, "PodDeleted")), run1(act(1, 3, "sync")), {"n": "check"}],
                "PodTerminating(3),rec1,sync,rec2,syncnode,PodDeleted(3)")
        add(cfgname, "term1-mate",
            [run1(act(1, 1, "rec", 1), act(2, 2, "rec", 2)), {"n": "env", "e": "PodRunning", "p": 1, "g": 0}, {"n": "env", "e": "PodRunning", "p": 2, "g": 0},
             {"n": "env", "e": "PodTerminating", "p": 1, "g": 0}, run1(act(1, 4, "hdl", 2, "PodCompleted")), {"n": "check"},
             run1(act(1, 3, "sync")), {"n": "check"}, run1(act(1, 4, "hdl", 1, "PodDeleted")), run1(act(1, 3, "sync")), {"n": "check"}],
            "rec1+rec2,PodRunning,PodTerminating(1),PodCompleted(2),sync,PodDeleted(1)")
    # three operations on one group: X holds the group mutex, Y really blocks in it, X releases, Z arrives while Y is inside
    for x_ev in ("PodDeleted", "PodCompleted"):
        for (y, z) in ((2, 1), (1, 2)):
            for a in (2, 3):
                for c in range(0, 15, 1 if not quick else 2):
                    order = [1] * a + [2] * 12 + [1] * 10 + [3] * c + [2] * 60 + [3] * 60
                    add("pairx", "xyz-%s-%d%d-%d-%d" % (x_ev, y, z, a, c),
                        [run1(act(1, 4, "hdl", 3, x_ev), act(2, y, "rec", y), act(3, z, "rec", z), order=order)] + lifecycle_tail([1, 2]),
                        "%s(3)|%d|rec%d..blocked|rec%d|%d" % (x_ev, a, y, z, c))
    # life cycle of single pods of every kind, incl. the BindRequest being deleted
    for cfgname in ("fracn", "fracx", "multi", "multin"):
        add(cfgname, "life", lifecycle_tail([1]), "life")
        add(cfgname, "life-deleted",
            [run1(act(1, 1, "rec", 1)), {"n": "env", "e": "PodRunning", "p": 1, "g": 0}, run1(act(1, 4, "hdl", 1, "PodDeleted")),
             run1(act(1, 3, "sync")), {"n": "check"}], "rec1,PodRunning(1),PodDeleted(1)")
        # graceful termination: the pod keeps running with a deletion timestamp while its group / node is synced,
        # another reconcile of the node runs, and only then disappears
        for t in ("sync", "syncnode"):
            add(cfgname, "life-terminating-" + t,
                [run1(act(1, 1, "rec", 1)), {"n": "env", "e": "PodRunning", "p": 1, "g": 0}, {"n": "env", "e": "PodTerminating", "p": 1, "g": 0},
                 run1(act(1, 3, t)), {"n": "check"}, run1(act(1, 4, "hdl", 1, "PodDeleted")), run1(act(1, 3, "sync")), {"n": "check"}],
                "rec1,PodRunning(1),PodTerminating(1),%s,PodDeleted(1)" % t)
        # the bound pod reaches a terminal phase without ever being seen Running (rejected by the kubelet, short pod)
        add(cfgname, "life-never-running",
            [run1(act(1, 1, "rec", 1)), run1(act(1, 4, "hdl", 1, "PodCompleted")), {"n": "check"}, run1(act(1, 3, "sync")), {"n": "check"}],
            "rec1,PodCompleted(1) from Pending")
        add(cfgname, "brdel",
            [run1(act(1, 1, "rec", 1), faults=[{"a": 1, "k": K[cfgname] - 2, "f": "fail"}]), run1(act(1, 4, "hdl", 1, "BRDeleted")),
             run1(act(1, 3, "sync")), {"n": "check"}], "rec1,Fail@create/Binding,BRDeleted(1)")
        add(cfgname, "brdel-crash",
            [run1(act(1, 1, "rec", 1), faults=[{"a": 1, "k": K[cfgname] - 3, "f": "crash"}]), run1(act(1, 4, "hdl", 1, "BRDeleted")),
             run1(act(1, 3, "sync")), {"n": "check"}], "rec1,Crash@patch/Pod:ANN,BRDeleted(1)")
    return out


# ----------------------------------------------------------------------------------------------
# real code
# ----------------------------------------------------------------------------------------------
def run(ctx, binary, scheds, tag, extra=()):
    path = os.path.join(ctx.scratch, "sched-%s.ndjson" % tag)
    with open(path, "w") as f:
        for s in scheds:
            f.write(json.dumps({k: v for k, v in s.items() if k != "nfaults"}) + "\n")
    trace = os.path.join(ctx.scratch, "trace-%s.ndjson" % tag)
    args = ["-out", trace] + (["-in", path] if scheds else []) + list(extra)
    t0 = time.time()
    p = vlib.run_harness(binary, args, timeout=3000)
    ctx.stage("real-run-" + tag, out=p.stdout.strip().splitlines()[-1] if p.stdout.strip() else "", wall=round(time.time() - t0, 1))
    return trace


def validate(ctx, trace, prefix, chunk=1200, workers=None):
    """TLC evaluates every `prefix` invariant and the drift monitors on every recorded event.
    Returns (scenarios, events). Violations -> ctx.violation; drift -> Infra (after the violations)."""
    t0 = time.time()
    events = vlib.read_ndjson(trace)
    spans = vlib.scenario_index(events)
    if not spans:
        raise vlib.Infra("trace %s has no Scenario line" % trace)
    invs = invariants("C11_") + invariants("C17_")   # all are evaluated; only those of `prefix` are this check's verdicts
    drift_first = None
    for c0 in range(0, len(spans), chunk):
        part = spans[c0:c0 + chunk]
        lo, hi = part[0][0], part[-1][1]
        d = vlib.prepare_spec_dir(ctx, "tv-%s-%d" % (prefix, c0))
        with open(os.path.join(d, "trace.ndjson"), "w") as f:
            for ev in events[lo - 1:hi]:
                f.write(json.dumps(ev) + "\n")
        # V_x is always TRUE; a FALSE property predicate / drift monitor is reported by TLC through PrintT
        defs = ['V_%s == %s \\/ PrintT("VIOL %s " \\o ToString(l0) \\o " " \\o ToString(l) \\o " -")' % (i, i, i) for i in invs]
        defs += ['V_D_NoDrift == D_NoDrift \\/ PrintT("DRIFT D_NoDrift " \\o ToString(l0) \\o " " \\o ToString(l) \\o " " \\o ToString(drift))',
                 'V_D_Known == D_Known \\/ PrintT("DRIFT D_Known " \\o ToString(l0) \\o " " \\o ToString(l) \\o " -")',
                 # a read the model does not expect at that position: accepted (stuttering), counted
                 'V_X_Read == xr = 0 \\/ PrintT("XREAD X_Read " \\o ToString(l0) \\o " " \\o ToString(l) \\o " -")']
        mod, cfg = vlib.write_model(d, TRACE, "BT_tv", TRACE_CONSTS, spec="TraceSpec",
                                    invariants=["V_" + i for i in invs] + ["V_D_NoDrift", "V_D_Known", "V_X_Read"])
        with open(os.path.join(d, mod + ".tla")) as f:
            txt = f.read()
        with open(os.path.join(d, mod + ".tla"), "w") as f:
            f.write(txt.replace("====", "\n".join(defs) + "\n===="))
        r = vlib.tlc(ctx, d, mod, cfg, workers=workers or min(vlib.NCPU, 6), timeout=3000, heap="8g")
        if not r.ok:
            raise vlib.Infra("trace validation failed: %s %s\n%s" % (r.kind, r.violated, vlib.tail_errors(r.out)[:3000]))
        if r.distinct != hi - lo + 1:
            raise vlib.Infra("trace validation consumed %d of %d trace lines" % (r.distinct, hi - lo + 1))
        ctx.add_tlc(r)
        by_start = {s - lo + 1: (s, e) for (s, e) in part}
        reported = set()
        violating = set()
        drifts = []
        for m in re.finditer(r'^"(VIOL|DRIFT|XREAD) (\w+) (\d+) (\d+) (.*)"$', r.out, re.M):
            what, name, l0, l = m.group(1), m.group(2), int(m.group(3)), int(m.group(4))
            if what == "XREAD":
                ctx.cov["extra_reads"] = ctx.cov.get("extra_reads", 0) + 1
                continue
            s, e = by_start[l0]
            scen = events[s - 1:e]
            if what == "VIOL":
                violating.add(s)
            if what == "DRIFT":
                drifts.append((s, l, name, m.group(5), scen))
                continue
            if not name.startswith(prefix) or (s, name) in reported:
                continue     # a predicate of the sibling property: it only shows that the departure is judged by a property
            reported.add((s, name))
            at = l - l0 - 1
            ctx.violation("%s %s" % (name, scenario_sig(scen)),
                          "TLC: invariant %s is FALSE on the store projection recorded after event %d of scenario %s\nevent: %s" % (
                              name, at, scen[0].get("id"), json.dumps(scen[min(at, len(scen) - 1)])[:1500]),
                          {"module": TRACE, "invariant": name, "at_event": at, "schedule": json.loads(scen[0]["sched"]),
                           "trace": [{k: v for k, v in ev.items() if k != "sched"} for ev in scen[:at + 1]]})
        # a departure of the real run from the model is drift only in a scenario in which no property predicate fails
        seen = set()
        for (s, l, name, info, scen) in sorted(drifts, key=lambda d: (d[0], d[1])):
            if s in seen:
                continue
            seen.add(s)
            if s in violating:
                ctx.cov["departures_judged_by_properties"] = ctx.cov.get("departures_judged_by_properties", 0) + 1
            elif drift_first is None:
                at = l - (s - lo + 1) - 1
                drift_first = ((s, l), "%s in scenario %s (%s) at event %d: %s\n%s" % (
                    name, scen[0].get("id"), scen[0].get("sig"), at, info,
                    json.dumps({k: v for k, v in scen[max(0, min(at, len(scen) - 1))].items() if k not in ("st", "sched")})))
    ctx.cov.setdefault("extra_reads", 0)
    ctx.cov.setdefault("departures_judged_by_properties", 0)
    account_trace(ctx, spans, events)
    ctx.add("traces_validated_against_impl", len(spans))
    ctx.add("trace_events_validated", len(events) - len(spans))
    ctx.stage("trace-validation", scenarios=len(spans), events=len(events) - len(spans), invariants=[i for i in invs if i.startswith(prefix)], wall=round(time.time() - t0, 1))
    if drift_first is not None:
        raise vlib.Infra("specification drift: " + drift_first[1])
    return len(spans), len(events)


def bound_probes(trace):
    """Second reconcile of an already-bound pod with a fault on ANY call it makes, chosen by call index in the REAL
    run: for every single-fault schedule whose first attempt (+ Sync) left pod 1 bound while its BindRequest is not
    Succeeded, the recovery reconcile is repeated once per k = 1..n with its k-th call failing (n = number of calls
    the fault-free recovery reconcile made in the recorded run - reads the model does not know are included)."""
    events = vlib.read_ndjson(trace)
    out = []
    for (s, e) in vlib.scenario_index(events):
        scen = events[s - 1:e]
        sched = json.loads(scen[0]["sched"])
        if sched.get("class") != "c11" or len(sched["steps"]) < 6:
            continue
        if any(st.get("faults") for st in sched["steps"][3:]):
            continue
        starts = [i for i, ev in enumerate(scen) if ev["ev"] == "Start" and ev["t"] == "rec" and ev["p"] == 1]
        if len(starts) < 2:
            continue
        st = scen[starts[1]]["st"]
        if st["pods"][0]["node"] == "" or st["br"][0]["ex"] != 1 or st["br"][0]["ph"] == "Succeeded":
            continue
        n = 0
        for ev in scen[starts[1] + 1:]:
            if ev["ev"] == "End" and ev["a"] == 1:
                break
            if ev["ev"] == "Call" and ev["a"] == 1:
                n += 1
        rec = {"n": "run", "acts": [{"i": 1, "a": 1, "t": "rec", "p": 1, "e": ""}]}
        tail = [{"n": "run", "acts": [{"i": 1, "a": 3, "t": "sync", "p": 0, "e": ""}]}, {"n": "check"}]
        for k in range(1, n + 1):
            steps = sched["steps"][:3] + [dict(rec, faults=[{"a": 1, "k": k, "f": "fail"}])] + tail + ([rec] + tail) * 2 + [{"n": "final"}]
            out.append({"id": "%s-bound-k%d" % (sched["id"], k), "class": "c11probe", "cfg": sched["cfg"], "steps": steps,
                        "sig": sched["sig"] + "+Fail@recovery#k%d" % k, "nfaults": 2})
    return out


def scenario_sig(scen):
    """signature of a scenario: the one given by the schedule (fault points named by the model's program counter) when the
    faults hit the calls the model expected; otherwise (random schedules, or Go map order put another group first) the
    faults that really fired."""
    sc = scen[0]
    name = CFG_NAME.get(cfg_key(sc["cfg"]), "?")
    fs, fired, rec = [], [], {}
    for ev in scen[1:]:
        if ev["ev"] == "Start" and ev["t"] == "rec":
            rec[ev["a"]] = rec.get(ev["a"], 0) + 1
        if ev["ev"] == "Call" and ev["res"] != "ok":
            fired.append([rec.get(ev["a"], 0), ev["k"], ev["verb"], ev["kind"], ev["res"]])
            fs.append("%s@%s/%s#p%dr%dk%d" % ({"fail": "Fail", "crash": "Crash"}[ev["res"]], ev["verb"], ev["kind"], ev["a"], rec.get(ev["a"], 0), ev["k"]))
    if sc.get("class") not in ("random", "c11probe"):
        expect = json.loads(sc["sched"]).get("expect")
        if expect is None or expect == fired:
            return sc.get("sig")
    evs = [ev["e"] + "(%d)" % ev["p"] for ev in scen[1:] if ev["ev"] == "Start" and ev["t"] == "hdl"]
    return "kind=%s fault=%s%s" % (name, "+".join(fs) or "none", (" ev=" + ",".join(evs)) if evs else "")


def account(ctx, scheds):
    """samples: a few of the schedules of this run, written out"""
    rnd = random.Random(ctx.seed)
    for s in rnd.sample(scheds, min(3, len(scheds))):
        ctx.sample({"id": s["id"], "sig": s["sig"], "class": s["class"], "cfg": s["cfg"], "steps": s["steps"]})


def account_trace(ctx, spans, events):
    """one evaluation per scenario executed on the real code; non-trivial = a fault fired, an environment event
    happened or two actors were in flight together; distinct by (configuration, what really happened)"""
    for (s, e) in spans:
        scen = events[s - 1:e]
        fired = [ev for ev in scen if ev["ev"] == "Call" and ev["res"] != "ok"]
        envs = [ev for ev in scen if (ev["ev"] == "Start" and ev["t"] == "hdl") or (ev["ev"] == "Env" and ev["e"] != "Restart")]
        conc, live = False, set()
        order = []
        for ev in scen:
            if ev["ev"] == "Start":
                live.add(ev["a"])
                conc = conc or len(live) > 1
            elif ev["ev"] == "End":
                live.discard(ev["a"])
            elif ev["ev"] == "Call" and ev["res"] == "crash":
                live.clear()
            if conc and ev["ev"] in ("Call", "Lock"):
                order.append(ev["a"])
        key = [scen[0]["cfg"], [(ev["a"], ev["k"], ev["verb"], ev["kind"], ev["res"]) for ev in fired],
               [(ev.get("e"), ev.get("p")) for ev in envs], order]
        ctx.count_case(key, bool(fired or envs or conc))


def check_K(ctx, dry, model_k):
    """the number of client calls of a fault-free reconcile: model vs real code. A difference is drift, reported
    (by the caller) only after the traces were judged, so that a property-breaking change is still a violation."""
    for kind, k in model_k.items():
        if kind in dry and dry[kind]["K"] != k:
            return "specification drift: fault-free reconcile of kind %s makes %d client calls in the real code, %d in the model\n%s" % (
                kind, dry[kind]["K"], k, dry[kind]["calls"])
    return None


def replay(ctx, obj, prefix):
    binary = vlib.go_build("binder")
    s = obj["replay"]["schedule"]
    s["nfaults"] = 1
    trace = run(ctx, binary, [s], "replay")
    validate(ctx, trace, prefix)
