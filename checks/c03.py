"""C03 - gang integrity: no decision leaves a pod group partially running."""
import st_cluster
import st_fixtures

LEVEL = "model_checking"
PREFIXES = ["C03_"]


def run(ctx):
    ctx.cov["rule"] = ("seeded random clusters with gangs (min <= size, elastic surplus, partially running jobs), all actions enabled, "
                       "1-3 cycles; C03 judged at cycle end in histories without API write failures; non-trivial = a decision was taken")
    ctx.assumptions += ["one pod set per job in the generated scenarios (hierarchical sub-groups are covered by the repository fixtures stage when present)"]
    n = 600 if ctx.quick else 10000
    st_cluster.run_stage(ctx, PREFIXES, [("mixed", n // 3), ("full", n // 6), ("closed", n // 8), ("fraction", n // 8), ("elastic", n // 5), ("nested", n // 8), ("elasticnom", n // 8), ("foreign", n // 6), ("frag", n // 8)])
    # hand-made scenarios: a pod set of more than a hundred pods with a single surplus pod next to a pod set at its minimum
    st_cluster.run_directed(ctx, PREFIXES, "C03")
    st_fixtures.run_stage(ctx, PREFIXES)


def replay(ctx, obj):
    st_cluster.replay_stage(ctx, obj, PREFIXES)
