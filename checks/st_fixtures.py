"""Fixture stage: run the repository's own integration fixtures (pkg/scheduler/actions/integration_tests)
with the verif build tag and the /verif fixture tracer overlaid into integration_tests_utils, so that
every scheduling round of every fixture becomes one scenario of the cluster trace format; TLC then
judges all rounds with the Cxx_ predicates of Cluster.tla instead of the fixture's single expected
placement. Sessions there are built from test_utils fakes (mock cache): only session-level
observations exist, topology / affinity constraints are not projected."""
import glob
import json
import os
import subprocess

import vlib
import st_cluster

PKGS = "./pkg/scheduler/actions/integration_tests/..."


def run_stage(ctx, prefixes, packages=PKGS, timeout=3000):
    tdir = ctx.sub("fixtraces")
    overlay = os.path.join(ctx.scratch, "overlay.json")
    target = os.path.join(vlib.REPO, "pkg/scheduler/actions/integration_tests/integration_tests_utils/zz_verif_fixtrace.go")
    with open(overlay, "w") as f:
        json.dump({"Replace": {target: os.path.join(vlib.HARNESS, "overlay", "fixtrace.go.txt")}}, f)
    env = vlib.go_env()
    env["VERIF_TRACE_DIR"] = tdir
    p = subprocess.run(["go", "test", "-trimpath", "-tags", "verif", "-overlay", overlay, "-count=1", "-vet=off", packages], cwd=vlib.REPO, env=env,
                       stdout=subprocess.PIPE, stderr=subprocess.STDOUT, text=True, timeout=timeout)
    failed_pkgs = [l for l in p.stdout.splitlines() if l.startswith("FAIL") or l.startswith("--- FAIL")]
    if "build failed" in p.stdout or "[setup failed]" in p.stdout:
        raise vlib.Infra("fixture run did not build:\n" + p.stdout[-3000:])
    traces = sorted(glob.glob(os.path.join(tdir, "fix-*.ndjson")))
    if not traces:
        raise vlib.Infra("fixture run produced no traces:\n" + p.stdout[-2000:])
    trace = st_cluster.merge(ctx, traces, "fixture-trace.ndjson")
    stats = st_cluster.account(ctx, trace)
    ctx.stage("fixture-real-runs", packages=packages, test_failures=failed_pkgs[:5], **stats)
    vlib.validate_traces_parallel(ctx, st_cluster.MODULE, trace, st_cluster.invariants(prefixes), tuple(prefixes), chunks=8, timeout=3000, heap="10g", sig_detail=st_cluster.sig_detail)
    return stats
