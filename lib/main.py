#!/usr/bin/env python3
"""CLI: ./verif check <Cxx> [--tier quick|thorough]   |   ./verif replay <file>   |   ./verif setup"""
import argparse
import importlib
import json
import os
import subprocess
import sys
import traceback

sys.path.insert(0, os.path.dirname(os.path.abspath(__file__)))
sys.path.insert(0, os.path.join(os.path.dirname(os.path.dirname(os.path.abspath(__file__))), "checks"))
import vlib  # noqa: E402


def cmd_check(a):
    tier = a.tier or os.environ.get("VERIF_TIER") or "quick"
    seed = int(os.environ.get("VERIF_SEED", "1") or "1")
    mod = importlib.import_module(a.prop.lower())
    ctx = vlib.Ctx(a.prop, tier, seed, mod.LEVEL)
    try:
        mod.run(ctx)
        rc = ctx.finish()
    except vlib.Infra as e:
        print("INFRA property=%s: %s" % (a.prop, e), file=sys.stderr)
        if ctx.violations:   # a real violation was already established before the infra problem
            rc = ctx.finish()
        else:
            rc = 2
    except subprocess.TimeoutExpired as e:
        print("INFRA property=%s: timeout %s" % (a.prop, e), file=sys.stderr)
        rc = 2
    except Exception:
        traceback.print_exc()
        rc = 2
    finally:
        import shutil
        shutil.rmtree(ctx.scratch, ignore_errors=True)
    sys.exit(rc)


def cmd_replay(a):
    obj = json.load(open(a.path))
    mod = importlib.import_module(obj["property"].lower())
    ctx = vlib.Ctx(obj["property"], "quick", obj.get("seed", 1), mod.LEVEL)
    if not hasattr(mod, "replay"):
        print("no replay for", obj["property"])
        sys.exit(2)
    try:
        mod.replay(ctx, obj)
        rc = 1 if ctx.violations else 0
        for sig, text, path in ctx.violations:
            print("VIOLATION property=%s replay=%s" % (ctx.prop, a.path))
            print("  " + sig)
    except vlib.Infra as e:
        print("INFRA:", e, file=sys.stderr)
        rc = 2
    finally:
        import shutil
        shutil.rmtree(ctx.scratch, ignore_errors=True)
    sys.exit(rc)


def cmd_setup(a):
    """build every harness command (warms the go build cache) and SANY-parse every module.
    Problems are reported but do not fail the setup: every check rebuilds and re-parses what it
    needs and reports its own infrastructure failures (exit 2)."""
    cmds = sorted(os.listdir(os.path.join(vlib.HARNESS, "cmd")))
    bad = []
    for c in cmds:
        try:
            vlib.go_build(c)
        except vlib.Infra as e:
            print("WARNING:", str(e)[:2000], file=sys.stderr)
            bad.append("cmd/" + c)
    for f in sorted(os.listdir(vlib.SPEC)):
        if f.endswith(".tla"):
            ok, out = vlib.sany(os.path.join(vlib.SPEC, f))
            if not ok:
                print("WARNING: SANY failed for", f, "\n", out[-1500:], file=sys.stderr)
                bad.append(f)
    print("setup done; problems: %s" % (bad or "none"))
    sys.exit(0)


def cmd_stage(a):
    """development aid (not a registered check): run the cluster stage for one profile and a set of predicate
    prefixes, e.g.  ./verif stage C09_ quota 400 ; evidence is NOT written (scratch context)."""
    import st_cluster
    seed = int(os.environ.get("VERIF_SEED", "1") or "1")
    ctx = vlib.Ctx("DEV", "quick", seed, "exploration")
    try:
        if a.profile.endswith(".json"):
            # one hand-made scenario file (ndjson of scenario records)
            binary = vlib.go_build("cluster")
            trace = os.path.join(ctx.scratch, "one.ndjson")
            vlib.run_harness(binary, ["-in", a.profile, "-out", trace], timeout=600)
            vlib.validate_traces(ctx, st_cluster.MODULE, trace, st_cluster.invariants(a.prefixes.split(",")), tuple(a.prefixes.split(",")),
                                 timeout=600, heap="4g", sig_detail=st_cluster.sig_detail)
        else:
            st_cluster.run_stage(ctx, a.prefixes.split(","), [(a.profile, a.n)])
        for sig, text, path in ctx.violations:
            print("DEV-VIOLATION", sig)
            print(text[:3000])
        for k in ctx.known:
            print("DEV-KNOWN", k)
    finally:
        import shutil
        shutil.rmtree(ctx.scratch, ignore_errors=True)
    sys.exit(1 if ctx.violations else 0)


def main():
    ap = argparse.ArgumentParser()
    sp = ap.add_subparsers(dest="cmd", required=True)
    c = sp.add_parser("check")
    c.add_argument("prop")
    c.add_argument("--tier", choices=["quick", "thorough"])
    c.set_defaults(fn=cmd_check)
    r = sp.add_parser("replay")
    r.add_argument("path")
    r.set_defaults(fn=cmd_replay)
    s = sp.add_parser("setup")
    s.set_defaults(fn=cmd_setup)
    g = sp.add_parser("stage")
    g.add_argument("prefixes")
    g.add_argument("profile")
    g.add_argument("n", type=int)
    g.set_defaults(fn=cmd_stage)
    a = ap.parse_args()
    a.fn(a)


if __name__ == "__main__":
    main()
