"""Shared machinery for the /verif checks.

Every check is `./verif check <Cxx> --tier quick|thorough`; it builds the Go harness from /repo's
working tree (build tag `verif`), lets TLC (a) model-check the property's TLA+ module, (b) generate
scenarios / schedules, (c) validate the ndjson traces recorded from the real code, writes
evidence/<Cxx>.json and exits 0 / 1 (VIOLATION) / 2 (infrastructure or spec drift).

Verdict rule: a VIOLATION is only ever produced from an observation of the real code on which a
`Cxx_` predicate of the specification evaluated to FALSE under TLC (trace validation), or on which a
replayed specification behaviour diverged in a field a `Cxx_` predicate constrains.
"""
import hashlib
import json
import os
import re
import shutil
import subprocess
import sys
import tempfile
import time

VERIF = os.path.dirname(os.path.dirname(os.path.abspath(__file__)))
REPO = os.environ.get("VERIF_REPO", "/repo")
SPEC = os.path.join(VERIF, "spec")
HARNESS = os.path.join(VERIF, "harness")
BIN = os.path.join(VERIF, "bin")
# When VERIF_REPO points at a scratch worktree (mutant testing), nothing under /verif is written:
# the harness is copied, binaries/evidence/replays go to OUT.
ALT = os.path.realpath(REPO) != "/repo"
OUT = os.environ.get("VERIF_OUT") or (os.path.join("/tmp", "verif-out-" + hashlib.sha1(REPO.encode()).hexdigest()[:8]) if ALT else VERIF)
TLA_CP = "/opt/veriftools/tla/tla2tools.jar:/opt/veriftools/tla/CommunityModules-deps.jar"
NCPU = os.cpu_count() or 4

LEVELS = ("exploration", "fault_enumeration", "model_checking", "proof", "translation_validation", "other")


class Infra(Exception):
    """Anything that prevents a verdict: build failure, TLC error, timeout, spec drift. Exit 2."""


def log(*a):
    print("[verif]", *a, file=sys.stderr, flush=True)


# --------------------------------------------------------------------------------------------
# context / evidence
# --------------------------------------------------------------------------------------------
import threading
_COV_LOCK = threading.Lock()


class Ctx:
    def __init__(self, prop, tier, seed, level):
        assert level in LEVELS
        self.prop = prop
        self.tier = tier
        self.seed = seed
        self.level = level
        self.t0 = time.time()
        self.scratch = tempfile.mkdtemp(prefix="verif-%s-" % prop)
        self.cov = {
            "states": 0, "transitions": 0, "traces_validated_against_impl": 0, "samples": [],
            "evaluations": 0, "distinct_nontrivial": 0, "rule": "", "stages": [],
            "trace_events_validated": 0, "edges_replayed_on_impl": 0, "exhaustive": False,
        }
        self.assumptions = []
        self.violations = []      # (signature, text, replay_path)
        self.known = []
        self._distinct = set()
        self.findings = load_known_findings()

    @property
    def quick(self):
        return self.tier == "quick"

    def add(self, key, n):
        """thread-safe counter update (stages and trace-validation parts run in threads)"""
        with _COV_LOCK:
            self.cov[key] = self.cov.get(key, 0) + n

    def sub(self, name):
        d = os.path.join(self.scratch, name)
        os.makedirs(d, exist_ok=True)
        return d

    def sample(self, s, cap=6):
        if len(self.cov["samples"]) < cap:
            self.cov["samples"].append(s)

    def count_case(self, key, nontrivial=True):
        """one evaluation against the real code; distinct non-trivial ones are counted by hash."""
        self.cov["evaluations"] += 1
        if not hasattr(self, "_first_case"):
            self._first_case = key
        if nontrivial:
            h = hashlib.sha1(json.dumps(key, sort_keys=True, default=str).encode()).hexdigest()
            if h not in self._distinct:
                self._distinct.add(h)
                self.cov["distinct_nontrivial"] += 1

    def stage(self, name, **kw):
        kw["stage"] = name
        self.cov["stages"].append(kw)
        log("stage", json.dumps(kw, default=str)[:600])

    def add_tlc(self, res):
        self.cov["states"] += res.distinct
        self.cov["transitions"] += res.generated

    # ---- verdicts ------------------------------------------------------------------------
    def violation(self, signature, text, replay_obj):
        """A property predicate failed on an observation of the real code."""
        for f in self.findings:
            if f.get("status") == "known" and f["property"] == self.prop and sig_match(f["signature"], signature):
                if not any(k[0] == f["signature"] for k in self.known):
                    self.known.append((f["signature"], f.get("what", text)))
                return
        d = os.path.join(OUT, "replays", self.prop)
        os.makedirs(d, exist_ok=True)
        body = json.dumps({"property": self.prop, "signature": signature, "text": text, "seed": self.seed,
                           "tier": self.tier, "replay": replay_obj}, indent=1, default=str)
        h = hashlib.sha1((signature + body).encode()).hexdigest()[:12]
        path = os.path.join(d, h + ".json")
        with open(path, "w") as f:
            f.write(body)
        self.violations.append((signature, text, path))

    def finish(self):
        self.cov["checker_cmd"] = "tlc2.TLC (tla2tools 1.8.0) + /verif/harness (go, -tags verif) via ./verif check %s --tier %s" % (self.prop, self.tier)
        if not self.cov["rule"]:
            self.cov["rule"] = "see stages"
        if not self.cov["samples"] and hasattr(self, "_first_case"):
            self.cov["samples"].append({"first_case_of_run": self._first_case})
        ev = {
            "property_id": self.prop, "tier": self.tier, "seed": self.seed, "level": self.level,
            "coverage": self.cov, "assumptions": self.assumptions,
            "wall_s": round(time.time() - self.t0, 2), "violations": len(self.violations),
            "known_findings": [k[0] for k in self.known],
        }
        os.makedirs(os.path.join(OUT, "evidence"), exist_ok=True)
        with open(os.path.join(OUT, "evidence", self.prop + ".json"), "w") as f:
            json.dump(ev, f, indent=1, default=str)
        for sig, what in self.known:
            print("KNOWN-FINDING: property=%s %s -- %s" % (self.prop, sig, what))
        for sig, text, path in self.violations:
            print("VIOLATION property=%s replay=%s" % (self.prop, path))
            print("  signature: %s\n  %s" % (sig, text.replace("\n", "\n  ")[:3000]))
        shutil.rmtree(self.scratch, ignore_errors=True)
        return 1 if self.violations else 0


def load_known_findings():
    p = os.path.join(VERIF, "known_findings.json")
    if not os.path.exists(p):
        return []
    with open(p) as f:
        return json.load(f).get("findings", [])


def sig_match(pattern, sig):
    """known-finding signatures are exact strings or regexes anchored at both ends."""
    try:
        return re.fullmatch(pattern, sig) is not None
    except re.error:
        return pattern == sig


# --------------------------------------------------------------------------------------------
# Go harness
# --------------------------------------------------------------------------------------------
GOENV = {"GOFLAGS": "-mod=mod", "GOPROXY": "off"}


def go_env():
    e = dict(os.environ)
    e.update(GOENV)
    e.pop("GOTOOLCHAIN", None)
    e.pop("GOSUMDB", None)
    e.pop("GONOSUMDB", None)
    e.pop("GONOSUMCHECK", None)
    return e


def ensure_harness_module():
    """go.mod/go.sum of the harness so that it always builds against REPO's working tree. For an
    alternative REPO the harness is copied to OUT/harness (so /verif/harness is never rewritten)."""
    with _HARNESS_LOCK:
        return _ensure_harness_module()


_HARNESS_LOCK = threading.Lock()
_HARNESS_READY = []


def _ensure_harness_module():
    hdir = HARNESS
    if ALT:
        hdir = os.path.join(OUT, "harness")
        if not _HARNESS_READY:      # once per process: stages of one check may build in parallel
            if os.path.exists(hdir):
                shutil.rmtree(hdir)
            shutil.copytree(HARNESS, hdir)
            _HARNESS_READY.append(hdir)
    gomod = os.path.join(hdir, "go.mod")
    want_replace = "replace github.com/NVIDIA/KAI-scheduler => %s" % REPO
    txt = open(gomod).read()
    new = re.sub(r"replace github.com/NVIDIA/KAI-scheduler => \S+", want_replace, txt)
    if new != txt:
        open(gomod, "w").write(new)
    src = os.path.join(REPO, "go.sum")
    dst = os.path.join(hdir, "go.sum")
    if not os.path.exists(dst) or open(src, "rb").read() != open(dst, "rb").read():
        shutil.copyfile(src, dst)
    return hdir


def go_build(cmd, timeout=1500):
    """build harness/cmd/<cmd> against the current REPO tree with -tags verif; returns binary path."""
    hdir = ensure_harness_module()
    bindir = os.path.join(OUT, "bin")
    os.makedirs(bindir, exist_ok=True)
    out = os.path.join(bindir, cmd)
    t = time.time()
    # -trimpath: object files do not depend on the directory of the tree, so builds of scratch worktrees
    # (VERIF_REPO) share the build cache with builds of /repo
    p = subprocess.run(["go", "build", "-trimpath", "-tags", "verif", "-o", out, "./cmd/" + cmd], cwd=hdir, env=go_env(),
                       stdout=subprocess.PIPE, stderr=subprocess.STDOUT, text=True, timeout=timeout)
    if p.returncode != 0:
        raise Infra("go build %s failed:\n%s" % (cmd, p.stdout[-4000:]))
    log("built %s in %.1fs" % (cmd, time.time() - t))
    return out


def run_harness(binary, args, timeout=3600, stdin=None, env=None, ok_codes=(0,)):
    e = go_env()
    if env:
        e.update(env)
    p = subprocess.run([binary] + list(args), input=stdin, stdout=subprocess.PIPE, stderr=subprocess.PIPE, text=True,
                       timeout=timeout, env=e)
    if p.returncode not in ok_codes:
        raise Infra("harness %s %s exited %d:\n%s\n%s" % (binary, " ".join(args)[:300], p.returncode, p.stdout[-2000:], p.stderr[-4000:]))
    return p


# --------------------------------------------------------------------------------------------
# TLC
# --------------------------------------------------------------------------------------------
class TlcResult:
    def __init__(self):
        self.ok = False            # completed without error
        self.violated = None       # name of violated invariant / property
        self.kind = None           # invariant | action | temporal | deadlock | assert | error
        self.generated = 0
        self.distinct = 0
        self.depth = 0
        self.out = ""
        self.trace_states = []     # textual states of the counterexample
        self.wall = 0.0
        self.cov_zero = []

    def last_state_var(self, var):
        """value (text) of `var` in the last state of the counterexample"""
        if not self.trace_states:
            return None
        m = re.search(r"^/\\ %s = (.*)$" % re.escape(var), self.trace_states[-1], re.M)
        if not m:
            m = re.search(r"^%s = (.*)$" % re.escape(var), self.trace_states[-1], re.M)
        return m.group(1).strip() if m else None


def prepare_spec_dir(ctx, name, extra_files=None):
    d = ctx.sub(name)
    for f in os.listdir(SPEC):
        if f.endswith(".tla") or f.endswith(".cfg"):
            shutil.copy(os.path.join(SPEC, f), d)
    for src, dst in (extra_files or {}).items():
        shutil.copy(src, os.path.join(d, dst))
    return d


def write_cfg(d, name, spec=None, init=None, next_=None, invariants=(), properties=(), constants=None,
              constraints=(), action_constraints=(), view=None, postcondition=None, deadlock=False, symmetry=None):
    lines = []
    if spec:
        lines.append("SPECIFICATION %s" % spec)
    else:
        lines.append("INIT %s" % init)
        lines.append("NEXT %s" % next_)
    if constants:
        lines.append("CONSTANTS")
        for k, v in constants.items():
            lines.append("  %s = %s" % (k, v))
    for i in invariants:
        lines.append("INVARIANT %s" % i)
    for p in properties:
        lines.append("PROPERTY %s" % p)
    for c in constraints:
        lines.append("CONSTRAINT %s" % c)
    for c in action_constraints:
        lines.append("ACTION_CONSTRAINT %s" % c)
    if view:
        lines.append("VIEW %s" % view)
    if symmetry:
        lines.append("SYMMETRY %s" % symmetry)
    if postcondition:
        lines.append("POSTCONDITION %s" % postcondition)
    lines.append("CHECK_DEADLOCK %s" % ("TRUE" if deadlock else "FALSE"))
    p = os.path.join(d, name)
    with open(p, "w") as f:
        f.write("\n".join(lines) + "\n")
    return p


def write_model(d, module, name, constants, overrides=None, **cfgkw):
    """generate <name>.tla (EXTENDS module; one definition per constant, so that any TLA+ expression
    - negative numbers, tuples, records - can be a constant value) and <name>.cfg. Returns (name, cfg)."""
    defs = []
    subst = {}
    for k, v in (constants or {}).items():
        defs.append("mc_%s == %s" % (k, v))
        subst[k] = "mc_%s" % k
    with open(os.path.join(d, name + ".tla"), "w") as f:
        f.write("---- MODULE %s ----\nEXTENDS %s\n%s\n====\n" % (name, module, "\n".join(defs)))
    cfgkw = dict(cfgkw)
    lines_const = {k: v for k, v in subst.items()}
    lines_const.update(overrides or {})
    write_cfg(d, name + ".cfg", constants=None, **cfgkw)
    if lines_const:
        with open(os.path.join(d, name + ".cfg"), "a") as f:
            f.write("CONSTANTS\n" + "".join("  %s <- %s\n" % (k, v) for k, v in lines_const.items()))
    return name, name + ".cfg"


def spec_defs(module, prefix):
    """names of top-level definitions `prefix...` in spec/<module>.tla (used to select Cxx_ invariants)."""
    txt = open(os.path.join(SPEC, module + ".tla")).read()
    return re.findall(r"^(%s\w*)\s*==" % re.escape(prefix), txt, re.M)


def tlc(ctx, d, module, cfg, workers=None, timeout=1200, simulate=None, depth=None, extra=(), heap="8g",
        dfs=False, coverage=False, env=None, continue_=False):
    """run TLC in directory d (a scratch copy of spec/). Raises Infra on parse errors/timeouts."""
    if workers is None:
        workers = min(NCPU, 8)
    meta = tempfile.mkdtemp(prefix="meta-", dir=d)
    cmd = ["java", "-XX:+UseParallelGC", "-Xmx" + heap, "-Xss256m"]
    if dfs:
        cmd.append("-Dtlc2.tool.queue.IStateQueue=StateDeque")
    cmd += ["-cp", TLA_CP, "tlc2.TLC", "-metadir", meta, "-workers", str(workers), "-config", cfg]
    if simulate:
        cmd += ["-simulate", simulate]
    if depth:
        cmd += ["-depth", str(depth)]
    if coverage:
        cmd += ["-coverage", "1"]
    if continue_:
        cmd += ["-continue"]
    if ctx is not None:
        cmd += ["-seed", str(ctx.seed)] if simulate else []
    cmd += list(extra)
    cmd.append(module)
    e = dict(os.environ)
    e.pop("JAVA_TOOL_OPTIONS", None)
    if env:
        e.update(env)
    t = time.time()
    try:
        p = subprocess.run(cmd, cwd=d, stdout=subprocess.PIPE, stderr=subprocess.STDOUT, text=True, timeout=timeout, env=e)
    except subprocess.TimeoutExpired as ex:
        if simulate:
            out = ex.stdout.decode() if isinstance(ex.stdout, bytes) else (ex.stdout or "")
            r = parse_tlc(out)
            r.wall = time.time() - t
            r.ok = r.violated is None
            return r
        raise Infra("TLC timeout after %ds on %s/%s" % (timeout, module, cfg))
    finally:
        shutil.rmtree(meta, ignore_errors=True)
    r = parse_tlc(p.stdout)
    r.wall = time.time() - t
    if r.kind == "error" or (not r.ok and r.violated is None):
        raise Infra("TLC failed on %s/%s:\n%s" % (module, cfg, tail_errors(p.stdout)))
    return r


def tail_errors(out):
    i = out.find("Error:")
    if i < 0:
        return out[-3000:]
    return out[max(0, i - 300):i + 4000]


def parse_tlc(out):
    r = TlcResult()
    r.out = out
    m = re.findall(r"(\d+) states generated, (\d+) distinct states found", out)
    if m:
        r.generated, r.distinct = int(m[-1][0]), int(m[-1][1])
    m = re.search(r"The depth of the complete state graph search is (\d+)", out)
    if m:
        r.depth = int(m.group(1))
    if "Model checking completed. No error has been found." in out or "Finished computing initial states" in out and "No error has been found" in out:
        r.ok = True
    m = re.search(r"Error: Invariant (\w+) is violated", out)
    if m:
        r.violated, r.kind = m.group(1), "invariant"
    m2 = re.search(r"Error: Action property (\w+) is violated", out)
    if m2 and not r.violated:
        r.violated, r.kind = m2.group(1), "action"
    mt = re.search(r"Error: Temporal property (\w+) was violated", out)
    if not r.violated and mt:
        r.violated, r.kind = mt.group(1), "temporal"
    if not r.violated and "Error: Temporal properties were violated" in out:
        r.violated, r.kind = "temporal", "temporal"
    if not r.violated and "Error: Deadlock reached" in out:
        r.violated, r.kind = "deadlock", "deadlock"
    if not r.violated and re.search(r"Error: The (first|second) argument of Assert evaluated to FALSE", out):
        r.violated, r.kind = "assert", "assert"
    m3 = re.search(r"Error: Evaluating invariant (\w+) failed", out)
    if not r.violated and not r.ok and ("Error:" in out or "error" in out.lower() and "Exception" in out):
        r.kind = "error"
    if m3:
        r.kind = "error"
    if r.violated:
        r.ok = False
        states = re.split(r"^State \d+: .*$", out, flags=re.M)
        r.trace_states = [s.strip() for s in states[1:]]
    r.cov_zero = re.findall(r"^\s*(<\w+ line \d+.*?>): 0:0$", out, re.M)
    return r


def sany(module_path):
    p = subprocess.run(["java", "-cp", TLA_CP, "tla2sany.SANY", os.path.basename(module_path)],
                       cwd=os.path.dirname(module_path), stdout=subprocess.PIPE, stderr=subprocess.STDOUT, text=True)
    ok = p.returncode == 0 and "Semantic errors" not in p.stdout and "Parse Error" not in p.stdout and "Fatal errors" not in p.stdout \
        and "Could not find module" not in p.stdout and "*** Errors" not in p.stdout
    return ok, p.stdout


# --------------------------------------------------------------------------------------------
# trace validation (code -> spec)
# --------------------------------------------------------------------------------------------
def read_ndjson(path):
    out = []
    with open(path) as f:
        for line in f:
            line = line.strip()
            if line:
                out.append(json.loads(line))
    return out


def scenario_index(events, marker="Scenario"):
    """list of (start_line_1based, end_line_1based_inclusive) per scenario in a concatenated trace."""
    starts = [i + 1 for i, e in enumerate(events) if e.get("ev") == marker]
    spans = []
    for j, s in enumerate(starts):
        end = (starts[j + 1] - 1) if j + 1 < len(starts) else len(events)
        spans.append((s, end))
    return spans


def run_parallel(fns):
    """run independent stages (each mostly waits for TLC / harness subprocesses) in threads; the first failure is
    re-raised after all of them have ended."""
    import concurrent.futures
    errs = []
    with concurrent.futures.ThreadPoolExecutor(max_workers=len(fns)) as ex:
        futs = [ex.submit(f) for f in fns]
        for f in futs:
            try:
                f.result()
            except BaseException as e:      # noqa: B902 - re-raised below
                errs.append(e)
    for e in errs:
        if not isinstance(e, Infra):
            raise e
    if errs:
        raise errs[0]


def validate_traces_parallel(ctx, module, trace_path, invariants, prop_prefix, chunks=8, max_reports=40, heap="8g", **kw):
    """validate_traces on `chunks` parts of the trace (cut at scenario boundaries) in parallel TLC processes: a
    violating scenario only costs a re-run of its own part. Scenarios are independent (one initial state each)."""
    import concurrent.futures
    events = read_ndjson(trace_path)
    spans = scenario_index(events)
    if not spans:
        raise Infra("trace %s has no Scenario line" % trace_path)
    chunks = max(1, min(chunks, len(spans) // 50 or 1))
    if chunks == 1:
        return validate_traces(ctx, module, trace_path, invariants, prop_prefix, max_reports=max_reports, heap=heap, **kw)
    per = (len(spans) + chunks - 1) // chunks
    parts = []
    for c in range(chunks):
        sp = spans[c * per:(c + 1) * per]
        if not sp:
            continue
        path = "%s.part%d" % (trace_path, c)
        with open(path, "w") as f:
            for ev in events[sp[0][0] - 1:sp[-1][1]]:
                f.write(json.dumps(ev) + "\n")
        parts.append((c, path))
    del events
    gb = max(2, int(re.sub(r"\D", "", heap) or 8) * 2 // max(1, len(parts)) + 1)
    workers = max(1, min(4, NCPU // len(parts)))
    budget = max(5, (max_reports + len(parts) - 1) // len(parts))

    def one(cp):
        c, path = cp
        try:
            return validate_traces(ctx, module, path, invariants, prop_prefix, max_reports=budget, heap="%dg" % gb,
                                   workers=workers, tag="-p%d" % c, **kw)
        finally:
            try:
                os.remove(path)
            except OSError:
                pass
    n = 0
    errs = []
    with concurrent.futures.ThreadPoolExecutor(max_workers=len(parts)) as ex:
        futs = [ex.submit(one, cp) for cp in parts]
        for f in futs:
            try:
                n += f.result()
            except Infra as e:
                errs.append(e)
    if errs:
        raise errs[0]
    return n


def validate_traces(ctx, module, trace_path, invariants, prop_prefix, constants=None, overrides=None, properties=(),
                    max_reports=40, timeout=3600, spec="TraceSpec", heap="8g", workers=None, line_var="l", sig_detail=None, tag=""):
    """Check a (concatenated) ndjson trace recorded from the real code against spec/<module>.tla.

    The trace module has one initial state per `Scenario` line (so counterexamples are short and
    scenarios are independent) and total event handlers; every check is an INVARIANT. Invariants
    whose name starts with `prop_prefix` are property predicates -> ctx.violation; other invariant
    failures (names starting D_) are specification drift -> Infra.
    A violated invariant is removed for the *scenario that violated it* by re-running with that
    scenario excluded, so that all violating scenarios are reported (bounded by max_reports).
    Returns number of scenarios validated.
    """
    events = read_ndjson(trace_path)
    spans = scenario_index(events)
    if not spans:
        raise Infra("trace %s has no Scenario line" % trace_path)
    excluded = set()
    reports = 0
    total_states = 0
    while True:
        d = prepare_spec_dir(ctx, "tv-%s%s-%d" % (module, tag, reports))
        # write the trace with excluded scenarios removed
        with open(os.path.join(d, "trace.ndjson"), "w") as f:
            kept = []
            for (s, e) in spans:
                if s in excluded:
                    continue
                kept.append((s, e))
                for ev in events[s - 1:e]:
                    f.write(json.dumps(ev) + "\n")
        if not kept:
            break
        tvmod, tvcfg = write_model(d, module, module + "_tv", constants, overrides=overrides, spec=spec,
                                   invariants=invariants, properties=properties)
        r = tlc(ctx, d, tvmod, tvcfg, workers=workers or min(NCPU, 8), timeout=timeout, heap=heap)
        total_states = max(total_states, r.distinct)
        if r.ok:
            ctx.add_tlc(r)
            shutil.rmtree(d, ignore_errors=True)
            break
        # locate the scenario: the counterexample's first state carries the start line in variable `l0`
        l0 = r.trace_states[0] if r.trace_states else ""
        m = re.search(r"^/\\ l0 = (\d+)", l0, re.M)
        lm = r.last_state_var(line_var)
        if not m:
            # violated by an initial state (no "State n:" header) or interleaved output of several workers:
            # any state of the counterexample carries l0
            i = r.out.find("Error:")
            m = re.search(r"/\\ l0 = (\d+)", r.out[i if i >= 0 else 0:])
            if not lm or not str(lm).isdigit():
                ml = re.findall(r"/\\ l = (\d+)", r.out[i if i >= 0 else 0:])
                lm = ml[-1] if ml else lm
        if not m:
            raise Infra("cannot locate scenario of counterexample:\n" + tail_errors(r.out))
        rel_start = int(m.group(1))
        # map the relative start (in the filtered file) back to the original span
        acc = 1
        orig = None
        for (s, e) in kept:
            if acc == rel_start:
                orig = (s, e)
                break
            acc += e - s + 1
        if orig is None:
            raise Infra("scenario start %d not found" % rel_start)
        scen_events = events[orig[0] - 1:orig[1]]
        at = (int(lm) - rel_start) if lm and lm.isdigit() else None
        name = r.violated
        if name and name.startswith(prop_prefix):
            sig = scen_events[0].get("sig") or ("%s %s" % (name, scen_events[0].get("id", "")))
            detail = sig_detail(name, scen_events, at) if sig_detail else ""
            ctx.violation(("%s %s" % (name, scen_events[0].get("class", scen_events[0].get("id", ""))) if not scen_events[0].get("sig") else "%s %s" % (name, sig)) + ((" " + detail) if detail else ""),
                          "TLC: %s %s violated at trace line %s of scenario %s\nlast state:\n%s" % (
                              r.kind, name, at, scen_events[0].get("id"), (r.trace_states[-1] if r.trace_states else "")[:2500]),
                          {"module": module, "invariant": name, "at_event": at, "trace": scen_events})
        else:
            raise Infra("specification drift: %s %s violated at trace line %s of scenario %s\n%s" % (
                r.kind, name, at, scen_events[0].get("id"), tail_errors(r.out)))
        excluded.add(orig[0])
        reports += 1
        shutil.rmtree(d, ignore_errors=True)
        if reports >= max_reports:
            log("too many violating scenarios; stopping after %d" % reports)
            break
    n = len(spans)
    ctx.add("traces_validated_against_impl", n)
    ctx.add("trace_events_validated", len(events) - n)
    return n
