#!/usr/bin/env python3
"""showscen.py <profile> <scenario-id>: regenerate the chunk of a random cluster scenario (id = <profile>-<seed>-<k>),
run it on the real scheduler (bin/cluster) and print a compact view of the scenario and its events."""
import json, subprocess, sys, os
prof, sid = sys.argv[1], sys.argv[2]
seed, k = sid.split('-')[-2:]
out = '/tmp/showscen-%s.ndjson' % os.getpid()
subprocess.run(['/verif/bin/cluster', '-random', str(int(k) + 1), '-profile', prof, '-seed', seed, '-out', out], stdout=subprocess.DEVNULL, stderr=subprocess.DEVNULL)
cur = None
for l in open(out):
    e = json.loads(l)
    if e['ev'] == 'Scenario':
        cur = e['id']
    if cur != sid:
        continue
    if e['ev'] == 'Scenario':
        print(json.dumps(e['cfg']))
        for n in e['nodes']: print(' N', n['name'], 'gpus', n['gpus'], 'cpu', n['cpu'], {k: v for k, v in n['labels'].items()})
        for i, q in enumerate(e['queues']): print(' Q%d' % (i + 1), q['name'], 'parent', q['parent'], 'prio', q['prio'], 'gq', q['gq'], 'gl', q['gl'], 'gw', q['gw'], 'cq', q['cq'], 'mq', q['mq'])
        for i, j in enumerate(e['jobs']):
            ps = [(x, p) for x, p in enumerate(e['pods']) if p['job'] == i + 1]
            print(' J%d' % (i + 1), j['name'], 'q', j['queue'], 'prio', j['prio'], 'pre', j['preempt'], 'min', j['min'], 'subs', [(s['name'], s['min'], s.get('topoReq')) for s in j['subs']],
                  [('p%d' % (x + 1), p['phase'], p['node'], 'g%d' % p['gpu'], 'f%d' % p['frac'], 'T' if p['term'] else '') for x, p in ps])
    elif e['ev'] in ('QueueInfo', 'SessionEnd'):
        print(e['ev'], [(i + 1, q['fsG'], q['desG'], q['allocG'], q['reqG']) for i, q in enumerate(e['q']) if q['present']])
    elif e['ev'] == 'CycleStart':
        print('CycleStart', e['c'], [(i + 1, p['st'], p['node']) for i, p in enumerate(e['pods'])])
    else:
        print({k: v for k, v in e.items() if k not in ('seq',)})
os.remove(out)
