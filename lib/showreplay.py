#!/usr/bin/env python3
"""pretty-print a cluster replay file"""
import json, sys
o = json.load(open(sys.argv[1]))
print(o['signature'], 'at', o['replay']['at_event'])
tr = o['replay']['trace']; sc = tr[0]
print(json.dumps(sc['cfg']))
print('nodes', [(n['name'], n['cpu'], n['mem'], n['pods'], n['gpus'], n['gpuMem']) for n in sc['nodes']])
for i, q in enumerate(sc['queues']): print(' q', i+1, {k: v for k, v in q.items() if v not in (-1, 0) or k in ('parent', 'gq', 'gl')})
for i, j in enumerate(sc['jobs']): print(' j', i+1, j)
for i, p in enumerate(sc['pods']):
    print(' p', i+1, p['name'], 'job', p['job'], 'cpu', p['cpu'], 'mem', p['mem'], 'gpu', p['gpu'], 'frac', p['frac'], 'gm', p['gpuMem'], 'devs', p['devs'], p['phase'], p['node'], 'term' if p['term'] else '', p['groups'])
full = len(sys.argv) > 2
for e in tr[1:(len(tr) if full else o['replay']['at_event'] + 1)]:
    if e['ev'] == 'QueueInfo':
        print(' QI', [(i+1, q['fsG'], q['desG'], q['allocG'], q['reqG']) for i, q in enumerate(e['q'])], 'tot', e['totG'])
        continue
    if e['ev'] == 'CycleStart':
        print(' CYCLE', e['c'], [(i+1, p['st'], p['node'], p['groups']) for i, p in enumerate(e['pods'])], e['resv'])
        continue
    print(' ', json.dumps(e)[:220])
