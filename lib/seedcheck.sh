#!/bin/bash
# usage: seedcheck.sh <PROP> <m-dir under /tmp/seedout/PROP> [extra props to run ...]
# Confirms a seeded change independently in a scratch worktree (applies, builds, existing tests of
# the touched packages pass, demo fails with / passes without), then runs the /verif quick check(s)
# against the changed tree. Writes /tmp/seedcheck/<PROP>-<m>.log and .json
export GOFLAGS="-mod=mod -trimpath" GOPROXY=off
P=$1; M=$2; shift 2; EXTRA="$@"
SRC=${SEEDOUT:-/tmp/seedout}/$P/$M
T=${TAG:-}
WT=/tmp/sc$T-$P-$M
OUT=/tmp/seedcheck; mkdir -p $OUT
LOG=$OUT/$P-$M$T.log
exec > $LOG 2>&1
set -x
git -C /repo worktree remove --force $WT 2>/dev/null
git -C /repo worktree add -q $WT HEAD || exit 9
cd $WT
git apply $SRC/patch.diff || { echo "RESULT apply=FAIL"; exit 1; }
go build ./... || { echo "RESULT build=FAIL"; exit 1; }
PKGS=$(git diff --name-only | xargs -n1 dirname | sort -u | sed 's#^#./#')
DEMOPKG=$(python3 - <<PY
import re
t=open("$SRC/demo.txt").read()
m=re.search(r'(pkg/[A-Za-z0-9_/\-]+)', t)
print(m.group(1) if m else "")
PY
)
echo "touched: $PKGS demo pkg: $DEMOPKG"
# existing tests of touched packages (and the action packages for scheduler changes)
TESTPKGS="$PKGS"
case "$PKGS" in *pkg/scheduler*) TESTPKGS="$PKGS ./pkg/scheduler/actions/... ./pkg/scheduler/framework/... ./pkg/scheduler/api/...";; esac
go test -count=1 $TESTPKGS > $OUT/$P-$M$T.existing.txt 2>&1; EXIST=$?
grep -v "^ok\|no test files" $OUT/$P-$M$T.existing.txt | head -20
cp $SRC/demo_test.go $WT/$DEMOPKG/zz_seed_demo_test.go
go test -count=1 -run 'Seed|seed|Demo' ./$DEMOPKG/ > $OUT/$P-$M$T.demo_with.txt 2>&1; DW=$?
git apply -R $SRC/patch.diff
go test -count=1 -run 'Seed|seed|Demo' ./$DEMOPKG/ > $OUT/$P-$M$T.demo_without.txt 2>&1; DWO=$?
git apply $SRC/patch.diff
rm -f $WT/$DEMOPKG/zz_seed_demo_test.go
DET=""
for C in $P $EXTRA; do
  (cd /verif && VERIF_REPO=$WT VERIF_OUT=/tmp/seedcheck/out-$P-$M$T-$C ./verif check $C --tier quick) > $OUT/$P-$M$T.check-$C.txt 2>&1; RC=$?
  DET="$DET $C:$RC"
done
echo "RESULT prop=$P m=$M$T existing_tests_rc=$EXIST demo_with_rc=$DW demo_without_rc=$DWO checks=$DET"
cd /; git -C /repo worktree remove --force $WT
rm -rf /tmp/seedcheck/out-$P-$M$T-*/bin /tmp/seedcheck/out-$P-$M$T-*/harness 2>/dev/null
find /root/.cache/go-build -type f -mmin +240 -delete 2>/dev/null
