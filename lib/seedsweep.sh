#!/bin/bash
# usage: seedsweep.sh <parallelism> <seed-id>...   ; runs lib/mutcheck.sh for each seeded change (own property),
# appends "MUTCHECK <id> <prop>:<rc>" lines to /tmp/mutcheck/sweep.txt
P=$1; shift
mkdir -p /tmp/mutcheck
printf "%s\n" "$@" | xargs -P $P -I{} sh -c '/verif/lib/mutcheck.sh {} 2>/dev/null | tail -1 >> /tmp/mutcheck/sweep.txt'
