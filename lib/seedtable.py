#!/usr/bin/env python3
"""print the detection table of DESIGN.md 10.6 from seeded/*/meta.json"""
import glob, json
import sys


def main():
    print("| seeded change | what it needs to manifest | quick check(s) |")
    print("|---|---|---|")
    for d in sorted(glob.glob('/verif/seeded/*')):
        m = json.load(open(d + '/meta.json'))
        c = m.get('confirmed_by_coordinator', {})
        det = c.get('quick_check_exit_codes', {})
        first = c.get('quick_check_exit_codes_when_first_seeded')
        s = ", ".join("%s %s" % (k, {"1": "**caught**", "0": "missed", "2": "exit 2"}.get(str(v), v)) for k, v in det.items())
        if first and first != det:
            s += " (missed when first seeded; check strengthened)"
        if c.get('caught_by'):
            s += " - " + c['caught_by']
        needs = " ".join(str(m.get('needs_to_manifest', '')).split())
        print("| %s %s | %s | %s |" % (d.split('/')[-1], m['title'].replace('|', '/'), needs[:260].replace('|', '/') + ("..." if len(needs) > 260 else ""), s))


def update_design():
    """rewrite the table between the SEEDTABLE markers of DESIGN.md"""
    import io, contextlib, re
    p = '/verif/DESIGN.md'
    s = open(p).read()
    buf = io.StringIO()
    with contextlib.redirect_stdout(buf):
        main()
    s = re.sub(r'<!-- SEEDTABLE-BEGIN -->.*?<!-- SEEDTABLE-END -->', lambda m: '<!-- SEEDTABLE-BEGIN -->\n' + buf.getvalue() + '<!-- SEEDTABLE-END -->', s, flags=re.S)
    open(p, 'w').write(s)


if __name__ == "__main__":
    if len(sys.argv) > 1 and sys.argv[1] == "--design":
        update_design()
    else:
        main()
