#!/usr/bin/env python3
"""Copy confirmed seeded changes from /tmp/seedout + /tmp/seedcheck into /verif/seeded/<id>-<m>/ and
print the detection table (markdown) for DESIGN.md. A change is kept only if it was confirmed here:
applies, builds, existing tests of the touched packages pass (known load flake tolerated and noted),
demo fails with / passes without."""
import glob, json, os, re, shutil, sys
rows = []
for log in sorted(glob.glob('/tmp/seedcheck/*.log')):
    t = open(log).read()
    m = re.findall(r"^RESULT prop=(\w+) m=(\w+) existing_tests_rc=(\d+) demo_with_rc=(\d+) demo_without_rc=(\d+) checks=(.*)$", t, re.M)
    if not m:
        continue
    prop, mm, ex, dw, dwo, checks = m[-1]
    src = '/tmp/seedout/%s/%s' % (prop, mm)
    meta = json.load(open(src + '/meta.json')) if os.path.exists(src + '/meta.json') else {}
    exist_note = ""
    if ex != "0":
        et = open('/tmp/seedcheck/%s-%s.existing.txt' % (prop, mm)).read()
        fails = re.findall(r"^--- FAIL: (\w+)", et, re.M)
        if set(fails) <= {"TestReclaimGpuDRAIntegrationTest", "TestAPIs"}:
            exist_note = "existing tests pass except known load flake / envtest: %s" % sorted(set(fails))
            ex = "0"
        else:
            exist_note = "EXISTING TESTS FAIL: %s" % sorted(set(fails))
    confirmed = ex == "0" and dw != "0" and dwo == "0"
    det = {c.split(':')[0]: c.split(':')[1] for c in checks.split()}
    rows.append((prop, mm, confirmed, det, meta.get("title", ""), meta.get("needs_to_manifest", ""), exist_note))
    if confirmed:
        dst = '/verif/seeded/%s-%s' % (prop, mm)
        os.makedirs(dst, exist_ok=True)
        for f in ('patch.diff', 'demo_test.go', 'demo.txt'):
            if os.path.exists(src + '/' + f):
                shutil.copy(src + '/' + f, dst)
        meta["confirmed_by_coordinator"] = {
            "ran": "lib/seedcheck.sh %s %s: scratch worktree of /repo HEAD, git apply patch.diff, go build ./..., go test of touched packages (+ scheduler actions/framework/api for scheduler changes), demo with patch (fails) and with patch reverted (passes), then VERIF_REPO=<worktree> ./verif check <id> --tier quick" % (prop, mm),
            "existing_tests": exist_note or "pass", "demo_with_patch_rc": int(dw), "demo_without_patch_rc": int(dwo),
            "quick_check_exit_codes": det}
        json.dump(meta, open(dst + '/meta.json', 'w'), indent=1)
print("| seeded change | what it breaks / needs | confirmed | quick check result |")
print("|---|---|---|---|")
for prop, mm, conf, det, title, needs, note in rows:
    d = ", ".join("%s: %s" % (k, {"1": "**caught** (exit 1)", "0": "missed (exit 0)", "2": "exit 2"}.get(v, v)) for k, v in det.items())
    print("| %s-%s %s | %s | %s | %s |" % (prop, mm, title.replace("|", "/")[:80], needs.replace("|", "/").replace("\n", " ")[:220], "yes" if conf else "NO " + note, d))
