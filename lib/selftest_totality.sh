#!/bin/bash
# Self-test of the totality harness' handling of the fake API server's watch-channel overflow (DESIGN 10.9 / 10.11):
# a scenario that overflows 3 times is run a 4th time and judged; one that always overflows is run 5 times and left
# out (fake_overflow_dropped=1), the other scenarios keep their verdicts. Not a check: exercises the harness only.
set -e
export GOFLAGS=-mod=mod GOPROXY=off
T=$(mktemp -d /tmp/st-totality.XXXX); trap 'rm -rf $T' EXIT
cp /repo/go.sum /verif/harness/go.sum 2>/dev/null || true
(cd /verif/harness && go build -o $T/totality ./cmd/totality)
S=/verif/scenarios/selftest-totality.ndjson
ID=$(sed -n 3p $S | jq -r .id)
o1=$(VERIF_TOTALITY_SELFTEST_OVERFLOW=$ID:3:$T/c1 $T/totality -in $S -out $T/t1 -par 4 -timeout 15s -hangcap 1)
echo "$o1"; echo "$o1" | grep -q 'ran=8 .*fake_overflow_dropped=0' && [ "$(grep -c "\"$ID\"" $T/t1)" -ge 1 ]
o2=$(VERIF_TOTALITY_SELFTEST_OVERFLOW=$ID:99:$T/c2 $T/totality -in $S -out $T/t2 -par 4 -timeout 15s -hangcap 1)
echo "$o2"; echo "$o2" | grep -q 'ran=7 .*fake_overflow_dropped=1' && [ "$(grep -c "\"$ID\"" $T/t2)" -eq 0 ] && [ "$(wc -c < $T/c2)" -eq 5 ]
echo "selftest_totality: ok"
