#!/usr/bin/env python3
"""merge the results of lib/seedsweep.sh (/tmp/mutcheck/sweep.txt: 'MUTCHECK <seed> <prop>:<rc> ...') into the
meta.json files of the seeded changes (the exit codes when first seeded are kept under ..._when_first_seeded)."""
import json, os, re, subprocess, sys
head = subprocess.check_output(['git', '-C', '/verif', 'rev-parse', '--short', 'HEAD']).decode().strip()
repo = subprocess.check_output(['git', '-C', '/repo', 'rev-parse', '--short', 'HEAD']).decode().strip()
last = {}
for line in open(sys.argv[1] if len(sys.argv) > 1 else '/tmp/mutcheck/sweep.txt'):
    m = re.match(r'MUTCHECK (\S+)((?: \w+:\d+)+)\s*$', line)
    if m:
        last[m.group(1)] = {kv.split(':')[0]: kv.split(':')[1] for kv in m.group(2).split()}
for seed, det in sorted(last.items()):
    f = '/verif/seeded/%s/meta.json' % seed
    if not os.path.exists(f):
        print("no meta for", seed)
        continue
    meta = json.load(open(f))
    c = meta.setdefault('confirmed_by_coordinator', {})
    old = c.get('quick_check_exit_codes')
    if old and 'quick_check_exit_codes_when_first_seeded' not in c and old != det:
        c['quick_check_exit_codes_when_first_seeded'] = old
    c['quick_check_exit_codes'] = det
    c['rerun'] = 'lib/mutcheck.sh %s at /verif %s, /repo %s' % (seed, head, repo)
    json.dump(meta, open(f, 'w'), indent=1)
    print(seed, det)
