#!/bin/bash
# usage: mutcheck.sh <seeded-id e.g. C18-m1> [props...]   (default: the seed's own property)
# Applies /verif/seeded/<id>/patch.diff in a scratch worktree and runs the quick check(s) against it.
export GOFLAGS="-mod=mod -trimpath" GOPROXY=off
S=$1; shift; PROPS=${@:-${S%%-*}}
TIER=${TIER:-quick}
WT=/tmp/mc-$S
OUT=/tmp/mutcheck; mkdir -p $OUT
git -C /repo worktree remove --force $WT 2>/dev/null
git -C /repo worktree add -q $WT HEAD || exit 9
(cd $WT && git apply /verif/seeded/$S/patch.diff) || { echo "apply failed"; exit 9; }
RES=""
for C in $PROPS; do
  (cd /verif && VERIF_REPO=$WT VERIF_OUT=$OUT/out-$S-$C ./verif check $C --tier $TIER) > $OUT/$S.check-$C.txt 2>&1; RC=$?
  RES="$RES $C:$RC"
done
echo "MUTCHECK $S$RES"
git -C /repo worktree remove --force $WT
rm -rf $OUT/out-$S-*/bin $OUT/out-$S-*/harness 2>/dev/null
