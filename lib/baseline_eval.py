#!/usr/bin/env python3
"""compare a `go test -json` run of /repo (tag off) with the stable_pass list of /root/.vp/BASELINE.json"""
import json, sys
base = json.load(open('/root/.vp/BASELINE.json'))
stable = set(base['stable_pass'])
res = {}
for l in open(sys.argv[1] if len(sys.argv) > 1 else '/tmp/baseline_run.json', errors='replace'):
    try:
        e = json.loads(l)
    except Exception:
        continue
    if e.get('Test') and e.get('Action') in ('pass', 'fail', 'skip'):
        res[e['Package'] + '::' + e['Test']] = e['Action']
missing = sorted(t for t in stable if res.get(t) != 'pass')
print(len(stable), 'stable;', len(missing), 'not passing')
for t in missing[:40]:
    print(' ', t, res.get(t))
print('failing tests (any):', sorted(t for t, a in res.items() if a == 'fail'))
