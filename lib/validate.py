#!/usr/bin/env python3
"""validate MANIFEST.json and every evidence file against the schemas (uses the tooling venv)."""
import json, glob, sys
import jsonschema
m = json.load(open('/verif/MANIFEST.json'))
jsonschema.validate(m, json.load(open('/root/.vp/MANIFEST.schema.json')))
es = json.load(open('/root/.vp/EVIDENCE.schema.json'))
for f in glob.glob('/verif/evidence/*.json'):
    jsonschema.validate(json.load(open(f)), es)
    print("ok", f)
props = [json.loads(l)["id"] for l in open('/verif/properties.jsonl')]
claimed = {c["property_id"] for c in m["checks"]}
na = {c["property_id"] for c in m.get("not_applicable", [])}
assert claimed | na == set(props) and not (claimed & na), (claimed, na)
print("manifest ok; claimed:", sorted(claimed))
