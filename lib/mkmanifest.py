#!/usr/bin/env python3
"""(re)generate MANIFEST.json from checks/<cxx>.py presence + the table below."""
import json, os
V = '/verif'
base = json.load(open('/root/.vp/BASELINE.json'))
props = [json.loads(l) for l in open(V + '/properties.jsonl')]
ENGINE = "tlc+go-harness"
TECH = "explicit TLA+ spec model-checked by TLC; TLC-generated scenarios/schedules run on the real Go code; ndjson traces of the real code validated by TLC against the spec's Cxx_ predicates"
INFO = {
 "C01": ("model_checking", "Cluster.tla states node capacity truth over (snapshot, decisions); the real scheduler (real SchedulerCache, session, actions on fake API stores) is run on seeded random multi-cycle scenarios with injected Bind/Evict failures and TLC evaluates C01_* in every state of every recorded execution. Sampled clusters, exhaustive per recorded step.", "fake clientsets as API server; harness plays binder/kubelet between cycles; TLC; scenario generator keeps the initial state within capacity"),
 "C02": ("model_checking", "Per-GPU-group memory, device exclusivity and distinctness predicates of Cluster.tla evaluated by TLC after every Bind of real multi-cycle runs on fraction-heavy clusters (binder labelling conventions reproduced), plus the NodeAcct node-level state machine stage when present.", "devices are anonymous to the scheduler; harness reproduces the binder's GPU-group labels"),
 "C03": ("model_checking", "Gang predicates (bind reaches min, evict shape, pipeline-all) evaluated by TLC at the end of every real cycle without API failures on clusters with gangs, elastic jobs and all actions enabled.", "one pod set per job in generated scenarios"),
 "C06": ("model_checking", "Victim eligibility (preemptible, queue/priority relation, min-runtime resolution incl. LCA, committed together with the preemptor's placement, consolidation re-places) evaluated by TLC on every Cache.Evict of real cycles with statement brackets from the verif hook.", "min-runtime start times are hours away from limits; first cycle only for min-runtime"),
 "C08": ("model_checking", "Running per-queue sums (all ancestors, gpu/cpu/mem, non-preemptible subset) recomputed by the spec from pods after every real Bind/Pipeline and compared with limits / deserved quota.", "GPU memory requests chosen so that portions are exact in milli-GPUs"),
 "C15": ("model_checking", "Closed-system runs of the real scheduler for 8 cycles; TLC checks that no canonical cluster state recurs with evictions in between (lasso detection).", "bounded runs; closed environment played by the harness"),
 "C16": ("exploration", "Comparable pending jobs (same template/queue) with shuffled priorities and creation times competing for too little capacity; TLC checks priority-then-FIFO on the allocate action's real decisions.", "comparability decided by the generator's shape tag"),
 "C04": ("exploration", "Node-side (ready, schedulable, selector, required node affinity, taints) and pod-side (required pod affinity / anti-affinity incl. pods placed earlier in the same cycle, both directions) predicates restated in Cluster.tla and evaluated by TLC on every Bind / Pipeline of real cycles on constrained random clusters under all actions.", "topology-CRD required levels, NodePorts, volumes and DRA constraints not generated; node pool selector not varied"),
 "C05": ("exploration", "After the allocate action of every recorded real cycle TLC searches, for every untouched ready pending job of non-sharing unconstrained pods, an assignment of its tasks to nodes within truth-idle capacity (recomputed from pods, minus nominations) that respects queue limits and non-preemptible quotas; finding one is a work-conservation violation. Sampled clusters and plugin configurations.", "judged for whole-GPU / cpu-only jobs without placement constraints; reclaim/preempt progress clauses not judged"),
 "C07": ("model_checking", "Per committed reclaim statement of real cycles TLC recomputes the levelled victim queue's allocation from pods and checks it was above deserved quota or fair share, and that the reclaimer's queue stays within its (session) fair share; non-preemptible reclaimer quota is C08's invariant on the same traces.", "fair shares taken from the session (contract = C09); saturation ordering covered through C15 only"),
 "C10": ("fault_enumeration", "Totality.tla models queue linking / orphan pruning / ancestor walks as explicit loops over an arbitrary parent function (TLC finds the non-terminating lassos for parent cycles on the as-written model) and enumerates malformed API shapes (queue graphs over <= 4 queues incl. self-parent, cycles, dangling; pod groups on missing / non-leaf queues; bad sub-group graphs and minimums; bad GPU annotations; degenerate nodes); every shape is materialised and one real scheduling cycle runs in a watchdog-guarded child process; TLC validates CycleStart/CycleEnd/Panic/Timeout/Bind traces (no panic, completes, healthy control workload scheduled).", "watchdog timeouts as failure detector (re-run in a fresh child before recording Timeout); fake clientsets"),
 "C19": ("model_checking", "GpuRequest.tla enumerates the full product of lexical annotation classes x container requests x fraction-container names x sharing enabled; every class combination is concretised to strings (plus seeded mutations), the denoted quantity is computed by an independent decimal grammar, and the three real observations (admission validate+mutate, scheduler PodInfo, binder validation/materialisation) are judged by TLC (admitted is finite positive, scheduler exact, binder agrees, no sneak, mutate idempotent).", "class representatives + sampled strings, not all strings; independent denotation parser trusted"),
 "C18": ("model_checking", "Grouper.tla (derived vs foreign PodGroup fields, Reconcile / ForeignUpdate with a write counter) model-checked for all orders of reconciling sibling pods interleaved with foreign updates; every schedule is executed on the real PodReconciler (fake client with a mutating-call counter) for 46 owner-kind catalogue entries covering all 42 registered GVKs and TLC validates the recorded (writes, PodGroup projection) sequences.", "fake controller-runtime client; unexported reconciler dependencies injected by reflection; some plugin modes (LWS LeaderReady, MPI WaitForWorkersReady, legacy Ray) not exercised"),
 "C20": ("model_checking", "StatusAgg.tla (pods, pod-group status, queue tree status; PodPhaseChange, FlipPreemptibility, ReconcilePodGroup, ReconcileQueue) model-checked over all histories of <= 6 events; histories and seeded random ones run on the real PodGroupReconciler / QueueReconciler and the operator's DeployableOperands.Deploy on the fake client; TLC judges the recorded status projections and write counts.", "fake controller-runtime client; quantities in milli-units; operator deployed for 4 configs"),
 "C09": ("model_checking", "TLC model-checks the integer transcription of the division algorithm against the contract on an exhaustive input grid, exports the grid, the real SetResourcesShare is run on every grid input and on seeded random inputs, and TLC evaluates the contract predicates on every recorded result. Exhaustive only within the grid; the continuous input space is sampled.", "float->milli-unit conversion tolerance 2/1000; two-level recursion re-implemented in harness"),
}
checks = []
for p in props:
    pid = p["id"]
    if not os.path.exists("%s/checks/%s.py" % (V, pid.lower())) or pid not in INFO:
        continue
    lvl, text, note = INFO[pid]
    checks.append({"property_id": pid, "quick_cmd": "cd /verif && ./verif check %s --tier quick" % pid,
                   "thorough_cmd": "cd /verif && ./verif check %s --tier thorough" % pid,
                   "evidence_file": "/verif/evidence/%s.json" % pid, "replay_cmd_template": "cd /verif && ./verif replay {path}",
                   "engine": ENGINE, "level_claimed": {"category": lvl, "text": text, "design_ref": "DESIGN.md section 5 " + pid},
                   "level_note": note, "technique": TECH})
claimed = {c["property_id"] for c in checks}
m = {"version": 1, "setup_cmd": "cd /verif && ./verif setup",
     "hooks": {"guard": "verif", "enable": "go build -tags verif (harness module /verif/harness, replace => /repo)",
               "baseline_off_cmd": base["cmd"], "source_commits": ["7ff240e", "9ed9420", "a1bb832"], "add_only": True},
     "engines": [{"name": ENGINE, "path": "/verif/verif", "serves_properties": sorted(claimed),
                  "kind_free_text": "explicit TLA+ specs (spec/*.tla) checked by TLC; Go harness (harness/) drives the real code; Python driver (lib/, checks/)"}],
     "checks": checks,
     "not_applicable": [{"property_id": p["id"], "reason": "check under construction in this round (spec/harness being built, see DESIGN.md section 8); not claimed until it runs green"} for p in props if p["id"] not in claimed],
     "notes": "see DESIGN.md; known_findings.json lists genuine defects (fixed / known)"}
json.dump(m, open(V + '/MANIFEST.json', 'w'), indent=1)
print("claimed", sorted(claimed))
