---------------------------- MODULE GpuRequestTrace ----------------------------
(* Trace validation for C19: per pod one Scenario line (classes, concrete strings) and one Observe
   event recorded by harness/cmd/gpureq from the real admission webhook, the real PodInfo
   construction and - for admitted pods - a real scheduling cycle + the real binder plugin.
   TraceObserve computes the observation record `obs` of GpuRequest.tla from the logged VALUES
   (denoted quantities from the harness's own grammar; numbers as {p, ok, x, n, sgn, int, cmp1});
   the C19_ predicates of GpuRequest.tla are then evaluated on it. D_ monitors compare the class
   tables of the model with what the real code did (as written or as repaired).
   Also the scenario exporter (GenInit / Emit). *)
EXTENDS GpuRequest, Json

Trace == ndJsonDeserialize("trace.ndjson")

VARIABLES l, l0, raw
tvars == <<vars, l, l0, raw>>

Starts == {i \in 1..Len(Trace) : Trace[i].ev = "Scenario"}

ScnPod(s) == [frac |-> s.frac, mem |-> s.mem, dev |-> s.dev, ctr |-> s.ctr, fcn |-> s.fcn, sharing |-> s.sharing, cv |-> s.cv]

TraceInit ==
  \E i \in Starts :
    /\ l0 = i /\ l = i + 1
    /\ pod = Trace[i]
    /\ pc = "new" /\ obs = NoObs /\ raw = <<>>

Abs(x) == IF x < 0 THEN -x ELSE x
HalfCenti == 5000        \* micro-GPU: the binder writes the portion with two decimals

\* ---- the denoted request (value level)
FracP(e) == e.d_frac.p = 1
MemP(e)  == e.d_mem.p = 1
DevP(e)  == e.d_dev.p = 1
GpuP(e)  == e.d_gpu.sgn = 1
T_FracWF(e) == FracP(e) => e.d_frac.ok = 1 /\ e.d_frac.sgn = 1 /\ e.d_frac.cmp1 = -1
T_MemWF(e)  == MemP(e) => e.d_mem.ok = 1 /\ e.d_mem.int = 1 /\ e.d_mem.sgn = 1
T_DevWF(e)  == DevP(e) => e.d_dev.ok = 1 /\ e.d_dev.int = 1 /\ e.d_dev.sgn = 1
T_CombosWF(e, s) ==
  /\ ~(FracP(e) /\ GpuP(e))
  /\ ~(MemP(e) /\ (FracP(e) \/ GpuP(e)))
  /\ ~(DevP(e) /\ ~(FracP(e) \/ MemP(e)))
  /\ ~((FracP(e) \/ MemP(e)) /\ s.fcn = "unknown")
T_Dwf(e, s) == T_FracWF(e) /\ T_MemWF(e) /\ T_DevWF(e) /\ T_CombosWF(e, s)
T_DKind(e) == IF FracP(e) THEN "fraction" ELSE IF MemP(e) THEN "memory" ELSE IF GpuP(e) THEN "whole" ELSE "none"
\* number of devices the request denotes
T_DCountX(e) == IF T_DKind(e) \in {"fraction", "memory"} THEN (IF DevP(e) THEN e.d_dev.x ELSE "1") ELSE e.d_gpu.x
T_DCountN(e) == IF T_DKind(e) \in {"fraction", "memory"} THEN (IF DevP(e) THEN e.d_dev.n ELSE 1) ELSE e.d_gpu.n
T_DPortion(e) == IF T_DKind(e) = "fraction" THEN e.d_frac ELSE e.d_memportion
T_Fits(e, s) == /\ T_DCountN(e) <= s.maxfit
                /\ (T_DKind(e) = "memory" => e.d_mem.n <= s.nodemem)

\* ---- the scheduler's reading
T_SKind(e) ==
  IF e.s_type = "Fraction" THEN "fraction" ELSE IF e.s_type = "GpuMemory" THEN "memory"
  ELSE IF e.s_type = "Regular" THEN (IF e.s_count.sgn = 1 THEN "whole" ELSE "none") ELSE "other"
T_SExact(e) ==
  LET k == T_DKind(e) IN
  CASE k = "fraction" -> /\ e.s_portion.x = e.d_frac.x /\ e.s_count.x = T_DCountX(e) /\ e.s_mem.x = "0"
                         \* accounted GPUs: the denoted fraction rounded to 1/100 GPU (half up, computed on the exact
                         \* decimal value, not on a float: d_centi_lo = d_centi_hi unless the value sits exactly on a
                         \* half), per device and in total (GPUs() and GetGpusQuota())
                         /\ e.s_perdev_centi \in e.d_centi_lo..e.d_centi_hi
                         /\ (T_DCountN(e) \in 1..64 =>
                               /\ e.s_gpus_centi \in (e.d_centi_lo * T_DCountN(e))..(e.d_centi_hi * T_DCountN(e))
                               /\ e.s_quota_centi = e.s_gpus_centi
                               /\ e.s_gpus_centi = e.s_perdev_centi * T_DCountN(e))
    [] k = "memory"   -> e.s_mem.x = e.d_mem.x /\ e.s_count.x = T_DCountX(e)
    [] k = "whole"    -> e.s_count.x = e.d_gpu.x /\ e.s_portion.x = "1" /\ e.s_mem.x = "0"
                         /\ e.s_gpus_centi = 100 * e.d_gpu.n /\ e.s_quota_centi = e.s_gpus_centi
    [] OTHER          -> e.s_count.x = "0" /\ e.s_mem.x = "0"

\* ---- the binder's materialisation
T_BExact(e) ==
  LET k == T_DKind(e) IN
  CASE k \in {"fraction", "memory"} ->
         /\ e.b_type = "Fraction"
         /\ e.b_count = T_DCountN(e) /\ e.b_groups = T_DCountN(e)
         /\ e.b_portion.ok = 1 /\ e.b_portion.sgn = 1           \* a positive portion is materialised
         \* GPU_PORTION has two decimals: a fraction is rounded to the nearest centi-GPU; a memory request is
         \* converted with ceil(memory / node GPU memory * 100) / 100 - never less than what was asked for
         /\ IF k = "fraction" THEN Abs(e.b_portion.n - e.d_frac.n) <= HalfCenti
            ELSE e.b_portion.n - e.d_memportion.n \in 0..(2 * HalfCenti)
         /\ e.b_brportion.x = e.b_portion.x                     \* ... and what the scheduler put into the BindRequest
    [] k = "whole" -> e.b_type = "Regular" /\ e.b_count = e.d_gpu.n
    [] OTHER -> e.b_type = "Regular" /\ e.b_count = 0

TraceObserve ==
  /\ l <= Len(Trace) /\ Trace[l].ev = "Observe" /\ pc = "new"
  /\ LET e == Trace[l] IN
       /\ raw' = e
       /\ obs' = [admitted |-> e.a_admitted = 1, mutated |-> e.a_mutate_ok = 1, idem |-> e.a_idem = 1,
                  d_wf |-> T_Dwf(e, pod), d_kind |-> T_DKind(e),
                  s_kind |-> T_SKind(e),
                  \* exact quantities, and accounted as a GPU request at all (IsRequireAnyKindOfGPU)
                  s_exact |-> (T_SExact(e) /\ (T_DKind(e) # "none" => e.s_requires = 1)),
                  s_sharing |-> e.s_sharing = 1, fits |-> T_Fits(e, pod),
                  b_reached |-> e.b_reached = 1, b_ok |-> (e.b_prebind_ok = 1 /\ e.b_validate_ok = 1),
                  b_exact |-> (e.b_reached = 1 /\ T_BExact(e)), sharing |-> pod.sharing = 1,
                  updsame |-> e.a_update_same = 1]
  /\ pc' = "done" /\ l' = l + 1
  /\ UNCHANGED <<pod, l0>>

TraceNext == TraceObserve
TraceSpec == TraceInit /\ [][TraceNext]_tvars

AtEnd == l > Len(Trace) \/ Trace[l].ev = "Scenario"

\* ---- drift monitors
D_Consumed == (~AtEnd => Trace[l].ev = "Observe" /\ pc = "new") /\ (AtEnd => pc = "done")
D_Shape == pc = "done" => /\ raw.a_admitted = (IF raw.a_mutate_ok = 1 /\ raw.a_validate_ok = 1 THEN 1 ELSE 0)
                          /\ (raw.b_reached = 1 => raw.a_admitted = 1)
                          /\ raw.s_sharing = (IF raw.s_type \in {"Fraction", "GpuMemory"} THEN 1 ELSE 0)
\* the class tables of the model describe the real components (as written, or with the repairs), on
\* class representatives (mutated strings carry no class)
IsClass == pod.cls = "class"
P == ScnPod(pod)
\* (the tables read the Fix* constants; the check selects them from three probe observations of the
\*  same trace - is NaN / a value in [2^63, 2^64) / a sub-centi fraction admitted? - and these monitors
\*  then hold the selected variant against every class combination)
D_ModelDenotation == (pc = "done" /\ IsClass) => obs.d_wf = M_Dwf(P) /\ obs.d_kind = DKind(P)
D_ModelAdmission  == (pc = "done" /\ IsClass) => (obs.admitted = M_Admitted(P)) /\ (obs.mutated = M_MutateOk(P))
D_ModelScheduler  == (pc = "done" /\ IsClass) => obs.s_kind = M_SchedKind(P)
                                                  \* (dev = max64: whether the int64 product wraps to a positive value depends on the representative)
                                                  /\ ((obs.admitted /\ obs.d_wf /\ obs.s_kind = obs.d_kind /\ P.dev # "max64") => obs.s_exact = M_SchedExact(P))
D_ModelFits       == (pc = "done" /\ IsClass /\ obs.d_wf /\ obs.admitted) => obs.fits = M_Fits(P)

(* ---- scenario exporter ---- *)
Export(p) == [frac |-> p.frac, mem |-> p.mem, dev |-> p.dev, ctr |-> p.ctr, fcn |-> p.fcn, sharing |-> p.sharing, cv |-> p.cv, sig |-> Sig(p)]
Emit == PrintT(ToJson(Export(pod)))
GenNext == FALSE /\ UNCHANGED tvars
GenInit == Init /\ l = 0 /\ l0 = 0 /\ raw = <<>>
=============================================================================
