------------------------------- MODULE FairShare -------------------------------
(* Fair-share division among sibling queues (property C09).

   Shaped after pkg/scheduler/plugins/proportion/resource_division/resource_division.go:
     SetDeserved      = setDeservedResource
     Round            = one iteration of the `for {}` loop of divideUpToFairShare for the
                        priority at the head of prioList (all queues of the round at once: the
                        amounts of a round are computed from amountToGiveInCurrentRound, which is
                        fixed at the start of the round)
     NextPrio         = leaving divideUpToFairShare for that priority
     Pop              = one iteration of divideRemainingResource (pop order among equal
                        remainders left nondeterministic: an over-approximation of the heap order)
   All quantities are integers in 1/Scale units (Scale = 1000: milli-GPUs, milli-cores ...);
   Unl = -1 is the "unlimited" sentinel of the API. Shares are exact rationals: a queue's
   round share is rem * N[i] / SW, compared by cross-multiplication, so floor() is exact.

   The documented contract (docs/fairness/README.md, properties.jsonl C09) is the set of
   C09_* predicates over (input, result). They are used three ways:
     - as invariants of this algorithm model (design check, exhaustive on a grid),
     - as invariants over Divide events recorded from the real code (FairShareTrace),
     - the grid itself is exported as the scenario set run against the real code.
*)
EXTENDS FairShareContract

(***************************************************************************)
(* The algorithm (design model).                                           *)
(***************************************************************************)
CONSTANTS NQ, TotalSet, KnSet, KD, DesSet, LimSet, WSet, PrioSet, ReqSet, UseSet

VARIABLES inp, fs, pc, rem, prioList, remReq
vars == <<inp, fs, pc, rem, prioList, remReq>>

QueueRecs == [des : DesSet, lim : LimSet, w : WSet, prio : PrioSet, req : ReqSet, use : UseSet]
\* queues are enumerated as non-decreasing sequences w.r.t. an arbitrary total order (the division
\* is symmetric in the queues; the real code is additionally run on permutations)
RecKey(r) == <<r.prio, r.w, r.des, r.lim, r.req, r.use>>
LexLeq(a, b) == \/ a = b
                \/ \E k \in 1..Len(a) : a[k] < b[k] /\ \A m \in 1..(k - 1) : a[m] = b[m]
Inputs == { [total |-> t, kn |-> k, kd |-> KD, queues |-> qs] :
              t \in TotalSet, k \in KnSet,
              qs \in {s \in [1..NQ -> QueueRecs] : \A a \in 1..(NQ - 1) : LexLeq(RecKey(s[a]), RecKey(s[a + 1]))} }

SortedPrios(S) == \* descending sequence of the elements of S
  LET RECURSIVE F(_)
      F(T) == IF T = {} THEN <<>> ELSE LET m == Max(T) IN <<m>> \o F(T \ {m})
  IN F(S)

Init ==
  /\ inp \in Inputs
  /\ fs = [i \in 1..NQ |-> 0]
  /\ pc = "deserved" /\ rem = 0 /\ prioList = <<>> /\ remReq = {}

SetDeserved ==
  /\ pc = "deserved"
  /\ fs' = [i \in Idx(inp) |-> Given(inp, i)]
  /\ LET r == inp.total - SumOver(Idx(inp), LAMBDA i : Given(inp, i)) IN
       IF r > 0
       THEN /\ rem' = r /\ pc' = "up"
            /\ prioList' = SortedPrios({Q(inp, i).prio : i \in Idx(inp)})
       ELSE /\ rem' = 0 /\ pc' = "done" /\ prioList' = <<>>
  /\ UNCHANGED <<inp, remReq>>

Satisfied(i) == \/ Q(inp, i).req <= fs[i]
                \/ Q(inp, i).lim # Unl /\ Q(inp, i).lim <= fs[i]
RemRequested(i) == Max2(0, CapReq(inp, i) - fs[i])

Round ==
  /\ pc = "up" /\ prioList # <<>>
  /\ LET p  == Head(prioList)
         Qp == {i \in Idx(inp) : Q(inp, i).prio = p}
         W  == SumOver({i \in Qp : RemRequested(i) > 0}, LAMBDA i : Q(inp, i).w)
         N(i) == IF Satisfied(i) \/ W = 0 THEN 0
                 ELSE Max2(0, Q(inp, i).w * (inp.kd + inp.kn) * Scale - inp.kn * Q(inp, i).use * W)
         SW == SumOver(Qp, N)
         Act == {i \in Qp : ~Satisfied(i) /\ Q(inp, i).w # 0}
         Full(i) == RemRequested(i) * SW <= rem * N(i)                 \* requested <= fairShare
         Units(i) == ((rem * N(i)) \div (SW * Scale)) * Scale          \* floor(fairShare)
         Frac(i) == (rem * N(i)) - (Units(i) * SW) > 0                 \* fairShare - floor > 0
         Give(i) == IF Full(i) THEN RemRequested(i) ELSE Units(i)
         another == \E i \in Act : Give(i) # 0 /\ RemRequested(i) * SW < rem * N(i)
         rem2 == rem - SumOver(Act, Give)
     IN IF W = 0 \/ SW = 0 \/ rem = 0
        THEN /\ prioList' = Tail(prioList)
             /\ UNCHANGED <<fs, rem, remReq>>
        ELSE /\ fs' = [i \in Idx(inp) |-> IF i \in Act THEN fs[i] + Give(i) ELSE fs[i]]
             /\ rem' = rem2
             /\ remReq' = (remReq \ {i \in Act : Full(i)}) \cup {i \in Act : ~Full(i) /\ Frac(i)}
             /\ prioList' = IF another /\ rem2 # 0 THEN prioList ELSE Tail(prioList)
  /\ UNCHANGED <<inp, pc>>

StartRest ==
  /\ pc = "up" /\ prioList = <<>>
  /\ pc' = IF rem > 0 /\ remReq # {} THEN "rest" ELSE "done"
  /\ UNCHANGED <<inp, fs, rem, prioList, remReq>>

Pop ==
  /\ pc = "rest"
  /\ IF rem = 0 \/ remReq = {}
     THEN pc' = "done" /\ UNCHANGED <<fs, rem, remReq>>
     ELSE LET top == Max({Q(inp, i).prio : i \in remReq}) IN
          \E i \in {j \in remReq : Q(inp, j).prio = top} :
            LET g == Min2(Scale, rem) IN
            /\ fs' = [fs EXCEPT ![i] = @ + g]
            /\ rem' = rem - g
            /\ remReq' = remReq \ {i}
            /\ pc' = pc
  /\ UNCHANGED <<inp, prioList>>

Next == SetDeserved \/ Round \/ StartRest \/ Pop
Spec == Init /\ [][Next]_vars /\ WF_vars(Next)

TypeOK == /\ pc \in {"deserved", "up", "rest", "done"} /\ rem >= 0 /\ remReq \subseteq Idx(inp)

\* the design meets the contract (Slack-free reading: the model is exact)
C09_Lower          == pc = "done" => C09c_Lower(inp, fs)
C09_Upper          == pc = "done" => C09c_Upper(inp, fs)
C09_Conservation   == pc = "done" => C09c_Conservation(inp, fs)
ModelWf == [i \in Idx(inp) |-> IF fs[i] < CapReq(inp, i) THEN 1 ELSE 0]
C09_NoWaste        == pc = "done" => C09c_NoWaste(inp, fs, ModelWf)
C09_PriorityOrder  == pc = "done" => C09c_PriorityOrder(inp, fs, ModelWf)
C09_WeightMonotone == pc = "done" => C09c_WeightMonotone(inp, fs)
C09_Terminates     == <>(pc = "done")
=============================================================================
