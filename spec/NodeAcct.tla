------------------------------- MODULE NodeAcct -------------------------------
(* Per-node resource accounting of the scheduler (properties C14 node part, C02 node part).

   Shaped after pkg/scheduler/api/node_info/node_info.go and gpu_sharing_node_info.go:
     AddTaskRes    = addTaskResources + addSharedTaskResources(PerPodGroup)
     RemTaskRes    = removeTaskResources + removeSharedTaskResources(PerPodGroup)
     ApplyCall     = AddTask | RemoveTask | UpdateTask (= Remove(clone on node) + Add) |
                     ConsolidateSharedPodInfoToDifferentGPU (= drop the clone WITHOUT removing its
                     resources + Add)
   The record `A` (idle/used/rel vectors, um/am/rm per GPU group, mk = ReleasingSharedGPUs marker,
   ak = key set of AllocatedSharedGPUsMemory) is a line-by-line TRANSCRIPTION of that code.
   Truth* are DECLARATIVE: set comprehensions over the accounting entries E (pods on the node with
   status and GPU groups), written independently of the update code.

   The actions are the node-level calls as the scheduler issues them (framework/statement.go,
   actions/common/allocate.go, gpu_sharing/gpuSharing.go, cache snapshot):
     SnapAdd                 snapshot: AddTask of Running/Releasing/Bound/Binding pods, any order
     Place (allocate action) Allocate = Statement.Allocate -> AddTask(Allocated)  |  Pipeline = Statement.Pipeline
                             -> AddTask(Pipelined)
     Place (solvers)         PipelineOnly: AddTask(Pipelined) | Unevict (pod virtually evicted, same
                             groups) | Consolidate (virtually evicted fraction pod moved to other group)
     Evict                   UpdateTask(-> Releasing)
     UndoLast                Rollback/Discard: unallocate/unpipeline = RemoveTask (+ RestoreSharedPodInfoOnPreviousGPU
                             when the pipeline had moved the pod to another GPU group), unevict = UpdateTask
                             or AddTask when the pod is no longer on the node
     Convert*                ConvertAllAllocatedToPipelined: per allocate op in log order:
                             unallocate (RemoveTask) then ConvPipeline = Pipeline(update) (AddTask(Pipelined, same groups))
     Commit / CommitFail     no node call / unallocate of the failed bind, rest of the log abandoned
   Guards are the scheduler's own fit checks evaluated on the transcribed accounting
   (IsTaskAllocatable, IsTaskAllocatableOnReleasingOrIdle, FittingGPUs, GetNodePreferableGpuForSharing).
   Properties are never guards.

   Units: cpu in milli-cores, gpu in whole devices (shared devices are accounted as whole devices
   moved between Idle and Releasing), pods = pod slots, GPU memory in the node's units.
   `nd` and `kinds` are variables only so that NodeAcctTrace can bind them per scenario. *)
EXTENDS Integers, Sequences, FiniteSets, FiniteSetsExt, TLC, Json

CONSTANTS NGpu, GpuMem, NodeCpu, MaxPods,  \* the node
          Kind,       \* sequence of pod kinds: [k |-> "cpu"|"whole"|"frac"|"resv", cpu, gpus, mem, dev]
          GroupSeq,   \* sequence of GPU group names; the i-th fresh group (a new UUID in the code) is GroupSeq[i]
          SnapSt,     \* statuses a snapshot may add
          MaxSnap,    \* bound on snapshot pods
          MaxOps      \* bound on the number of steps of a behaviour (nops = depth)

VARIABLES nd, kinds, pods, ghost, A, log, phase, pc, seen, nops, act, taint

vars == <<nd, kinds, pods, ghost, A, log, phase, pc, seen, nops, act, taint>>
view == <<pods, ghost, A, log, phase, pc, seen>>

Statuses == {"None", "Allocated", "Pipelined", "Binding", "Bound", "Running", "Releasing"}

(* ------------------------------ small vector algebra ------------------------------ *)
V(c, g, p) == [cpu |-> c, gpu |-> g, pods |-> p]
VAdd(a, b) == V(a.cpu + b.cpu, a.gpu + b.gpu, a.pods + b.pods)
VSub(a, b) == V(a.cpu - b.cpu, a.gpu - b.gpu, a.pods - b.pods)
GpuOnly(n) == V(0, n, 0)
Rng(s) == {s[i] : i \in 1..Len(s)}

IsFrac(p) == kinds[p].k = "frac"
Mem(p) == kinds[p].mem
\* getAcceptedTaskResourceWithoutSharedGPU (+ reservation pods: GPU zeroed; shared: GPU zeroed)
R(p) == V(kinds[p].cpu, IF kinds[p].k = "whole" THEN kinds[p].gpus ELSE 0, 1)
Alloc == V(nd.cpu, nd.n, nd.maxpods)

(* ------------------------------ transcription of the Go code ------------------------------ *)
UsedSharedCount(S) == Cardinality({g \in DOMAIN S.um : S.um[g] > 0})   \* getNumberOfUsedSharedGPUs
UsedGpus(S) == S.used.gpu + UsedSharedCount(S)                          \* getNumberOfUsedGPUs

\* addSharedTaskResourcesPerPodGroup
AddSharedGroup(S, st, mem, g) ==
  LET S1 == [S EXCEPT !.um[g] = @ + mem] IN
  CASE st = "Releasing" ->
        LET S2 == [S1 EXCEPT !.rm[g] = @ + mem, !.am[g] = @ + mem, !.ak = @ \cup {g}] IN
        IF S2.um[g] = S2.rm[g]
        THEN LET S3 == IF g \notin S2.mk
                       THEN [S2 EXCEPT !.rel = VAdd(@, GpuOnly(1)), !.mk = @ \cup {g}] ELSE S2
                 S4 == IF nd.n < S3.idle.gpu + UsedGpus(S3)
                       THEN [S3 EXCEPT !.idle = VSub(@, GpuOnly(1))] ELSE S3
             IN S4
        ELSE S2
    [] st = "Pipelined" ->
        LET S2 == [S1 EXCEPT !.rm[g] = @ - mem] IN
        IF S2.um[g] - mem = S2.rm[g] + mem
        THEN [S2 EXCEPT !.rel = VSub(@, GpuOnly(1))] ELSE S2
    [] OTHER ->
        LET S2 == [S1 EXCEPT !.am[g] = @ + mem, !.ak = @ \cup {g}]
            S3 == IF S2.um[g] <= mem /\ nd.n < S2.idle.gpu + UsedGpus(S2)
                  THEN [S2 EXCEPT !.idle = VSub(@, GpuOnly(1))] ELSE S2
            S4 == IF g \in S3.mk
                  THEN [S3 EXCEPT !.rel = VSub(@, GpuOnly(1)), !.mk = @ \ {g}] ELSE S3
        IN S4

\* removeSharedTaskResourcesPerPodGroup
RemSharedGroup(S, st, mem, g) ==
  LET S1 == [S EXCEPT !.um[g] = @ - mem] IN
  CASE st = "Releasing" ->
        LET S2 == [S1 EXCEPT !.rm[g] = @ - mem, !.am[g] = @ - mem, !.ak = @ \cup {g}] IN
        IF S2.um[g] <= 0
        THEN LET S3 == IF nd.n >= S2.idle.gpu + UsedGpus(S2)
                       THEN [S2 EXCEPT !.idle = VAdd(@, GpuOnly(1))] ELSE S2
                 S4 == IF g \in S3.mk
                       THEN [S3 EXCEPT !.rel = VSub(@, GpuOnly(1)), !.mk = @ \ {g}] ELSE S3
             IN S4
        ELSE S2
    [] st = "Pipelined" ->
        LET S2 == [S1 EXCEPT !.rm[g] = @ + mem]
            \* isPipelinedToReleasingGpu
            usedBefore == S2.um[g] + mem
            relBefore  == S2.rm[g] - mem
        IN IF (usedBefore = relBefore) \/ (S2.um[g] = 0 /\ S2.rm[g] = 0)
           THEN [S2 EXCEPT !.rel = VAdd(@, GpuOnly(1))] ELSE S2
    [] OTHER ->
        LET S2 == [S1 EXCEPT !.am[g] = @ - mem, !.ak = @ \cup {g}]
            S3 == IF S2.um[g] <= 0 /\ nd.n >= S2.idle.gpu + UsedGpus(S2)
                  THEN [S2 EXCEPT !.idle = VAdd(@, GpuOnly(1))] ELSE S2
            \* isGpuReleasingFromSharedTasks && !isSharedGpuMarkedAsReleasing
            S4 == IF S3.um[g] # 0 /\ S3.rm[g] = S3.um[g] /\ g \notin S3.mk
                  THEN [S3 EXCEPT !.rel = VAdd(@, GpuOnly(1)), !.mk = @ \cup {g}] ELSE S3
        IN S4

RECURSIVE AddGroups(_, _, _, _, _), RemGroups(_, _, _, _, _)
AddGroups(S, st, mem, grp, i) ==
  IF i > Len(grp) THEN S ELSE AddGroups(AddSharedGroup(S, st, mem, grp[i]), st, mem, grp, i + 1)
RemGroups(S, st, mem, grp, i) ==
  IF i > Len(grp) THEN S ELSE RemGroups(RemSharedGroup(S, st, mem, grp[i]), st, mem, grp, i + 1)

\* addTaskResources
AddTaskRes(S, p, st, grp) ==
  LET r  == R(p)
      S1 == [S EXCEPT !.used = VAdd(@, r)]
      S2 == CASE st = "Releasing" -> [S1 EXCEPT !.rel = VAdd(@, r), !.idle = VSub(@, r)]
              [] st = "Pipelined" -> [S1 EXCEPT !.rel = VSub(@, r)]
              [] OTHER            -> [S1 EXCEPT !.idle = VSub(@, r)]
  IN IF IsFrac(p) THEN AddGroups(S2, st, Mem(p), grp, 1) ELSE S2

\* removeTaskResources (of the clone stored on the node: ITS status and groups)
RemTaskRes(S, p, st, grp) ==
  LET r  == R(p)
      S1 == [S EXCEPT !.used = VSub(@, r)]
      S2 == CASE st = "Releasing" -> [S1 EXCEPT !.rel = VSub(@, r), !.idle = VAdd(@, r)]
              [] st = "Pipelined" -> [S1 EXCEPT !.rel = VAdd(@, r)]
              [] OTHER            -> [S1 EXCEPT !.idle = VAdd(@, r)]
  IN IF IsFrac(p) THEN RemGroups(S2, st, Mem(p), grp, 1) ELSE S2

\* one NodeInfo API call; (ost, ogrp) = status and groups of the clone currently on the node
ApplyCall(S, call, p, st, grp, ost, ogrp) ==
  CASE call = "Add"         -> AddTaskRes(S, p, st, grp)
    [] call = "Remove"      -> RemTaskRes(S, p, ost, ogrp)
    [] call = "Update"      -> AddTaskRes(RemTaskRes(S, p, ost, ogrp), p, st, grp)
    [] call = "Consolidate" -> AddTaskRes(S, p, st, grp)
    [] OTHER                -> S

EmptyAcct(D) ==
  [idle |-> Alloc, used |-> V(0, 0, 0), rel |-> V(0, 0, 0),
   um |-> [g \in D |-> 0], am |-> [g \in D |-> 0], rm |-> [g \in D |-> 0], mk |-> {}, ak |-> {}]

(* ------------------------------ declarative truth ------------------------------ *)
\* E = set of accounting entries [p, st, grp, gh, nom]:
\*   gh = 1  : the terminating incarnation of a pod that was re-nominated onto another GPU group of
\*             the same node (Statement.Pipeline -> ConsolidateSharedPodInfoToDifferentGPU keeps its
\*             resources accounted although NodeInfo.PodInfos only holds the nominated incarnation)
\*   nom = 1 : a Releasing entry whose previous status was Pipelined (a nomination that was
\*             evicted): the accounting treats it like any Releasing pod, physically it holds nothing
VSumR(X) == V(MapThenSumSet(LAMBDA e : R(e.p).cpu, X), MapThenSumSet(LAMBDA e : R(e.p).gpu, X), Cardinality(X))
Sharers(E, g) == {e \in E : IsFrac(e.p) /\ g \in Rng(e.grp)}
MemSum(X) == MapThenSumSet(LAMBDA e : Mem(e.p), X)
GroupsOf(E) == UNION {Rng(e.grp) : e \in {x \in E : IsFrac(x.p)}}
HasReal(E, g) == \E e \in Sharers(E, g) : e.st # "Pipelined"
AllRel(E, g) == HasReal(E, g) /\ \A e \in Sharers(E, g) : e.st # "Pipelined" => e.st = "Releasing"
Pipe(E, g) == {e \in Sharers(E, g) : e.st = "Pipelined"}
WithSt(E, S) == {e \in E : e.st \in S}

TruthUsed(E) == VSumR(E)
TruthIdle(E) == VSub(VSub(Alloc, VSumR({e \in E : e.st # "Pipelined"})),
                     GpuOnly(Cardinality({g \in GroupsOf(E) : HasReal(E, g)})))
TruthRel(E) ==
  VAdd(VSub(VSumR(WithSt(E, {"Releasing"})), VSumR(WithSt(E, {"Pipelined"}))),
       GpuOnly(Cardinality({g \in GroupsOf(E) : AllRel(E, g)})
               - Cardinality({g \in GroupsOf(E) : Pipe(E, g) # {} /\ (~HasReal(E, g) \/ AllRel(E, g))})))
TruthUM(E, g) == MemSum(Sharers(E, g))
TruthAM(E, g) == MemSum({e \in Sharers(E, g) : e.st # "Pipelined"})
TruthRM(E, g) == MemSum(WithSt(Sharers(E, g), {"Releasing"})) - MemSum(Pipe(E, g))
\* ReleasingSharedGPUs marker = "this group's device is counted in Releasing.gpu". It must be set when
\* everything on the group is releasing and nothing is nominated there, and may only be set when all
\* holders are releasing (with a nominated co-sharer the code's value depends on the operation
\* order while Releasing.gpu does not: left unconstrained)
TruthMKmust(E) == {g \in GroupsOf(E) : AllRel(E, g) /\ Pipe(E, g) = {}}
TruthMKmay(E) == {g \in GroupsOf(E) : AllRel(E, g)}

\* the property predicates, parameterised so that NodeAcctTrace evaluates them on the REAL values
P14_Used(S, E) == S.used = TruthUsed(E)
P14_Idle(S, E) == S.idle = TruthIdle(E)
P14_Rel(S, E) == S.rel = TruthRel(E)
P14_UM(S, E) == \A g \in DOMAIN S.um : S.um[g] = TruthUM(E, g)
P14_AM(S, E) == \A g \in DOMAIN S.am : S.am[g] = TruthAM(E, g)
P14_RM(S, E) == \A g \in DOMAIN S.rm : S.rm[g] = TruthRM(E, g)
P14_MK(S, E) == TruthMKmust(E) \subseteq S.mk /\ S.mk \subseteq TruthMKmay(E)
\* C02: per device, the memory of the sharers that hold it (everything but nominations) fits;
\* whole devices held + devices opened for sharing never exceed the node's devices
Holding(E) == {e \in E : e.st # "Pipelined" /\ e.nom = 0}
P02_GroupFits(E) == \A g \in GroupsOf(E) : MemSum(Sharers(Holding(E), g)) <= nd.gpumem
P02_Exclusive(E) == VSumR(Holding(E)).gpu + Cardinality(GroupsOf(Holding(E))) <= nd.n
P02_Distinct(E) == \A e \in E : IsFrac(e.p) => Cardinality(Rng(e.grp)) = Len(e.grp) /\ Len(e.grp) = kinds[e.p].dev

(* ------------------------------ the scheduler's fit checks (guards) ------------------------------ *)
BaseFits(p, avail) == kinds[p].cpu <= avail.cpu /\ 1 <= avail.pods
EnoughOnGpu(S, p, g) == nd.gpumem - S.am[g] + S.rm[g] - Mem(p) >= 0              \* enoughResourcesOnGpu
FitOnGroup(S, p, g) == S.um[g] # 0 /\ EnoughOnGpu(S, p, g) /\ S.am[g] # S.rm[g]  \* IsTaskFitOnGpuGroup
\* EnoughIdleResourcesOnGpu: a group whose AllocatedSharedGPUsMemory entry is missing or 0 holds no device
EnoughIdleOnGpu(S, p, g) == g \in S.ak /\ S.am[g] > 0 /\ nd.gpumem - S.am[g] - Mem(p) >= 0
FitGroups(S, p) == {g \in DOMAIN S.um : FitOnGroup(S, p, g)}
MinI(a, b) == IF a < b THEN a ELSE b
\* isTaskAllocatableOnNonAllocatedResources
FitsOn(S, p, avail) ==
  IF IsFrac(p)
  THEN BaseFits(p, avail) /\ avail.gpu + MinI(kinds[p].dev, Cardinality(FitGroups(S, p))) >= kinds[p].dev
  ELSE BaseFits(p, avail) /\ R(p).gpu <= avail.gpu
Allocatable(S, p) == FitsOn(S, p, S.idle)                      \* IsTaskAllocatable
FittingNode(S, p) == FitsOn(S, p, VAdd(S.idle, S.rel))         \* IsTaskAllocatableOnReleasingOrIdle
\* filterGpusByEnoughResources: number of WholeGpuIndicator entries
WholeSlots(S) == IF S.idle.gpu > 0 \/ S.rel.gpu > 0
                 THEN (IF S.idle.gpu + S.rel.gpu > 0 THEN S.idle.gpu + S.rel.gpu ELSE 0) ELSE 0

GSort(S) == LET RECURSIVE F(_, _)
                  F(T, i) == IF i > Len(GroupSeq) THEN <<>>
                             ELSE (IF GroupSeq[i] \in T THEN <<GroupSeq[i]>> ELSE <<>>) \o F(T, i + 1)
              IN F(S, 1)
FreshSeq(f) == [i \in 1..f |-> GroupSeq[seen + i]]

(* ------------------------------ state ------------------------------ *)
Pods == DOMAIN kinds
Entry(p) == [p |-> p, st |-> pods[p].st, grp |-> pods[p].grp, gh |-> 0, nom |-> pods[p].nom]
Ghost(p) == [p |-> p, st |-> ghost[p].st, grp |-> ghost[p].grp, gh |-> 1, nom |-> ghost[p].nom]
Entries == {Entry(p) : p \in {q \in Pods : pods[q].st # "None"}}
             \cup {Ghost(p) : p \in {q \in Pods : ghost[q].st # "None"}}
NoEnt == [st |-> "None", grp |-> <<>>, nom |-> 0]
Lbl(op, call, p, st, grp) == [op |-> op, call |-> call, p |-> p, st |-> st, grp |-> grp]
InLog(p) == \E i \in 1..Len(log) : log[i][1] = p
StmtKind == IF Len(log) = 0 THEN "none" ELSE log[1][3]

Init ==
  /\ nd = [n |-> NGpu, gpumem |-> GpuMem, cpu |-> NodeCpu, maxpods |-> MaxPods]
  /\ kinds = Kind
  /\ pods = [p \in DOMAIN Kind |-> NoEnt]
  /\ ghost = [p \in DOMAIN Kind |-> NoEnt]
  /\ A = EmptyAcct(Rng(GroupSeq))
  /\ log = <<>> /\ phase = "snap" /\ pc = <<>> /\ seen = 0 /\ nops = 0
  /\ act = Lbl("Init", "None", 0, "None", <<>>)
  /\ taint = FALSE

\* one NodeInfo call on pod p
Do(op, call, p, st, grp) ==
  /\ A' = ApplyCall(A, call, p, st, grp, pods[p].st, pods[p].grp)
  /\ pods' = [pods EXCEPT ![p] = IF call = "Remove" THEN NoEnt
                                 ELSE [st |-> st, grp |-> grp,
                                       nom |-> IF op = "Evict" /\ pods[p].st = "Pipelined" THEN 1 ELSE 0]]
  /\ act' = Lbl(op, call, p, st, grp)
  /\ nops' = nops + 1

\* group choices of a fraction pod: ex existing groups (a set) + f fresh ones
GroupChoice(p, ex, f) == GSort(ex) \o FreshSeq(f)

\* ---- snapshot (cache/cluster_info: AddTasksToNode), only physically feasible clusters ----
Feasible(E) == /\ VSumR(E).cpu <= nd.cpu /\ Cardinality(E) <= nd.maxpods
               /\ P02_GroupFits(E) /\ P02_Exclusive(E)
SnapAdd(p, st) ==
  /\ phase = "snap" /\ pods[p].st = "None" /\ st \in SnapSt /\ nops < MaxOps
  /\ Cardinality({q \in Pods : pods[q].st # "None"}) < MaxSnap
  /\ IF IsFrac(p)
     THEN \E ex \in SUBSET {g \in Rng(GroupSeq) : A.um[g] > 0} :
            LET f == kinds[p].dev - Cardinality(ex)
                grp == GroupChoice(p, ex, f) IN
            /\ f >= 0 /\ seen + f <= Len(GroupSeq)
            /\ Feasible(Entries \cup {[p |-> p, st |-> st, grp |-> grp, gh |-> 0, nom |-> 0]})
            /\ Do("SnapAdd", "Add", p, st, grp) /\ seen' = seen + f
     ELSE /\ kinds[p].k = "resv" => st \in {"Running", "Releasing"}
          /\ Feasible(Entries \cup {[p |-> p, st |-> st, grp |-> <<>>, gh |-> 0, nom |-> 0]})
          /\ Do("SnapAdd", "Add", p, st, <<>>) /\ seen' = seen
  /\ UNCHANGED <<nd, kinds, ghost, log, phase, pc>>

OpenSession ==
  /\ phase = "snap" /\ phase' = "sess" /\ nops < MaxOps /\ nops' = nops + 1
  /\ act' = Lbl("OpenSession", "None", 0, "None", <<>>)
  /\ UNCHANGED <<nd, kinds, pods, ghost, A, log, pc, seen>>

\* log entries are tuples <<pod, kind, statement kind, previous status, previous groups>>
Rec(p, k, s, pst, pgrp) == <<p, k, s, pst, pgrp>>
RemoveAt(s, i) == SubSeq(s, 1, i - 1) \o SubSeq(s, i + 1, Len(s))
VirtEvicted(p) == pods[p].st = "Releasing" /\ \E i \in 1..Len(log) : log[i][1] = p /\ log[i][2] = "evict"
EvictIdx(p) == CHOOSE i \in 1..Len(log) : log[i][1] = p /\ log[i][2] = "evict"
                                            /\ \A j \in 1..(i - 1) : ~(log[j][1] = p /\ log[j][2] = "evict")
Session == phase = "sess" /\ pc = <<>> /\ nops < MaxOps
HasK(k) == \E i \in 1..Len(log) : log[i][2] = k

\* ---- allocateTask -> allocateTaskToNode, allocate action (real allocation, stmt kind "A") ----
PlaceA(p) ==
  /\ Session /\ StmtKind \in {"none", "A"}
  /\ pods[p].st = "None" /\ ghost[p].st = "None" /\ ~InLog(p) /\ kinds[p].k # "resv"
  /\ FittingNode(A, p)
  /\ IF IsFrac(p)
     THEN \E ex \in SUBSET FitGroups(A, p) :
            LET f == kinds[p].dev - Cardinality(ex)
                grp == GroupChoice(p, ex, f)
                \* GetNodePreferableGpuForSharing.IsReleasing
                \* (findGpuForSharingOnNode: the i-th new group is allocated only if int(Idle.gpu) >= i)
                releasing == ~Allocatable(A, p) \/ (\E g \in ex : ~EnoughIdleOnGpu(A, p, g)) \/ f > A.idle.gpu IN
            /\ f >= 0 /\ f <= WholeSlots(A) /\ seen + f <= Len(GroupSeq)
            /\ seen' = seen + f
            /\ IF releasing
               THEN Do("Pipeline", "Add", p, "Pipelined", grp) /\ log' = Append(log, Rec(p, "pipe", "A", "None", <<>>))
               ELSE /\ Do("Allocate", "Add", p, "Allocated", grp) /\ log' = Append(log, Rec(p, "alloc", "A", "None", <<>>))
     ELSE /\ seen' = seen
          /\ IF Allocatable(A, p)
             THEN Do("Allocate", "Add", p, "Allocated", <<>>) /\ log' = Append(log, Rec(p, "alloc", "A", "None", <<>>))
             ELSE Do("Pipeline", "Add", p, "Pipelined", <<>>) /\ log' = Append(log, Rec(p, "pipe", "A", "None", <<>>))
  /\ UNCHANGED <<nd, kinds, ghost, phase, pc>>

\* ---- solvers (reclaim/preempt/consolidation simulations: pipeline only, stmt kind "B") ----
Evict(p) ==
  /\ Session /\ StmtKind \in {"none", "B"}
  \* victims hold resources. (A pod that is only nominated - Pipelined earlier in the session - is not
  \* evicted here: the code would then account it like a terminating pod that holds its request.)
  /\ pods[p].st \in {"Allocated", "Binding", "Bound", "Running"} /\ ~InLog(p)
  /\ kinds[p].k # "resv"
  \* within one solver statement all evictions precede the placements (by_pod_solver: EvictAllPreemptees,
  \* then TryToVirtuallyAllocatePreemptorAndGetVictims; a failed simulation is rolled back first)
  /\ ~HasK("pipe") /\ ~HasK("cons")
  /\ Do("Evict", "Update", p, "Releasing", pods[p].grp)
  /\ log' = Append(log, Rec(p, "evict", "B", pods[p].st, pods[p].grp))
  /\ UNCHANGED <<nd, kinds, ghost, phase, pc, seen>>

\* Statement.unevict: UpdateTask if the pod is (still) on the node, else AddTask
UnevictCall(p) == IF pods[p].st # "None" THEN "Update" ELSE "Add"

PlaceB(p) ==
  /\ Session /\ StmtKind \in {"none", "B"}
  /\ kinds[p].k # "resv"
  /\ \/ pods[p].st = "None" /\ ghost[p].st = "None" /\ ~InLog(p)
     \/ VirtEvicted(p) /\ ghost[p].st = "None"
  /\ FittingNode(A, p)
  /\ IF IsFrac(p)
     THEN \E ex \in SUBSET FitGroups(A, p) :
            LET f == kinds[p].dev - Cardinality(ex)
                grp == GroupChoice(p, ex, f) IN
            /\ f >= 0 /\ f <= WholeSlots(A) /\ seen + f <= Len(GroupSeq)
            /\ seen' = seen + f
            /\ IF pods[p].st = "None"
               THEN /\ Do("PipelineOnly", "Add", p, "Pipelined", grp)
                    /\ log' = Append(log, Rec(p, "pipe", "B", "None", <<>>)) /\ ghost' = ghost
               ELSE IF grp # pods[p].grp
                    \* Statement.Pipeline: isSharedAndMoveToDifferentGPU -> ConsolidateSharedPodInfoToDifferentGPU
                    THEN /\ Do("Consolidate", "Consolidate", p, "Pipelined", grp)
                         /\ ghost' = [ghost EXCEPT ![p] = pods[p]]
                         /\ log' = Append(log, Rec(p, "cons", "B", "Releasing", pods[p].grp))
                    \* Statement.Pipeline -> Unevict (earliest evict of p, non-LIFO)
                    ELSE LET i == EvictIdx(p) IN
                         /\ Do("Unevict", "Update", p, log[i][4], log[i][5])
                         /\ log' = RemoveAt(log, i) /\ ghost' = ghost
     ELSE /\ seen' = seen /\ ghost' = ghost
          /\ IF pods[p].st = "None"
             THEN Do("PipelineOnly", "Add", p, "Pipelined", <<>>) /\ log' = Append(log, Rec(p, "pipe", "B", "None", <<>>))
             ELSE LET i == EvictIdx(p) IN
                  Do("Unevict", "Update", p, log[i][4], log[i][5]) /\ log' = RemoveAt(log, i)
  /\ UNCHANGED <<nd, kinds, phase, pc>>

\* ---- Rollback / Discard: reverse operations in LIFO order ----
UndoLast ==
  /\ phase = "sess" /\ pc = <<>> /\ Len(log) > 0 /\ nops < MaxOps
  /\ LET e == log[Len(log)] IN
     /\ log' = SubSeq(log, 1, Len(log) - 1)
     /\ CASE e[2] = "alloc" -> Do("Unallocate", "Remove", e[1], "None", <<>>) /\ ghost' = ghost
          [] e[2] = "pipe"  -> Do("Unpipeline", "Remove", e[1], "None", <<>>) /\ ghost' = ghost
          \* unpipeline of a moved pod: RemoveTask of the nominated copy, then
          \* RestoreSharedPodInfoOnPreviousGPU puts the entry of the terminating copy back (entry only,
          \* its resources were never removed)
          [] e[2] = "cons"  -> /\ A' = ApplyCall(A, "Remove", e[1], "None", <<>>, pods[e[1]].st, pods[e[1]].grp)
                               /\ pods' = [pods EXCEPT ![e[1]] = ghost[e[1]]]
                               /\ ghost' = [ghost EXCEPT ![e[1]] = NoEnt]
                               /\ act' = Lbl("UnpipelineMoved", "Remove", e[1], ghost[e[1]].st, ghost[e[1]].grp)
                               /\ nops' = nops + 1
          [] e[2] = "evict" -> /\ Do("Unevict", UnevictCall(e[1]), e[1], e[4], e[5])
                              /\ ghost' = IF pods[e[1]].st = "None" THEN [ghost EXCEPT ![e[1]] = NoEnt] ELSE ghost
  /\ UNCHANGED <<nd, kinds, phase, pc, seen>>

\* ---- ConvertAllAllocatedToPipelined (allocate action, a task of the job was pipelined) ----
FirstK(k) == CHOOSE i \in 1..Len(log) : log[i][2] = k /\ \A j \in 1..(i - 1) : log[j][2] # k
ConvertStart ==
  /\ Session /\ StmtKind = "A" /\ HasK("pipe") /\ HasK("alloc")
  /\ pc' = <<"conv">> /\ nops' = nops + 1
  /\ act' = Lbl("ConvertStart", "None", 0, "None", <<>>)
  /\ UNCHANGED <<nd, kinds, pods, ghost, A, log, phase, seen>>
ConvertUnalloc ==
  /\ phase = "sess" /\ pc = <<"conv">> /\ HasK("alloc") /\ nops < MaxOps
  /\ LET i == FirstK("alloc") p == log[i][1] IN
     /\ pc' = <<"convpipe", p, pods[p].grp>>
     /\ log' = RemoveAt(log, i)
     /\ Do("Unallocate", "Remove", p, "None", <<>>)
  /\ UNCHANGED <<nd, kinds, ghost, phase, seen>>
ConvertPipe ==
  /\ phase = "sess" /\ Len(pc) = 3 /\ pc[1] = "convpipe" /\ nops < MaxOps
  /\ pc' = <<"conv">>
  /\ log' = Append(log, Rec(pc[2], "pipe", "A", "None", <<>>))
  /\ Do("ConvPipeline", "Add", pc[2], "Pipelined", pc[3])
  /\ UNCHANGED <<nd, kinds, ghost, phase, seen>>

\* ---- Commit: no node call; Allocated clones stay Allocated (BindPod updates the job only) ----
Commit ==
  /\ phase = "sess" /\ Len(log) > 0 /\ nops < MaxOps
  /\ pc = <<>> \/ (pc = <<"conv">> /\ ~HasK("alloc"))
  /\ log' = <<>> /\ pc' = <<>> /\ nops' = nops + 1
  /\ act' = Lbl("Commit", "None", 0, "None", <<>>)
  /\ UNCHANGED <<nd, kinds, pods, ghost, A, phase, seen>>
\* commitAllocate fails: cleanupFailedAllocation = unallocate(p); the remaining operations are abandoned
CommitFail(p) ==
  /\ Session /\ StmtKind = "A"
  /\ \E i \in 1..Len(log) : log[i][1] = p /\ log[i][2] = "alloc"
  /\ log' = <<>>
  /\ Do("Unallocate", "Remove", p, "None", <<>>)
  /\ UNCHANGED <<nd, kinds, ghost, phase, pc, seen>>

Step ==
  \/ \E p \in Pods, st \in SnapSt : SnapAdd(p, st)
  \/ OpenSession
  \/ \E p \in Pods : PlaceA(p) \/ PlaceB(p) \/ Evict(p) \/ CommitFail(p)
  \/ UndoLast \/ ConvertStart \/ ConvertUnalloc \/ ConvertPipe \/ Commit


(* ------------------------------ invariants ------------------------------ *)
TypeOK ==
  /\ pods \in [Pods -> [st : Statuses, grp : Seq(Rng(GroupSeq)), nom : {0, 1}]]
  /\ ghost \in [Pods -> [st : Statuses, grp : Seq(Rng(GroupSeq)), nom : {0, 1}]]
  /\ \A f \in {"idle", "used", "rel"} : A[f].cpu \in Int /\ A[f].gpu \in Int /\ A[f].pods \in Int
  /\ A.um \in [Rng(GroupSeq) -> Int] /\ A.am \in [Rng(GroupSeq) -> Int] /\ A.rm \in [Rng(GroupSeq) -> Int]
  /\ A.mk \subseteq Rng(GroupSeq) /\ A.ak \subseteq Rng(GroupSeq)
  /\ phase \in {"snap", "sess"} /\ seen \in 0..Len(GroupSeq) /\ nops \in Nat

\* CurE = the accounting entries the predicates are judged against. Model: the pods of the state.
\* NodeAcctTrace overrides it (cfg: CurE <- TraceE) with the entries logged by the harness, and A is
\* then the REAL NodeInfo projection.
CurE == Entries
C14_NodeUsed == P14_Used(A, CurE)
C14_NodeIdle == P14_Idle(A, CurE)
C14_NodeReleasing == P14_Rel(A, CurE)
C14_NodeUsedMem == P14_UM(A, CurE)
C14_NodeAllocMem == P14_AM(A, CurE)
C14_NodeRelMem == P14_RM(A, CurE)
C14_NodeMarker == P14_MK(A, CurE)
C02_GroupFits == P02_GroupFits(CurE)
C02_Exclusive == P02_Exclusive(CurE)
C02_Distinct == P02_Distinct(CurE)

(* model-level triage: one pass over the whole reachable graph, every state in which a predicate
   fails is printed (a PREDICTION, to be confirmed or refuted by replaying the behaviour on the real
   NodeInfo) and exploration continues *)
F(name, ok) == IF ok THEN {} ELSE {name}
MFailing ==
  F("C14_NodeUsed", C14_NodeUsed)
  \cup F("C14_NodeIdle", C14_NodeIdle)
  \cup F("C14_NodeReleasing", C14_NodeReleasing)
  \cup F("C14_NodeUsedMem", C14_NodeUsedMem)
  \cup F("C14_NodeAllocMem", C14_NodeAllocMem)
  \cup F("C14_NodeRelMem", C14_NodeRelMem)
  \cup F("C14_NodeMarker", C14_NodeMarker)
  \cup F("C02_GroupFits", C02_GroupFits)
  \cup F("C02_Exclusive", C02_Exclusive)
  \cup F("C02_Distinct", C02_Distinct)
  \cup F("TypeOK", TypeOK)
ModelTriage == IF taint \/ MFailing = {} THEN TRUE
               ELSE PrintT("MVERDICT " \o ToJson([failing |-> MFailing, op |-> act.op, depth |-> nops]))

\* a behaviour is followed until its first predicted failure: the failing state is reported, its
\* incoming edge is exported, no transition leaves it (ACTION_CONSTRAINT on the source state)
Clean == MFailing = {}

\* taint = the source state of the step already failed a predicate (such steps are discarded by
\* ACTION_CONSTRAINT Edge; TLC still evaluates INVARIANTs on their target, which must not be reported)
Next == Step /\ taint' = ~Clean
Spec == Init /\ [][Next]_vars

(* edge export (BUILDING.md option b): ACTION_CONSTRAINT Edge, VIEW view, -workers 1 *)
\* (ToJson of whole states is ~20x slower than ToString; the states are only needed as identities)
\*  IdView is `view` written with tuples only: TLC prints tuples canonically, records/sets not before normalisation)
VT(v) == <<v.cpu, v.gpu, v.pods>>
ET(e) == <<e.st, e.grp, e.nom>>
IdView == << [p \in DOMAIN pods |-> ET(pods[p])], [p \in DOMAIN ghost |-> ET(ghost[p])], VT(A.idle), VT(A.used), VT(A.rel),
             [i \in 1..Len(GroupSeq) |-> <<A.um[GroupSeq[i]], A.am[GroupSeq[i]], A.rm[GroupSeq[i]],
                                           GroupSeq[i] \in A.mk, GroupSeq[i] \in A.ak>>],
             log, phase, pc, seen >>
Edge == Clean /\ PrintT(<<"EDGE", ToJson(act'), ToString(IdView), ToString(IdView')>>)
=============================================================================
