------------------------------- MODULE Binder -------------------------------
(* The binder's BindRequest reconcile at API-call granularity (properties C11, C17).

   Shaped after
     pkg/binder/controllers/bindrequest_controller.go   Reconcile, UpdateStatus, updatePodCondition, deleteHandler
     pkg/binder/controllers/pod_controller.go           delete / completion handlers -> SyncForGpuGroup
     pkg/binder/binding/binder.go                       Bind, Rollback, reserveGPUs
     pkg/binder/binding/resourcereservation             Sync, SyncForNode, SyncForGpuGroup, syncForPods,
                                                        ReserveGpuDevice, RemovePodGpuGroupsConnection, group mutex
     pkg/binder/plugins/gpusharing, k8s-plugins/dynamicresources, pkg/binder/common (ConfigMaps)

   One step of an actor = "the actor is granted the client call (or the acquisition of a group
   mutex) it waits at, performs it, and runs on to its next client call / mutex acquisition / end".
   Every client call has three outcomes: ok, fail (the call is not performed, an error is returned,
   the code continues on its own error path) and crash (the call is performed, then the binder
   process is dead: all in-flight actors vanish with their in-memory state and the mutexes; only
   the store S survives). Succ(a) is the set of successors of actor a; Binder!Next picks among
   them under fault budgets, BinderTrace matches them against the calls recorded from the real code.

   The store S has exactly the shape of the harness projection (harness/cmd/binder project()):
     pods[p]  = [ph, node, lab (0/1 per group), ann (received-resource-type), cond (PodBound)]
     cm[p]    = [cap, evar (ConfigMaps exist), nvd (NVIDIA_VISIBLE_DEVICES), por (GPU_PORTION, milli)]
     br[p]    = [ex, ph, fa]      res[g] = [n (reservation pods of the group), idx (device index, -1 none)]
     claim    = [ex, rf (reservedFor per pod), al (allocated)]
     binds    = accepted / rejected creations of the binding sub-resource  nidx = next device index
   Pods 1, 2 are to be bound (kinds whole, frac, multi, dra), pod 3 is a pre-existing Running
   single-fraction consumer (kind cons) whose group has a reservation pod with index ExistIdx + g.
*)
EXTENDS Integers, Sequences, FiniteSets, TLC

CONSTANTS Mode,       \* "c11": scripted driver (reconcile, sync, check, retry ...), faults in reconciles
                      \* "c17": free environment (concurrent reconciles, handlers, syncs, env events)
          Configs,    \* set of configurations [kinds, grps] explored
          MaxFail, MaxCrash,   \* fault budgets per type
          MaxFaults,           \* fault budget in total (1: single faults, 2: pairs ...)
          MaxRec,     \* c11: reconciles per behaviour; c17: reconciles per pod
          MaxEnv,     \* c17: environment events (handlers, PodRunning, Annotate)
          MaxSync,    \* c17: explicit syncs
          MaxConc,    \* c17: actors in flight at the same time
          MaxHist     \* bound on the exported history (0 = do not record)

NP == 3
NG == 2
Pods == 1..NP
Groups == 1..NG
NodeN == "n1"
Backoff == 8          \* BackoffLimit of the scenarios' BindRequests (never reached: <= 6 attempts per pod)
Portion == 500
ExistIdx == 7
ASync == 3          \* actor ids: reconcile of pod p = p (1, 2); 3 = Sync / SyncForNode; 4 = event handler
AHdl == 4
Actors == 1..4

VARIABLES cfg,      \* configuration of the scenario (constant along a behaviour)
          S,        \* the API store (in trace mode: the REAL projection)
          L,        \* per actor in-memory state (program counter, in-memory pod copy ...)
          mutex,    \* per group: holder actor or 0
          ctl,      \* control / observation state (driver phase, budgets, check-point flags)
          hist      \* history of labels (export only)
vars == <<cfg, S, L, mutex, ctl, hist>>

(***************************************************************************)
(* Static configuration                                                    *)
(***************************************************************************)
Kind(p) == cfg.kinds[p]
Grp(p) == cfg.grps[p]
GrpSet(p) == {Grp(p)[i] : i \in 1..Len(Grp(p))}
IsFrac(p) == Kind(p) \in {"frac", "multi"}
IsMulti(p) == Kind(p) = "multi"
UsesPlainLabel(p) == Kind(p) \in {"frac", "cons"}
Bindable(p) == Kind(p) \in {"whole", "frac", "multi", "dra"}
RecvType(p) == IF IsFrac(p) THEN "Fraction" ELSE "Regular"

Z2 == <<0, 0>>
Z3 == <<0, 0, 0>>

InitStore(c) ==
  [pods |-> [p \in Pods |->
               IF c.kinds[p] = "none" THEN [ph |-> "None", node |-> "", lab |-> Z2, ann |-> "", cond |-> ""]
               ELSE IF c.kinds[p] = "cons"
                    THEN [ph |-> "Running", node |-> NodeN, lab |-> [g \in Groups |-> IF g = c.grps[p][1] THEN 1 ELSE 0],
                          ann |-> "Fraction", cond |-> ""]
                    ELSE [ph |-> "Pending", node |-> "", lab |-> Z2, ann |-> "", cond |-> ""]],
   cm |-> [p \in Pods |-> [cap |-> 0, evar |-> 0, nvd |-> <<>>, por |-> 0]],
   br |-> [p \in Pods |-> IF c.kinds[p] \in {"whole", "frac", "multi", "dra"}
                          THEN [ex |-> 1, ph |-> "Pending", fa |-> 0] ELSE [ex |-> 0, ph |-> "", fa |-> 0]],
   res |-> [g \in Groups |-> IF \E p \in Pods : c.kinds[p] = "cons" /\ c.grps[p][1] = g
                             THEN [n |-> 1, idx |-> ExistIdx + g] ELSE [n |-> 0, idx |-> -1]],
   claim |-> [ex |-> IF \E p \in Pods : c.kinds[p] = "dra" THEN 1 ELSE 0, rf |-> Z3, al |-> 0],
   binds |-> <<>>,
   nidx |-> 1]

(***************************************************************************)
(* Reading the store                                                       *)
(***************************************************************************)
Exists(St, p) == St.pods[p].ph \notin {"None", "Gone"}
\* "Terminating" = phase Running with a deletion timestamp (graceful termination: the containers still run)
Live(St, p) == St.pods[p].ph \in {"Pending", "Running", "Terminating"}
RunningPh(St, p) == St.pods[p].ph \in {"Running", "Terminating"}
HasLab(St, p, g) == St.pods[p].lab[g] = 1
\* pods returned by the three kinds of list the reservation service uses
PlainOf(St, g) == {p \in Pods : Exists(St, p) /\ UsesPlainLabel(p) /\ HasLab(St, p, g)}
MultiOf(St, g) == {p \in Pods : Exists(St, p) /\ IsMulti(p) /\ HasLab(St, p, g)}
\* groups seen by SyncForNode (pods on the node with the plain label; reservation pods sit on the node)
NodeGroups(St) == {g \in Groups : St.res[g].n > 0 \/ \E p \in PlainOf(St, g) : St.pods[p].node = NodeN}
AllGroups(St) == {g \in Groups : St.res[g].n > 0 \/ PlainOf(St, g) # {}}
\* GetGpuGroups(pod): the plain label and every multi-fraction label of the pod
HandlerGroups(St, p) == {g \in Groups : HasLab(St, p, g)}

PodSeq(Set) == \* pods in name order
  LET F[T \in SUBSET Set] == IF T = {} THEN <<>> ELSE LET m == CHOOSE x \in T : \A y \in T : x <= y IN <<m>> \o F[T \ {m}]
  IN F[Set]

GonePod == [ph |-> "Gone", node |-> "", lab |-> Z2, ann |-> "", cond |-> ""]
DelRes(St, g) == IF St.res[g].n = 0 THEN St
                 ELSE [St EXCEPT !.res[g] = IF St.res[g].n = 1 THEN [n |-> 0, idx |-> -1] ELSE [n |-> St.res[g].n - 1, idx |-> St.res[g].idx]]

(***************************************************************************)
(* Actor-local state                                                       *)
(***************************************************************************)
L0 == [t |-> "idle", p |-> 0, e |-> "", pc |-> "", ctxt |-> "", brph |-> "", brfa |-> 0, mlab |-> Z2, mcond |-> "",
       gs |-> {}, g |-> 0, gi |-> 0, idxs |-> <<>>, cur |-> -1, r1 |-> 0, live1 |-> {}, run1 |-> {}, dels |-> <<>>,
       err |-> 0, k |-> 0, noop |-> 0, w |-> 0]
M0 == [g \in Groups |-> 0]

One(l, m) == {[L |-> l, M |-> m]}
Unlock(m, g, a) == IF g \in Groups /\ m[g] = a THEN [m EXCEPT ![g] = 0] ELSE m
Finish(l, m) == One(L0, m)

ToPC(l, m) == IF l.mcond = "T" THEN Finish(l, m) ELSE One([l EXCEPT !.pc = "PC_patch"], m)
\* UpdateStatus skips the patch only if neither the phase nor the failed-attempts count changes
NewFa(l, err) == IF err = 1 /\ Backoff > l.brfa THEN l.brfa + 1 ELSE l.brfa
ToStatus(l, m, err) ==
  LET newph == IF err = 1 THEN "Failed" ELSE "Succeeded"
  IN IF newph = l.brph /\ NewFa(l, err) = l.brfa THEN ToPC(l, m) ELSE One([l EXCEPT !.pc = "ST_patch", !.err = err], m)
RBstart(l, m) == IF IsFrac(l.p) THEN One([l EXCEPT !.pc = "RB_delcap", !.err = 1], m) ELSE ToStatus(l, m, 1)
PreBindStart(l, m) ==
  One([l EXCEPT !.pc = IF Kind(l.p) = "dra" THEN "DRA_get" ELSE IF IsFrac(l.p) THEN "CM_getcap" ELSE "ANN"], m)
AfterSync(l, m) ==
  IF IsFrac(l.p) THEN One([l EXCEPT !.pc = "RV_lock", !.gi = 1, !.g = Grp(l.p)[1], !.idxs = <<>>], m)
  ELSE PreBindStart(l, m)
SyncRet(l, m, err) ==
  CASE l.ctxt = "bind" -> IF err = 1 THEN RBstart(l, m) ELSE AfterSync(l, m)
    [] l.ctxt = "rb" -> ToStatus(l, m, 1)
    [] OTHER -> Finish(l, m)
\* the next group is chosen when its mutex is acquired (Go map iteration order: any order)
NextGroup(l, m) == IF l.gs = {} THEN SyncRet(l, m, 0) ELSE One([l EXCEPT !.pc = "SG_lock"], m)
\* end of the critical section of group l.g inside a sync
GroupDone(a, l, m, err) ==
  LET m2 == Unlock(m, l.g, a)
  IN CASE l.ctxt = "rvf" -> RBstart(l, m2)          \* syncForGpuGroupWithLock after a failed label patch: errors ignored
       [] l.t = "hdl" -> NextGroup(l, m2)            \* handlers log the error and go on
       [] OTHER -> IF err = 1 THEN SyncRet(l, m2, 1) ELSE NextGroup(l, m2)

Lab(a, l, verb, kind, g, pt, res) ==
  [n |-> "call", a |-> a, verb |-> verb, kind |-> kind, g |-> g, pt |-> pt, res |-> res, k |-> l.k + 1, pc |-> l.pc, gi |-> l.gi]
Bump(cs) == {[L |-> IF c.L.t = "idle" THEN c.L ELSE [c.L EXCEPT !.k = c.L.k + 1], M |-> c.M] : c \in cs}
\* the three outcomes of a client call; faults only hit reconciles
Call(a, l, verb, kind, g, pt, St, okS, okC, failC) ==
  {[S |-> okS, L |-> c.L, M |-> c.M, lab |-> Lab(a, l, verb, kind, g, pt, "ok")] : c \in Bump(okC)}
  \cup (IF l.t = "rec"
        THEN {[S |-> St, L |-> c.L, M |-> c.M, lab |-> Lab(a, l, verb, kind, g, pt, "fail")] : c \in Bump(failC)}
             \cup {[S |-> okS, L |-> L0, M |-> M0, lab |-> Lab(a, l, verb, kind, g, pt, "crash")]}
        ELSE {})

MergeLab(multi, lab, g) == IF multi THEN [lab EXCEPT ![g] = 1] ELSE [h \in Groups |-> IF h = g THEN 1 ELSE 0]
SubLab(lab, m) == \A g \in Groups : m[g] = 1 => lab[g] = 1
MinusLab(lab, m) == [g \in Groups |-> IF m[g] = 1 THEN 0 ELSE lab[g]]

(***************************************************************************)
(* The per-group mutex: mutex[g] = holder (0 free); an actor that called    *)
(* LockMutexForGroup while the mutex was taken waits (L[b].w = g) and is    *)
(* served before later arrivals (it is woken by the release).               *)
(***************************************************************************)
Waiters(a, h) == {b \in Actors \ {a} : L[b].w = h}
CanAcq(a, l, m, h) == m[h] = 0 /\ (IF l.w # 0 THEN l.w = h ELSE Waiters(a, h) = {})
LkLab(n, a, l, h) == [n |-> n, a |-> a, verb |-> "", kind |-> "", g |-> h, pt |-> "", res |-> "ok", k |-> l.k, pc |-> l.pc, gi |-> l.gi]
LockStep(a, St, l, m, h, l2) == [S |-> St, L |-> l2, M |-> [m EXCEPT ![h] = a], lab |-> LkLab("lock", a, l, h)]
WaitStep(a, St, l, m, h) == [S |-> St, L |-> [l EXCEPT !.w = h], M |-> m, lab |-> LkLab("wait", a, l, h)]

(***************************************************************************)
(* Successors of actor a in store St, local state l, mutexes m             *)
(***************************************************************************)
SuccOf(a, St, l, m) ==
  LET p == l.p
      g == l.g
      me == IF p \in Pods THEN St.pods[p] ELSE GonePod
      here == p \in Pods /\ Exists(St, p)
  IN
  CASE l.pc = "GetBR" ->
         Call(a, l, "get", "BindRequest", 0, "", St, St,
              IF St.br[p].ex = 0 \/ St.br[p].ph = "Succeeded" THEN Finish(l, m)
              ELSE One([l EXCEPT !.pc = "GetPod", !.brph = St.br[p].ph, !.brfa = St.br[p].fa], m),
              Finish(l, m))
    [] l.pc = "GetPod" ->
         Call(a, l, "get", "Pod", 0, "", St, St,
              IF ~here THEN ToStatus(l, m, 1)
              ELSE IF me.node # "" THEN ToStatus([l EXCEPT !.mcond = me.cond], m, 0)
              ELSE One([l EXCEPT !.pc = "GetNode", !.mlab = me.lab, !.mcond = me.cond], m),
              ToStatus(l, m, 1))
    [] l.pc = "GetNode" ->
         Call(a, l, "get", "Node", 0, "", St, St,
              One([l EXCEPT !.pc = "SN_list", !.ctxt = "bind"], m), ToStatus(l, m, 1))
    [] l.pc = "SN_list" ->     \* SyncForNode / Sync: list, then one SyncForGpuGroup per group, in map order
         Call(a, l, "list", IF l.t = "sync" THEN "Pod" ELSE "PodOnNode", 0, "", St, St,
              NextGroup([l EXCEPT !.gs = IF l.t = "sync" THEN AllGroups(St) ELSE NodeGroups(St)], m),
              SyncRet(l, m, 1))
    [] l.pc = "SG_lock" ->     \* acquire the mutex of one of the remaining groups, or start waiting for it
         {LockStep(a, St, l, m, h, [l EXCEPT !.pc = "SG_l1", !.g = h, !.gs = l.gs \ {h}, !.w = 0]) :
          h \in {h \in l.gs : CanAcq(a, l, m, h)}}
         \cup {WaitStep(a, St, l, m, h) : h \in {h \in l.gs : l.w = 0 /\ ~CanAcq(a, l, m, h)}}
    [] l.pc = "SG_l1" ->
         Call(a, l, "list", "Pod", g, "", St, St,
              One([l EXCEPT !.pc = "SG_l2", !.r1 = IF St.res[g].n > 0 THEN 1 ELSE 0,
                            !.live1 = {q \in PlainOf(St, g) : Live(St, q)},
                            !.run1 = {q \in PlainOf(St, g) : RunningPh(St, q)}], m),
              GroupDone(a, l, m, 1))
    [] l.pc = "SG_l2" ->
         LET live2 == {q \in MultiOf(St, g) : Live(St, q)}
             run2 == {q \in MultiOf(St, g) : RunningPh(St, q)}
             live == l.live1 \cup live2
             dels == PodSeq(l.run1) \o PodSeq(run2)
         IN Call(a, l, "list", "PodMulti", g, "", St, St,
                 IF live # {} /\ l.r1 = 0
                 THEN (IF dels = <<>> THEN GroupDone(a, l, m, 0) ELSE One([l EXCEPT !.pc = "SG_delpod", !.dels = dels], m))
                 ELSE IF live = {} /\ l.r1 = 1 THEN One([l EXCEPT !.pc = "SG_delres"], m)
                 ELSE GroupDone(a, l, m, 0),
                 GroupDone(a, l, m, 1))
    [] l.pc = "SG_delres" ->
         Call(a, l, "delete", "ResPod", g, "", St, DelRes(St, g), GroupDone(a, l, m, 0), GroupDone(a, l, m, 1))
    [] l.pc = "SG_delpod" ->
         LET q == Head(l.dels)
         IN Call(a, l, "delete", "Pod", 0, "", St,
                 IF Exists(St, q) /\ St.pods[q].ph # "Terminating" THEN [St EXCEPT !.pods[q] = GonePod] ELSE St,
                 IF ~Exists(St, q) THEN GroupDone(a, l, m, 1)
                 ELSE IF Len(l.dels) = 1 THEN GroupDone(a, l, m, 0) ELSE One([l EXCEPT !.dels = Tail(l.dels)], m),
                 GroupDone(a, l, m, 1))
    \* ---- ReserveGpuDevice(group l.g), under the group mutex
    [] l.pc = "RV_lock" ->
         IF CanAcq(a, l, m, g) THEN {LockStep(a, St, l, m, g, [l EXCEPT !.pc = "RV_list", !.w = 0])}
         ELSE IF l.w = 0 THEN {WaitStep(a, St, l, m, g)} ELSE {}
    [] l.pc = "RV_list" ->
         Call(a, l, "list", "ResPod", g, "", St, St,
              IF St.res[g].n > 0
              THEN (IF St.res[g].idx >= 0 THEN One([l EXCEPT !.pc = "RV_label", !.cur = St.res[g].idx], m)
                    ELSE RBstart(l, Unlock(m, g, a)))      \* reservation pod without index annotation: error
              ELSE One([l EXCEPT !.pc = "RV_scale"], m),
              RBstart(l, Unlock(m, g, a)))
    [] l.pc = "RV_scale" ->    \* isScalingUp: a list error is logged and ignored
         Call(a, l, "list", "ScalePod", 0, "", St, St, One([l EXCEPT !.pc = "RV_create"], m), One([l EXCEPT !.pc = "RV_create"], m))
    [] l.pc = "RV_create" ->
         Call(a, l, "create", "ResPod", g, "", St,
              [St EXCEPT !.res[g] = [n |-> St.res[g].n + 1, idx |-> St.res[g].idx]],
              One([l EXCEPT !.pc = "RV_watch"], m), RBstart(l, Unlock(m, g, a)))
    [] l.pc = "RV_watch" ->    \* the reservation pod reports its device index (played by the harness)
         LET S2 == IF St.res[g].n > 0 /\ St.res[g].idx < 0
                   THEN [St EXCEPT !.res[g].idx = St.nidx, !.nidx = St.nidx + 1] ELSE St
         IN Call(a, l, "watch", "ResPod", 0, "", St, S2,
                 \* no reservation pod left to watch: the wait ends without an index (allocation timeout), like a failed watch
                 IF St.res[g].n = 0 THEN One([l EXCEPT !.pc = "RV_delres"], m)
                 ELSE One([l EXCEPT !.pc = "RV_label", !.cur = S2.res[g].idx], m),
                 One([l EXCEPT !.pc = "RV_delres"], m))
    [] l.pc = "RV_delres" ->
         Call(a, l, "delete", "ResPod", g, "", St, DelRes(St, g), RBstart(l, Unlock(m, g, a)), RBstart(l, Unlock(m, g, a)))
    [] l.pc = "RV_label" ->
         LET newlab == MergeLab(IsMulti(p), me.lab, g)
             \* a failed patch leaves the in-memory pod as it was (updatePodGPUGroup restores pod.Labels)
             failL == [l EXCEPT !.pc = "SG_l1", !.ctxt = "rvf"]
             okL == [l EXCEPT !.mlab = newlab, !.mcond = me.cond, !.idxs = Append(l.idxs, l.cur)]
             m2 == Unlock(m, g, a)
         IN Call(a, l, "patch", "Pod", 0, "merge", St,
                 IF here THEN [St EXCEPT !.pods[p].lab = newlab] ELSE St,
                 IF ~here THEN One(failL, m)
                 ELSE IF l.gi < Len(Grp(p)) THEN One([okL EXCEPT !.pc = "RV_lock", !.gi = l.gi + 1, !.g = Grp(p)[l.gi + 1]], m2)
                 ELSE PreBindStart(okL, m2),
                 One(failL, m))
    \* ---- PreBind plugins: k8s-plugins (dynamicresources), gpusharing
    [] l.pc = "DRA_get" ->
         Call(a, l, "get", "ResourceClaim", 0, "", St, St,
              IF St.claim.ex = 1 THEN One([l EXCEPT !.pc = "DRA_upd"], m) ELSE RBstart(l, m), RBstart(l, m))
    [] l.pc = "DRA_upd" ->
         Call(a, l, "update", "ResourceClaimStatus", 0, "", St,
              [St EXCEPT !.claim.rf[p] = 1, !.claim.al = 1], One([l EXCEPT !.pc = "ANN"], m), RBstart(l, m))
    [] l.pc = "CM_getcap" ->
         Call(a, l, "get", "ConfigMap", 0, "", St, St,
              One([l EXCEPT !.pc = IF St.cm[p].cap = 1 THEN "CM_patchcap" ELSE "CM_createcap"], m), RBstart(l, m))
    [] l.pc = "CM_createcap" ->
         Call(a, l, "create", "ConfigMap", 0, "", St, [St EXCEPT !.cm[p].cap = 1],
              IF St.cm[p].cap = 1 THEN RBstart(l, m) ELSE One([l EXCEPT !.pc = "CM_getevar"], m), RBstart(l, m))
    [] l.pc = "CM_patchcap" ->
         Call(a, l, "patch", "ConfigMap", 0, "merge", St, St,
              IF St.cm[p].cap = 0 THEN RBstart(l, m) ELSE One([l EXCEPT !.pc = "CM_getevar"], m), RBstart(l, m))
    [] l.pc = "CM_getevar" ->
         Call(a, l, "get", "ConfigMap", 0, "", St, St,
              One([l EXCEPT !.pc = IF St.cm[p].evar = 1 THEN "CM_patchevar" ELSE "CM_createevar"], m), RBstart(l, m))
    [] l.pc = "CM_createevar" ->
         Call(a, l, "create", "ConfigMap", 0, "", St, [St EXCEPT !.cm[p].evar = 1],
              IF St.cm[p].evar = 1 THEN RBstart(l, m) ELSE One([l EXCEPT !.pc = "NVD_get"], m), RBstart(l, m))
    [] l.pc = "CM_patchevar" ->
         Call(a, l, "patch", "ConfigMap", 0, "merge", St, St,
              IF St.cm[p].evar = 0 THEN RBstart(l, m) ELSE One([l EXCEPT !.pc = "NVD_get"], m), RBstart(l, m))
    [] l.pc = "NVD_get" ->
         Call(a, l, "get", "ConfigMap", 0, "", St, St,
              IF St.cm[p].evar = 1 THEN One([l EXCEPT !.pc = "NVD_patch"], m) ELSE RBstart(l, m), RBstart(l, m))
    [] l.pc = "NVD_patch" ->
         Call(a, l, "patch", "ConfigMap", 0, "merge", St,
              IF St.cm[p].evar = 1 THEN [St EXCEPT !.cm[p].nvd = l.idxs] ELSE St,
              IF St.cm[p].evar = 1 THEN One([l EXCEPT !.pc = "POR_get"], m) ELSE RBstart(l, m), RBstart(l, m))
    [] l.pc = "POR_get" ->
         Call(a, l, "get", "ConfigMap", 0, "", St, St,
              IF St.cm[p].cap = 1 THEN One([l EXCEPT !.pc = "POR_patch"], m) ELSE RBstart(l, m), RBstart(l, m))
    [] l.pc = "POR_patch" ->
         Call(a, l, "patch", "ConfigMap", 0, "merge", St,
              IF St.cm[p].cap = 1 THEN [St EXCEPT !.cm[p].por = Portion] ELSE St,
              IF St.cm[p].cap = 1 THEN One([l EXCEPT !.pc = "ANN"], m) ELSE RBstart(l, m), RBstart(l, m))
    \* ---- received-resource-type annotation, binding sub-resource
    [] l.pc = "ANN" ->
         Call(a, l, "patch", "Pod", 0, "merge", St,
              IF here THEN [St EXCEPT !.pods[p].ann = RecvType(p)] ELSE St,
              IF here THEN One([l EXCEPT !.pc = "BIND", !.mlab = me.lab, !.mcond = me.cond], m) ELSE RBstart(l, m),
              RBstart(l, m))
    [] l.pc = "BIND" ->
         Call(a, l, "create", "Binding", 0, "", St,
              IF ~here THEN St
              ELSE IF me.node # "" THEN [St EXCEPT !.binds = Append(St.binds, [p |-> p, node |-> NodeN, dup |-> 1])]
              ELSE [St EXCEPT !.pods[p].node = NodeN, !.binds = Append(St.binds, [p |-> p, node |-> NodeN, dup |-> 0])],
              IF here /\ me.node = "" THEN ToStatus(l, m, 0) ELSE RBstart(l, m),
              RBstart(l, m))
    \* ---- Rollback: gpusharing.Rollback (delete both ConfigMaps), RemovePodGpuGroupsConnection, SyncForNode
    [] l.pc = "RB_delcap" ->
         Call(a, l, "delete", "ConfigMap", 0, "", St, [St EXCEPT !.cm[p].cap = 0, !.cm[p].por = 0],
              One([l EXCEPT !.pc = "RB_delevar"], m), One([l EXCEPT !.pc = "RB_delevar"], m))
    [] l.pc = "RB_delevar" ->
         Call(a, l, "delete", "ConfigMap", 0, "", St, [St EXCEPT !.cm[p].evar = 0, !.cm[p].nvd = <<>>],
              One([l EXCEPT !.pc = "RB_rmlab"], m), One([l EXCEPT !.pc = "RB_rmlab"], m))
    [] l.pc = "RB_rmlab" ->    \* JSON patch "remove" of every label of the in-memory pod: all or nothing
         LET okp == here /\ SubLab(me.lab, l.mlab)
             next == [l EXCEPT !.pc = "SN_list", !.ctxt = "rb"]
         IN Call(a, l, "patch", "Pod", 0, "json", St,
                 IF okp THEN [St EXCEPT !.pods[p].lab = MinusLab(me.lab, l.mlab)] ELSE St,
                 One(IF okp THEN [next EXCEPT !.mlab = MinusLab(me.lab, l.mlab), !.mcond = me.cond] ELSE next, m),
                 One(next, m))
    \* ---- deferred UpdateStatus and updatePodCondition
    [] l.pc = "ST_patch" ->
         LET newfa == NewFa(l, l.err)
             newph == IF l.err = 1 THEN "Failed" ELSE "Succeeded"
         IN Call(a, l, "patch", "BindRequestStatus", 0, "merge", St,
                 IF St.br[p].ex = 1 THEN [St EXCEPT !.br[p].ph = newph, !.br[p].fa = newfa] ELSE St,
                 ToPC(l, m), ToPC(l, m))
    [] l.pc = "PC_patch" ->
         Call(a, l, "patch", "PodStatus", 0, "strategic", St,
              IF here THEN [St EXCEPT !.pods[p].cond = "T"] ELSE St, Finish(l, m), Finish(l, m))
    [] OTHER -> {}

Succ(a) == SuccOf(a, S, L[a], mutex)

(***************************************************************************)
(* Starting actors (the environment change of a handler happens at its     *)
(* start: the event is delivered after the object changed in the store)    *)
(***************************************************************************)
NoopAtStart(St, p) == IF (St.br[p].ex = 1 /\ St.br[p].ph = "Succeeded") \/ (Exists(St, p) /\ St.pods[p].node # "") THEN 1 ELSE 0
StartRecL(St, p) == [L0 EXCEPT !.t = "rec", !.p = p, !.pc = "GetBR", !.noop = NoopAtStart(St, p)]
StartSyncL(t) == [L0 EXCEPT !.t = t, !.pc = "SN_list", !.ctxt = "top"]

HdlStore(St, e, p) ==
  CASE e = "PodDeleted" -> [St EXCEPT !.pods[p] = GonePod]
    [] e = "PodCompleted" -> [St EXCEPT !.pods[p].ph = "Succeeded"]
    [] e = "BRDeleted" -> [St EXCEPT !.br[p] = [ex |-> 0, ph |-> "", fa |-> 0]]
HdlGroups(St, e, p) == IF e = "BRDeleted" THEN (IF IsFrac(p) THEN GrpSet(p) ELSE {}) ELSE HandlerGroups(St, p)
\* the groups the event is about (what the pod really carried), for C17_IffAfterEvent
EvGroups(St, e, p) == IF e = "BRDeleted" THEN (IF IsFrac(p) THEN GrpSet(p) ELSE {}) ELSE {g \in Groups : HasLab(St, p, g)}
\* local state(s) of a handler after its start (it may have nothing to do)
StartHdlC(St, e, p, m) == NextGroup([L0 EXCEPT !.t = "hdl", !.p = p, !.e = e, !.ctxt = "top", !.gs = HdlGroups(St, e, p)], m)
HdlEnabled(St, e, p) ==
  CASE e = "PodDeleted" -> Exists(St, p)
    \* (a bound pod may reach a terminal phase without ever being seen Running: rejected by the kubelet, or short)
    [] e = "PodCompleted" -> St.pods[p].ph = "Running" \/ (St.pods[p].ph = "Pending" /\ St.pods[p].node # "")
    [] e = "BRDeleted" -> St.br[p].ex = 1
    [] OTHER -> FALSE

(***************************************************************************)
(* Property predicates (on the store + observation flags in ctl)           *)
(***************************************************************************)
Bound(St, p) == St.pods[p].node # ""
Complete(St, p) ==
  /\ St.pods[p].ann = RecvType(p)
  /\ IsFrac(p) =>
       /\ St.pods[p].lab = [g \in Groups |-> IF g \in GrpSet(p) THEN 1 ELSE 0]
       /\ \A g \in GrpSet(p) : St.res[g].n = 1 /\ St.res[g].idx >= 0
       /\ St.cm[p].cap = 1 /\ St.cm[p].evar = 1 /\ St.cm[p].por = Portion
       /\ St.cm[p].nvd = [i \in 1..Len(Grp(p)) |-> St.res[Grp(p)[i]].idx]
  /\ Kind(p) = "dra" => St.claim.rf[p] = 1 /\ St.claim.al = 1
\* what an attempt may have added for pod p (compared with the snapshot taken when the attempt started)
SideOf(St, p) == [lab |-> St.pods[p].lab, cap |-> St.cm[p].cap, evar |-> St.cm[p].evar, rf |-> St.claim.rf[p],
                  noop |-> IF (St.br[p].ex = 1 /\ St.br[p].ph = "Succeeded") \/ (Exists(St, p) /\ St.pods[p].node # "") THEN 1 ELSE 0,
                  brph |-> St.br[p].ph, brfa |-> St.br[p].fa]
ResIff(St, g) == (St.res[g].n >= 1) <=> (\E p \in Pods : Live(St, p) /\ HasLab(St, p, g))

\* binding sub-resource: accepted at most once per pod, never for a pod that is already bound, only to the selected node
C11_AtMostOnce ==
  /\ \A i \in 1..Len(S.binds) : S.binds[i].dup = 0 /\ S.binds[i].node = NodeN
  /\ \A i, j \in 1..Len(S.binds) : i # j => S.binds[i].p # S.binds[j].p
  /\ \A p \in Pods : S.pods[p].node \in {"", NodeN}
\* a reconcile that started on a Succeeded request / a bound pod made no write call besides status patches
C11_NoopWhenDone == ctl.noopviol = 0
\* a reconcile that started on a Succeeded request / a pod already bound to the selected node ended without error and
\* without requeue, and left the request's status as it was or Succeeded with the same failed-attempts count -
\* whatever call failed, except the two reads without which the binder cannot know (get BindRequest, get Pod)
C11_NoopWhenBound == ctl.nbviol = 0
\* At a check point (nothing in flight, a fault-free sync has just run) every concluded attempt is all-or-nothing:
\* the pod is bound to the selected node with every side object in place, or it is unbound, the request is
\* reported Failed and the attempt has added nothing to the pod's side objects (compared with the store at
\* the start of the attempt); an orphan reservation pod is gone after the sync. A cleanup call that was itself
\* failed by injection excuses its own side object (ctl.exc). Split by clause so that a finding names its cause.
Concluded(p) == ctl.check = 1 /\ Bindable(p) /\ ctl.concl[p] = 1 /\ Live(S, p) /\ S.br[p].ex = 1
FailedEnd(p) == Concluded(p) /\ ~Bound(S, p)
C11_Quiescent_Bound == \A p \in Pods : (Concluded(p) /\ Bound(S, p)) => Complete(S, p)
C11_Quiescent_Reported == \A p \in Pods : FailedEnd(p) => (S.br[p].ph = "Failed" \/ "st" \in ctl.exc[p])
C11_Quiescent_Labels ==
  \A p \in Pods : (FailedEnd(p) /\ "lab" \notin ctl.exc[p]) => \A g \in Groups : S.pods[p].lab[g] <= ctl.snap[p].lab[g]
C11_Quiescent_ConfigMaps ==
  \A p \in Pods : (FailedEnd(p) /\ "cm" \notin ctl.exc[p]) => S.cm[p].cap <= ctl.snap[p].cap /\ S.cm[p].evar <= ctl.snap[p].evar
C11_Quiescent_Claims == \A p \in Pods : FailedEnd(p) => S.claim.rf[p] <= ctl.snap[p].rf
C11_Quiescent_Reservations == \A p \in Pods : FailedEnd(p) => \A g \in GrpSet(p) : ResIff(S, g)
\* (trace / c11 driver) after the fault-free recovery attempts the pod is bound with everything in place
C11_RecoveredAtEnd ==
  ctl.final = 1 =>
    \A p \in Pods : (Bindable(p) /\ Live(S, p) /\ S.br[p].ex = 1) => Bound(S, p) /\ Complete(S, p) /\ S.br[p].ph = "Succeeded"

C17_AtMostOne == \A g \in Groups : S.res[g].n <= 1
\* a bound live consumer sees exactly the device indexes of the reservation pods of its groups
C17_Index ==
  \A p \in 1..2 : (IsFrac(p) /\ Bound(S, p) /\ Live(S, p) /\ \A g \in GrpSet(p) : S.res[g].n >= 1) =>
     S.cm[p].nvd = [i \in 1..Len(Grp(p)) |-> S.res[Grp(p)[i]].idx]
C17_Iff == ctl.check = 1 => \A g \in Groups : ResIff(S, g)
\* after a pod completed / was deleted / its BindRequest was deleted and the handler's sync ran, or after a failed
\* bind whose rollback ran a complete SyncForNode (nothing else in flight): for the groups concerned
C17_IffAfterEvent == \A g \in ctl.evgroups : ResIff(S, g)
C17_NoOrphanConsumer ==
  ctl.check = 1 => \A p \in Pods : \A g \in Groups : (RunningPh(S, p) /\ HasLab(S, p, g)) => S.res[g].n >= 1

(***************************************************************************)
(* Observation state                                                        *)
(***************************************************************************)
Ctl0 == [phase |-> "rec", nrec |-> 0, recs |-> Z3, nfail |-> 0, ncrash |-> 0, nenv |-> 0, nsync |-> 0, probe |-> 0,
         check |-> 0, final |-> 0, k1 |-> 0, concl |-> Z3, f1 |-> Z3, snap |-> [p \in Pods |-> [lab |-> Z2, cap |-> 0, evar |-> 0, rf |-> 0, noop |-> 0, brph |-> "", brfa |-> 0]],
         exc |-> [p \in Pods |-> {}], noopviol |-> 0, nbexc |-> Z3, nbviol |-> 0, fs |-> Z3, evgroups |-> {}, evpend |-> {}]

IsWrite(lab) == lab.n = "call" /\ lab.verb \in {"create", "patch", "delete", "update"} /\ lab.kind \notin {"BindRequestStatus", "PodStatus"}
\* a cleanup call (named by the program counter the model is at) that was itself failed by injection
ExcOf(l, lab) == IF lab.n = "call" /\ lab.res = "fail"
                 THEN (IF l.pc = "RB_rmlab" THEN {"lab"}
                       ELSE IF l.pc \in {"RB_delcap", "RB_delevar"} THEN {"cm"}
                       ELSE IF l.pc = "ST_patch" THEN {"st"}
                       ELSE {})
                 ELSE {}
\* bookkeeping common to the model and the trace (c = ctl, l = local state of the actor before the step)
ObserveCall(c, l, lab) ==
  LET p == l.p
      c1 == [c EXCEPT !.check = 0, !.final = 0, !.evgroups = {},
                      !.noopviol = IF l.t = "rec" /\ l.noop = 1 /\ IsWrite(lab) /\ lab.res # "fail" THEN 1 ELSE c.noopviol]
      c2 == IF l.t = "rec" /\ p \in Pods
            THEN [c1 EXCEPT !.exc[p] = c1.exc[p] \cup ExcOf(l, lab),
                            !.f1[p] = IF lab.n = "call" /\ lab.k = 1 /\ lab.res = "fail" THEN 1 ELSE c1.f1[p],
                            !.fs[p] = IF lab.n = "call" /\ lab.res = "fail" THEN 1
                                      ELSE IF lab.n = "call" /\ lab.res = "ok" /\ lab.verb = "list" /\ lab.kind = "PodOnNode" /\ c1.fs[p] >= 1 THEN 2
                                      ELSE c1.fs[p],
                            !.nbexc[p] = IF lab.n = "call" /\ lab.res = "fail" /\ lab.verb = "get" /\ lab.kind \in {"BindRequest", "Pod"}
                                         THEN 1 ELSE c1.nbexc[p]]
            ELSE c1
  IN IF lab.res = "crash" THEN [c2 EXCEPT !.evpend = {}] ELSE c2
\* an actor ended normally; othersIdle: nothing else is in flight
\* St: the store after the end; rerr / rrq: the reconcile returned an error / asked for a requeue (trace only)
NoopBroken(c, p, St, rerr, rrq) ==
  /\ c.snap[p].noop = 1 /\ c.nbexc[p] = 0
  /\ St.br[p].ex = 1 /\ Exists(St, p) /\ St.pods[p].node = NodeN
  /\ ~(rerr = 0 /\ rrq = 0 /\ St.br[p].fa = c.snap[p].brfa /\ St.br[p].ph \in {c.snap[p].brph, "Succeeded"})
ObserveEnd(c, l, othersIdle, St, rerr, rrq) ==
  CASE l.t = "rec" /\ l.p \in Pods -> [c EXCEPT !.concl[l.p] = IF c.f1[l.p] = 1 THEN 0 ELSE 1,
                                                 !.k1 = IF c.k1 = 0 THEN l.k + 1 ELSE c.k1,
                                                 !.nbviol = IF NoopBroken(c, l.p, St, rerr, rrq) THEN 1 ELSE c.nbviol,
                                                 \* a bind failure followed by a complete fault-free SyncForNode (the rollback's)
                                                 !.evgroups = IF c.fs[l.p] = 2 /\ othersIdle /\ Exists(St, l.p) /\ St.pods[l.p].node = ""
                                                              THEN GrpSet(l.p) ELSE {}]
    [] l.t \in {"sync", "syncnode"} -> IF othersIdle THEN [c EXCEPT !.check = 1] ELSE c
    [] l.t = "hdl" -> [c EXCEPT !.evgroups = IF othersIdle THEN c.evpend ELSE {}, !.evpend = {}]
    [] OTHER -> c
ObserveStart(c, t, p, e, groups) ==
  LET c1 == [c EXCEPT !.check = 0, !.final = 0, !.evgroups = {}]
  IN CASE t = "rec" /\ p \in Pods -> [c1 EXCEPT !.exc[p] = {}, !.concl[p] = 0, !.f1[p] = 0, !.nbexc[p] = 0, !.fs[p] = 0, !.snap[p] = SideOf(S, p)]
       [] t = "hdl" -> [c1 EXCEPT !.evpend = groups]
       [] OTHER -> c1

(***************************************************************************)
(* The model: Init / Next                                                   *)
(***************************************************************************)
TypeOK ==
  /\ cfg \in Configs
  /\ \A g \in Groups : mutex[g] \in 0..4 /\ S.res[g].n \in 0..3
  /\ \A a \in Actors : L[a].t \in {"idle", "rec", "sync", "syncnode", "hdl"}
  /\ \A p \in Pods : S.pods[p].ph \in {"None", "Gone", "Pending", "Running", "Terminating", "Succeeded"}

Init ==
  /\ cfg \in Configs
  /\ S = InitStore(cfg)
  /\ L = [a \in Actors |-> L0]
  /\ mutex = M0
  /\ ctl = Ctl0
  /\ hist = <<>>

Idle(a) == L[a].t = "idle"
AllIdle == \A a \in Actors : Idle(a)
\* export: c11 records the faults only (every fault schedule is its own behaviour), c17 every label
Rec(lab) == IF MaxHist > 0 /\ Len(hist) < MaxHist /\ (Mode # "c11" \/ (lab.n = "call" /\ lab.res # "ok"))
            THEN Append(hist, lab @@ [r |-> ctl.nrec]) ELSE hist

\* one step of a running actor, under the fault budgets
StepActor(a) ==
  /\ ~Idle(a)
  /\ \E r \in Succ(a) :
       /\ r.lab.res = "fail" => ctl.nfail < MaxFail /\ ctl.nfail + ctl.ncrash < MaxFaults
       /\ r.lab.res = "crash" => ctl.ncrash < MaxCrash /\ ctl.nfail + ctl.ncrash < MaxFaults
       /\ S' = r.S
       /\ LET crash == r.lab.res = "crash"
              L2 == IF crash THEN [b \in Actors |-> L0] ELSE [L EXCEPT ![a] = r.L]
              c1 == ObserveCall(ctl, L[a], r.lab)
              c2 == IF ~crash /\ r.L.t = "idle" THEN ObserveEnd(c1, L[a], \A b \in Actors \ {a} : L2[b].t = "idle", r.S, 0, 0) ELSE c1
              c3 == [c2 EXCEPT !.nfail = IF r.lab.res = "fail" THEN c2.nfail + 1 ELSE c2.nfail,
                               !.ncrash = IF crash THEN c2.ncrash + 1 ELSE c2.ncrash]
          IN /\ L' = L2
             /\ mutex' = IF crash THEN M0 ELSE r.M
             /\ ctl' = IF Mode = "c11" /\ (\A b \in Actors : L2[b].t = "idle")
                       THEN [c3 EXCEPT !.phase = IF L[a].t = "rec" THEN "sync" ELSE "check"] ELSE c3
       /\ hist' = Rec(r.lab)
  /\ UNCHANGED cfg

StartRec(p) ==
  /\ Idle(p) /\ Bindable(p)
  /\ L' = [L EXCEPT ![p] = StartRecL(S, p)]
  /\ hist' = Rec([n |-> "start", a |-> p, t |-> "rec", p |-> p, e |-> "", end |-> 0])
  /\ UNCHANGED <<cfg, S, mutex>>

StartSync(t) ==
  /\ Idle(ASync)
  /\ L' = [L EXCEPT ![ASync] = StartSyncL(t)]
  /\ hist' = Rec([n |-> "start", a |-> ASync, t |-> t, p |-> 0, e |-> "", end |-> 0])
  /\ UNCHANGED <<cfg, S, mutex>>

StartHdl(e, p) ==
  /\ Idle(AHdl) /\ HdlEnabled(S, e, p)
  /\ e = "BRDeleted" => Idle(p)
  /\ S' = HdlStore(S, e, p)
  /\ \E c \in StartHdlC(S, e, p, mutex) :
       /\ L' = [L EXCEPT ![AHdl] = c.L]
       /\ LET c1 == ObserveStart(ctl, "hdl", p, e, EvGroups(S, e, p))
              c2 == [c1 EXCEPT !.nenv = c1.nenv + 1]
          IN ctl' = IF c.L.t = "idle" THEN ObserveEnd(c2, [L0 EXCEPT !.t = "hdl"], \A b \in Actors \ {AHdl} : Idle(b), S, 0, 0) ELSE c2
       /\ hist' = Rec([n |-> "start", a |-> AHdl, t |-> "hdl", p |-> p, e |-> e, end |-> IF c.L.t = "idle" THEN 1 ELSE 0])
  /\ UNCHANGED <<cfg, mutex>>

EnvPodRunning(p) ==
  /\ S.pods[p].ph = "Pending" /\ S.pods[p].node # ""
  /\ S' = [S EXCEPT !.pods[p].ph = "Running"]
  /\ ctl' = [ctl EXCEPT !.nenv = ctl.nenv + 1, !.check = 0, !.final = 0, !.evgroups = {}]
  /\ hist' = Rec([n |-> "env", e |-> "PodRunning", p |-> p, g |-> 0])
  /\ UNCHANGED <<cfg, L, mutex>>

\* graceful deletion: the pod gets a deletion timestamp and keeps running until PodDeleted; the binder's pod
\* controller does nothing on this update (it is not a completion)
EnvPodTerminating(p) ==
  /\ S.pods[p].ph = "Running"
  /\ S' = [S EXCEPT !.pods[p].ph = "Terminating"]
  /\ ctl' = [ctl EXCEPT !.nenv = ctl.nenv + 1, !.check = 0, !.final = 0, !.evgroups = {}]
  /\ hist' = Rec([n |-> "env", e |-> "PodTerminating", p |-> p, g |-> 0])
  /\ UNCHANGED <<cfg, L, mutex>>

\* the reservation pod of group g reports its index by itself (only outside ReserveGpuDevice, see harness)
EnvAnnotate(g) ==
  /\ S.res[g].n > 0 /\ S.res[g].idx < 0 /\ mutex[g] = 0
  /\ S' = [S EXCEPT !.res[g].idx = S.nidx, !.nidx = S.nidx + 1]
  /\ ctl' = [ctl EXCEPT !.nenv = ctl.nenv + 1, !.check = 0, !.final = 0, !.evgroups = {}]
  /\ hist' = Rec([n |-> "env", e |-> "Annotate", p |-> 0, g |-> g])
  /\ UNCHANGED <<cfg, L, mutex>>

\* ---- c11: scripted driver: reconcile (faults allowed) -> Sync -> check point -> reconcile ... -> done
Settled == \A p \in Pods : Bindable(p) => S.br[p].ph = "Succeeded"
C11Next ==
  \/ \E a \in Actors : StepActor(a)
  \/ /\ AllIdle /\ ctl.phase = "rec" /\ ctl.nrec < MaxRec
     /\ StartRec(1)
     /\ ctl' = [ObserveStart(ctl, "rec", 1, "", {}) EXCEPT !.nrec = ctl.nrec + 1, !.probe = IF Settled THEN 1 ELSE ctl.probe]
  \/ /\ AllIdle /\ ctl.phase = "sync"
     /\ StartSync("sync")
     /\ ctl' = ObserveStart(ctl, "sync", 0, "", {})
  \/ /\ AllIdle /\ ctl.phase = "check"
     /\ ctl' = [ctl EXCEPT !.phase = IF ctl.nrec >= MaxRec \/ (Settled /\ ctl.probe = 1) THEN "done" ELSE "rec",
                           !.final = IF ctl.nrec >= MaxRec \/ (Settled /\ ctl.probe = 1) THEN 1 ELSE 0]
     /\ UNCHANGED <<cfg, S, L, mutex, hist>>

\* ---- c17: free environment: concurrent reconciles, handlers, syncs, environment events.
\* Reduction: steps that touch only objects private to the actor's own pod (its BindRequest, its ConfigMaps,
\* the node, the claim, its PodBound condition, the scaling-pod list) commute with every step of every other
\* actor and with the environment; whenever an actor waits at such a step it is scheduled first (lowest id),
\* alone. Faults in this mode: Fail at the label patch and at the binding sub-resource ("bind failure"),
\* Crash after every step that is visible to other actors (c11 mode enumerates every call of a reconcile).
PrivatePcs == {"GetBR", "GetNode", "RV_scale", "DRA_get", "DRA_upd", "CM_getcap", "CM_createcap", "CM_patchcap", "CM_getevar",
               "CM_createevar", "CM_patchevar", "NVD_get", "NVD_patch", "POR_get", "POR_patch", "RB_delcap", "RB_delevar",
               "ST_patch", "PC_patch"}
FailPcs17 == {"RV_label", "BIND"}
PrivActors == {a \in Actors : ~Idle(a) /\ L[a].pc \in PrivatePcs}
InFlight == Cardinality({a \in Actors : ~Idle(a)})
Step17(a) ==
  /\ ~Idle(a)
  /\ \E r \in Succ(a) :
       /\ r.lab.res = "fail" => ctl.nfail < MaxFail /\ ctl.nfail + ctl.ncrash < MaxFaults /\ L[a].pc \in FailPcs17
       /\ r.lab.res = "crash" => ctl.ncrash < MaxCrash /\ ctl.nfail + ctl.ncrash < MaxFaults /\ L[a].pc \notin PrivatePcs
       /\ S' = r.S
       /\ LET crash == r.lab.res = "crash"
              L2 == IF crash THEN [b \in Actors |-> L0] ELSE [L EXCEPT ![a] = r.L]
              c1 == ObserveCall(ctl, L[a], r.lab)
              c2 == IF ~crash /\ r.L.t = "idle" THEN ObserveEnd(c1, L[a], \A b \in Actors \ {a} : L2[b].t = "idle", r.S, 0, 0) ELSE c1
          IN /\ L' = L2
             /\ mutex' = IF crash THEN M0 ELSE r.M
             /\ ctl' = [c2 EXCEPT !.nfail = IF r.lab.res = "fail" THEN c2.nfail + 1 ELSE c2.nfail,
                                  !.ncrash = IF crash THEN c2.ncrash + 1 ELSE c2.ncrash]
       /\ hist' = Rec(r.lab @@ [end |-> IF r.lab.res = "crash" THEN 2 ELSE IF r.L.t = "idle" THEN 1 ELSE 0])
  /\ UNCHANGED cfg
C17Next ==
  IF PrivActors # {} THEN Step17(CHOOSE a \in PrivActors : \A b \in PrivActors : a <= b)
  ELSE
  \/ \E a \in Actors : Step17(a)
  \/ /\ InFlight < MaxConc
     /\ \/ \E p \in 1..2 :
             /\ ctl.recs[p] < MaxRec /\ S.br[p].ex = 1 /\ S.br[p].ph # "Succeeded" /\ Exists(S, p)
             /\ StartRec(p)
             /\ ctl' = [ObserveStart(ctl, "rec", p, "", {}) EXCEPT !.recs[p] = ctl.recs[p] + 1]
        \/ /\ ctl.nsync < MaxSync
           /\ \E t \in {"sync", "syncnode"} : StartSync(t)
           /\ ctl' = [ObserveStart(ctl, "sync", 0, "", {}) EXCEPT !.nsync = ctl.nsync + 1]
        \/ /\ ctl.nenv < MaxEnv
           /\ \E e \in {"PodDeleted", "PodCompleted", "BRDeleted"}, p \in Pods : StartHdl(e, p)
  \/ /\ ctl.nenv < MaxEnv
     /\ \/ \E p \in Pods : EnvPodRunning(p)
        \/ \E p \in Pods : EnvPodTerminating(p)
        \/ \E g \in Groups : EnvAnnotate(g)

Next == IF Mode = "c11" THEN C11Next ELSE C17Next

Progress == IF Mode = "c11" THEN C11Next ELSE C17Next
Spec == Init /\ [][Next]_vars /\ WF_vars(Progress)

\* c11: whatever faults happened, the scripted retries end with the pod bound and everything in place
C11_Recoverable == <>[](ctl.phase = "done" /\ ctl.final = 1)

(***************************************************************************)
(* Export of fault schedules (c11) and histories (c17)                      *)
(***************************************************************************)
FaultsOf(h) == SelectSeq(h, LAMBDA x : x.n = "call" /\ x.res # "ok")
=============================================================================
