---------------------------- MODULE HandoffTrace ----------------------------
(* Trace validation for C12.  Every line of the ndjson trace written by harness/cmd/handoff carries the
   projection of the REAL stores after the step (`st`), of the REAL scheduler snapshot (`snap`, SchedCycle
   only) and of the REAL reconcile result (`rec`).  The state `S` of Handoff.tla is SET from the logged
   projection, `obs` from the previous real state + the real snapshot, so every C12_ predicate of
   Handoff.tla is evaluated on real values only.
   D_ monitors (drift, never a violation): the real step must be one of the successors the model predicts
   from the real pre-state (`pred`; the binder step is predicted under both documented patch rules, the
   cycle under every maximal allocation), and the real snapshot must equal the model's snapshot of the
   real pre-state.  D_ monitors are only judged in states in which all C12_ predicates hold (what a
   property constrains is never reported as drift).
   Every schedule ends with a fault-free drain run by the harness (StartDrain, successful reconciles of the
   queued keys, scheduler cycles, until a whole round changes nothing) and a `Quiesced` line: C12_Quiesces
   judges the real final state - an observation that does not depend on model and code staying in lock-step.
   A SchedCycleRefused step (DELETE of stale requests refused) has no snapshot: OpenSession failed, `obs` stays
   NoObs and no cycle property is judged on it; what the NEXT cycles do with the request that was left is judged
   by C12_DeletedNode / C12_FailedCleaned, the end by C12_Quiesces.
   Claim pods (cl = 1): `dev` / `lab` of the store projection are the devices in the request's resourceClaimAllocations /
   in the claim's status.allocation, `inf` is the in-flight allocation in the memory of the scheduler's DRA manager,
   the snapshot carries `used` (devices the DRA manager counts as allocated once the session is open) and `pcl` (the
   pod's own ResourceClaimInfo).  The cycle is predicted under both in-flight rules; the C12_ predicates use the
   constant InflightRule ("sticky" = judge the code as found; "session" = also judge C12_DevicesFreed / the design's
   notion of "fits" in C12_Quiesces - the flag of checks/c12.py).
   One initial state per Scenario line; `l` = next line, `l0` = line of the Scenario.                       *)
EXTENDS Handoff

Trace == ndJsonDeserialize("trace.ndjson")

VARIABLES l, l0,
          pred,  \* predicted successors of the real pre-state: set of [post, err, rq, bind]
          rec,   \* the real reconcile result [err, rq, bind]
          xs     \* extra real observations: [model: model snapshot of the pre-state, cpu, wf, ev, conv]
tvars == <<vars, l, l0, pred, rec, xs>>

NodeName == "n1"
NodeMilliCpu == 8000
PodMilliCpu == 1000

Starts == {i \in 1..Len(Trace) : Trace[i].ev = "Scenario"}

SetOf(seq) == {seq[i] : i \in 1..Len(seq)}
StateOf(e) ==
  [lim |-> e.lim, gpus |-> e.gpus, req |-> [p \in Pods |-> e.req[p]], nd |-> [p \in Pods |-> e.nd[p]],
   cl |-> [p \in Pods |-> e.cl[p]], inf |-> [p \in Pods |-> SetOf(e.st.pods[p].inf)],
   persist |-> FALSE, drain |-> e.st.drain = 1,
   up |-> e.st.up = 1, flips |-> e.st.flips, restarts |-> e.st.restarts, leaks |-> e.st.leaks,
   alive |-> [p \in Pods |-> e.st.pods[p].alive = 1],
   bound |-> [p \in Pods |-> e.st.pods[p].bound = 1],
   br |-> [p \in Pods |-> [ex |-> e.st.pods[p].ex = 1, ph |-> e.st.pods[p].ph, fa |-> e.st.pods[p].fa, gen |-> e.st.pods[p].gen]],
   dev |-> [p \in Pods |-> SetOf(e.st.pods[p].dev)], lab |-> [p \in Pods |-> SetOf(e.st.pods[p].lab)],
   q |-> [p \in Pods |-> e.st.pods[p].q = 1],
   att |-> [p \in Pods |-> e.st.pods[p].att], fl |-> [p \in Pods |-> e.st.pods[p].fl]]

SnapOfLog(e) ==
  [st |-> [p \in Pods |-> e.snap.st[p]], on |-> [p \in Pods |-> e.snap.on[p] = NodeName],
   grp |-> [p \in Pods |-> SetOf(e.snap.grp[p])],
   pcl |-> [p \in Pods |-> SetOf(e.snap.pcl[p])], used |-> SetOf(e.snap.used),
   mem |-> [d \in Slots |-> IF d <= Len(e.snap.mem) THEN e.snap.mem[d] ELSE 0],
   whole |-> e.snap.whole, idle |-> e.snap.idle, node |-> e.snap.node = 1]

\* the logged store is well-formed w.r.t. the abstraction (single node, limit of the scenario)
WfLog(e) ==
  \A p \in Pods : /\ e.st.pods[p].bound = 1 => e.st.pods[p].node = NodeName
                  /\ e.st.pods[p].ex = 1 => e.st.pods[p].sel = NodeName /\ e.st.pods[p].lim = e.lim
                  /\ e.st.pods[p].ph \in {"", "Failed", "Succeeded"}

Quiet(post) == [post |-> post, err |-> FALSE, rq |-> 0, bind |-> FALSE]
\* Is the step of the schedule enabled in the real pre-state?  A schedule exported from the model may resolve the
\* model's nondeterminism (which pending pod is allocated first) differently from the real scheduler; a step that
\* is not enabled in the real state is skipped by the harness (rec.ran = 0) and must leave the state unchanged.
EnabledIn(s, e) ==
  CASE e.ev = "SchedCycle" -> TRUE
    [] e.ev = "SchedCycleRefused" -> RefusedEnabled(s, e.p)
    [] e.ev = "BinderAttempt" -> /\ s.q[e.p]
                                 /\ e.out = "faillabel" => Reach(s, e.p) /\ IsFrac(s, e.p) /\ s.nd[e.p] = 2
                                 /\ e.out = "panic" => PanicEnabled(s, e.p)
                                 /\ e.out = "failclaim" => Reach(s, e.p) /\ IsClaim(s, e.p)
    [] e.ev = "BindDoneStatusLost" -> StatusLostEnabled(s, e.p)
    [] e.ev = "BinderCrashAfterLabel" -> CrashEnabled(s, e.p)
    [] e.ev = "BinderRestart" -> \E p \in Pods : s.br[p].ex /\ ~s.q[p]
    [] e.ev = "NodeDeleted" -> s.up
    [] e.ev = "NodeAdded" -> ~s.up
    [] e.ev = "PodDeleted" -> s.alive[e.p]
    [] e.ev = "GcBr" -> s.br[e.p].ex /\ ~s.alive[e.p]
    [] e.ev = "StartDrain" -> ~s.drain
    [] e.ev = "Quiesced" -> FALSE
    [] OTHER -> FALSE
Predict(s, e) ==
  IF e.ev \notin {"SchedCycle", "SchedCycleRefused", "BinderAttempt", "BindDoneStatusLost", "BinderCrashAfterLabel", "BinderRestart", "NodeDeleted",
                  "NodeAdded", "PodDeleted", "GcBr", "StartDrain", "Quiesced"} THEN {}
  ELSE IF ~EnabledIn(s, e) THEN {Quiet(s)}
  ELSE CASE e.ev = "SchedCycle" -> {Quiet(t) : t \in UNION {CyclePosts(s, r) : r \in InflightRules}}
    [] e.ev = "SchedCycleRefused" -> {Quiet(RefusedPost(s, e.p))}
    [] e.ev = "BinderAttempt" -> UNION {{[post |-> r.post, err |-> r.err, rq |-> r.rq, bind |-> r.bind] : r \in BinderRuns(s, e.p, e.out, rule)} : rule \in PatchRules}
    [] e.ev = "BindDoneStatusLost" -> {[post |-> StatusLostPost(s, e.p), err |-> FALSE, rq |-> 0, bind |-> TRUE]}
    [] e.ev = "BinderCrashAfterLabel" -> {Quiet(t) : t \in CrashPosts(s, e.p)}
    [] e.ev = "BinderRestart" -> {Quiet(RestartPost(s))}
    [] e.ev = "NodeDeleted" -> {Quiet([s EXCEPT !.up = FALSE, !.flips = s.flips + 1])}
    [] e.ev = "NodeAdded" -> {Quiet([s EXCEPT !.up = TRUE, !.flips = s.flips + 1])}
    [] e.ev = "PodDeleted" -> {Quiet(PodDeletedPost(s, e.p))}
    [] e.ev = "GcBr" -> {Quiet(GcPost(s, e.p))}
    [] e.ev = "StartDrain" -> {Quiet(DrainPost(s))}

TraceInit ==
  \E i \in Starts :
    /\ l0 = i /\ l = i + 1
    /\ S = StateOf(Trace[i]) /\ obs = NoObs /\ act = [n |-> "Init", p |-> "", out |-> ""]
    /\ pred = {Quiet(S)} /\ rec = [err |-> FALSE, rq |-> 0, bind |-> FALSE]
    /\ xs = [model |-> {SnapOf(S, r) : r \in InflightRules}, cpu |-> 0, wf |-> WfLog(Trace[i]), ev |-> "Scenario", conv |-> FALSE]

TraceStep ==
  /\ l <= Len(Trace) /\ Trace[l].ev # "Scenario"
  /\ LET e == Trace[l] IN
       /\ S' = StateOf(e)
       /\ obs' = IF e.ev = "SchedCycle" /\ e.skip = 0 THEN [k |-> "cycle", pre |-> S, snap |-> SnapOfLog(e)] ELSE NoObs
       /\ act' = [n |-> e.ev, p |-> e.p, out |-> e.out]
       /\ pred' = Predict(S, e)
       /\ rec' = [err |-> e.rec.err = 1, rq |-> e.rec.rq, bind |-> e.rec.bind = 1]
       /\ xs' = [model |-> {SnapOf(S, r) : r \in InflightRules}, cpu |-> e.snap.cpu, wf |-> WfLog(e), ev |-> e.ev, conv |-> e.conv = 1]
  /\ l' = l + 1 /\ UNCHANGED l0

TraceNext == TraceStep
TraceSpec == TraceInit /\ [][TraceNext]_tvars

(* ---- trace-level property: after the fault-free drain the hand-off has come to rest in a good state ------- *)
C12_Quiesces == xs.ev = "Quiesced" => xs.conv /\ Quiescent(S)

C12_All == /\ C12_Charged /\ C12_ChargedGroups /\ C12_ChargedDevices /\ C12_DevicesFreed /\ C12_NoDoubleBooking /\ C12_DeletedNode /\ C12_FailedCleaned
           /\ C12_BoundedRetry /\ C12_AttemptsPersisted /\ C12_FailedObservable /\ C12_Quiesces

(* ---- drift monitors ---------------------------------------------------------------------------------------- *)
D_WellFormed == xs.wf
D_Model == C12_All => [post |-> S, err |-> rec.err, rq |-> rec.rq, bind |-> rec.bind] \in pred
D_Snapshot ==
  (obs.k = "cycle" /\ C12_All) =>
     /\ obs.snap \in xs.model
     /\ xs.cpu = IF obs.pre.up THEN NodeMilliCpu - PodMilliCpu * Cardinality(ChargedSet(obs.pre)) ELSE 0
=============================================================================
