---------------------------- MODULE TotalityTrace ----------------------------
(* Trace validation for C10. harness/cmd/totality materialises every scenario of Totality!Init
   (plus seeded grafts of the families onto each other) as API objects, runs ONE real scheduling
   cycle (real cache, real snapshot, default configuration, every action) in a child process under
   a watchdog and records
       Scenario, CycleStart, Snapshot(live queues), Bind(pod)*, CycleEnd
     | ... Panic(msg)        recovered panic, or the child process died (fatal error / unrecovered
                             panic in a goroutine the harness does not own)
     | ... Timeout           the cycle did not complete; the child was killed
   Also the scenario exporter (GenInit / Emit). *)
EXTENDS Totality, Json

Trace == ndJsonDeserialize("trace.ndjson")

VARIABLES l, l0, started, ended, panicked, timedout, binds, snap
tvars == <<vars, l, l0, started, ended, panicked, timedout, binds, snap>>

Starts == {i \in 1..Len(Trace) : Trace[i].ev = "Scenario"}
SeqToSet(s) == {s[i] : i \in 1..Len(s)}

TraceInit ==
  \E i \in Starts :
    /\ l0 = i /\ l = i + 1
    /\ scn = Trace[i]
    /\ pc = "trace" /\ live = {} /\ children = <<>> /\ todo = {} /\ stack = <<>> /\ walks = <<>> /\ cur = "" /\ steps = 0
    /\ started = FALSE /\ ended = FALSE /\ panicked = FALSE /\ timedout = FALSE
    /\ binds = {} /\ snap = {"?"}

Ev(name) == l <= Len(Trace) /\ Trace[l].ev = name
Keep == UNCHANGED vars /\ UNCHANGED l0

TraceCycleStart == Ev("CycleStart") /\ started' = TRUE /\ l' = l + 1 /\ Keep
                   /\ UNCHANGED <<ended, panicked, timedout, binds, snap>>
TraceSnapshot   == Ev("Snapshot") /\ snap' = SeqToSet(Trace[l].live) /\ l' = l + 1 /\ Keep
                   /\ UNCHANGED <<started, ended, panicked, timedout, binds>>
TraceBind       == Ev("Bind") /\ binds' = binds \cup {Trace[l].pod} /\ l' = l + 1 /\ Keep
                   /\ UNCHANGED <<started, ended, panicked, timedout, snap>>
TraceCycleEnd   == Ev("CycleEnd") /\ ended' = TRUE /\ l' = l + 1 /\ Keep
                   /\ UNCHANGED <<started, panicked, timedout, binds, snap>>
TracePanic      == Ev("Panic") /\ panicked' = TRUE /\ l' = l + 1 /\ Keep
                   /\ UNCHANGED <<started, ended, timedout, binds, snap>>
TraceTimeout    == Ev("Timeout") /\ timedout' = TRUE /\ l' = l + 1 /\ Keep
                   /\ UNCHANGED <<started, ended, panicked, binds, snap>>

TraceNext == TraceCycleStart \/ TraceSnapshot \/ TraceBind \/ TraceCycleEnd \/ TracePanic \/ TraceTimeout
TraceSpec == TraceInit /\ [][TraceNext]_tvars

AtEnd == l > Len(Trace) \/ Trace[l].ev = "Scenario"

\* ---- the logged scenario as a queue graph
ScnQ == {scn.queues[i].name : i \in 1..Len(scn.queues)} \cup Ctl
ScnPar == [q \in ScnQ |-> IF q \in Ctl THEN CtlPar(q)
                           ELSE (CHOOSE r \in SeqToSet(scn.queues) : r.name = q).parent]

\* ---- drift monitors
D_Consumed == ~AtEnd => Trace[l].ev \in {"CycleStart", "Snapshot", "Bind", "CycleEnd", "Panic", "Timeout"}
D_Order == /\ (ended \/ panicked \/ timedout \/ binds # {} \/ snap # {"?"}) => started
           /\ ~(ended /\ timedout)
\* the real snapshot's queue set is what LinkChildren / PruneOrphans (as written, or as repaired)
\* leave alive: binds the model's queue algorithm to cluster_info.UpdateQueueHierarchy
D_LiveQueues == snap # {"?"} => snap \in {LiveAsIs(ScnQ, ScnPar), LiveRepaired(ScnQ, ScnPar)}
\* the exported prediction is the model's
D_Prediction == scn.hang = (IF WalkHangs(LiveAsIs(ScnQ, ScnPar), ScnPar, scn.jobq) THEN 1 ELSE 0)

\* ---- properties, on the real run
C10_NoPanic == ~panicked
C10_Completes == ~timedout /\ ((AtEnd /\ started /\ ~panicked) => ended)
C10_HealthyScheduled == (AtEnd /\ ended) => "cpod" \in binds

(* ---- scenario exporter ---- *)
RECURSIVE QSeq(_, _)
QSeq(s, i) == IF i > NQ THEN <<>> ELSE <<[name |-> QName(i), parent |-> s.par[QName(i)]]>> \o QSeq(s, i + 1)
Export(s) == [fam |-> s.fam, queues |-> QSeq(s, 1), jobq |-> s.jobq, pgmin |-> s.pgmin, subs |-> s.subs,
              labels |-> s.labels, frac |-> s.frac, mem |-> s.mem, dev |-> s.dev, gpu |-> s.gpu,
              node |-> s.node, pin |-> s.pin, press |-> s.press, run |-> s.run, sit |-> s.sit, sig |-> Sig(s),
              hang |-> IF WalkHangs(LiveAsIs(AllQ(s), FullPar(s)), FullPar(s), s.jobq) THEN 1 ELSE 0]
Emit == PrintT(ToJson(Export(scn)))
GenNext == FALSE /\ UNCHANGED tvars
GenInit == Init /\ l = 0 /\ l0 = 0 /\ started = FALSE /\ ended = FALSE /\ panicked = FALSE /\ timedout = FALSE
           /\ binds = {} /\ snap = {}
=============================================================================
