------------------------------- MODULE StatusAgg -------------------------------
(* Status controllers converge to the true aggregate (property C20).

   Shaped after
     pkg/podgroupcontroller/controllers/status_updater.go  handlePodGroupStatus:
        list pods of the group; calculatePodGroupMetadata (IsPreemptible; per pod: requested if
        Pending|Running, allocated if Running or Pending with PodScheduled=True);
        patcher.getStatusWithMetadata; ShouldUpdatePodGroupStatus ? Status().Patch : nothing
     pkg/queuecontroller/controllers/queue_controller.go + resource_updater.UpdateQueue:
        status := sum over child queues' status + sum over the queue's pod groups' status;
        Status().Patch (always issued; an empty merge patch is a no-op at the API server)

   Pods belong to pod groups, pod groups to leaf queues, queues form a forest (par[q] = 0: root).
   Quantities are records [gpu, cpu] in milli-units. The scenario variables par, gq, pgof, preq
   never change.

   Environment actions: PodStep(p) (PendingUnscheduled -> PendingScheduled -> Running -> Done),
   PodDelete(p) (the pod object disappears - garbage collection, scale to zero, eviction - from any
   state; a pod group can go down to ZERO pods and must then report empty sums),
   Flip(g) (the group's preemptibility changes: spec.preemptibility or priority class edited).
   Controller actions: ReconcilePodGroup(g), ReconcileQueue(q), in any order.

   ClearStale = FALSE transcribes getStatusWithMetadata as it is in the tree under test (the
   non-preemptible figure is only ever SET); TRUE is the behaviour the property demands. The model
   is checked under both: a counterexample under FALSE is a prediction that is replayed on the real
   reconciler, where TLC judges the recorded statuses (StatusAggTrace).

   Freshness bookkeeping (auxiliary, same in model and trace validation):
     pgfresh[g]  ReconcilePodGroup(g) ran after the last change of g's pods / preemptibility
     qfresh[q]   ReconcileQueue(q) ran when all pod groups of q were fresh and all children fresh,
                 and nothing below changed since (i.e. q was reconciled bottom-up)
     pgfix/qfix  the object was reconciled and none of its *inputs* was written since
   Properties:
     C20_PodGroup*   pgfresh[g] => status of g = the sums over its pods by phase and CURRENT preemptibility
     C20_QueueLocal  right after ReconcileQueue(q): status = sum(children status) + sum(pod group status)
     C20_Queue       qfresh[q] => status of q = true aggregate of the whole subtree
                     (bottom-up order gives it in one round; any other order after <= depth rounds)
     C20_Fixpoint    a reconcile of an object whose inputs were not written since its last reconcile
                     performs 0 mutating calls and leaves every object unchanged
     C20_Operator    (recorded traces only) a repeated Deploy with the same config writes nothing and
                     the owned object set is a function of the config
*)
EXTENDS Integers, Sequences, FiniteSets, FiniteSetsExt, TLC

CONSTANTS Parent, GroupQueue, PodGroupOf, PodReq,   \* model: the scenario
          InitPre,                                    \* model: initial preemptibility per group
          MaxEvents,                                  \* model: bound on the history length
          ClearStale                                  \* model: see above

VARIABLES par, gq, pgof, preq,     \* scenario
          st,                      \* pod -> "PU" | "PS" | "R" | "D" | "X" (deleted: the object is gone)
          pre,                     \* group -> BOOLEAN (currently preemptible)
          pgst,                    \* group -> [req, alloc, nonpre]
          qst,                     \* queue -> [req, alloc, nonpre]
          pgfresh, qfresh, pgfix, qfix,
          n,                       \* events so far
          last                     \* [a, i, w, ch]: action name, target, effective mutating calls, some object changed

vars == <<par, gq, pgof, preq, st, pre, pgst, qst, pgfresh, qfresh, pgfix, qfix, n, last>>

Z == [gpu |-> 0, cpu |-> 0]
Add(a, b) == [gpu |-> a.gpu + b.gpu, cpu |-> a.cpu + b.cpu]
SumR(S, f(_)) == [gpu |-> MapThenSumSet(LAMBDA x : f(x).gpu, S), cpu |-> MapThenSumSet(LAMBDA x : f(x).cpu, S)]
ZS == [req |-> Z, alloc |-> Z, nonpre |-> Z]

Pods == 1..Len(pgof)
Groups == 1..Len(gq)
Queues == 1..Len(par)
PodsOf(g) == {p \in Pods : pgof[p] = g}
GroupsOf(q) == {g \in Groups : gq[g] = q}
Children(q) == {c \in Queues : par[c] = q}
RECURSIVE Anc(_)
Anc(q) == IF par[q] = 0 THEN {q} ELSE {q} \cup Anc(par[q])     \* q and its ancestors
RECURSIVE Sub(_)
Sub(q) == {q} \cup UNION {Sub(c) : c \in Children(q)}            \* q and its descendants

Active(p) == st[p] \in {"PU", "PS", "R"}
Allocated(p) == st[p] \in {"PS", "R"}

\* ---- declarative truth ----
TrueReq(g) == SumR({p \in PodsOf(g) : Active(p)}, LAMBDA p : preq[p])
TrueAlloc(g) == SumR({p \in PodsOf(g) : Allocated(p)}, LAMBDA p : preq[p])
TrueNonPre(g) == IF pre[g] THEN Z ELSE TrueAlloc(g)
TruePG(g) == [req |-> TrueReq(g), alloc |-> TrueAlloc(g), nonpre |-> TrueNonPre(g)]
AddS(a, b) == [req |-> Add(a.req, b.req), alloc |-> Add(a.alloc, b.alloc), nonpre |-> Add(a.nonpre, b.nonpre)]
SumS(S, f(_)) == [req |-> SumR(S, LAMBDA x : f(x).req), alloc |-> SumR(S, LAMBDA x : f(x).alloc),
                     nonpre |-> SumR(S, LAMBDA x : f(x).nonpre)]
TrueQ(q) == SumS({g \in Groups : gq[g] \in Sub(q)}, TruePG)

Next4(s) == CASE s = "PU" -> "PS" [] s = "PS" -> "R" [] s = "R" -> "D" [] OTHER -> "D"

(* ---------------------------------------------------------------------------------------------- *)
Init ==
  /\ par = Parent /\ gq = GroupQueue /\ pgof = PodGroupOf /\ preq = PodReq
  /\ st = [p \in 1..Len(PodGroupOf) |-> "PU"]
  /\ pre = InitPre
  /\ pgst = [g \in 1..Len(GroupQueue) |-> ZS]
  /\ qst = [q \in 1..Len(Parent) |-> ZS]
  /\ pgfresh = [g \in 1..Len(GroupQueue) |-> FALSE] /\ pgfix = [g \in 1..Len(GroupQueue) |-> FALSE]
  /\ qfresh = [q \in 1..Len(Parent) |-> FALSE] /\ qfix = [q \in 1..Len(Parent) |-> FALSE]
  /\ n = 0 /\ last = [a |-> "Init", i |-> 0, w |-> 0, ch |-> FALSE, fix |-> FALSE]

\* bookkeeping shared with the trace specification -------------------------------------------------
EnvChange(g) ==      \* pods or preemptibility of g changed
  /\ pgfresh' = [pgfresh EXCEPT ![g] = FALSE]
  /\ pgfix' = [pgfix EXCEPT ![g] = FALSE]
  /\ qfresh' = [q \in Queues |-> IF q \in Anc(gq[g]) THEN FALSE ELSE qfresh[q]]
  /\ UNCHANGED qfix

AfterRecPG(g, w) ==
  /\ pgfresh' = [pgfresh EXCEPT ![g] = TRUE]
  /\ pgfix' = [pgfix EXCEPT ![g] = TRUE]
  /\ qfresh' = [q \in Queues |-> IF w > 0 /\ q \in Anc(gq[g]) THEN FALSE ELSE qfresh[q]]
  /\ qfix' = [qfix EXCEPT ![gq[g]] = IF w > 0 THEN FALSE ELSE @]

AfterRecQ(q, w) ==
  /\ qfresh' = [x \in Queues |->
                  IF x = q THEN (\A g \in GroupsOf(q) : pgfresh[g]) /\ (\A c \in Children(q) : qfresh[c])
                  ELSE IF w > 0 /\ x \in Anc(q) THEN FALSE ELSE qfresh[x]]
  /\ qfix' = [x \in Queues |-> IF x = q THEN TRUE ELSE IF w > 0 /\ par[q] = x THEN FALSE ELSE qfix[x]]
  /\ UNCHANGED <<pgfresh, pgfix>>

\* actions -------------------------------------------------------------------------------------------
PodDelete(p) ==
  /\ n < MaxEvents /\ st[p] # "X"
  /\ st' = [st EXCEPT ![p] = "X"]
  /\ EnvChange(pgof[p])
  /\ n' = n + 1 /\ last' = [a |-> "Del", i |-> p, w |-> 0, ch |-> FALSE, fix |-> FALSE]
  /\ UNCHANGED <<par, gq, pgof, preq, pre, pgst, qst>>

PodStep(p) ==
  /\ n < MaxEvents /\ st[p] \notin {"D", "X"}
  /\ st' = [st EXCEPT ![p] = Next4(st[p])]
  /\ EnvChange(pgof[p])
  /\ n' = n + 1 /\ last' = [a |-> "Pod", i |-> p, w |-> 0, ch |-> FALSE, fix |-> FALSE]
  /\ UNCHANGED <<par, gq, pgof, preq, pre, pgst, qst>>

Flip(g) ==
  /\ n < MaxEvents
  /\ pre' = [pre EXCEPT ![g] = ~pre[g]]
  /\ EnvChange(g)
  /\ n' = n + 1 /\ last' = [a |-> "Flip", i |-> g, w |-> 0, ch |-> FALSE, fix |-> FALSE]
  /\ UNCHANGED <<par, gq, pgof, preq, st, pgst, qst>>

ReconcilePodGroup(g) ==
  LET alloc == TrueAlloc(g)
      new == [req |-> TrueReq(g), alloc |-> alloc,
              nonpre |-> IF ~pre[g] THEN alloc ELSE IF ClearStale THEN Z ELSE pgst[g].nonpre]
      w == IF new = pgst[g] THEN 0 ELSE 1
  IN /\ n < MaxEvents
     /\ pgst' = [pgst EXCEPT ![g] = new]
     /\ AfterRecPG(g, w)
     /\ n' = n + 1 /\ last' = [a |-> "RecPG", i |-> g, w |-> w, ch |-> w > 0, fix |-> pgfix[g]]
     /\ UNCHANGED <<par, gq, pgof, preq, st, pre, qst>>

ReconcileQueue(q) ==
  LET new == AddS(SumS(Children(q), LAMBDA c : qst[c]), SumS(GroupsOf(q), LAMBDA g : pgst[g]))
      w == IF new = qst[q] THEN 0 ELSE 1
  IN /\ n < MaxEvents
     /\ qst' = [qst EXCEPT ![q] = new]
     /\ AfterRecQ(q, w)
     /\ n' = n + 1 /\ last' = [a |-> "RecQ", i |-> q, w |-> w, ch |-> w > 0, fix |-> qfix[q]]
     /\ UNCHANGED <<par, gq, pgof, preq, st, pre, pgst>>

Next == \/ \E p \in Pods : PodStep(p) \/ PodDelete(p)
        \/ \E g \in Groups : Flip(g) \/ ReconcilePodGroup(g)
        \/ \E q \in Queues : ReconcileQueue(q)
Spec == Init /\ [][Next]_vars

(* ---------------------------------------------------------------------------------------------- *)
TypeOK == /\ \A p \in Pods : st[p] \in {"PU", "PS", "R", "D", "X"}
          /\ \A g \in Groups : pre[g] \in BOOLEAN /\ pgfresh[g] \in BOOLEAN
          /\ n \in 0..MaxEvents

C20_PodGroupRequested == \A g \in Groups : pgfresh[g] => pgst[g].req = TrueReq(g)
C20_PodGroupAllocated == \A g \in Groups : pgfresh[g] => pgst[g].alloc = TrueAlloc(g)
C20_PodGroupNonPreemptibleSet == \A g \in Groups : (pgfresh[g] /\ ~pre[g]) => pgst[g].nonpre = TrueAlloc(g)
C20_PodGroupNonPreemptibleCleared == \A g \in Groups : (pgfresh[g] /\ pre[g]) => pgst[g].nonpre = Z
C20_PodGroup == C20_PodGroupRequested /\ C20_PodGroupAllocated /\ C20_PodGroupNonPreemptibleSet /\ C20_PodGroupNonPreemptibleCleared

C20_QueueLocal ==
  last.a = "RecQ" =>
     qst[last.i] = AddS(SumS(Children(last.i), LAMBDA c : qst[c]), SumS(GroupsOf(last.i), LAMBDA g : pgst[g]))
C20_Queue == \A q \in Queues : qfresh[q] => qst[q] = TrueQ(q)

C20_Fixpoint == (last.a \in {"RecPG", "RecQ"} /\ last.fix) => (last.w = 0 /\ ~last.ch)

(* Operator clause. A "Deploy" step exists only in recorded traces (StatusAggTrace!TraceDeploy): the
   real DeployableOperands.Deploy ran round last.i for one config in one store; last.fix = it is a
   repeated Deploy with the same config; last.ch = the owned object set/content changed in a repeated
   round, or the object set differs from what the same config produced in another fresh store.
   Second Deploy with the same config: 0 create/update/delete, nothing changes; the object set is a
   function of the config only. *)
C20_Operator == last.a = "Deploy" => (~last.ch /\ (last.fix => last.w = 0))

(* every queue reconciled bottom-up after everything below settled is fresh: sanity of the bookkeeping,
   checked on the model only (a "fresh" flag that is never set would make C20_Queue vacuous) *)
Depth(q) == Cardinality(Anc(q))

HistView == <<st, pre, pgst, qst, pgfresh, qfresh, pgfix, qfix>>
Proj == [st |-> st, pre |-> pre, pgst |-> pgst, qst |-> qst, pf |-> pgfresh, qf |-> qfresh, px |-> pgfix, qx |-> qfix]
=============================================================================
