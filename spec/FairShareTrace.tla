---------------------------- MODULE FairShareTrace ----------------------------
(* Trace validation for C09: every Divide event recorded from the real
   resource_division.SetResourcesShare is judged by the contract predicates of FairShare.tla.
   One initial state per Scenario line; the real result is bound to `fs`, the results of the
   permuted re-runs to `alts`. Also the scenario generator (Emit) for the grid of FairShare!Inputs. *)
EXTENDS FairShare, Json

Trace == ndJsonDeserialize("trace.ndjson")

VARIABLES l, l0, alts, altw, wants, bad
tvars == <<vars, l, l0, alts, altw, wants, bad>>

Starts == {i \in 1..Len(Trace) : Trace[i].ev = "Scenario"}

TraceInit ==
  \E i \in Starts :
    /\ l0 = i /\ l = i + 1
    /\ inp = [total |-> Trace[i].total, kn |-> Trace[i].kn, kd |-> Trace[i].kd, queues |-> Trace[i].queues]
    /\ fs = [j \in 1..Len(Trace[i].queues) |-> 0]
    /\ pc = "deserved" /\ rem = 0 /\ prioList = <<>> /\ remReq = {}
    /\ alts = <<>> /\ altw = <<>> /\ wants = <<>> /\ bad = ""

TraceDivide ==
  /\ l <= Len(Trace) /\ Trace[l].ev = "Divide"
  /\ fs' = Trace[l].fs /\ alts' = Trace[l].alts /\ bad' = Trace[l].bad
  /\ wants' = Trace[l].wants /\ altw' = Trace[l].altw
  /\ pc' = "done" /\ l' = l + 1
  /\ UNCHANGED <<inp, rem, prioList, remReq, l0>>

TraceNext == TraceDivide
TraceSpec == TraceInit /\ [][TraceNext]_tvars

\* drift monitors (not properties): the trace is well-formed
D_Shape == pc = "done" => Len(fs) = Len(inp.queues) /\ Len(wants) = Len(fs) /\ Len(altw) = Len(alts) /\ \A a \in 1..Len(alts) : Len(alts[a]) = Len(fs)
D_Consumed == (l <= Len(Trace) /\ Trace[l].ev # "Scenario") => Trace[l].ev = "Divide" /\ pc # "done"

\* properties on the real result
C09_Finite == bad = ""
C09_OrderIndependent ==
  pc = "done" => \A a \in 1..Len(alts) : \A i \in 1..Len(fs) :
                    alts[a][i] - fs[i] <= Slack /\ fs[i] - alts[a][i] <= Slack
C09_AltsContract == pc = "done" => \A a \in 1..Len(alts) : Contract(inp, alts[a], altw[a])
\* in trace mode the wants-flags of the contract are the logged ones (cfg: ModelWf <- TraceWf)
TraceWf == wants

(* ---- scenario generator: print every element of FairShare!Inputs as one JSON line ---- *)
Emit == PrintT(ToJson(inp))
GenNext == FALSE /\ UNCHANGED tvars
GenInit == Init /\ l = 0 /\ l0 = 0 /\ alts = <<>> /\ altw = <<>> /\ wants = <<>> /\ bad = ""
=============================================================================
