-------------------------------- MODULE Grouper --------------------------------
(* Pod-grouper (property C18): a deterministic, idempotent function of the workload.

   Shaped after pkg/podgrouper/pod_controller.go (PodReconciler.Reconcile) and
   pkg/podgrouper/podgroup/handler.go (Handler.ApplyToCluster):

     Reconcile(p)       = Get pod; GetPodOwners; plugin.GetPodGroupMetadata            (metadata := Want(g))
                          ApplyToCluster: Get PodGroup;
                             not found -> Create(metadata)                              (1 mutating call)
                             found     -> new := ignoreFields(old, metadata)            (foreign fields taken from old)
                                          podGroupsEqual(old,new) ? nothing : Update    (0 / 1 mutating call)
                          assignPodToGroupAndSubGroup: annotation/label differ ? Patch pod : nothing
     ForeignUpdate(g,f) = another actor (scheduler, pod-group-assigner, admin) writes a field it owns.

   The pods are the sibling pods of ONE top owner. `grp[p]` is the documented grouping function of
   the owner kind: pods with the same grp value share a PodGroup (<<1,1,1>> gang kinds, <<1,2,3>>
   kinds documented as one-PodGroup-per-pod, <<1,1,2>> JobSet in-order / LeaderWorkerSet groups).

   A PodGroup = DERIVED fields  d = [name, min, prio, preempt, sub, owner, topo]  (function of owner
                                    chain + pod template only; queue and node-pool label are derived
                                    *at creation* only)
              + FOREIGN fields  f = [queue, mark, backoff, nodepool]  (owned by others after creation).

   `exp[g]` is that function's value for group g (in the model: symbolic; in trace validation: the
   catalogue's documented expectation for the real owner chain). The scenario variables grp, exp,
   expsub never change.

   Properties (never guards):
     C18_SameGroup        reconciled siblings carry the same group annotation iff grp says so, and
                          the annotation names an existing PodGroup
     C18_Deterministic    after any reconcile order every existing PodGroup's derived fields = exp,
                          no PodGroup nobody documents exists, sub-group labels = expsub
     C18_Idempotent       a Reconcile(p) of an already reconciled pod whose group saw no foreign
                          update since a completed reconcile performs 0 mutating calls
     C18_ForeignPreserved [][Reconcile => foreign fields of existing PodGroups unchanged]_vars
*)
EXTENDS Integers, Sequences, FiniteSets, TLC

CONSTANTS GroupOf,      \* model: the grouping function as a sequence pod -> group
          MaxSteps,     \* model: bound on the schedule length
          MaxForeign    \* model: bound on the number of foreign updates in a schedule

VARIABLES grp, exp, expsub,   \* scenario
          pg,                 \* [group -> [ex : BOOLEAN, d : derived record, f : foreign record]]
          extra,              \* number of PodGroups in the namespace that no group of the scenario documents
          ann, lab,           \* per pod: pod-group-name annotation, sub-group label
          done,               \* per pod: reconciled at least once
          dirty,              \* per group: foreign update since the last reconcile that touched the group
          fc,                 \* per group, per field: number of foreign updates so far
          steps,
          last                \* label + observed effect of the last action

vars == <<grp, exp, expsub, pg, extra, ann, lab, done, dirty, fc, steps, last>>

Fields == {"queue", "mark", "backoff", "nodepool"}
Pods == 1..Len(grp)
Groups == {grp[p] : p \in Pods}

NoD == [name |-> "", min |-> 0, prio |-> "", preempt |-> "", sub |-> "", owner |-> "", topo |-> ""]
NoF == [queue |-> "", mark |-> "", backoff |-> "", nodepool |-> ""]
NoPG == [ex |-> FALSE, d |-> NoD, f |-> NoF]

\* the value the k-th foreign update writes (the harness writes the same values)
FVal(f, k) ==
  CASE f = "queue"    -> "fq" \o ToString(k)
    [] f = "mark"     -> IF k % 2 = 1 THEN "true" ELSE "false"
    [] f = "backoff"  -> IF k = 1 THEN "-1" ELSE "1"
    [] f = "nodepool" -> "pool-f" \o ToString(k)

WantD(g) == [name |-> exp[g].name, min |-> exp[g].min, prio |-> exp[g].prio, preempt |-> exp[g].preempt,
             sub |-> exp[g].sub, owner |-> exp[g].owner, topo |-> exp[g].topo]
\* foreign fields at creation: queue and node-pool label are derived, the others unset
InitF(g) == [queue |-> exp[g].queue, mark |-> "nil", backoff |-> "nil", nodepool |-> exp[g].nodepool]

NFor == LET S == {<<g, f>> : g \in Groups, f \in Fields}
            RECURSIVE Sum(_)
            Sum(T) == IF T = {} THEN 0 ELSE LET x == CHOOSE x \in T : TRUE IN fc[x[1]][x[2]] + Sum(T \ {x})
        IN Sum(S)

NoLast == [n |-> "Init", p |-> 0, g |-> 0, f |-> "", wpg |-> 0, wpod |-> 0, wother |-> 0, idem |-> FALSE]

(* ---------------------------------------------------------------------------------------------- *)
Init ==
  /\ grp = GroupOf
  /\ exp = [g \in {GroupOf[p] : p \in 1..Len(GroupOf)} |->
              [name |-> "pg-" \o ToString(g), min |-> 1, prio |-> "train", preempt |-> "", sub |-> "", owner |-> "top", topo |-> "",
               queue |-> "q0", nodepool |-> ""]]
  /\ expsub = [p \in 1..Len(GroupOf) |-> ""]
  /\ pg = [g \in {GroupOf[p] : p \in 1..Len(GroupOf)} |-> NoPG]
  /\ extra = 0
  /\ ann = [p \in 1..Len(GroupOf) |-> ""] /\ lab = [p \in 1..Len(GroupOf) |-> ""]
  /\ done = [p \in 1..Len(GroupOf) |-> FALSE]
  /\ dirty = [g \in {GroupOf[p] : p \in 1..Len(GroupOf)} |-> FALSE]
  /\ fc = [g \in {GroupOf[p] : p \in 1..Len(GroupOf)} |-> [f \in Fields |-> 0]]
  /\ steps = 0
  /\ last = NoLast

Reconcile(p) ==
  LET g == grp[p]
      created == ~pg[g].ex
      \* ApplyToCluster: Create(metadata) or ignoreFields + compare + Update
      newpg == IF created THEN [ex |-> TRUE, d |-> WantD(g), f |-> InitF(g)]
               ELSE [pg[g] EXCEPT !.d = WantD(g)]
      wpg == IF created \/ newpg # pg[g] THEN 1 ELSE 0
      wpod == IF ann[p] # WantD(g).name \/ lab[p] # expsub[p] THEN 1 ELSE 0
  IN /\ steps < MaxSteps
     /\ pg' = [pg EXCEPT ![g] = newpg]
     /\ ann' = [ann EXCEPT ![p] = WantD(g).name]
     /\ lab' = [lab EXCEPT ![p] = expsub[p]]
     /\ done' = [done EXCEPT ![p] = TRUE]
     /\ dirty' = [dirty EXCEPT ![g] = FALSE]
     /\ steps' = steps + 1
     /\ last' = [n |-> "Reconcile", p |-> p, g |-> g, f |-> "", wpg |-> wpg, wpod |-> wpod, wother |-> 0,
                 idem |-> done[p] /\ ~dirty[g]]
     /\ UNCHANGED <<grp, exp, expsub, extra, fc>>

ForeignUpdate(g, f) ==
  /\ steps < MaxSteps /\ NFor < MaxForeign
  /\ pg[g].ex
  /\ LET k == fc[g][f] + 1
     IN /\ pg' = [pg EXCEPT ![g].f[f] = FVal(f, k)]
        /\ fc' = [fc EXCEPT ![g][f] = k]
  /\ dirty' = [dirty EXCEPT ![g] = TRUE]
  /\ steps' = steps + 1
  /\ last' = [n |-> "Foreign", p |-> 0, g |-> g, f |-> f, wpg |-> 0, wpod |-> 0, wother |-> 0, idem |-> FALSE]
  /\ UNCHANGED <<grp, exp, expsub, extra, ann, lab, done>>

Next == (\E p \in Pods : Reconcile(p)) \/ (\E g \in Groups, f \in Fields : ForeignUpdate(g, f))
Spec == Init /\ [][Next]_vars

(* ---------------------------------------------------------------------------------------------- *)
TypeOK ==
  /\ \A g \in Groups : pg[g].ex \in BOOLEAN /\ pg[g].d.min \in Nat
  /\ \A p \in Pods : done[p] \in BOOLEAN
  /\ steps \in 0..MaxSteps /\ extra \in Nat
  /\ last.n \in {"Init", "Reconcile", "Foreign"}

C18_SameGroup ==
  \A p \in Pods : done[p] =>
     /\ ann[p] # ""
     /\ pg[grp[p]].ex /\ pg[grp[p]].d.name = ann[p]
     /\ \A q \in Pods : done[q] => ((ann[p] = ann[q]) <=> (grp[p] = grp[q]))

C18_Deterministic ==
  /\ extra = 0
  /\ \A g \in Groups : pg[g].ex =>
        /\ pg[g].d = WantD(g)
        /\ fc[g]["queue"] = 0 => pg[g].f.queue = exp[g].queue
        /\ fc[g]["nodepool"] = 0 => pg[g].f.nodepool = exp[g].nodepool
  /\ \A p \in Pods : done[p] => lab[p] = expsub[p]

C18_Idempotent ==
  (last.n = "Reconcile" /\ last.idem) => last.wpg + last.wpod + last.wother = 0

\* a reconcile (the only action that does not change fc) leaves the foreign fields of every existing PodGroup alone
C18_ForeignPreservedStep ==
  last'.n = "Reconcile" => \A g \in Groups : pg[g].ex => (pg'[g].ex /\ pg'[g].f = pg[g].f)
C18_ForeignPreserved == [][C18_ForeignPreservedStep]_vars

(* ---- schedule export: one line per transition of the schedule graph (VIEW hides steps/last) ---- *)
SchedView == <<pg, ann, lab, done, dirty, fc>>
Proj == [pg |-> [g \in Groups |-> [ex |-> pg[g].ex, f |-> pg[g].f]], done |-> done, dirty |-> dirty]
=============================================================================
