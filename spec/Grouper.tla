-------------------------------- MODULE Grouper --------------------------------
(* Pod-grouper (property C18): a deterministic, idempotent function of the workload.

   Shaped after pkg/podgrouper/pod_controller.go (PodReconciler.Reconcile) and
   pkg/podgrouper/podgroup/handler.go (Handler.ApplyToCluster):

     Reconcile(p)       = Get pod; GetPodOwners; plugin.GetPodGroupMetadata            (metadata := Want(g))
                          ApplyToCluster: Get PodGroup;
                             not found -> Create(metadata)                              (1 mutating call)
                             found     -> new := ignoreFields(old, metadata)            (foreign fields taken from old)
                                          podGroupsEqual(old,new) ? nothing : Update    (0 / 1 mutating call)
                          assignPodToGroupAndSubGroup: annotation/label differ ? Patch pod : nothing
     ForeignUpdate(g,f) = another actor (scheduler, pod-group-assigner, admin) writes a field it owns
                          (queue, markUnschedulable, schedulingBackoff, node-pool label, or an annotation
                          of its own such as the scheduler's kai.scheduler/last-start-timestamp: "stamp").
     OwnerChange(k)     = the user adds / changes a label (k = "l") or an annotation (k = "a") on the object
                          the plugin inherits metadata from (top owner): a LEGITIMATE external change. The
                          next reconcile of a pod of each group is expected to write the PodGroup (the
                          inherited label / annotation is part of the derived fields), the foreign fields
                          must survive that write, and afterwards reconciles are silent again.
     OwnerSet(k, v)     = the user SETS (v = 1), CHANGES (v = 2) or REMOVES (v = 0) one of the owner labels a
                          derived spec field is computed from: k = "pe" kai.scheduler/preemptibility
                          (1 = non-preemptible, 2 = preemptible), k = "pr" priorityClassName (1 = build,
                          2 = inference). After the next completed reconcile the PodGroup must look like a
                          FRESH grouping of the workload as it is now (expo[g][k][v + 1], written down in
                          the catalogue), in particular a removed label must leave no trace. (The queue
                          label is deliberately not among them: spec.queue / the queue label are derived
                          at creation only and belong to the pod-group-assigner / admin afterwards -
                          handler.go ignoreFields - so a later edit of the owner's queue label must NOT
                          reach the PodGroup; it is a foreign field here.)
     ReconcileRaced(p,f)= Reconcile(p) that has a real difference to write, with a foreign update of field f
                          of the same PodGroup landing AFTER ApplyToCluster's Get and BEFORE its Update:
                             Get PodGroup (old); new := ignoreFields(old, metadata); not equal;
                             ForeignUpdate(g, f);                                   (resourceVersion moves on)
                             Update(old + new) -> 409 Conflict -> Reconcile returns the error (requeue):
                          nothing of the reconcile is written (neither the PodGroup nor the pod), the
                          foreign value stands, the pod is reconciled again later (an ordinary Reconcile
                          step). The error is expected; what must hold is C18_ForeignPreserved.

   The pods are the sibling pods of ONE top owner. `grp[p]` is the documented grouping function of
   the owner kind: pods with the same grp value share a PodGroup (<<1,1,1>> gang kinds, <<1,2,3>>
   kinds documented as one-PodGroup-per-pod, <<1,1,2>> JobSet in-order / LeaderWorkerSet groups).

   A PodGroup = DERIVED fields  d = [name, min, prio, preempt, sub, owner, topo]  (function of owner
                                    chain + pod template only; queue and node-pool label are derived
                                    *at creation* only)
              + FOREIGN fields  f = [queue, mark, backoff, nodepool]  (owned by others after creation).

   `exp[g]` is that function's value for group g (in the model: symbolic; in trace validation: the
   catalogue's documented expectation for the real owner chain) for the workload as it is installed;
   `expo[g]` tabulates the two fields that follow an owner label which can be edited later:
   expo[g].pe[v + 1] / expo[g].pr[v + 1] = preemptibility / priority class of a fresh grouping when
   the owner's label is in state v. The scenario variables grp, exp, expo, expsub never change.

   Properties (never guards):
     C18_SameGroup        reconciled siblings carry the same group annotation iff grp says so, and
                          the annotation names an existing PodGroup
     C18_Deterministic    after any reconcile order every existing PodGroup's derived fields = those of a
                          fresh grouping of the current workload (exp; expo at the owner's current label
                          state once a pod of the group was reconciled after the owner changed),
                          no PodGroup nobody documents exists, sub-group labels = expsub
     C18_Idempotent       a Reconcile(p) of an already reconciled pod whose group saw no external
                          change (foreign update, owner change) since a completed reconcile performs
                          0 mutating calls
     C18_ForeignPreserved [][Reconcile => foreign fields of existing PodGroups unchanged]_vars; for a raced
                          reconcile: = the value the racing foreign update wrote
*)
EXTENDS Integers, Sequences, FiniteSets, TLC

CONSTANTS GroupOf,      \* model: the grouping function as a sequence pod -> group
          MaxSteps,     \* model: bound on the schedule length
          MaxForeign,   \* model: bound on the number of foreign updates in a schedule
          MaxOwner      \* model: bound on the number of owner changes in a schedule

VARIABLES grp, exp, expo, expsub,   \* scenario
          pg,                 \* [group -> [ex : BOOLEAN, d : derived record, f : foreign record]]
          extra,              \* number of PodGroups in the namespace that no group of the scenario documents
          ann, lab,           \* per pod: pod-group-name annotation, sub-group label
          done,               \* per pod: reconciled at least once
          dirty,              \* per group: external change (foreign update, owner change) since the last reconcile that touched the group
          ov,                 \* [l, a]: how often the owner's label / annotation was changed (0 = key absent);
                              \* [pe, pr]: state of the owner's preemptibility / priority class label (0 = absent, 1, 2)
          oc,                 \* number of owner changes so far
          odirty,             \* per group: owner change not yet seen by a reconcile of a pod of the group
          fc,                 \* per group, per field: number of foreign updates so far
          steps,
          last                \* label + observed effect of the last action

vars == <<grp, exp, expo, expsub, pg, extra, ann, lab, done, dirty, ov, oc, odirty, fc, steps, last>>

Fields == {"queue", "mark", "backoff", "nodepool", "stamp"}
OwnerKinds == {"l", "a"}
OwnerSets == {"pe", "pr"}
OwnerVals == 0..2
Pods == 1..Len(grp)
Groups == {grp[p] : p \in Pods}

NoD == [name |-> "", min |-> 0, prio |-> "", preempt |-> "", sub |-> "", owner |-> "", topo |-> "", ol |-> "", oa |-> ""]
NoF == [queue |-> "", mark |-> "", backoff |-> "", nodepool |-> "", stamp |-> ""]
NoPG == [ex |-> FALSE, d |-> NoD, f |-> NoF]

\* the value the k-th foreign update writes (the harness writes the same values)
FVal(f, k) ==
  CASE f = "queue"    -> "fq" \o ToString(k)
    [] f = "mark"     -> IF k % 2 = 1 THEN "true" ELSE "false"
    [] f = "backoff"  -> IF k = 1 THEN "-1" ELSE "1"
    [] f = "nodepool" -> "pool-f" \o ToString(k)
    [] f = "stamp"    -> "ts" \o ToString(k)
\* the value of the inherited owner label / annotation after k changes (the first change ADDS the key)
OVal(k) == IF k = 0 THEN "" ELSE "v" \o ToString(k)

\* a fresh grouping of the workload as it is now
WantD(g) == [name |-> exp[g].name, min |-> exp[g].min, prio |-> expo[g].pr[ov.pr + 1], preempt |-> expo[g].pe[ov.pe + 1],
             sub |-> exp[g].sub, owner |-> exp[g].owner, topo |-> exp[g].topo, ol |-> OVal(ov.l), oa |-> OVal(ov.a)]
\* the part of the derived fields that does not depend on later owner edits
BaseD(d) == [name |-> d.name, min |-> d.min, sub |-> d.sub, owner |-> d.owner, topo |-> d.topo]
\* the part that follows the owner's (editable) labels / annotations
OwnD(d) == [prio |-> d.prio, preempt |-> d.preempt, ol |-> d.ol, oa |-> d.oa]
\* foreign fields at creation: queue and node-pool label are derived, the others unset
InitF(g) == [queue |-> exp[g].queue, mark |-> "nil", backoff |-> "nil", nodepool |-> exp[g].nodepool, stamp |-> ""]

NFor == LET FSum(g) == fc[g]["queue"] + fc[g]["mark"] + fc[g]["backoff"] + fc[g]["nodepool"] + fc[g]["stamp"]
            RECURSIVE Sum(_)
            Sum(T) == IF T = {} THEN 0 ELSE LET x == CHOOSE x \in T : TRUE IN FSum(x) + Sum(T \ {x})
        IN Sum(Groups)

NoLast == [n |-> "Init", p |-> 0, g |-> 0, f |-> "", wpg |-> 0, wpod |-> 0, wother |-> 0, idem |-> FALSE]

\* symbolic expectation table of the model: label state 0 / 1 / 2 -> value of a fresh grouping
ModelExpO == [pe |-> <<"", "non-preemptible", "preemptible">>, pr |-> <<"train", "build", "inference">>]

(* ---------------------------------------------------------------------------------------------- *)
\* two installs: plain (no scheduling labels on the owner) and labelled (preemptibility + priority class set)
Init ==
  /\ grp = GroupOf
  /\ \E v0 \in {0, 1} :
       /\ ov = [l |-> 0, a |-> 0, pe |-> v0, pr |-> v0]
       /\ exp = [g \in {GroupOf[p] : p \in 1..Len(GroupOf)} |->
                   [name |-> "pg-" \o ToString(g), min |-> 1, prio |-> ModelExpO.pr[v0 + 1], preempt |-> ModelExpO.pe[v0 + 1], sub |-> "",
                    owner |-> "top", topo |-> "", queue |-> "q0", nodepool |-> ""]]
  /\ expo = [g \in {GroupOf[p] : p \in 1..Len(GroupOf)} |-> ModelExpO]
  /\ expsub = [p \in 1..Len(GroupOf) |-> ""]
  /\ pg = [g \in {GroupOf[p] : p \in 1..Len(GroupOf)} |-> NoPG]
  /\ extra = 0
  /\ ann = [p \in 1..Len(GroupOf) |-> ""] /\ lab = [p \in 1..Len(GroupOf) |-> ""]
  /\ done = [p \in 1..Len(GroupOf) |-> FALSE]
  /\ dirty = [g \in {GroupOf[p] : p \in 1..Len(GroupOf)} |-> FALSE]
  /\ odirty = [g \in {GroupOf[p] : p \in 1..Len(GroupOf)} |-> FALSE]
  /\ oc = 0
  /\ fc = [g \in {GroupOf[p] : p \in 1..Len(GroupOf)} |-> [f \in Fields |-> 0]]
  /\ steps = 0
  /\ last = NoLast

Reconcile(p) ==
  LET g == grp[p]
      created == ~pg[g].ex
      \* ApplyToCluster: Create(metadata) or ignoreFields + compare + Update
      newpg == IF created THEN [ex |-> TRUE, d |-> WantD(g), f |-> InitF(g)]
               ELSE [pg[g] EXCEPT !.d = WantD(g)]
      wpg == IF created \/ newpg # pg[g] THEN 1 ELSE 0
      wpod == IF ann[p] # WantD(g).name \/ lab[p] # expsub[p] THEN 1 ELSE 0
  IN /\ steps < MaxSteps
     /\ pg' = [pg EXCEPT ![g] = newpg]
     /\ ann' = [ann EXCEPT ![p] = WantD(g).name]
     /\ lab' = [lab EXCEPT ![p] = expsub[p]]
     /\ done' = [done EXCEPT ![p] = TRUE]
     /\ dirty' = [dirty EXCEPT ![g] = FALSE]
     /\ odirty' = [odirty EXCEPT ![g] = FALSE]
     /\ steps' = steps + 1
     /\ last' = [n |-> "Reconcile", p |-> p, g |-> g, f |-> "", wpg |-> wpg, wpod |-> wpod, wother |-> 0,
                 idem |-> done[p] /\ ~dirty[g]]
     /\ UNCHANGED <<grp, exp, expo, expsub, extra, fc, ov, oc>>

\* the reconcile loses the race for the PodGroup's resourceVersion: 409, error, requeue; nothing written
ReconcileRaced(p, f) ==
  LET g == grp[p]
      k == fc[g][f] + 1
  IN /\ steps < MaxSteps
     /\ pg[g].ex /\ pg[g].d # WantD(g)          \* found, not equal: ApplyToCluster issues an Update
     /\ NFor < MaxForeign
     /\ pg' = [pg EXCEPT ![g].f[f] = FVal(f, k)]
     /\ fc' = [fc EXCEPT ![g][f] = k]
     /\ dirty' = [dirty EXCEPT ![g] = TRUE]
     /\ steps' = steps + 1
     /\ last' = [n |-> "Raced", p |-> p, g |-> g, f |-> f, wpg |-> 0, wpod |-> 0, wother |-> 0, idem |-> FALSE]
     /\ UNCHANGED <<grp, exp, expo, expsub, extra, ann, lab, done, ov, oc, odirty>>

ForeignUpdate(g, f) ==
  /\ steps < MaxSteps
  /\ pg[g].ex
  /\ NFor < MaxForeign
  /\ LET k == fc[g][f] + 1
     IN /\ pg' = [pg EXCEPT ![g].f[f] = FVal(f, k)]
        /\ fc' = [fc EXCEPT ![g][f] = k]
  /\ dirty' = [dirty EXCEPT ![g] = TRUE]
  /\ steps' = steps + 1
  /\ last' = [n |-> "Foreign", p |-> 0, g |-> g, f |-> f, wpg |-> 0, wpod |-> 0, wother |-> 0, idem |-> FALSE]
  /\ UNCHANGED <<grp, exp, expo, expsub, extra, ann, lab, done, ov, oc, odirty>>

OwnerChange(k) ==
  /\ steps < MaxSteps /\ oc < MaxOwner
  /\ ov' = [ov EXCEPT ![k] = @ + 1]
  /\ oc' = oc + 1
  /\ dirty' = [g \in Groups |-> TRUE]
  /\ odirty' = [g \in Groups |-> TRUE]
  /\ steps' = steps + 1
  /\ last' = [n |-> "Owner", p |-> 0, g |-> 0, f |-> k, wpg |-> 0, wpod |-> 0, wother |-> 0, idem |-> FALSE]
  /\ UNCHANGED <<grp, exp, expo, expsub, pg, extra, ann, lab, done, fc>>

\* set / change / remove the owner label a derived spec field follows (the label's new state travels in `g`)
OwnerSet(k, v) ==
  /\ steps < MaxSteps /\ oc < MaxOwner
  /\ v # ov[k]
  /\ ov' = [ov EXCEPT ![k] = v]
  /\ oc' = oc + 1
  /\ dirty' = [g \in Groups |-> TRUE]
  /\ odirty' = [g \in Groups |-> TRUE]
  /\ steps' = steps + 1
  /\ last' = [n |-> "Owner", p |-> 0, g |-> v, f |-> k, wpg |-> 0, wpod |-> 0, wother |-> 0, idem |-> FALSE]
  /\ UNCHANGED <<grp, exp, expo, expsub, pg, extra, ann, lab, done, fc>>

Next == \/ \E p \in Pods : Reconcile(p)
        \/ \E p \in Pods, f \in Fields : ReconcileRaced(p, f)
        \/ \E g \in Groups, f \in Fields : ForeignUpdate(g, f)
        \/ \E k \in OwnerKinds : OwnerChange(k)
        \/ \E k \in OwnerSets, v \in OwnerVals : OwnerSet(k, v)
Spec == Init /\ [][Next]_vars

(* ---------------------------------------------------------------------------------------------- *)
TypeOK ==
  /\ \A g \in Groups : pg[g].ex \in BOOLEAN /\ pg[g].d.min \in Nat
  /\ \A p \in Pods : done[p] \in BOOLEAN
  /\ steps \in 0..MaxSteps /\ extra \in Nat /\ oc \in 0..MaxOwner
  /\ ov.l \in Nat /\ ov.a \in Nat /\ ov.pe \in OwnerVals /\ ov.pr \in OwnerVals
  /\ last.n \in {"Init", "Reconcile", "Raced", "Foreign", "Owner"}

C18_SameGroup ==
  \A p \in Pods : done[p] =>
     /\ ann[p] # ""
     /\ pg[grp[p]].ex /\ pg[grp[p]].d.name = ann[p]
     /\ \A q \in Pods : done[q] => ((ann[p] = ann[q]) <=> (grp[p] = grp[q]))

C18_Deterministic ==
  /\ extra = 0
  /\ \A g \in Groups : pg[g].ex =>
        /\ BaseD(pg[g].d) = BaseD(WantD(g))
        \* what follows the owner's editable metadata (inherited label / annotation, preemptibility, priority
        \* class): that of a fresh grouping once a pod of the group was reconciled after the owner changed
        /\ ~odirty[g] => OwnD(pg[g].d) = OwnD(WantD(g))
        /\ fc[g]["queue"] = 0 => pg[g].f.queue = exp[g].queue
        /\ fc[g]["nodepool"] = 0 => pg[g].f.nodepool = exp[g].nodepool
  /\ \A p \in Pods : done[p] => lab[p] = expsub[p]

C18_Idempotent ==
  (last.n = "Reconcile" /\ last.idem) => last.wpg + last.wpod + last.wother = 0

\* a reconcile leaves the foreign fields of every existing PodGroup alone; when a foreign update lands in the middle
\* of it (Raced), what the foreign actor wrote is what stands afterwards
C18_ForeignPreservedStep ==
  /\ last'.n = "Reconcile" => \A g \in Groups : pg[g].ex => (pg'[g].ex /\ pg'[g].f = pg[g].f)
  /\ last'.n = "Raced" => \A g \in Groups : pg[g].ex =>
        /\ pg'[g].ex
        /\ pg'[g].f = IF g = last'.g THEN [pg[g].f EXCEPT ![last'.f] = FVal(last'.f, fc'[g][last'.f])] ELSE pg[g].f
C18_ForeignPreserved == [][C18_ForeignPreservedStep]_vars

(* ---- schedule export: one line per transition of the schedule graph (VIEW hides steps/last) ---- *)
SchedView == <<pg, ann, lab, done, dirty, fc, ov, oc, odirty>>
Proj == [pg |-> [g \in Groups |-> [ex |-> pg[g].ex, f |-> pg[g].f, ol |-> pg[g].d.ol, oa |-> pg[g].d.oa, pe |-> pg[g].d.preempt, pr |-> pg[g].d.prio]],
         done |-> done, dirty |-> dirty, ov |-> ov, oc |-> oc, od |-> odirty, fc |-> fc]
=============================================================================
