---------------------------- MODULE GrouperTrace ----------------------------
(* Trace validation for C18: every step the real PodReconciler (on the controller-runtime fake
   client, write-counting interceptor) performed is replayed here; the state is set from the logged
   projection of the API store (PodGroup objects, pod annotations / labels, number of mutating
   calls), the bookkeeping variables (done, dirty, fc, last.idem) are computed exactly as in
   Grouper.tla, and the C18_ predicates of Grouper.tla are evaluated by TLC in every state.
   One initial state per Scenario line. Also the schedule exporter (Edge). *)
EXTENDS Grouper, Json

Trace == ndJsonDeserialize("trace.ndjson")

VARIABLES l, l0, derr, dcf
tvars == <<vars, l, l0, derr, dcf>>

Starts == {i \in 1..Len(Trace) : Trace[i].ev = "Scenario"}

GroupRec(r) ==
  [ex |-> r.ex = 1,
   d |-> [name |-> r.name, min |-> r.min, prio |-> r.prio, preempt |-> r.preempt, sub |-> r.sub, owner |-> r.owner, topo |-> r.topo,
          ol |-> r.ol, oa |-> r.oa],
   f |-> [queue |-> r.queue, mark |-> r.mark, backoff |-> r.backoff, nodepool |-> r.nodepool, stamp |-> r.stamp]]

NG(i) == Len(Trace[i].exp)

TraceInit ==
  \E i \in Starts :
    /\ l0 = i /\ l = i + 1
    /\ grp = Trace[i].grp /\ exp = Trace[i].exp /\ expo = Trace[i].expo /\ expsub = Trace[i].expsub
    /\ pg = [g \in 1..NG(i) |-> NoPG]
    /\ extra = 0
    /\ ann = [p \in 1..Len(Trace[i].grp) |-> ""] /\ lab = [p \in 1..Len(Trace[i].grp) |-> ""]
    /\ done = [p \in 1..Len(Trace[i].grp) |-> FALSE]
    /\ dirty = [g \in 1..NG(i) |-> FALSE] /\ odirty = [g \in 1..NG(i) |-> FALSE]
    \* ov0: the owner's preemptibility / priority class label as installed (0 plain, 1 labelled)
    /\ ov = [l |-> 0, a |-> 0, pe |-> Trace[i].ov0, pr |-> Trace[i].ov0] /\ oc = 0
    /\ fc = [g \in 1..NG(i) |-> [f \in Fields |-> 0]]
    /\ steps = 0 /\ last = NoLast /\ derr = "" /\ dcf = 0

Logged(e) ==
  /\ pg' = [g \in 1..Len(e.groups) |-> GroupRec(e.groups[g])]
  /\ extra' = e.extra
  /\ ann' = [p \in 1..Len(e.pods) |-> e.pods[p].ann]
  /\ lab' = [p \in 1..Len(e.pods) |-> e.pods[p].sub]
  /\ derr' = e.err

\* a reconcile that ran to completion (no error)
Completed(e, name, f) ==
  LET p == e.p
      g == grp[p]
  IN /\ done' = [done EXCEPT ![p] = TRUE]
     /\ dirty' = [dirty EXCEPT ![g] = FALSE]
     /\ odirty' = [odirty EXCEPT ![g] = FALSE]
     /\ last' = [n |-> name, p |-> p, g |-> g, f |-> f, wpg |-> e.wpg, wpod |-> e.wpod, wother |-> e.wother,
                 idem |-> name = "Reconcile" /\ done[p] /\ ~dirty[g]]

TraceReconcile ==
  /\ l <= Len(Trace) /\ Trace[l].ev = "Reconcile"
  /\ LET e == Trace[l]
     IN Logged(e) /\ Completed(e, "Reconcile", "") /\ dcf' = 0
  /\ steps' = steps + 1 /\ l' = l + 1
  /\ UNCHANGED <<grp, exp, expo, expsub, fc, ov, oc, l0>>

(* Reconcile(p) with the harness armed to let a foreign update of field f land between ApplyToCluster's Get
   and its Update of the PodGroup (fake client interceptor):
     fired = 0  the reconcile issued no PodGroup Update (nothing to write for this kind): an ordinary Reconcile;
     fired = 1  the foreign update was applied (k-th update of the field), then the reconciler's Update went
                through to the store's optimistic concurrency check:
                  cf = 1  it came back with 409 Conflict and Reconcile returned that error (what the code base
                          does: requeue) - the reconcile did not complete: done / dirty / odirty as Grouper!ReconcileRaced;
                  err = "" the reconcile dealt with the conflict itself and completed;
                  anything else is drift (D_NoError).
   In every case C18_ForeignPreserved judges the logged PodGroups. *)
TraceRaced ==
  /\ l <= Len(Trace) /\ Trace[l].ev = "Raced"
  /\ LET e == Trace[l]
         g == grp[e.p]
     IN /\ Logged(e) /\ dcf' = e.cf
        /\ IF e.fired = 0
             THEN Completed(e, "Reconcile", "") /\ fc' = fc
             ELSE /\ fc' = [fc EXCEPT ![g][e.f] = e.k]
                  /\ IF e.err = ""
                       THEN Completed(e, "Raced", e.f)
                       ELSE /\ dirty' = [dirty EXCEPT ![g] = TRUE]
                            /\ last' = [n |-> "Raced", p |-> e.p, g |-> g, f |-> e.f, wpg |-> e.wpg, wpod |-> e.wpod, wother |-> e.wother, idem |-> FALSE]
                            /\ UNCHANGED <<done, odirty>>
  /\ steps' = steps + 1 /\ l' = l + 1
  /\ UNCHANGED <<grp, exp, expo, expsub, ov, oc, l0>>

TraceForeign ==
  /\ l <= Len(Trace) /\ Trace[l].ev = "Foreign"
  /\ LET e == Trace[l]
     IN /\ Logged(e)
        /\ fc' = [fc EXCEPT ![e.g][e.f] = e.k]
        /\ dirty' = [dirty EXCEPT ![e.g] = TRUE]
        /\ last' = [n |-> "Foreign", p |-> 0, g |-> e.g, f |-> e.f, wpg |-> 0, wpod |-> 0, wother |-> 0, idem |-> FALSE]
  /\ steps' = steps + 1 /\ l' = l + 1 /\ dcf' = 0
  /\ UNCHANGED <<grp, exp, expo, expsub, done, ov, oc, odirty, l0>>

TraceOwner ==
  /\ l <= Len(Trace) /\ Trace[l].ev = "Owner"
  /\ LET e == Trace[l]
     IN /\ Logged(e)
        \* k: the label / annotation's change counter (l, a) resp. the label's new state (pe, pr: 0 = removed)
        /\ ov' = [ov EXCEPT ![e.f] = e.k]
        /\ oc' = oc + 1
        /\ dirty' = [g \in 1..Len(dirty) |-> TRUE]
        /\ odirty' = [g \in 1..Len(odirty) |-> TRUE]
        /\ last' = [n |-> "Owner", p |-> 0, g |-> e.g, f |-> e.f, wpg |-> 0, wpod |-> 0, wother |-> 0, idem |-> FALSE]
  /\ steps' = steps + 1 /\ l' = l + 1 /\ dcf' = 0
  /\ UNCHANGED <<grp, exp, expo, expsub, done, fc, l0>>

TraceNext == TraceReconcile \/ TraceRaced \/ TraceForeign \/ TraceOwner
TraceSpec == TraceInit /\ [][TraceNext]_tvars

\* ---- drift monitors: the trace is well formed and the harness did what the schedule says ----
\* the only error a step may return: the 409 of a reconcile whose PodGroup Update was raced by a foreign update
D_NoError == derr = "" \/ (last.n = "Raced" /\ dcf = 1)
D_Shape == /\ Len(pg) = Len(exp) /\ Len(ann) = Len(grp) /\ Len(lab) = Len(grp) /\ Len(expsub) = Len(grp) /\ Len(expo) = Len(exp)
           /\ \A p \in Pods : grp[p] \in 1..Len(exp)
           /\ \A g \in 1..Len(expo) : Len(expo[g].pe) = 3 /\ Len(expo[g].pr) = 3
           /\ ov.pe \in OwnerVals /\ ov.pr \in OwnerVals
           \* the table agrees with the expectation for the workload as installed
           /\ steps = 0 => \A g \in 1..Len(expo) : exp[g].preempt = expo[g].pe[ov.pe + 1] /\ exp[g].prio = expo[g].pr[ov.pr + 1]
D_ForeignApplied ==
  last.n = "Foreign" => /\ pg[last.g].ex
                        /\ pg[last.g].f[last.f] = FVal(last.f, fc[last.g][last.f])
\* an owner change itself touches no PodGroup
D_OwnerOnly == [][Trace[l].ev = "Owner" => pg' = pg]_tvars
D_Consumed == (l <= Len(Trace) /\ Trace[l].ev # "Scenario") => Trace[l].ev \in {"Reconcile", "Raced", "Foreign", "Owner"}

\* ---- the action property over the recorded steps ----
C18_ForeignPreservedTrace == [][C18_ForeignPreservedStep]_tvars

(* ---- schedule exporter (model side): every transition of the schedule graph as one JSON line ---- *)
Edge == PrintT("EDGE " \o ToJson([a |-> [n |-> last'.n, p |-> last'.p, g |-> last'.g, f |-> last'.f], s |-> Proj, t |-> Proj']))
GenInit == Init /\ l = 0 /\ l0 = 0 /\ derr = "" /\ dcf = 0
GenNext == Next /\ UNCHANGED <<l, l0, derr, dcf>>
GenView == SchedView
=============================================================================
