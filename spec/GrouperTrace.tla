---------------------------- MODULE GrouperTrace ----------------------------
(* Trace validation for C18: every step the real PodReconciler (on the controller-runtime fake
   client, write-counting interceptor) performed is replayed here; the state is set from the logged
   projection of the API store (PodGroup objects, pod annotations / labels, number of mutating
   calls), the bookkeeping variables (done, dirty, fc, last.idem) are computed exactly as in
   Grouper.tla, and the C18_ predicates of Grouper.tla are evaluated by TLC in every state.
   One initial state per Scenario line. Also the schedule exporter (Edge). *)
EXTENDS Grouper, Json

Trace == ndJsonDeserialize("trace.ndjson")

VARIABLES l, l0, derr
tvars == <<vars, l, l0, derr>>

Starts == {i \in 1..Len(Trace) : Trace[i].ev = "Scenario"}

GroupRec(r) ==
  [ex |-> r.ex = 1,
   d |-> [name |-> r.name, min |-> r.min, prio |-> r.prio, preempt |-> r.preempt, sub |-> r.sub, owner |-> r.owner, topo |-> r.topo,
          ol |-> r.ol, oa |-> r.oa],
   f |-> [queue |-> r.queue, mark |-> r.mark, backoff |-> r.backoff, nodepool |-> r.nodepool, stamp |-> r.stamp]]

NG(i) == Len(Trace[i].exp)

TraceInit ==
  \E i \in Starts :
    /\ l0 = i /\ l = i + 1
    /\ grp = Trace[i].grp /\ exp = Trace[i].exp /\ expsub = Trace[i].expsub
    /\ pg = [g \in 1..NG(i) |-> NoPG]
    /\ extra = 0
    /\ ann = [p \in 1..Len(Trace[i].grp) |-> ""] /\ lab = [p \in 1..Len(Trace[i].grp) |-> ""]
    /\ done = [p \in 1..Len(Trace[i].grp) |-> FALSE]
    /\ dirty = [g \in 1..NG(i) |-> FALSE] /\ odirty = [g \in 1..NG(i) |-> FALSE]
    /\ ov = [l |-> 0, a |-> 0]
    /\ fc = [g \in 1..NG(i) |-> [f \in Fields |-> 0]]
    /\ steps = 0 /\ last = NoLast /\ derr = ""

Logged(e) ==
  /\ pg' = [g \in 1..Len(e.groups) |-> GroupRec(e.groups[g])]
  /\ extra' = e.extra
  /\ ann' = [p \in 1..Len(e.pods) |-> e.pods[p].ann]
  /\ lab' = [p \in 1..Len(e.pods) |-> e.pods[p].sub]
  /\ derr' = e.err

TraceReconcile ==
  /\ l <= Len(Trace) /\ Trace[l].ev = "Reconcile"
  /\ LET e == Trace[l]
         p == e.p
         g == grp[p]
     IN /\ Logged(e)
        /\ done' = [done EXCEPT ![p] = TRUE]
        /\ dirty' = [dirty EXCEPT ![g] = FALSE]
        /\ odirty' = [odirty EXCEPT ![g] = FALSE]
        /\ last' = [n |-> "Reconcile", p |-> p, g |-> g, f |-> "", wpg |-> e.wpg, wpod |-> e.wpod, wother |-> e.wother,
                    idem |-> done[p] /\ ~dirty[g]]
  /\ steps' = steps + 1 /\ l' = l + 1
  /\ UNCHANGED <<grp, exp, expsub, fc, ov, l0>>

TraceForeign ==
  /\ l <= Len(Trace) /\ Trace[l].ev = "Foreign"
  /\ LET e == Trace[l]
     IN /\ Logged(e)
        /\ fc' = [fc EXCEPT ![e.g][e.f] = e.k]
        /\ dirty' = [dirty EXCEPT ![e.g] = TRUE]
        /\ last' = [n |-> "Foreign", p |-> 0, g |-> e.g, f |-> e.f, wpg |-> 0, wpod |-> 0, wother |-> 0, idem |-> FALSE]
  /\ steps' = steps + 1 /\ l' = l + 1
  /\ UNCHANGED <<grp, exp, expsub, done, ov, odirty, l0>>

TraceOwner ==
  /\ l <= Len(Trace) /\ Trace[l].ev = "Owner"
  /\ LET e == Trace[l]
     IN /\ Logged(e)
        /\ ov' = [ov EXCEPT ![e.f] = e.k]
        /\ dirty' = [g \in 1..Len(dirty) |-> TRUE]
        /\ odirty' = [g \in 1..Len(odirty) |-> TRUE]
        /\ last' = [n |-> "Owner", p |-> 0, g |-> 0, f |-> e.f, wpg |-> 0, wpod |-> 0, wother |-> 0, idem |-> FALSE]
  /\ steps' = steps + 1 /\ l' = l + 1
  /\ UNCHANGED <<grp, exp, expsub, done, fc, l0>>

TraceNext == TraceReconcile \/ TraceForeign \/ TraceOwner
TraceSpec == TraceInit /\ [][TraceNext]_tvars

\* ---- drift monitors: the trace is well formed and the harness did what the schedule says ----
D_NoError == derr = ""
D_Shape == /\ Len(pg) = Len(exp) /\ Len(ann) = Len(grp) /\ Len(lab) = Len(grp) /\ Len(expsub) = Len(grp)
           /\ \A p \in Pods : grp[p] \in 1..Len(exp)
D_ForeignApplied ==
  last.n = "Foreign" => /\ pg[last.g].ex
                        /\ pg[last.g].f[last.f] = FVal(last.f, fc[last.g][last.f])
\* an owner change itself touches no PodGroup
D_OwnerOnly == [][Trace[l].ev = "Owner" => pg' = pg]_tvars
D_Consumed == (l <= Len(Trace) /\ Trace[l].ev # "Scenario") => Trace[l].ev \in {"Reconcile", "Foreign", "Owner"}

\* ---- the action property over the recorded steps ----
C18_ForeignPreservedTrace == [][C18_ForeignPreservedStep]_tvars

(* ---- schedule exporter (model side): every transition of the schedule graph as one JSON line ---- *)
Edge == PrintT("EDGE " \o ToJson([a |-> [n |-> last'.n, p |-> last'.p, g |-> last'.g, f |-> last'.f], s |-> Proj, t |-> Proj']))
GenInit == Init /\ l = 0 /\ l0 = 0 /\ derr = ""
GenNext == Next /\ UNCHANGED <<l, l0, derr>>
GenView == SchedView
=============================================================================
