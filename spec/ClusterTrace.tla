----------------------------- MODULE ClusterTrace -----------------------------
(* Trace validation for the cluster-level properties: every line of a trace recorded from the
   REAL scheduler (harness/cmd/cluster) updates the observable state of Cluster.tla; TLC then
   evaluates the Cxx_ predicates in every state the real execution went through.
   One initial state per Scenario line; handlers are total. *)
EXTENDS Cluster, Json

Trace == ndJsonDeserialize("trace.ndjson")

VARIABLES l, l0
tvars == <<cvars, l, l0>>

Starts == {i \in 1..Len(Trace) : Trace[i].ev = "Scenario"}

TraceInit ==
  \E i \in Starts :
    /\ l0 = i /\ l = i + 1
    /\ scen = Trace[i]
    /\ S = <<>> /\ resv = <<>> /\ D = <<>> /\ qi = <<>> /\ qe = <<>> /\ cyc = 0 /\ action = "" /\ doneActs = {}
    /\ failed = FALSE /\ hist = <<>> /\ panic = ""

Ev == Trace[l]
More == l <= Len(Trace) /\ Ev.ev # "Scenario"
Step == l' = l + 1 /\ UNCHANGED <<l0, scen>>

EvictCount == Cardinality({i \in Dec : EvictOK(i)})

TCycleStart ==
  /\ More /\ Ev.ev = "CycleStart"
  /\ S' = Ev.pods /\ resv' = Ev.resv /\ D' = <<>> /\ qi' = <<>> /\ qe' = <<>> /\ cyc' = Ev.c /\ action' = "" /\ doneActs' = {}
  /\ hist' = Append(hist, [canon |-> CanonOf(Ev.pods), ev |-> EvictCount])
  /\ UNCHANGED <<failed, panic>> /\ Step

TQueueInfo ==
  /\ More /\ Ev.ev = "QueueInfo" /\ qi' = Ev
  /\ UNCHANGED <<S, resv, D, qe, cyc, action, doneActs, failed, hist, panic>> /\ Step

TSessionEnd ==
  /\ More /\ Ev.ev = "SessionEnd" /\ qe' = Ev
  /\ UNCHANGED <<S, resv, D, qi, cyc, action, doneActs, failed, hist, panic>> /\ Step

TActionStart ==
  /\ More /\ Ev.ev = "ActionStart" /\ action' = Ev.name
  /\ UNCHANGED <<S, resv, D, qi, qe, cyc, doneActs, failed, hist, panic>> /\ Step

TActionDone ==
  /\ More /\ Ev.ev = "ActionDone" /\ action' = "" /\ doneActs' = doneActs \cup {Ev.name}
  /\ UNCHANGED <<S, resv, D, qi, qe, cyc, failed, hist, panic>> /\ Step

Decide(rec) ==
  /\ D' = Append(D, rec) /\ failed' = (failed \/ rec.ok = 0)
  /\ UNCHANGED <<S, resv, qi, qe, cyc, action, doneActs, hist, panic>> /\ Step

TBind ==
  /\ More /\ Ev.ev = "Bind"
  /\ Decide([k |-> "bind", p |-> Ev.p, n |-> Ev.n, groups |-> Ev.groups, ok |-> Ev.ok, act |-> Ev.act,
             mdact |-> "", pre |-> 0, stmt |-> Ev.stmt])
TEvict ==
  /\ More /\ Ev.ev = "Evict"
  /\ Decide([k |-> "evict", p |-> Ev.p, n |-> 0, groups |-> <<>>, ok |-> Ev.ok, act |-> Ev.act,
             mdact |-> Ev.mdact, pre |-> Ev.pre, stmt |-> Ev.stmt])
TPipeline ==
  /\ More /\ Ev.ev = "Pipeline"
  /\ Decide([k |-> "pipe", p |-> Ev.p, n |-> Ev.n, groups |-> Ev.groups, ok |-> 1, act |-> Ev.act,
             mdact |-> "", pre |-> 0, stmt |-> Ev.stmt])

TNoop ==
  /\ More /\ Ev.ev \in {"CommitBegin", "CommitEnd", "Env"}
  /\ UNCHANGED <<S, resv, D, qi, qe, cyc, action, doneActs, failed, hist, panic>> /\ Step

TCycleEnd ==
  /\ More /\ Ev.ev = "CycleEnd" /\ action' = "end" /\ panic' = Ev.panic
  /\ UNCHANGED <<S, resv, D, qi, qe, cyc, doneActs, failed, hist>> /\ Step

TTimeout ==
  /\ More /\ Ev.ev = "Timeout" /\ panic' = "timeout"
  /\ UNCHANGED <<S, resv, D, qi, qe, cyc, action, doneActs, failed, hist>> /\ Step

TraceNext == TCycleStart \/ TQueueInfo \/ TSessionEnd \/ TActionStart \/ TActionDone \/ TBind \/ TEvict \/ TPipeline
             \/ TNoop \/ TCycleEnd \/ TTimeout
TraceSpec == TraceInit /\ [][TraceNext]_tvars

Known == {"CycleStart", "QueueInfo", "SessionEnd", "ActionStart", "ActionDone", "Bind", "Evict", "Pipeline",
          "CommitBegin", "CommitEnd", "Env", "CycleEnd", "Timeout"}
D_KnownEvent == More => Ev.ev \in Known
D_Shape == Len(S) \in {0, Len(scen.pods)}
D_PodRefs == \A i \in Dec : D[i].p \in Pods
=============================================================================
