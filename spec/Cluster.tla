-------------------------------- MODULE Cluster --------------------------------
(* API-level view of a cluster scheduled by KAI-Scheduler and the per-cycle decision log.

   State (all of it observable from outside the scheduler):
     scen  the static scenario: nodes, queue tree, jobs (pod groups), pods with their requests
     S     per pod, the state of the API objects at the start of the current cycle
           (st in gone/pending/binding/bound/running/terminating/done, node charged, GPU groups)
     resv  GPU reservation pods present at cycle start
     D     the decisions of the current cycle in the order the scheduler issued them:
           Cache.Bind / Cache.Evict / Cache.TaskPipelined calls (kind, pod, node, groups, ok,
           action, statement)
     qi    fair-share state of the session (deserved, fair share, ... per queue) and its node / queue
           accounting right after OpenSession; qe = the same after the last action of the cycle
   Everything the properties compare the scheduler against ("ground truth") is a
   set-comprehension over (scen, S, D) written here, never a value the scheduler computed.

   Units: cpu milli-cores, mem MB, gpu whole devices, frac 1/100 of a device, gpuMem MiB,
   queue GPU quantities in milli-GPUs; indices are 1-based, 0 = none.                    *)
EXTENDS Integers, Sequences, FiniteSets, FiniteSetsExt, SequencesExt, TLC

VARIABLES scen, S, resv, D, qi, qe, cyc, action, doneActs, failed, hist, panic

cvars == <<scen, S, resv, D, qi, qe, cyc, action, doneActs, failed, hist, panic>>

Sum(S_, f(_)) == MapThenSumSet(f, S_)
Max2(a, b) == IF a > b THEN a ELSE b
Min2(a, b) == IF a < b THEN a ELSE b

Pods   == 1..Len(scen.pods)
Nodes  == 1..Len(scen.nodes)
Jobs   == 1..Len(scen.jobs)
Queues == 1..Len(scen.queues)
P(p) == scen.pods[p]
N(n) == scen.nodes[n]
J(j) == scen.jobs[j]
Q(q) == scen.queues[q]
JobOf(p) == P(p).job
PodsOf(j) == {p \in Pods : P(p).job = j}
Dec == 1..Len(D)
SeqToSet(s) == {s[i] : i \in 1..Len(s)}

\* node pool of the scheduler (cfg.poolKey / poolVal; "" = no pool): nodes labelled poolKey=poolVal, or - for an
\* empty poolVal - nodes without the label key
PoolKey == IF "poolKey" \in DOMAIN scen.cfg THEN scen.cfg.poolKey ELSE ""
PoolVal == IF "poolVal" \in DOMAIN scen.cfg THEN scen.cfg.poolVal ELSE ""
InPool(n) == \/ PoolKey = ""
             \/ PoolVal = "" /\ PoolKey \notin DOMAIN N(n).labels
             \/ PoolVal # "" /\ PoolKey \in DOMAIN N(n).labels /\ N(n).labels[PoolKey] = PoolVal

(***************************************************************************)
(* Requests                                                                *)
(***************************************************************************)
IsSharing(p) == P(p).devs > 0
Whole(p) == IF IsSharing(p) THEN 0 ELSE P(p).gpu
\* GPU memory one sharer takes on each of its devices on node n
MemPerDev(p, n) == IF P(p).gpuMem > 0 THEN P(p).gpuMem ELSE (P(p).frac * N(n).gpuMem) \div 100
\* GPU quantity charged to the queue tree (milli-GPUs); gmem is the GPU memory of the node
GpuMilliOn(p, gmem) ==
  IF ~IsSharing(p) THEN P(p).gpu * 1000
  ELSE P(p).devs * (IF P(p).gpuMem > 0 THEN (P(p).gpuMem * 1000) \div gmem ELSE P(p).frac * 10)
\* a gpu-memory request is a different portion of a device on nodes whose devices differ: the amount a pod is
\* charged with depends on the node it is placed on (n = 0: not placed - only meaningful for non-sharing pods)
GpuMilliAt(p, n) == GpuMilliOn(p, IF n \in Nodes THEN N(n).gpuMem ELSE 1)
GpuMilli(p) == GpuMilliOn(p, 1)          \* for pods that are not sharing (independent of the node)
GpuReq(p) == P(p).gpu > 0 \/ IsSharing(p)

(***************************************************************************)
(* Ground truth at cycle start and after the decisions so far              *)
(***************************************************************************)
OccSt == {"running", "terminating", "bound", "binding"}
Occupies(p, n) == S[p].st \in OccSt /\ S[p].node = n
Occupants(n) == {p \in Pods : Occupies(p, n)}
AllocSt == {"running", "bound", "binding"}          \* allocated, not terminating
ActiveAtStart(p) == S[p].st \in AllocSt

BindOK(i)  == D[i].k = "bind" /\ D[i].ok = 1
BindAny(i) == D[i].k = "bind"
EvictOK(i) == D[i].k = "evict" /\ D[i].ok = 1
Piped(i)   == D[i].k = "pipe"
BoundNow(n) == {i \in Dec : BindOK(i) /\ D[i].n = n}
EvictedNow == {D[i].p : i \in {x \in Dec : EvictOK(x)}}
BoundNowPods == {D[i].p : i \in {x \in Dec : BindOK(x)}}
PipedNowPods == {D[i].p : i \in {x \in Dec : Piped(x)}}

GroupsOfOccupants(n) == UNION {SeqToSet(S[p].groups) : p \in {x \in Occupants(n) : IsSharing(x)}}
GroupsOfBinds(n) == UNION {SeqToSet(D[i].groups) : i \in BoundNow(n)}
GroupsInUse(n) == GroupsOfOccupants(n) \cup GroupsOfBinds(n)
ResvGroups(n) == {resv[i].g : i \in {x \in 1..Len(resv) : resv[x].n = n}}

\* effective cpu request: max(sum of containers, largest init container) + pod overhead
EffCpu(p) == Max2(P(p).cpu, P(p).initCpu) + P(p).ovhCpu
CpuUsed(n) == Sum(Occupants(n), EffCpu) + Sum(BoundNow(n), LAMBDA i : EffCpu(D[i].p))
MemUsed(n) == Sum(Occupants(n), LAMBDA p : P(p).mem) + Sum(BoundNow(n), LAMBDA i : P(D[i].p).mem)
\* pod slots: workload pods + one reservation pod per GPU group in use or still present
SlotsUsed(n) == Cardinality(Occupants(n)) + Cardinality(BoundNow(n)) + Cardinality(GroupsInUse(n) \cup ResvGroups(n))
\* GPU devices: whole devices of non-sharing pods + one device per group in use
DevicesUsed(n) == Sum(Occupants(n), Whole) + Sum(BoundNow(n), LAMBDA i : Whole(D[i].p)) + Cardinality(GroupsInUse(n))
GroupMem(n, g) ==
    Sum({p \in Occupants(n) : IsSharing(p) /\ g \in SeqToSet(S[p].groups)}, LAMBDA p : MemPerDev(p, n))
  + Sum({i \in BoundNow(n) : g \in SeqToSet(D[i].groups)}, LAMBDA i : MemPerDev(D[i].p, n))

(***************************************************************************)
(* C01 - node resources are never oversubscribed by scheduling decisions.  *)
(* Terminating pods and pods evicted in this cycle stay charged (they are  *)
(* in Occupants), so their capacity can only be nominated, never bound.    *)
(* Evaluated in every state, i.e. after every decision and at every cycle  *)
(* start of a history produced by the scheduler's own decisions.           *)
(***************************************************************************)
C01_Cpu   == \A n \in Nodes : BoundNow(n) # {} => CpuUsed(n) <= N(n).cpu
C01_Mem   == \A n \in Nodes : BoundNow(n) # {} => MemUsed(n) <= N(n).mem
\* pod slots, three readings of increasing strength:
\*  C01_Slots                 workload pods + reservation pods that already exist
\*  C01_SlotsOwnReservation   + the reservation pod(s) of the newest bind, in the situation the
\*                            scheduler's own mechanism covers (no other bind of the cycle opened a
\*                            group on the node, no terminating pod holds a slot there)
\*  C01_SlotsAllReservations  + one reservation pod for every GPU group in use (what the binder
\*                            will really create)
WorkloadSlots(n) == Cardinality(Occupants(n)) + Cardinality(BoundNow(n)) + Cardinality(ResvGroups(n))
C01_Slots == \A n \in Nodes : BoundNow(n) # {} => WorkloadSlots(n) <= N(n).pods
NewGroupsOf(i, n) == SeqToSet(D[i].groups) \ (ResvGroups(n) \cup GroupsOfOccupants(n))
C01_SlotsOwnReservation ==
  (Len(D) > 0 /\ BindOK(Len(D))) =>
     LET i == Len(D)  n == D[i].n IN
       (/\ \A x \in BoundNow(n) \ {i} : NewGroupsOf(x, n) = {}
        /\ \A p \in Occupants(n) : S[p].st # "terminating" /\ p \notin EvictedNow)
       => WorkloadSlots(n) + Cardinality(NewGroupsOf(i, n)) <= N(n).pods
C01_SlotsAllReservations == \A n \in Nodes : BoundNow(n) # {} => SlotsUsed(n) <= N(n).pods
C01_Gpu   == \A n \in Nodes : BoundNow(n) # {} => DevicesUsed(n) <= N(n).gpus
\* MIG instances and other extended resources (scenario fields node.ext / pod.ext: resource name -> count):
\* per node and resource name, the instances requested by occupants and binds never exceed the allocatable ones
HasExt == \A n \in Nodes : "ext" \in DOMAIN N(n)
ExtNames == UNION {DOMAIN N(n).ext : n \in Nodes} \cup UNION {DOMAIN P(p).ext : p \in Pods}
ExtReq(p, r) == IF r \in DOMAIN P(p).ext THEN P(p).ext[r] ELSE 0
ExtCap(n, r) == IF r \in DOMAIN N(n).ext THEN N(n).ext[r] ELSE 0
ExtUsed(n, r) == Sum(Occupants(n), LAMBDA p : ExtReq(p, r)) + Sum(BoundNow(n), LAMBDA i : ExtReq(D[i].p, r))
C01_Ext == HasExt => \A n \in Nodes : BoundNow(n) # {} => \A r \in ExtNames : ExtUsed(n, r) <= ExtCap(n, r)
\* the next snapshot produced by applying the scheduler's decisions is again within capacity
C01_NextSnapshot ==
  (cyc > 1 /\ D = <<>>) => \A n \in Nodes : /\ CpuUsed(n) <= N(n).cpu /\ MemUsed(n) <= N(n).mem
                                            /\ WorkloadSlots(n) <= N(n).pods /\ DevicesUsed(n) <= N(n).gpus
                                            /\ HasExt => \A r \in ExtNames : ExtUsed(n, r) <= ExtCap(n, r)
\* a bind only goes to an existing node
C01_BindTarget == \A i \in Dec : BindAny(i) => D[i].n \in Nodes

(***************************************************************************)
(* C02 - shared GPU devices                                                *)
(***************************************************************************)
\* the newest decision about pod p that reached the cache (successful bind, nomination or successful eviction)
LastRelC02(p) == LET xs == {x \in Dec : D[x].p = p /\ (BindOK(x) \/ Piped(x) \/ EvictOK(x))} IN IF xs = {} THEN 0 ELSE Max(xs)
C02_GroupFits == \A n \in Nodes : BoundNow(n) # {} => \A g \in GroupsInUse(n) : GroupMem(n, g) <= N(n).gpuMem
C02_Exclusive == \A n \in Nodes : BoundNow(n) # {} => DevicesUsed(n) <= N(n).gpus
\* N fractional devices => N pairwise distinct groups; non-sharing pods get none
C02_Distinct ==
  \A i \in Dec : BindAny(i) =>
     /\ Len(D[i].groups) = P(D[i].p).devs
     /\ Cardinality(SeqToSet(D[i].groups)) = P(D[i].p).devs
\* a portion never exceeds a device
C02_PortionFits == \A i \in Dec : (BindOK(i) /\ IsSharing(D[i].p)) => MemPerDev(D[i].p, D[i].n) <= N(D[i].n).gpuMem
\* nominations too must fit what will be there once the leavers are gone: at the end of a cycle, on every node, the pods
\* that stay (occupants that are neither terminating nor evicted in this cycle), the binds and the nominations whose
\* pod was not displaced again later in the cycle need no more devices than the node has, and no GPU group holds more
\* than a device's memory
StaysOn(n) == {p \in Occupants(n) : S[p].st # "terminating" /\ p \notin EvictedNow}
FinalPlacements(n) == {i \in Dec : (BindOK(i) \/ Piped(i)) /\ D[i].n = n /\ LastRelC02(D[i].p) = i}
GroupsEnd(n) == UNION {SeqToSet(S[p].groups) : p \in {x \in StaysOn(n) : IsSharing(x)}} \cup UNION {SeqToSet(D[i].groups) : i \in FinalPlacements(n)}
DevicesEnd(n) == Sum(StaysOn(n), Whole) + Sum(FinalPlacements(n), LAMBDA i : Whole(D[i].p)) + Cardinality(GroupsEnd(n))
GroupMemEnd(n, g) ==
    Sum({p \in StaysOn(n) : IsSharing(p) /\ g \in SeqToSet(S[p].groups)}, LAMBDA p : MemPerDev(p, n))
  + Sum({i \in FinalPlacements(n) : g \in SeqToSet(D[i].groups)}, LAMBDA i : MemPerDev(D[i].p, n))
C02_NominationFits ==
  (action = "end" /\ ~failed) => \A n \in Nodes : FinalPlacements(n) # {} =>
     /\ DevicesEnd(n) <= N(n).gpus
     /\ \A g \in GroupsEnd(n) : GroupMemEnd(n, g) <= N(n).gpuMem
C02_NextSnapshot ==
  (cyc > 1 /\ D = <<>>) => \A n \in Nodes : \A g \in GroupsInUse(n) : GroupMem(n, g) <= N(n).gpuMem

(***************************************************************************)
(* C03 - gang integrity (one pod set per job in these scenarios).          *)
(* Judged at the end of a cycle in histories without API write failures.   *)
(***************************************************************************)
RelevantB(x) == BindOK(x) \/ EvictOK(x)
LastRelB(p) == LET xs == {x \in Dec : D[x].p = p /\ RelevantB(x)} IN IF xs = {} THEN 0 ELSE Max(xs)
ActiveAfter(j) ==
  Cardinality({p \in PodsOf(j) : LET x == LastRelB(p) IN IF x = 0 THEN ActiveAtStart(p) ELSE BindOK(x)})
JobsBound   == {JobOf(p) : p \in BoundNowPods}
JobsEvicted == {JobOf(p) : p \in EvictedNow}
AtCycleEnd == action = "end"
\* pod sets of a job: its sub-groups, or the single default pod set
PodSetsOf(j) ==
  IF Len(J(j).subs) = 0 THEN {[pods |-> PodsOf(j), min |-> J(j).min]}
  ELSE {[pods |-> {p \in PodsOf(j) : P(p).sub = k}, min |-> J(j).subs[k].min] : k \in 1..Len(J(j).subs)}
ActiveIn(X) == Cardinality({p \in X : LET x == LastRelB(p) IN IF x = 0 THEN ActiveAtStart(p) ELSE BindOK(x)})
AllSetsAtMin(j) == \A ps \in PodSetsOf(j) : ActiveIn(ps.pods) >= ps.min
C03_BindReachesMin ==
  (AtCycleEnd /\ ~failed) => \A j \in JobsBound \ JobsEvicted : AllSetsAtMin(j)
\* evicted pods of j that the same statement nominates again ("moved" victims: the solver re-places
\* victims, consolidation moves pods)
MovedPods(j) == {p \in PodsOf(j) \cap EvictedNow :
                  \E i, k \in Dec : EvictOK(i) /\ D[i].p = p /\ Piped(k) /\ D[k].p = p /\ D[k].stmt = D[i].stmt}
OnlyMoved(j) == (PodsOf(j) \cap EvictedNow) \subseteq MovedPods(j)
C03_EvictShape ==
  (AtCycleEnd /\ ~failed) => \A j \in JobsEvicted : ActiveAfter(j) = 0 \/ AllSetsAtMin(j) \/ OnlyMoved(j)
\* the same for jobs all of whose evicted pods are moved: the pods that stay plus the moved ones
\* still leave the gang partially running until the moved pods are back
C03_EvictShapeMoved ==
  (AtCycleEnd /\ ~failed) => \A j \in JobsEvicted : OnlyMoved(j) => (ActiveAfter(j) = 0 \/ AllSetsAtMin(j))
\* if part of a gang has to wait for releasing capacity, the whole gang is nominated: a statement
\* never both binds and nominates pods of a job that is below its minimum without those binds
ActiveBeforeIn(X, i, stmt) == \* really active pods of X just before decision i (binds of statement stmt excluded)
  Cardinality({p \in X :
      \/ ActiveAtStart(p) /\ ~\E x \in 1..(i - 1) : EvictOK(x) /\ D[x].p = p
      \/ \E x \in 1..(i - 1) : BindOK(x) /\ D[x].p = p /\ D[x].stmt # stmt})
C03_PipelineAll ==
  ~failed => \A i \in Dec : \A k \in Dec :
     (BindAny(i) /\ Piped(k) /\ D[i].stmt = D[k].stmt /\ D[i].stmt # 0 /\ JobOf(D[i].p) = JobOf(D[k].p))
       => \A ps \in PodSetsOf(JobOf(D[i].p)) : ActiveBeforeIn(ps.pods, Min2(i, k), D[i].stmt) >= ps.min

(***************************************************************************)
(* Queue tree and C08                                                      *)
(***************************************************************************)
RECURSIVE Ancestors(_)
Ancestors(q) == IF q = 0 THEN {} ELSE {q} \cup (IF Q(q).parent = q THEN {} ELSE Ancestors(Q(q).parent))
InSubtree(p, q) == q \in Ancestors(J(JobOf(p)).queue)
InSubtreeQ(y, q) == q \in Ancestors(y)      \* queue y lies in the subtree of queue q (y = q included)
\* pods charged to the queues after the first i decisions
\* (the newest bind / nomination / eviction of a pod decides; a pod bound and then evicted in the same
\*  cycle is not charged)
Relevant(x) == BindOK(x) \/ Piped(x) \/ EvictOK(x)
LastRel(p, i) == LET xs == {x \in 1..i : D[x].p = p /\ Relevant(x)} IN IF xs = {} THEN 0 ELSE Max(xs)
ChargedAfter(i) ==
  {p \in Pods : LET x == LastRel(p, i) IN IF x = 0 THEN ActiveAtStart(p) ELSE ~EvictOK(x)}
\* the node a charged pod is on after the first i decisions: its newest placement, else where it was at cycle start
NodeAfter(p, i) == LET x == LastRel(p, i) IN IF x = 0 \/ EvictOK(x) THEN S[p].node ELSE D[x].n
QGpu(q, i, np) == Sum({p \in ChargedAfter(i) : InSubtree(p, q) /\ (np => J(JobOf(p)).preempt = 0)}, LAMBDA p : GpuMilliAt(p, NodeAfter(p, i)))
QCpu(q, i, np) == Sum({p \in ChargedAfter(i) : InSubtree(p, q) /\ (np => J(JobOf(p)).preempt = 0)}, EffCpu)
QMem(q, i, np) == Sum({p \in ChargedAfter(i) : InSubtree(p, q) /\ (np => J(JobOf(p)).preempt = 0)}, LAMBDA p : P(p).mem)
\* C08 judges DECISIONS: a statement is decided as a whole (victims + placements). When the API call
\* evicting one of its victims fails, Commit undoes that eviction and still emits the placements that
\* follow; the sums a placement is judged against therefore count the victims of ITS OWN statement as
\* evicted whether or not their API call succeeded (failed evictions of other statements stay charged).
EvictDecidedIn(x, s) == D[x].k = "evict" /\ s # 0 /\ D[x].stmt = s
LastRelIn(p, i) == LET xs == {x \in 1..i : D[x].p = p /\ (Relevant(x) \/ EvictDecidedIn(x, D[i].stmt))} IN IF xs = {} THEN 0 ELSE Max(xs)
ChargedDecided(i) ==
  {p \in Pods : LET x == LastRelIn(p, i) IN IF x = 0 THEN ActiveAtStart(p) ELSE D[x].k # "evict"}
NodeDecided(p, i) == LET x == LastRelIn(p, i) IN IF x = 0 \/ D[x].k = "evict" THEN S[p].node ELSE D[x].n
DGpu(q, i, np) == Sum({p \in ChargedDecided(i) : InSubtree(p, q) /\ (np => J(JobOf(p)).preempt = 0)}, LAMBDA p : GpuMilliAt(p, NodeDecided(p, i)))
DCpu(q, i, np) == Sum({p \in ChargedDecided(i) : InSubtree(p, q) /\ (np => J(JobOf(p)).preempt = 0)}, EffCpu)
DMem(q, i, np) == Sum({p \in ChargedDecided(i) : InSubtree(p, q) /\ (np => J(JobOf(p)).preempt = 0)}, LAMBDA p : P(p).mem)
Raises(i) == (BindOK(i) \/ Piped(i)) /\ D[i].p \notin ChargedAfter(i - 1)
\* only the newest decision needs checking in each state (earlier ones were checked in earlier states)
LastD == Len(D)
C08_Limit ==
  (LastD > 0 /\ Raises(LastD)) =>
    \A q \in Ancestors(J(JobOf(D[LastD].p)).queue) :
      /\ (Q(q).gl # -1 /\ GpuReq(D[LastD].p)) => DGpu(q, LastD, FALSE) <= Q(q).gl
      /\ (Q(q).cl # -1 /\ EffCpu(D[LastD].p) > 0)   => DCpu(q, LastD, FALSE) <= Q(q).cl
      /\ (Q(q).ml # -1 /\ P(D[LastD].p).mem > 0)   => DMem(q, LastD, FALSE) <= Q(q).ml
C08_NonPreemptibleQuota ==
  (LastD > 0 /\ Raises(LastD) /\ J(JobOf(D[LastD].p)).preempt = 0) =>
    \A q \in Ancestors(J(JobOf(D[LastD].p)).queue) :
      /\ (Q(q).gq # -1 /\ GpuReq(D[LastD].p)) => DGpu(q, LastD, TRUE) <= Q(q).gq
      /\ (Q(q).cq # -1 /\ EffCpu(D[LastD].p) > 0)   => DCpu(q, LastD, TRUE) <= Q(q).cq
      /\ (Q(q).mq # -1 /\ P(D[LastD].p).mem > 0)   => DMem(q, LastD, TRUE) <= Q(q).mq

(***************************************************************************)
(* C16 - priority, then FIFO, between comparable jobs of a leaf queue,     *)
(* judged when the allocate action is done.                                *)
(***************************************************************************)
AllPending(j) == \A p \in PodsOf(j) : S[p].st = "pending"
Comparable(j, k) == j # k /\ J(j).shape > 0 /\ J(j).shape = J(k).shape /\ J(j).queue = J(k).queue /\ J(j).preempt = J(k).preempt
                    /\ AllPending(j) /\ AllPending(k)
PlacedByAllocate(j) ==
  Cardinality({p \in PodsOf(j) : \E i \in Dec : (BindAny(i) \/ Piped(i)) /\ D[i].act = "allocate" /\ D[i].p = p}) >= J(j).min
AllocateDone == "allocate" \in doneActs
C16_Priority ==
  (AllocateDone /\ ~failed) => \A j, k \in Jobs :
     (Comparable(j, k) /\ J(j).prio > J(k).prio /\ PlacedByAllocate(k)) => PlacedByAllocate(j)
C16_Fifo ==
  (AllocateDone /\ ~failed) => \A j, k \in Jobs :
     (Comparable(j, k) /\ J(j).prio = J(k).prio /\ J(j).age > J(k).age /\ PlacedByAllocate(k)) => PlacedByAllocate(j)

(***************************************************************************)
(* C06 - only eligible victims, only to place a workload                   *)
(***************************************************************************)
VictimActs == {"reclaim", "preempt", "consolidation"}
IsVictimEvict(i) == D[i].k = "evict" /\ D[i].mdact \in VictimActs
C06_Preemptible == \A i \in Dec : IsVictimEvict(i) => J(JobOf(D[i].p)).preempt = 1
C06_Preempt ==
  \A i \in Dec : (IsVictimEvict(i) /\ D[i].mdact = "preempt") =>
     /\ D[i].pre \in Jobs
     /\ J(JobOf(D[i].p)).queue = J(D[i].pre).queue
     /\ J(JobOf(D[i].p)).prio < J(D[i].pre).prio
C06_Reclaim ==
  \A i \in Dec : (IsVictimEvict(i) /\ D[i].mdact = "reclaim") =>
     /\ D[i].pre \in Jobs
     /\ J(JobOf(D[i].p)).queue # J(D[i].pre).queue
\* every such eviction is committed by a statement that also binds / nominates the workload it was
\* made for; judged when the statement's commit is over (the newest decision is from another
\* statement, or the action is done)
Quiet == action \in {"", "end"}      \* between actions: every statement of the past actions is complete
C06_Together ==
  (Quiet /\ ~failed) => \A i \in Dec : (IsVictimEvict(i) /\ D[i].mdact \in {"reclaim", "preempt"}) =>
     \E k \in Dec : (BindAny(k) \/ Piped(k)) /\ D[k].stmt = D[i].stmt /\ JobOf(D[k].p) = D[i].pre
\* the same under API failures, for the evictions that went through: when the API refuses another eviction of the
\* statement (Commit undoes that one and goes on) or a bind of the preemptor, the pods that WERE evicted still come
\* with the placement of the workload they were evicted for - nothing is evicted for nothing
C06_TogetherWhenCallsFail ==
  (Quiet /\ failed) => \A i \in Dec : (IsVictimEvict(i) /\ EvictOK(i) /\ D[i].mdact \in {"reclaim", "preempt"}) =>
     \E k \in Dec : (BindAny(k) \/ Piped(k)) /\ D[k].stmt = D[i].stmt /\ JobOf(D[k].p) = D[i].pre
\* the node a victim was taken from (where it ran, or where an earlier decision of the cycle put it)
NodeOfVictim(i) == LET b == {k \in 1..(i - 1) : (BindOK(k) \/ Piped(k)) /\ D[k].p = D[i].p} IN IF b = {} THEN S[D[i].p].node ELSE D[Max(b)].n
NoLimits == \A q \in Queues : Q(q).gl = -1 /\ Q(q).cl = -1 /\ Q(q).ml = -1
\* consolidation evicts a pod only if the same statement re-places it on another node
C06_Consolidation ==
  (Quiet /\ ~failed) => \A i \in Dec : (IsVictimEvict(i) /\ D[i].mdact = "consolidation") =>
     \E k \in Dec : /\ Piped(k) /\ D[k].stmt = D[i].stmt /\ D[k].p = D[i].p
                     \* another node - or, for a sharer, another GPU device of the same node
                     /\ (D[k].n # S[D[i].p].node \/ SeqToSet(D[k].groups) # SeqToSet(S[D[i].p].groups))
\* minimum runtime (docs/plugins/minruntime.md). Preempt: walk up from the victim's queue until a
\* preemptMinRuntime is set. Reclaim (default method "lca"): take the lowest common ancestor of
\* reclaimer and victim queues, step one queue down towards the victim, and from there walk up
\* until a reclaimMinRuntime is set. 0 = not set / plugin default. A job still inside its resolved
\* minimum runtime is not a victim, unless it is elastic and stays at or above its minimum.
\* Start times are hours away from the limits; judged in the first cycle (later start times are
\* not observable from the API objects the harness projects).
\* the plugin's arguments: defaults used when no queue on the path sets a value, and the reclaim resolve method
\* ("lca": start one step below the lowest common ancestor; "queue": start at the victim's leaf queue)
DefMinRt(kind) == LET f == IF kind = "preempt" THEN "defMinRtP" ELSE "defMinRtR" IN IF f \in DOMAIN scen.cfg THEN scen.cfg[f] ELSE 0
MinRtMethod == IF "minRtMethod" \in DOMAIN scen.cfg /\ scen.cfg.minRtMethod = "queue" THEN "queue" ELSE "lca"
RECURSIVE ResolveUp(_, _)
ResolveUp(q, kind) ==
  IF q = 0 THEN DefMinRt(kind)
  ELSE LET v == IF kind = "preempt" THEN Q(q).minRtP ELSE Q(q).minRtR IN
       IF v > 0 THEN v ELSE IF Q(q).parent = q THEN DefMinRt(kind) ELSE ResolveUp(Q(q).parent, kind)
StepDown(vq, pq) ==
  LET common == Ancestors(vq) \cap Ancestors(pq)
      cands  == {x \in Ancestors(vq) \ common : Q(x).parent \in common \cup {0}}
  IN IF cands = {} THEN vq ELSE CHOOSE x \in cands : TRUE
ResolvedMinRt(i) ==
  LET j == JobOf(D[i].p) IN
    IF D[i].mdact = "preempt" THEN ResolveUp(J(j).queue, "preempt")
    ELSE IF D[i].pre \in Jobs
         THEN ResolveUp(IF MinRtMethod = "queue" THEN J(j).queue ELSE StepDown(J(j).queue, J(D[i].pre).queue), "reclaim")
         ELSE 0
\* pods of j still active when only the evictions of one kind (reclaim / preempt) are applied: the
\* protection of one kind does not restrict the other
ActiveAfterKind(j, kind) ==
  Cardinality({p \in PodsOf(j) : ActiveAtStart(p) /\ ~\E x \in Dec : EvictOK(x) /\ D[x].p = p /\ D[x].mdact = kind})
\* a victim holds capacity: it occupied a node at the cycle start or was bound earlier in the cycle.
\* Evicting a pod that is only nominated (pending in the API) deletes a pending pod and frees nothing.
C06_VictimHolds == \A i \in Dec : D[i].k = "evict" =>
   LET x == LastRel(D[i].p, i - 1) IN IF x = 0 THEN S[D[i].p].st \in OccSt ELSE ~Piped(x)
C06_MinRuntime ==
  (AtCycleEnd /\ ~failed /\ cyc = 1) => \A i \in Dec : (IsVictimEvict(i) /\ D[i].mdact \in {"reclaim", "preempt"}) =>
     LET j == JobOf(D[i].p) IN
       (ResolvedMinRt(i) > 0 /\ J(j).lastStart >= 0 /\ J(j).lastStart < ResolvedMinRt(i))
         => ActiveAfterKind(j, D[i].mdact) >= J(j).min

(***************************************************************************)
(* C07 - reclaim protects deserved quota and keeps the reclaimer within its *)
(* fair share. Per reclaim statement; queues are levelled at the point     *)
(* where the victim's and the reclaimer's paths diverge. Allocation of a   *)
(* queue = its subtree's charged pods (recomputed, not the scheduler's).   *)
(* Fair shares come from the session (their contract is C09).              *)
(***************************************************************************)
ReclaimEvicts == {i \in Dec : EvictOK(i) /\ D[i].mdact = "reclaim" /\ D[i].stmt # 0 /\ D[i].pre \in Jobs}
FirstOfStmt(s) == Min({i \in Dec : D[i].stmt = s /\ D[i].act = "reclaim"})
LastOfStmt(s) == Max({i \in Dec : D[i].stmt = s /\ D[i].act = "reclaim"})
StepDownQ(vq, pq) ==
  LET common == Ancestors(vq) \cap Ancestors(pq)
      cands  == {x \in Ancestors(vq) \ common : Q(x).parent \in common \cup {0}}
  IN IF cands = {} THEN vq ELSE CHOOSE x \in cands : TRUE
WithinDeserved(q, i) ==
  /\ (Q(q).gq = -1 \/ QGpu(q, i, FALSE) <= Q(q).gq)
  /\ (Q(q).cq = -1 \/ QCpu(q, i, FALSE) <= Q(q).cq)
  /\ (Q(q).mq = -1 \/ QMem(q, i, FALSE) <= Q(q).mq)
WithinFairShare(q, i) ==
  /\ QGpu(q, i, FALSE) <= qi.q[q].fsG + 1
  /\ QCpu(q, i, FALSE) <= qi.q[q].fsC + 1
  /\ QMem(q, i, FALSE) <= qi.q[q].fsM + 1
\* resources are taken only from (levelled) queues above their deserved quota or above their fair
\* share in some resource at the moment the statement starts taking from them
\* victims that the same statement nominates again (consolidating reclaim moves them) keep being
\* charged to their queue: nothing is taken from it
MovedInStmt(i) == \E k \in Dec : Piped(k) /\ D[k].stmt = D[i].stmt /\ D[k].p = D[i].p
TakingEvicts == {i \in ReclaimEvicts : ~MovedInStmt(i)}
C07_NotWithinQuota ==
  (Quiet /\ ~failed) => \A i \in TakingEvicts :
     LET vq == J(JobOf(D[i].p)).queue
         rq == J(D[i].pre).queue
         x  == StepDownQ(vq, rq)
         b  == FirstOfStmt(D[i].stmt) - 1
     IN (vq # rq /\ qi # <<>>) => ~(WithinDeserved(x, b) /\ WithinFairShare(x, b))
\* the same at the moment each victim workload is taken: the code checks the remaining share of the
\* levelled queue before subtracting each victim workload's resources, in an unspecified order of
\* the victims. Some order passes every check iff its LAST victim does, so: for every statement
\* and levelled victim queue x there is a victim workload j such that the allocation at the start
\* of the statement minus what all the OTHER victims really took (not moved) from x's subtree is
\* still above x's deserved quota or fair share in some resource.
TakenFrom(s, x) == {D[y].p : y \in {z \in TakingEvicts : D[z].stmt = s /\ InSubtree(D[z].p, x)}}
AboveAfterOthers(s, x, j) ==
  LET b  == FirstOfStmt(s) - 1
      others == {p \in TakenFrom(s, x) : JobOf(p) # j}
      g  == QGpu(x, b, FALSE) - Sum(others, LAMBDA p : GpuMilliAt(p, NodeAfter(p, b)))
      c  == QCpu(x, b, FALSE) - Sum(others, EffCpu)
      m  == QMem(x, b, FALSE) - Sum(others, LAMBDA p : P(p).mem)
  IN ~(/\ (Q(x).gq = -1 \/ g <= Q(x).gq) /\ (Q(x).cq = -1 \/ c <= Q(x).cq) /\ (Q(x).mq = -1 \/ m <= Q(x).mq)
       /\ g <= qi.q[x].fsG + 1 /\ c <= qi.q[x].fsC + 1 /\ m <= qi.q[x].fsM + 1)
C07_NotWithinQuotaPerVictim ==
  (Quiet /\ ~failed /\ qi # <<>>) => \A i \in TakingEvicts :
     LET vq == J(JobOf(D[i].p)).queue
         rq == J(D[i].pre).queue
         x  == StepDownQ(vq, rq)
         s  == D[i].stmt
     IN vq # rq => \E j \in {JobOf(p) : p \in TakenFrom(s, x)} : AboveAfterOthers(s, x, j)
\* the reclaiming (leaf) queue stays within its fair share after receiving the resources
\* (tolerance of one milli-unit / one MB for the float fair shares)
C07_ReclaimerWithinFairShare ==
  (Quiet /\ ~failed /\ qi # <<>>) => \A i \in ReclaimEvicts :
     LET rq == J(D[i].pre).queue
         e  == LastOfStmt(D[i].stmt)
     IN /\ QGpu(rq, e, FALSE) <= qi.q[rq].fsG + 1
        /\ QCpu(rq, e, FALSE) <= qi.q[rq].fsC + 1
        /\ QMem(rq, e, FALSE) <= qi.q[rq].fsM + 1

\* saturation clause: after the statement no ancestor (or the leaf itself) of the reclaimer's queue is
\* both above its own fair share and at least as saturated (allocation / fair share) as a sibling
\* queue from whose subtree the statement really took resources, in a resource the reclaimer or
\* those victims request. Ratios are compared by cross-multiplication on the recomputed
\* allocations (milli-GPU, milli-CPU; memory in 32 MB units) - with saturation multiplier m > 1 the
\* code is stricter than this. The session's float fair shares are logged rounded: when the logged
\* value is exact (xG / xC = 1) the comparison is exact, otherwise a violation is reported only
\* when it survives the rounding error (slack).
StmtPre(s) == D[CHOOSE i \in ReclaimEvicts : D[i].stmt = s].pre
ReclaimerPods(s) == {D[k].p : k \in {z \in Dec : D[z].stmt = s /\ (BindOK(z) \/ Piped(z)) /\ JobOf(D[z].p) = StmtPre(s)}}
AsSaturated(aR, fR, aS, fS, slack) ==
  /\ fR >= 0 /\ fS > 0 /\ aR > fR + slack
  /\ aR * fS >= aS * fR + slack * (aR + aS + fR + fS + slack)
SaturationBroken(s, a, x) ==
  LET e   == LastOfStmt(s)
      inv == ReclaimerPods(s) \cup TakenFrom(s, x)
  IN \/ /\ \E p \in inv : GpuReq(p)
        /\ AsSaturated(QGpu(a, e, FALSE), qi.q[a].fsG, QGpu(x, e, FALSE), qi.q[x].fsG,
                       IF qi.q[a].xG = 1 /\ qi.q[x].xG = 1 THEN 0 ELSE 1)
     \/ /\ \E p \in inv : EffCpu(p) > 0
        /\ AsSaturated(QCpu(a, e, FALSE), qi.q[a].fsC, QCpu(x, e, FALSE), qi.q[x].fsC,
                       IF qi.q[a].xC = 1 /\ qi.q[x].xC = 1 THEN 0 ELSE 1)
     \/ /\ \E p \in inv : P(p).mem > 0
        /\ AsSaturated(QMem(a, e, FALSE) \div 32, qi.q[a].fsM \div 32, QMem(x, e, FALSE) \div 32, qi.q[x].fsM \div 32, 2)
C07_Saturation ==
  (Quiet /\ ~failed /\ qi # <<>>) => \A s \in {D[i].stmt : i \in TakingEvicts} :
     \A a \in Ancestors(J(StmtPre(s)).queue) : \A x \in Queues :
        (x # a /\ Q(x).parent = Q(a).parent /\ TakenFrom(s, x) # {} /\ ReclaimerPods(s) # {}) => ~SaturationBroken(s, a, x)

(***************************************************************************)
(* C05 - work conservation, judged right after the allocate action: no     *)
(* ready pending job that was not placed fits entirely on idle capacity    *)
(* (capacity not held by occupants, binds or nominations) while respecting *)
(* the limits and non-preemptible quotas of its queue chain. Restricted to *)
(* unconstrained jobs of non-sharing pods whose pods are all pending.      *)
(***************************************************************************)
JustAfterAllocate == doneActs = {"allocate"} /\ action = ""
PipedOn(n) == {i \in Dec : Piped(i) /\ D[i].n = n}
IdleCpu(n) == N(n).cpu - CpuUsed(n) - Sum(PipedOn(n), LAMBDA i : EffCpu(D[i].p))
IdleMem(n) == N(n).mem - MemUsed(n) - Sum(PipedOn(n), LAMBDA i : P(D[i].p).mem)
IdleSlots(n) == N(n).pods - SlotsUsed(n) - Cardinality(PipedOn(n))
                - Cardinality((UNION {SeqToSet(D[i].groups) : i \in PipedOn(n)}) \ (GroupsInUse(n) \cup ResvGroups(n)))
IdleGpus(n) == N(n).gpus - DevicesUsed(n) - Sum(PipedOn(n), LAMBDA i : Whole(D[i].p))
               - Cardinality((UNION {SeqToSet(D[i].groups) : i \in PipedOn(n)}) \ GroupsInUse(n))
Unconstrained(p) == /\ DOMAIN P(p).sel = {} /\ DOMAIN P(p).affIn = {} /\ DOMAIN P(p).affNot = {}
                    /\ Len(P(p).podAff) = 0 /\ Len(P(p).podAnt) = 0
UsableNode(n) == N(n).ready = 1 /\ N(n).unsched = 0 /\ Len(N(n).taints) = 0 /\ InPool(n)

\* C06 (only to place a workload), the room of a victim: the solver evicts every accumulated potential victim, places the
\* claimant and then re-places the victims one by one - a victim whose own room is still there returns into it (it is
\* un-evicted). So in a plain cluster (whole-GPU pods, nothing but GPUs scarce, no constraints, no limits) a single-pod
\* victim that stays evicted lost its room: what is left on its node after the statement is smaller than the victim.
\* (A pod evicted by an attempt that the solver abandoned, on a node the solution does not need, keeps its room.)
PlainCluster ==
  /\ \A p \in Pods : Unconstrained(p) /\ ~IsSharing(p) /\ P(p).gpu > 0 /\ Len(P(p).tols) = 0
  /\ \A n \in Nodes : /\ UsableNode(n)
                       /\ Sum(Pods, EffCpu) <= N(n).cpu /\ Sum(Pods, LAMBDA p : P(p).mem) <= N(n).mem
                       /\ 2 * Cardinality(Pods) <= N(n).pods
  /\ \A j \in Jobs : Len(J(j).subs) = 0 /\ J(j).topo = ""
  /\ (HasExt => ExtNames = {})
HoldsAfter(p, e, n) == LET x == LastRel(p, e) IN IF x = 0 THEN (S[p].st \in AllocSt /\ S[p].node = n) ELSE (~EvictOK(x) /\ D[x].n = n)
RoomAfter(n, e) == N(n).gpus - Sum({p \in Pods : HoldsAfter(p, e, n)}, Whole)
EndOfStmt(i) == Max({k \in Dec : D[k].stmt = D[i].stmt /\ D[k].act = D[i].act /\ \A m \in Min2(i, k)..Max2(i, k) : D[m].act = D[i].act})
C06_VictimRoomTaken ==
  (Quiet /\ ~failed /\ NoLimits /\ PlainCluster) =>
    \A i \in Dec : (IsVictimEvict(i) /\ EvictOK(i) /\ D[i].mdact \in {"reclaim", "preempt"} /\ D[i].stmt # 0
                      /\ Cardinality(PodsOf(JobOf(D[i].p))) = 1 /\ LastRel(D[i].p, EndOfStmt(i)) = i /\ NodeOfVictim(i) \in Nodes) =>
       RoomAfter(NodeOfVictim(i), EndOfStmt(i)) < Whole(D[i].p)
\* the same fact read as C13: what an abandoned (rolled back) node attempt of the solver evicted does not reach the cluster
C13_AbandonedAttemptKeepsNoEviction == C06_VictimRoomTaken
\* the pods the scheduler has to place to start job j: its first `min` pods (identical template)
FirstK(S_, k) == {p \in S_ : Cardinality({x \in S_ : x < p}) < k}
TasksOf(j) == FirstK(PodsOf(j), J(j).min)
Untouched(j) == \A p \in PodsOf(j) : ~\E i \in Dec : D[i].p = p
QueueRulesAllow(j) ==
  LET T == TasksOf(j)
      g == Sum(T, GpuMilli)  c == Sum(T, EffCpu)  m == Sum(T, LAMBDA p : P(p).mem)
      e == Len(D)
  IN \A q \in Ancestors(J(j).queue) :
       /\ (Q(q).gl = -1 \/ g = 0 \/ QGpu(q, e, FALSE) + g <= Q(q).gl)
       /\ (Q(q).cl = -1 \/ c = 0 \/ QCpu(q, e, FALSE) + c <= Q(q).cl)
       /\ (Q(q).ml = -1 \/ m = 0 \/ QMem(q, e, FALSE) + m <= Q(q).ml)
       /\ (J(j).preempt = 0 =>
             /\ (Q(q).gq = -1 \/ g = 0 \/ QGpu(q, e, TRUE) + g <= Q(q).gq)
             /\ (Q(q).cq = -1 \/ c = 0 \/ QCpu(q, e, TRUE) + c <= Q(q).cq)
             /\ (Q(q).mq = -1 \/ m = 0 \/ QMem(q, e, TRUE) + m <= Q(q).mq))
FitsIdle(j) ==
  LET T == TasksOf(j)  UN == {n \in Nodes : UsableNode(n)} IN
  UN # {} /\ \E f \in [T -> UN] : \A n \in UN :
     LET here == {p \in T : f[p] = n} IN
       /\ Sum(here, EffCpu) <= IdleCpu(n)
       /\ Sum(here, LAMBDA p : P(p).mem) <= IdleMem(n)
       /\ Cardinality(here) <= IdleSlots(n)
       /\ Sum(here, Whole) <= IdleGpus(n)
C05_WorkConserving ==
  (JustAfterAllocate /\ ~failed) => \A j \in Jobs :
     (/\ AllPending(j) /\ Untouched(j) /\ Cardinality(PodsOf(j)) >= J(j).min /\ J(j).min >= 1
      /\ J(j).queue \in Queues          \* (a pod group whose queue does not exist is not schedulable)
      /\ \A p \in PodsOf(j) : ~IsSharing(p) /\ Unconstrained(p)
      /\ QueueRulesAllow(j))
     => ~FitsIdle(j)

\* progress by displacement in the unobstructed single-claimant class (scenario classes
\* "unobs-reclaim" / "unobs-preempt" are built so that the antecedent of the property holds; the
\* spec re-checks the antecedent from the scenario instead of trusting the label):
\* interchangeable nodes, interchangeable single-pod 1-GPU jobs, full cluster, one pending job.
\* K >= 1 identical pending single-pod jobs of ONE leaf queue (same priority, same preemptibility)
Claimants == {p \in Pods : S[p].st = "pending"}
Claimant == CHOOSE p \in Claimants : TRUE
KClaim == Cardinality(Claimants)
IdenticalClaimants ==
  /\ Claimants # {}
  /\ \A p \in Claimants : /\ J(JobOf(p)).queue = J(JobOf(Claimant)).queue /\ J(JobOf(p)).prio = J(JobOf(Claimant)).prio
                            /\ J(JobOf(p)).preempt = J(JobOf(Claimant)).preempt /\ Cardinality(PodsOf(JobOf(p))) = 1
ClusterFull == \A n \in Nodes : DevicesUsed(n) = N(n).gpus
Uniform == /\ \A p \in Pods : P(p).gpu = 1 /\ ~IsSharing(p) /\ Unconstrained(p) /\ J(JobOf(p)).min = 1
           /\ \A q \in Queues : Q(q).gl = -1
\* no running job is protected by a minimum runtime against the kind of eviction the clause expects (the other kind's
\* protection must not matter)
NoReclaimProtection == DefMinRt("reclaim") = 0 /\ \A q \in Queues : Q(q).minRtR = 0
NoPreemptProtection == DefMinRt("preempt") = 0 /\ \A q \in Queues : Q(q).minRtP = 0
           /\ \A n \in Nodes : UsableNode(n)
PlacedInCycle(p) == \E i \in Dec : (BindAny(i) \/ Piped(i)) /\ D[i].p = p
\* all claimants together keep their queue and all its ancestors within deserved quota ...
ClaimantsWithinQuota == \A q \in Ancestors(J(JobOf(Claimant)).queue) : Q(q).gq = -1 \/ QGpu(q, 0, FALSE) + 1000 * KClaim <= Q(q).gq
\* ... and some queue (levelled against the claimants') runs preemptible pods and stays above its deserved
\* quota until the last of the K victims is taken
ReclaimVictimsExist ==
  \E x \in Queues :
     /\ x = StepDownQ(x, J(JobOf(Claimant)).queue) /\ x \notin Ancestors(J(JobOf(Claimant)).queue)
     /\ Q(x).gq # -1 /\ QGpu(x, 0, FALSE) - 1000 * (KClaim - 1) > Q(x).gq
     /\ Cardinality({v \in Pods : S[v].st = "running" /\ J(JobOf(v)).preempt = 1 /\ InSubtree(v, x)}) >= KClaim
C05_Reclaim ==
  (AtCycleEnd /\ ~failed /\ cyc = 1 /\ IdenticalClaimants /\ Uniform /\ NoReclaimProtection /\ ClusterFull) =>
     ((ClaimantsWithinQuota /\ ReclaimVictimsExist) => \A p \in Claimants : PlacedInCycle(p))
\* (a non-preemptible claimant may preempt only while the non-preemptible allocation stays within the deserved quota)
NpClaimantsWithinQuota ==
  J(JobOf(Claimant)).preempt = 0 =>
     \A q \in Ancestors(J(JobOf(Claimant)).queue) : Q(q).gq = -1 \/ QGpu(q, 0, TRUE) + 1000 * KClaim <= Q(q).gq
PreemptVictimsExist ==
  NpClaimantsWithinQuota /\
  Cardinality({v \in Pods : /\ S[v].st = "running" /\ J(JobOf(v)).preempt = 1 /\ J(JobOf(v)).queue = J(JobOf(Claimant)).queue
                            /\ J(JobOf(v)).prio < J(JobOf(Claimant)).prio}) >= KClaim
C05_Preempt ==
  (AtCycleEnd /\ ~failed /\ cyc = 1 /\ IdenticalClaimants /\ Uniform /\ NoPreemptProtection /\ ClusterFull) =>
     (PreemptVictimsExist => \A p \in Claimants : PlacedInCycle(p))

\* The same two clauses claimant by claimant, for pending single-pod jobs of SEVERAL queues, priorities and
\* preemptibilities in one uniform full cluster (profile unobs2). A claimant is *entitled* when the antecedent of
\* the property holds for it whatever the other claimants do: every claimant of the scenario could be served from
\* the same over-quota queue (so no bystander can use up the victims), and all claimants below each of its
\* queue's ancestors together stay within that ancestor's deserved quota. Claimants that are not entitled
\* (over quota, non-preemptible beyond the non-preemptible quota, ...) are bystanders: nothing is demanded for
\* them, but their failures must not keep an entitled claimant from being served.
SinglePodClaimants == Claimants # {} /\ \A p \in Claimants : Cardinality(PodsOf(JobOf(p))) = 1
GpuQuotasOnly == \A q \in Queues : Q(q).cq = -1 /\ Q(q).mq = -1 /\ Q(q).cl = -1 /\ Q(q).ml = -1
QueueOfPod(p) == J(JobOf(p)).queue
\* a non-preemptible claimant that alone would already put some ancestor's non-preemptible allocation above its
\* deserved quota can never be placed in this cycle (non-preemptible pods are not evicted): it takes no victim
Hopeless(c) == J(JobOf(c)).preempt = 0 /\ \E q \in Ancestors(QueueOfPod(c)) : Q(q).gq # -1 /\ QGpu(q, 0, TRUE) + 1000 > Q(q).gq
Hopeful == {c \in Claimants : ~Hopeless(c)}
KHopeful == Cardinality(Hopeful)
ClaimUnder(q) == {c \in Hopeful : InSubtree(c, q)}
NpClaimUnder(q) == {c \in ClaimUnder(q) : J(JobOf(c)).preempt = 0}
\* x = a queue levelled against p's (their parents coincide or are both top level) that runs preemptible pods,
\* holds no claimant and stays above its deserved quota until every hopeful claimant has taken a victim;
\* below the common ancestors, every queue of p's chain stays within its deserved quota with all hopeful
\* claimants under it; a non-preemptible p keeps every ancestor's non-preemptible allocation within quota
EntitledReclaim(p) ==
  /\ ~Hopeless(p)
  /\ J(JobOf(p)).preempt = 0 =>
        \A q \in Ancestors(QueueOfPod(p)) : Q(q).gq = -1 \/ QGpu(q, 0, TRUE) + 1000 * Cardinality(NpClaimUnder(q)) <= Q(q).gq
  /\ \E x \in Queues :
       /\ x = StepDownQ(x, QueueOfPod(p)) /\ x \notin Ancestors(QueueOfPod(p)) /\ \A c \in Claimants : ~InSubtree(c, x)
       /\ Q(x).gq # -1 /\ QGpu(x, 0, FALSE) - 1000 * (KHopeful - 1) > Q(x).gq
       /\ Cardinality({v \in Pods : S[v].st = "running" /\ J(JobOf(v)).preempt = 1 /\ InSubtree(v, x)}) >= KHopeful
       /\ \A q \in Ancestors(QueueOfPod(p)) \ Ancestors(x) :
             Q(q).gq = -1 \/ QGpu(q, 0, FALSE) + 1000 * Cardinality(ClaimUnder(q)) <= Q(q).gq
\* A pod nominated earlier in the cycle for a preemptible job of ANOTHER queue is the first potential victim the
\* solver offers to p's statement; when taking it is not allowed the accumulated victim set stays invalid and the
\* attempt fails although other victims exist (known finding, one cycle of delay). Judged separately.
NominatedElsewhere(p) ==
  \E i \in Dec : Piped(i) /\ J(JobOf(D[i].p)).preempt = 1 /\ QueueOfPod(D[i].p) # QueueOfPod(p)
C05_ReclaimEach ==
  (AtCycleEnd /\ ~failed /\ cyc = 1 /\ SinglePodClaimants /\ Uniform /\ NoReclaimProtection /\ GpuQuotasOnly /\ ClusterFull) =>
     \A p \in Claimants : (EntitledReclaim(p) /\ ~NominatedElsewhere(p)) => PlacedInCycle(p)
C05_ReclaimEachAfterNomination ==
  (AtCycleEnd /\ ~failed /\ cyc = 1 /\ SinglePodClaimants /\ Uniform /\ NoReclaimProtection /\ GpuQuotasOnly /\ ClusterFull) =>
     \A p \in Claimants : (EntitledReclaim(p) /\ NominatedElsewhere(p)) => PlacedInCycle(p)
\* preempt: all claimants in one queue, any mix of priorities and preemptibility; victims of strictly lower priority
\* than every claimant, enough for all of them; a non-preemptible claimant must stay within the deserved quota
\* (all non-preemptible claimants together, up the chain)
OneClaimantQueue == \A p, c \in Claimants : QueueOfPod(p) = QueueOfPod(c)
EntitledPreempt(p) ==
  /\ ~Hopeless(p)
  /\ Cardinality({v \in Pods : /\ S[v].st = "running" /\ J(JobOf(v)).preempt = 1 /\ QueueOfPod(v) = QueueOfPod(p)
                                /\ \A c \in Claimants : J(JobOf(v)).prio < J(JobOf(c)).prio}) >= KClaim
  /\ J(JobOf(p)).preempt = 0 =>
        \A q \in Ancestors(QueueOfPod(p)) : Q(q).gq = -1 \/ QGpu(q, 0, TRUE) + 1000 * Cardinality(NpClaimUnder(q)) <= Q(q).gq
C05_PreemptEach ==
  (AtCycleEnd /\ ~failed /\ cyc = 1 /\ SinglePodClaimants /\ OneClaimantQueue /\ Uniform /\ NoPreemptProtection /\ GpuQuotasOnly /\ ClusterFull) =>
     \A p \in Claimants : EntitledPreempt(p) => PlacedInCycle(p)

(***************************************************************************)
(* C04 - hard placement constraints for every bind and nomination.         *)
(* Node side: ready, schedulable, node selector, required node affinity    *)
(* (In / NotIn), NoSchedule / NoExecute taints tolerated. Pod side:        *)
(* required pod affinity / anti-affinity against the pods of the topology  *)
(* domain, including pods placed earlier in the same cycle, in both        *)
(* directions. (Topology-CRD constraints are not modelled.)                *)
(***************************************************************************)
HostKey == "kubernetes.io/hostname"
ZoneKey == "topology.kubernetes.io/zone"
NodeLabel(n, k) == IF k = HostKey THEN N(n).name ELSE IF k \in DOMAIN N(n).labels THEN N(n).labels[k] ELSE "<none>"
HasLabel(n, k) == k = HostKey \/ k \in DOMAIN N(n).labels
Tolerates(tol, taint) ==
  /\ (tol.effect = "" \/ tol.effect = taint.effect)
  /\ \/ tol.op = "Exists" /\ (tol.key = "" \/ tol.key = taint.key)
     \/ tol.op = "Equal" /\ tol.key = taint.key /\ tol.val = taint.val
NodeOK(p, n) ==
  /\ N(n).ready = 1 /\ N(n).unsched = 0
  /\ \A k \in DOMAIN P(p).sel : HasLabel(n, k) /\ NodeLabel(n, k) = P(p).sel[k]
  /\ \A k \in DOMAIN P(p).affIn : HasLabel(n, k) /\ NodeLabel(n, k) = P(p).affIn[k]
  /\ \A k \in DOMAIN P(p).affNot : ~(HasLabel(n, k) /\ NodeLabel(n, k) = P(p).affNot[k])
  /\ \A t \in 1..Len(N(n).taints) :
        N(n).taints[t].effect \in {"NoSchedule", "NoExecute"} =>
          \E o \in 1..Len(P(p).tols) : Tolerates(P(p).tols[o], N(n).taints[t])
IsPlacement(i) == BindAny(i) \/ Piped(i)
C04_Node == \A i \in Dec : IsPlacement(i) => (D[i].n \in Nodes /\ NodeOK(D[i].p, D[i].n))
C04_NodePool == \A i \in Dec : IsPlacement(i) => (D[i].n \in Nodes /\ InPool(D[i].n))
\* topology domain of a term
SameDomain(a, b, topo) == IF topo = "zone" THEN HasLabel(a, ZoneKey) /\ HasLabel(b, ZoneKey) /\ NodeLabel(a, ZoneKey) = NodeLabel(b, ZoneKey)
                          ELSE a = b
PodHasLabel(x, k, v) == k \in DOMAIN P(x).labels /\ P(x).labels[k] = v
\* where pod x is, as seen by decision i: its node at cycle start, or the node of its newest
\* placement before i; 0 = nowhere. For a nomination, pods that are terminating or were evicted
\* earlier in the cycle do not count (the nominated pod waits for them to leave).
PlacedBefore(x, i) == {k \in 1..(i - 1) : IsPlacement(k) /\ D[k].p = x /\ (BindAny(k) => D[k].ok = 1)}
LastPlace(x, i) == IF PlacedBefore(x, i) = {} THEN 0 ELSE Max(PlacedBefore(x, i))
LastEvict(x, i) == LET e == {k \in 1..(i - 1) : EvictOK(k) /\ D[k].p = x} IN IF e = {} THEN 0 ELSE Max(e)
BaseAt(x, i) == IF LastPlace(x, i) > 0 THEN D[LastPlace(x, i)].n ELSE IF S[x].st \in OccSt THEN S[x].node ELSE 0
Leaving(x, i) == LastEvict(x, i) > LastPlace(x, i) \/ (LastPlace(x, i) = 0 /\ S[x].st = "terminating")
WhereAt(x, i) == IF Piped(i) /\ Leaving(x, i) THEN 0 ELSE BaseAt(x, i)
Others(p, i, n, topo) == {x \in Pods \ {p} : WhereAt(x, i) # 0 /\ SameDomain(WhereAt(x, i), n, topo)}
\* for affinity the lenient reading is the opposite one: pods that are still there count
WhereAtAll(x, i) == BaseAt(x, i)
OthersAll(p, i, n, topo) == {x \in Pods \ {p} : WhereAtAll(x, i) # 0 /\ SameDomain(WhereAtAll(x, i), n, topo)}
C04_PodAntiAffinity ==
  \A i \in Dec : IsPlacement(i) =>
    LET p == D[i].p  n == D[i].n IN
      /\ \A t \in 1..Len(P(p).podAnt) :
            ~\E x \in Others(p, i, n, P(p).podAnt[t].topo) : PodHasLabel(x, P(p).podAnt[t].key, P(p).podAnt[t].val)
      \* symmetry: the required anti-affinity of pods already there
      /\ \A x \in Pods \ {p} : \A t \in 1..Len(P(x).podAnt) :
            (WhereAt(x, i) # 0 /\ SameDomain(WhereAt(x, i), n, P(x).podAnt[t].topo))
              => ~PodHasLabel(p, P(x).podAnt[t].key, P(x).podAnt[t].val)
\* A required affinity term is satisfied by a pod with the label in the domain, or (upstream rule) by
\* the pod itself when it is the first of a self-affine set.
AffinityOK(i, present(_, _)) ==
  LET p == D[i].p  n == D[i].n IN
    \A t \in 1..Len(P(p).podAff) :
       \/ \E x \in Pods \ {p} : present(x, P(p).podAff[t].topo) /\ PodHasLabel(x, P(p).podAff[t].key, P(p).podAff[t].val)
       \/ /\ PodHasLabel(p, P(p).podAff[t].key, P(p).podAff[t].val)
          /\ ~\E x \in Pods \ {p} : WhereAtAll(x, i) # 0 /\ PodHasLabel(x, P(p).podAff[t].key, P(p).podAff[t].val)
\* every node x occupied at some moment of the cycle before decision i
EverAt(x, i) == (IF S[x].st \in OccSt THEN {S[x].node} ELSE {}) \cup {D[k].n : k \in PlacedBefore(x, i)}
\* lenient reading (the verdict): a pod counts wherever it was during the cycle, also after the
\* scheduler evicted it or moved it away - like a terminating pod for the upstream filter
C04_PodAffinity ==
  \A i \in Dec : IsPlacement(i) =>
     AffinityOK(i, LAMBDA x, topo : \E m \in EverAt(x, i) : SameDomain(m, D[i].n, topo))
\* strict reading: a pod counts where it is now (start node or newest placement). Fails beyond the
\* lenient one exactly when the only pods satisfying the term were moved away earlier in the cycle -
\* typically by the very statement that nominates the pod (see known findings)
C04_PodAffinityMovedAway ==
  \A i \in Dec : IsPlacement(i) =>
     AffinityOK(i, LAMBDA x, topo : WhereAtAll(x, i) # 0 /\ SameDomain(WhereAtAll(x, i), D[i].n, topo))

(***************************************************************************)
(* C04 - topology constraints (scenario topology = label keys, coarsest     *)
(* first). For a job with a required level L: every node it is placed on    *)
(* carries all the topology's labels, and the nodes of its pods placed in   *)
(* this cycle together with its pods that stay active lie in one domain at  *)
(* level L and all coarser levels. A job naming a missing topology is not   *)
(* placed. (Sub-group level constraints are not generated.)                 *)
(***************************************************************************)
HasTopo == "topo" \in DOMAIN scen /\ Len(scen.topo.levels) > 0
TopoConstrained(j) == HasTopo /\ J(j).topo = scen.topo.name /\ J(j).topoReq >= 1 /\ J(j).topoReq <= Len(scen.topo.levels)
HasAllTopoLabels(n) == \A k \in 1..Len(scen.topo.levels) : HasLabel(n, scen.topo.levels[k])
\* where each pod of j ends up after the decisions so far: its newest bind / nomination, nowhere if
\* its newest event is an eviction, else where it was active at cycle start
FinalNode(p) == LET x == LastRel(p, Len(D)) IN
                IF x = 0 THEN (IF ActiveAtStart(p) THEN S[p].node ELSE 0) ELSE IF EvictOK(x) THEN 0 ELSE D[x].n
JobNodes(j) == {FinalNode(p) : p \in PodsOf(j)} \ {0}
PlacedThisCycle(j) == \E i \in Dec : IsPlacement(i) /\ (BindAny(i) => D[i].ok = 1) /\ JobOf(D[i].p) = j
C04_TopologyLabels ==
  \A i \in Dec : (IsPlacement(i) /\ TopoConstrained(JobOf(D[i].p))) => (D[i].n \in Nodes /\ HasAllTopoLabels(D[i].n))
C04_TopologyOneDomain ==
  (Quiet /\ ~failed) => \A j \in Jobs : (TopoConstrained(j) /\ PlacedThisCycle(j)) =>
     \A a, b \in JobNodes(j) : \A k \in 1..J(j).topoReq :
        NodeLabel(a, scen.topo.levels[k]) = NodeLabel(b, scen.topo.levels[k])
C04_MissingTopologyNotPlaced ==
  \A i \in Dec : IsPlacement(i) =>
     LET j == JobOf(D[i].p) IN ("topo" \in DOMAIN J(j) /\ J(j).topo # "") => (HasTopo /\ J(j).topo = scen.topo.name)

\* Sub-group level constraints (subs[k].topoReq, same topology object): the pods of a constrained sub-group
\* - for a parent sub-group, of all its descendants - placed in this cycle, together with those that stay
\* active, lie in one domain at the sub-group's level and all coarser levels, on nodes carrying the labels.
SubTopoReq(j, k) == IF "topoReq" \in DOMAIN J(j).subs[k] THEN J(j).subs[k].topoReq ELSE 0
SubConstrained(j, k) == HasTopo /\ SubTopoReq(j, k) >= 1 /\ SubTopoReq(j, k) <= Len(scen.topo.levels)
RECURSIVE SubUnder(_, _, _)
SubUnder(j, k, a) == \* sub-group k of job j is sub-group a or one of its descendants
  \/ k = a
  \/ /\ J(j).subs[k].parent # ""
     /\ \E m \in 1..Len(J(j).subs) : m # k /\ J(j).subs[m].name = J(j).subs[k].parent /\ SubUnder(j, m, a)
SubPods(j, a) == {p \in PodsOf(j) : P(p).sub # 0 /\ P(p).sub <= Len(J(j).subs) /\ SubUnder(j, P(p).sub, a)}
SubNodes(j, a) == {FinalNode(p) : p \in SubPods(j, a)} \ {0}
SubPlacedThisCycle(j, a) == \E i \in Dec : IsPlacement(i) /\ (BindAny(i) => D[i].ok = 1) /\ D[i].p \in SubPods(j, a)
C04_SubTopologyLabels ==
  \A i \in Dec : IsPlacement(i) =>
     LET j == JobOf(D[i].p) IN
       \A a \in 1..Len(J(j).subs) : (SubConstrained(j, a) /\ D[i].p \in SubPods(j, a)) => (D[i].n \in Nodes /\ HasAllTopoLabels(D[i].n))
C04_SubTopologyOneDomain ==
  (Quiet /\ ~failed) => \A j \in Jobs : \A a \in 1..Len(J(j).subs) :
     (SubConstrained(j, a) /\ SubPlacedThisCycle(j, a)) =>
        \A x, y \in SubNodes(j, a) : \A k \in 1..SubTopoReq(j, a) :
           NodeLabel(x, scen.topo.levels[k]) = NodeLabel(y, scen.topo.levels[k])

(***************************************************************************)
(* C09 on real sessions: at every level of the queue tree the children's    *)
(* fair shares (GPU) obey the division contract with total := the parent's  *)
(* fair share (the cluster total at the top level). Values come from the    *)
(* proportion plugin of the real session (QueueInfo event), the contract    *)
(* from FairShareContract.                                                  *)
(***************************************************************************)
FS == INSTANCE FairShareContract WITH Scale <- 1000, Slack <- 2
\* cpu (milli-cores) and memory (MB): the rounding unit of the division is 1 milli-core / 1 byte
FS1 == INSTANCE FairShareContract WITH Scale <- 1, Slack <- 2
PresentQ == {q \in Queues : qi.q[q].present = 1}
ChildrenOf(par) == {c \in PresentQ : Q(c).parent = par}
ChildSeq(par) == SetToSortSeq(ChildrenOf(par), <)
\* one record per resource: the logged fields of a queue (deserved, limit, request, usage, fair share)
ResFields == [ G |-> [des |-> "desG", lim |-> "limG", req |-> "reqG", use |-> "useG", fs |-> "fsG", tot |-> "totG"],
               C |-> [des |-> "desC", lim |-> "limC", req |-> "reqC", use |-> "useC", fs |-> "fsC", tot |-> "totC"],
               M |-> [des |-> "desM", lim |-> "limM", req |-> "reqM", use |-> "useM", fs |-> "fsM", tot |-> "totM"] ]
HasRes(r) == ResFields[r].tot \in DOMAIN qi /\ \A q \in PresentQ : ResFields[r].lim \in DOMAIN qi.q[q]
FsInputR(par, r) ==
  LET cs == ChildSeq(par)  f == ResFields[r] IN
  [ total |-> IF par = 0 THEN qi[f.tot] ELSE qi.q[par][f.fs], kn |-> qi.k, kd |-> 1000,
    queues |-> [i \in 1..Len(cs) |-> [des |-> qi.q[cs[i]][f.des], lim |-> qi.q[cs[i]][f.lim], w |-> qi.q[cs[i]].w,
                                      prio |-> Q(cs[i]).prio, req |-> qi.q[cs[i]][f.req], use |-> qi.q[cs[i]][f.use]]] ]
FsResultR(par, r) == LET cs == ChildSeq(par) IN [i \in 1..Len(cs) |-> qi.q[cs[i]][ResFields[r].fs]]
FsWantsR(par, r) == LET inp == FsInputR(par, r)  fs == FsResultR(par, r) IN
                    [i \in 1..Len(fs) |-> IF fs[i] < FS!CapReq(inp, i) THEN 1 ELSE 0]
FsInput(par) == FsInputR(par, "G")
FsResult(par) == FsResultR(par, "G")
FsWants(par) == FsWantsR(par, "G")
Parents == {0} \cup {q \in PresentQ : ChildrenOf(q) # {}}
C09_SessionContract ==
  qi # <<>> => \A par \in Parents :
     ChildrenOf(par) # {} => FS!Contract(FsInput(par), FsResult(par), FsWants(par))
\* the same for cpu and memory (the bounds of the contract; the distribution clauses are judged on GPUs and on
\* the division function itself, whose rounding of cpu / memory amounts is below the logged unit)
C09_SessionContractCpu ==
  (qi # <<>> /\ HasRes("C")) => \A par \in Parents :
     ChildrenOf(par) # {} => /\ FS1!C09c_Lower(FsInputR(par, "C"), FsResultR(par, "C"))
                             /\ FS1!C09c_Upper(FsInputR(par, "C"), FsResultR(par, "C"))
                             /\ FS1!C09c_Conservation(FsInputR(par, "C"), FsResultR(par, "C"))
C09_SessionContractMem ==
  (qi # <<>> /\ HasRes("M")) => \A par \in Parents :
     ChildrenOf(par) # {} => /\ FS1!C09c_Lower(FsInputR(par, "M"), FsResultR(par, "M"))
                             /\ FS1!C09c_Upper(FsInputR(par, "M"), FsResultR(par, "M"))
                             /\ FS1!C09c_Conservation(FsInputR(par, "M"), FsResultR(par, "M"))

(***************************************************************************)
(* C13 (as observable on the Cache calls of real cycles): committing emits  *)
(* each pod at most once per call kind and statement.                      *)
(***************************************************************************)
NominatedAtC13(i) == LET x == LastRel(D[i].p, i - 1) IN IF x = 0 THEN S[D[i].p].st \notin OccSt ELSE Piped(x)
C13_OncePerCommit ==
  \A i, k \in Dec : (i < k /\ D[i].stmt # 0 /\ D[i].stmt = D[k].stmt /\ D[i].act = D[k].act /\ D[i].k = D[k].k) => D[i].p # D[k].p
\* within one cycle a pod is evicted at most once and bound at most once
C13_OncePerCycle ==
  \A i, k \in Dec : (i < k /\ D[i].k = D[k].k /\ D[i].k \in {"bind", "evict"} /\ D[i].ok = 1 /\ D[k].ok = 1
                      /\ ~(D[k].k = "evict" /\ NominatedAtC13(k))) => D[i].p # D[k].p
\* the excluded pairs: a victim that a statement moved (evicted and re-nominated) is evicted again by a
\* later statement of the cycle while it is only nominated (known finding, see C06_VictimHolds)
C13_EvictedAgainWhileNominated ==
  \A i, k \in Dec : (i < k /\ D[i].k = "evict" /\ D[k].k = "evict" /\ D[i].ok = 1 /\ D[k].ok = 1 /\ NominatedAtC13(k)) => D[i].p # D[k].p

(***************************************************************************)
(* C15 - no eviction livelock in a closed system: the canonical cluster    *)
(* state (per job, how many pods in which state on which node) never       *)
(* recurs with evictions in between.                                       *)
(***************************************************************************)
CanonOf(SS) == [j \in Jobs |-> [x \in ({"pending", "running", "other"} \X (0..Len(scen.nodes))) |->
            Cardinality({p \in PodsOf(j) :
               /\ (IF SS[p].st \in {"pending", "running"} THEN SS[p].st ELSE "other") = x[1]
               /\ (IF SS[p].st = "pending" THEN 0 ELSE SS[p].node) = x[2]})]]
EvictionsBetween(a, b) == Sum((a + 1)..b, LAMBDA k : hist[k].ev)
C15_NoLasso ==
  (scen.cfg.env = "closed" /\ ~failed) =>
    \A a, b \in 1..Len(hist) : (a < b /\ hist[a].canon = hist[b].canon) => EvictionsBetween(a, b) = 0

(***************************************************************************)
(* C14 (snapshot construction): the accounting of the freshly opened        *)
(* session equals the truth recomputed from the API objects of the cycle    *)
(* start. Nodes: Idle / Used / Releasing in cpu and memory, idle and        *)
(* releasing whole GPU devices. Queues: allocated gpu / cpu / memory and    *)
(* non-preemptible gpu up the ancestor chain. Judged in the state right     *)
(* after the QueueInfo event (no decision taken yet).                       *)
(***************************************************************************)
AtSessionOpen == qi # <<>> /\ D = <<>> /\ "n" \in DOMAIN qi
Terminating(n) == {p \in Occupants(n) : S[p].st = "terminating"}
\* a group's device is releasing when every pod of the group on the node is terminating
GroupsReleasing(n) == {g \in GroupsOfOccupants(n) :
                        \A p \in Occupants(n) : (IsSharing(p) /\ g \in SeqToSet(S[p].groups)) => S[p].st = "terminating"}
C14_SnapshotNodeCpu ==
  AtSessionOpen => \A n \in Nodes : qi.n[n].present = 1 =>
    /\ qi.n[n].uc = Sum(Occupants(n), EffCpu)
    /\ qi.n[n].ic = N(n).cpu - Sum(Occupants(n), EffCpu)
    /\ qi.n[n].rc = Sum(Terminating(n), EffCpu)
C14_SnapshotNodeMem ==
  AtSessionOpen => \A n \in Nodes : qi.n[n].present = 1 =>
    /\ qi.n[n].um = Sum(Occupants(n), LAMBDA p : P(p).mem)
    /\ qi.n[n].im = N(n).mem - Sum(Occupants(n), LAMBDA p : P(p).mem)
    /\ qi.n[n].rm = Sum(Terminating(n), LAMBDA p : P(p).mem)
\* the node holds exactly the occupying workload pods and the reservation pods
C14_SnapshotNodePods ==
  AtSessionOpen => \A n \in Nodes : qi.n[n].present = 1 =>
    qi.n[n].np = Cardinality(Occupants(n)) + Cardinality({i \in 1..Len(resv) : resv[i].n = n})
C14_SnapshotNodeGpu ==
  AtSessionOpen => \A n \in Nodes : qi.n[n].present = 1 =>
    /\ qi.n[n].ig = 1000 * (N(n).gpus - Sum(Occupants(n), Whole) - Cardinality(GroupsOfOccupants(n)))
    /\ qi.n[n].rg = 1000 * (Sum(Terminating(n), Whole) + Cardinality(GroupsReleasing(n)))
\* the scheduler accounts the portion of a shared-GPU pod in 1/100 GPU (rounded half up)
Centi(m) == ((m + 5) \div 10) * 10
AccGpu(q, np) == Sum({p \in ChargedAfter(0) : InSubtree(p, q) /\ (np => J(JobOf(p)).preempt = 0)}, LAMBDA p : Centi(GpuMilliAt(p, NodeAfter(p, 0))))
C14_SnapshotQueues ==
  AtSessionOpen => \A q \in Queues : qi.q[q].present = 1 =>
    /\ qi.q[q].allocG = AccGpu(q, FALSE)
    /\ qi.q[q].allocC = QCpu(q, 0, FALSE)
    /\ qi.q[q].allocM = QMem(q, 0, FALSE)
    /\ qi.q[q].npG = AccGpu(q, TRUE)

(***************************************************************************)
(* C14 (end of the cycle): after the last action the session's accounting   *)
(* equals the truth recomputed from the API objects of the cycle start and   *)
(* the decisions that reached the cache - whatever the actions simulated,    *)
(* rolled back or discarded in between left no trace. A pod holds its node   *)
(* from its (successful) bind or from the cycle start on, also after its     *)
(* eviction (releasing); a nominated pod is added to Used and taken from     *)
(* Releasing, not from Idle. Judged without API write failures (their        *)
(* cleanup paths are judged by the Stmt stage).                              *)
(***************************************************************************)
AtSessionEnd == qe # <<>> /\ ~failed
LastEv(p) == LastRel(p, Len(D))
HoldsEnd(n) == {p \in Pods : Occupies(p, n) \/ \E i \in Dec : BindOK(i) /\ D[i].p = p /\ D[i].n = n}
EvictedAfterHold(p) == \E i \in Dec : EvictOK(i) /\ D[i].p = p
ReleasingEnd(n) == {p \in HoldsEnd(n) : S[p].st = "terminating" \/ EvictedAfterHold(p)}
PipedEnd(n) == {p \in Pods : LastEv(p) # 0 /\ Piped(LastEv(p)) /\ D[LastEv(p)].n = n}
\* an eviction of a pod that holds nothing: pending at the cycle start and never bound before the
\* eviction - it was only nominated earlier in the cycle (see C06_VictimHolds)
\* (also a victim that an earlier statement of the cycle moved: evicted and re-nominated elsewhere)
NominatedAt(i) == LET x == LastRel(D[i].p, i - 1) IN IF x = 0 THEN S[D[i].p].st \notin OccSt ELSE Piped(x)
NominatedEvicted == \E i \in Dec : D[i].k = "evict" /\ NominatedAt(i)
EndNodeCpuOK ==
  \A n \in Nodes : qe.n[n].present = 1 =>
    /\ qe.n[n].uc = Sum(HoldsEnd(n), EffCpu) + Sum(PipedEnd(n), EffCpu)
    /\ qe.n[n].ic = N(n).cpu - Sum(HoldsEnd(n), EffCpu)
    /\ qe.n[n].rc = Sum(ReleasingEnd(n), EffCpu) - Sum(PipedEnd(n), EffCpu)
EndNodeMemOK ==
  \A n \in Nodes : qe.n[n].present = 1 =>
    /\ qe.n[n].um = Sum(HoldsEnd(n), LAMBDA p : P(p).mem) + Sum(PipedEnd(n), LAMBDA p : P(p).mem)
    /\ qe.n[n].im = N(n).mem - Sum(HoldsEnd(n), LAMBDA p : P(p).mem)
    /\ qe.n[n].rm = Sum(ReleasingEnd(n), LAMBDA p : P(p).mem) - Sum(PipedEnd(n), LAMBDA p : P(p).mem)
C14_EndNodeCpu == (AtSessionEnd /\ ~NominatedEvicted) => EndNodeCpuOK
C14_EndNodeMem == (AtSessionEnd /\ ~NominatedEvicted) => EndNodeMemOK
\* the same in cycles in which a merely nominated pod was "evicted": the node then charges Idle for a
\* pod that holds nothing (known finding)
C14_EndNodeAfterNominatedEviction == (AtSessionEnd /\ NominatedEvicted) => (EndNodeCpuOK /\ EndNodeMemOK)
\* queues are charged for what is allocated or nominated and not (being) evicted
AccGpuEnd(q, np) == Sum({p \in ChargedAfter(Len(D)) : InSubtree(p, q) /\ (np => J(JobOf(p)).preempt = 0)}, LAMBDA p : Centi(GpuMilliAt(p, NodeAfter(p, Len(D)))))
C14_EndQueues ==
  AtSessionEnd => \A q \in Queues : qe.q[q].present = 1 =>
    /\ qe.q[q].allocC = QCpu(q, Len(D), FALSE)
    /\ qe.q[q].allocM = QMem(q, Len(D), FALSE)
    /\ qe.q[q].allocG = AccGpuEnd(q, FALSE)
    /\ qe.q[q].npG = AccGpuEnd(q, TRUE)

(***************************************************************************)
(* C10 (observed here too): a cycle never panics                           *)
(***************************************************************************)
C10_NoPanic == panic = ""

=============================================================================
