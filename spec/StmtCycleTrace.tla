-------------------------- MODULE StmtCycleTrace --------------------------
(* Trace validation of C13 ("what-if simulations are transactional") on the statement scopes that the REAL actions
   and solvers abandon during REAL scheduling cycles.

   harness/cmd/cluster -stmtobs (harness/internal/world/stmtobs.go) runs the real scheduler on generated cluster
   scenarios. At every framework.Statement hook event (after every virtual operation, at Checkpoint, at begin / end
   of Rollback / Discard / Commit / Convert) and at every action boundary it takes the canonical projection of the
   session view:
     pods[p]    st, node, groups, virt, acc, ncl           -- the workload side of every pod
     nodes[n]   ig rg ug / ic rc uc / im rmem umem (Idle, Releasing, Used: GPUs in 1/1000, cpu in milli-cores, RAM in
                MB), vig .. vuc (the vector twins), um / rm / am (per GPU group: used, releasing, allocated memory;
                zero entries dropped), mark (groups marked releasing), pods (PodInfos: pod, status, groups), aff (the
                pod set of the node's pod-affinity info), ext (scalar / MIG resources)
     jobs[j]    ag ac am (allocated), naa (active-allocated counter), idx (pods per status), sets (per pod set:
                active-allocated / active-used / alive counters), vg vc (vector twin)
     queues[q]  ag anpg rqg / ac anpc rqc / am anpm rqm    -- allocated, non-preemptible allocated, requested
                                                              (proportion plugin)
   and writes ONE line per abandoned scope:
     kind = "rollback"  pre = the projection taken at the Checkpoint() that returned `cp`, post = the projection at the
                        end of Rollback(cp)
     kind = "discard"   pre = the projection before the statement's first operation (the projection after the previous
                        hook event: the cycle is single threaded and the view changes through statements only),
                        post = the projection at the end of Discard()
     kind = "outside"   pre = the projection after the previous event, post = the projection at an event that is
                        reported BEFORE anything changes (Checkpoint, *-begin, action boundary) - logged only where the
                        two canonical texts differ: the single-writer assumption is observed, not assumed
   ops (the operation log when the Rollback / Discard began), feat (shape words for signatures), act, cycle, stmt, k
   are context. There is no model and no prediction: the verdict is the equality of two logged projections of the
   REAL code, evaluated by TLC. One initial state per line. *)
EXTENDS Integers, Sequences, FiniteSets, TLC, Json

Trace == ndJsonDeserialize("trace.ndjson")

VARIABLES l, l0
tvars == <<l, l0>>

Starts == {i \in 1..Len(Trace) : Trace[i].ev = "Scenario"}

TraceInit == \E i \in Starts : l0 = i /\ l = i + 1
TraceNext == UNCHANGED tvars
TraceSpec == TraceInit /\ [][TraceNext]_tvars

Sc == Trace[l0]

\* ---- the compared projection ----
ActiveAllocated == {"Allocated", "Pipelined", "Binding", "Bound", "Running"}
\* (as in StmtTrace!RNorm) the GPU groups of a pod that holds nothing are a scratch field of the callers (gpu_sharing
\* assigns them before Allocate / Pipeline and nothing restores them); the accepted quota is set by the node on add
NormPod(r) == [r EXCEPT !.groups = IF r.st \in {"Pending", "Gated"} THEN <<>> ELSE r.groups,
                        !.acc    = IF r.st \in ActiveAllocated THEN r.acc ELSE 0]
\* a node keeps a CLONE of the task; committing an allocation turns the workload-side status into Binding without
\* telling the node (same accounting bucket), the next UpdateTask of that pod refreshes the clone: statuses of node
\* entries are compared by accounting bucket (as NodeAcctCycleTrace!Bucket)
Bucket(st) == IF st \in {"Releasing", "Pipelined"} THEN st ELSE "Held"
NormEntry(e) == [e EXCEPT !.st = Bucket(e.st)]
\* the pod-affinity pod set is judged by its own predicate
NormNode(n) == [n EXCEPT !.pods = [i \in 1..Len(n.pods) |-> NormEntry(n.pods[i])], !.aff = <<>>]
Norm(P) == [pods   |-> [p \in DOMAIN P.pods |-> NormPod(P.pods[p])],
            nodes  |-> [n \in DOMAIN P.nodes |-> NormNode(P.nodes[n])],
            jobs   |-> P.jobs,
            queues |-> P.queues]
AffOf(P) == [n \in DOMAIN P.nodes |-> P.nodes[n].aff]

Rng(s) == {s[i] : i \in 1..Len(s)}
Abandoned(kind) == Sc.kind = kind /\ Sc.il = 0
\* Finding G37 (reclaim / preempt / consolidation take pods as victims that are only NOMINATED): the recorder marks a
\* statement in which a pod whose status was Pipelined has been evicted (shape word nomevict). The accounting of a
\* node is not made for evicting a pod that holds nothing (Idle GPUs go negative) and an un-eviction does not bring the
\* device counters back; scopes of such statements are judged under the name of that finding (as
\* NodeAcctCycleTrace!C14_EndNodeAfterNominatedEviction does for the node accounting), all others under the two
\* predicates of this module
NomEv == "nomevict" \in Rng(Sc.feat)
Restored == Norm(Sc.post) = Norm(Sc.pre)

\* ---- C13 on real cycles ----
\* after Rollback(cp) the view of pods, nodes, workloads and queues is what it was when Checkpoint() returned cp
C13_RollbackCycleObs == (Abandoned("rollback") /\ ~NomEv) => Restored
\* after Discard() it is what it was before the statement's first operation
C13_DiscardCycleObs  == (Abandoned("discard") /\ ~NomEv) => Restored
\* the same for the pod set of every node's pod-affinity info (what inter-pod (anti-)affinity filters read)
C13_AffinityCycleObs == (Abandoned("rollback") \/ Abandoned("discard")) => AffOf(Sc.post) = AffOf(Sc.pre)
\* the scopes of statements that evicted a nominated pod
C13_EvictedAgainWhileNominated == ((Abandoned("rollback") \/ Abandoned("discard")) /\ NomEv) => Restored

\* ---- drift monitors (never a violation) ----
\* the projected view changes through statement operations only
D_SingleWriter   == Sc.kind = "outside" => (Norm(Sc.post) = Norm(Sc.pre) /\ AffOf(Sc.post) = AffOf(Sc.pre))
\* one statement at a time holds operations (otherwise "before the first operation" is not what a Discard restores)
D_NotInterleaved == Sc.il = 0
D_Kind           == Sc.kind \in {"rollback", "discard", "outside"}

(* Triage (st_cyclestmt.py): one TLC run evaluates every predicate on every line and prints the FALSE ones. *)
F(name, ok) == IF ok THEN {} ELSE {name}
Failing ==
  F("C13_RollbackCycleObs", C13_RollbackCycleObs)
  \cup F("C13_DiscardCycleObs", C13_DiscardCycleObs)
  \cup F("C13_AffinityCycleObs", C13_AffinityCycleObs)
  \cup F("C13_EvictedAgainWhileNominated", C13_EvictedAgainWhileNominated)
  \cup F("D_SingleWriter", D_SingleWriter)
  \cup F("D_NotInterleaved", D_NotInterleaved)
  \cup F("D_Kind", D_Kind)
Parts == {x \in {"pods", "nodes", "jobs", "queues"} : Norm(Sc.post)[x] # Norm(Sc.pre)[x]}
Triage ==
  IF Failing = {} THEN TRUE
  ELSE PrintT("VERDICT " \o ToJson([l0 |-> l0, failing |-> Failing, kind |-> Sc.kind, parts |-> Parts]))
=============================================================================
