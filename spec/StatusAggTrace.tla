---------------------------- MODULE StatusAggTrace ----------------------------
(* Trace validation for C20: every event of a history executed on the real PodGroupReconciler and
   QueueReconciler (controller-runtime fake client, write-counting interceptor) is replayed; pod
   states and preemptibility follow the logged environment events, the statuses pgst / qst are set
   from the logged projection of PodGroup.status.resourcesStatus and Queue.status (milli-units), the
   freshness bookkeeping is computed exactly as in StatusAgg.tla, and TLC evaluates the C20_
   predicates of StatusAgg.tla in every state. One initial state per Scenario line.
   Also the history exporter (Edge). *)
EXTENDS StatusAgg, Json

Trace == ndJsonDeserialize("trace.ndjson")

VARIABLES l, l0, derr
tvars == <<vars, l, l0, derr>>

Starts == {i \in 1..Len(Trace) : Trace[i].ev = "Scenario"}

TraceInit ==
  \E i \in Starts :
    /\ l0 = i /\ l = i + 1
    /\ par = Trace[i].par /\ gq = Trace[i].gq /\ pgof = Trace[i].pgof /\ preq = Trace[i].preq
    /\ st = [p \in 1..Len(Trace[i].pgof) |-> "PU"]
    /\ pre = [g \in 1..Len(Trace[i].gq) |-> Trace[i].pre[g] = 1]
    /\ pgst = [g \in 1..Len(Trace[i].gq) |-> ZS]
    /\ qst = [q \in 1..Len(Trace[i].par) |-> ZS]
    /\ pgfresh = [g \in 1..Len(Trace[i].gq) |-> FALSE] /\ pgfix = [g \in 1..Len(Trace[i].gq) |-> FALSE]
    /\ qfresh = [q \in 1..Len(Trace[i].par) |-> FALSE] /\ qfix = [q \in 1..Len(Trace[i].par) |-> FALSE]
    /\ n = 0 /\ last = [a |-> "Init", i |-> 0, w |-> 0, ch |-> FALSE, fix |-> FALSE] /\ derr = ""

\* the logged projection of the store after the event
Logged(e) == /\ pgst' = e.pgst /\ qst' = e.qst /\ derr' = e.err

TracePod ==
  /\ l <= Len(Trace) /\ Trace[l].ev = "Pod"
  /\ LET e == Trace[l] IN
       /\ st' = [st EXCEPT ![e.i] = e.st]
       /\ EnvChange(pgof[e.i])
       /\ Logged(e)
       /\ last' = [a |-> "Pod", i |-> e.i, w |-> 0, ch |-> FALSE, fix |-> FALSE]
  /\ n' = n + 1 /\ l' = l + 1
  /\ UNCHANGED <<par, gq, pgof, preq, pre, l0>>

TraceDel ==
  /\ l <= Len(Trace) /\ Trace[l].ev = "Del"
  /\ LET e == Trace[l] IN
       /\ st' = [st EXCEPT ![e.i] = "X"]
       /\ EnvChange(pgof[e.i])
       /\ Logged(e)
       /\ last' = [a |-> "Del", i |-> e.i, w |-> 0, ch |-> FALSE, fix |-> FALSE]
  /\ n' = n + 1 /\ l' = l + 1
  /\ UNCHANGED <<par, gq, pgof, preq, pre, l0>>

TraceFlip ==
  /\ l <= Len(Trace) /\ Trace[l].ev = "Flip"
  /\ LET e == Trace[l] IN
       /\ pre' = [pre EXCEPT ![e.i] = e.pre = 1]
       /\ EnvChange(e.i)
       /\ Logged(e)
       /\ last' = [a |-> "Flip", i |-> e.i, w |-> 0, ch |-> FALSE, fix |-> FALSE]
  /\ n' = n + 1 /\ l' = l + 1
  /\ UNCHANGED <<par, gq, pgof, preq, st, l0>>

TraceRecPG ==
  /\ l <= Len(Trace) /\ Trace[l].ev = "RecPG"
  /\ LET e == Trace[l] IN
       /\ Logged(e)
       /\ AfterRecPG(e.i, e.w)
       /\ last' = [a |-> "RecPG", i |-> e.i, w |-> e.w, ch |-> e.ch = 1, fix |-> pgfix[e.i]]
  /\ n' = n + 1 /\ l' = l + 1
  /\ UNCHANGED <<par, gq, pgof, preq, st, pre, l0>>

TraceRecQ ==
  /\ l <= Len(Trace) /\ Trace[l].ev = "RecQ"
  /\ LET e == Trace[l] IN
       /\ Logged(e)
       /\ AfterRecQ(e.i, e.w)
       /\ last' = [a |-> "RecQ", i |-> e.i, w |-> e.w, ch |-> e.ch = 1, fix |-> qfix[e.i]]
  /\ n' = n + 1 /\ l' = l + 1
  /\ UNCHANGED <<par, gq, pgof, preq, st, pre, l0>>

\* operator scenarios: the scenario line carries a one-queue dummy forest; only `last` moves
TraceDeploy ==
  /\ l <= Len(Trace) /\ Trace[l].ev = "Deploy"
  /\ LET e == Trace[l] IN
       /\ last' = [a |-> "Deploy", i |-> e.round, w |-> e.w, ch |-> e.ch = 1, fix |-> e.round > 1]
       /\ derr' = e.err
  /\ n' = n + 1 /\ l' = l + 1
  /\ UNCHANGED <<par, gq, pgof, preq, st, pre, pgst, qst, pgfresh, qfresh, pgfix, qfix, l0>>

TraceNext == TracePod \/ TraceDel \/ TraceFlip \/ TraceRecPG \/ TraceRecQ \/ TraceDeploy
TraceSpec == TraceInit /\ [][TraceNext]_tvars

\* ---- drift monitors ----
D_NoError == derr = ""
D_Shape == /\ Len(pgst) = Len(gq) /\ Len(qst) = Len(par) /\ Len(preq) = Len(pgof) /\ Len(pre) = Len(gq)
           /\ \A g \in Groups : gq[g] \in Queues
           /\ \A p \in Pods : pgof[p] \in Groups
           /\ \A q \in Queues : par[q] \in 0..Len(par) /\ par[q] # q
D_PodLifecycle == \A p \in Pods : st[p] \in {"PU", "PS", "R", "D", "X"}
\* environment events never touch a status; a reconcile touches only its own object
D_OnlyOwnStatus ==
  [][/\ (Trace[l].ev \in {"Pod", "Del", "Flip"} => (pgst' = pgst /\ qst' = qst))
     /\ (Trace[l].ev = "RecPG" => (qst' = qst /\ \A g \in Groups : g # Trace[l].i => pgst'[g] = pgst[g]))
     /\ (Trace[l].ev = "RecQ" => (pgst' = pgst /\ \A q \in Queues : q # Trace[l].i => qst'[q] = qst[q]))
     /\ (Trace[l].ev = "Deploy" => (pgst' = pgst /\ qst' = qst))]_tvars
D_Consumed == (l <= Len(Trace) /\ Trace[l].ev # "Scenario") => Trace[l].ev \in {"Pod", "Del", "Flip", "RecPG", "RecQ", "Deploy"}

(* ---- history exporter (model side) ---- *)
Edge == PrintT("EDGE " \o ToJson([a |-> [a |-> last'.a, i |-> last'.i], s |-> Proj, t |-> Proj']))
GenInit == Init /\ l = 0 /\ l0 = 0 /\ derr = ""
GenNext == Next /\ UNCHANGED <<l, l0, derr>>
GenView == HistView
=============================================================================
