---------------------------- MODULE StmtTrace ----------------------------
(* Trace validation for C13 / C14 (workload and queue part): every event recorded by
   harness/cmd/stmt from a REAL framework.Statement on a REAL framework.Session.

   Events (one JSON object per line):
     Scenario  id, class, cfg (the scenario record of Stmt), state (real projection of the fresh session:
               pods, nodes, jobs, queues as in Stmt, and claims = [pods: pod with a claim -> its own claim record and the DRA
               manager's view of the claim object, inuse: DRA node -> devices the DRA manager counts as allocated])
     Call      op, p, node, upd, g, cp, j, err, state, ops     after an API call of Statement returned
               (op = Evict | Pipeline | Allocate | Unevict | Checkpoint | Rollback | Discard | Convert |
                CommitBegin (logged by the commit-begin hook) | CommitEnd)
     Cache     c, p, node, ok                                   a Cache.Bind / Evict / TaskPipelined call made by Commit
     H         h, p, state                                      a hook firing inside a multi-step call (undo steps)

   Judgements:
     C13_RollbackObs / C13_DiscardObs  compare the REAL projection logged after Rollback(cp) / Discard with
       the REAL projection logged when the op log had length cp / 0 (pure observation: the model is not involved)
     C13_CommitNetObs  the REAL Cache calls against the REAL op log (kind, pod, undo target) logged at CommitBegin
     C13_UnevictObs    after Unevict(p) (or a Pipeline that the code turns into it) everything the session says about p equals
                       the REAL projection logged before p's latest Evict - whatever the op log says
     C13_ClaimsObs     what the session believes about DRA resource claims - every pod's own record of its claim
                       (allocated devices, node) and, for the ResourceClaim object it refers to, the view of the session's
                       DRA manager (allocation, the pods it is reserved for), plus the devices the manager counts as in use
                       on every node - logged after Rollback(cp) / Discard equals what was logged at the checkpoint / at the
                       statement's begin, and after an un-eviction the pod's part equals what was logged before its eviction
     C13_NoPhantomObs  after Commit returned (complete, or stopped by a failed bind) no pod that this statement changed
                       virtually is left without a successful Cache call for it, and none is left Allocated
     C14_*Obs          the REAL counters against truth recomputed by this spec from the REAL pod statuses,
                       at every logged state (including the undo steps inside Rollback / Discard / Commit);
                       C14_ClaimDevicesObs: the devices the DRA manager counts as in use are exactly the devices in the
                       claims' allocations and no device is allocated to two claim objects
     D_*               the model of Stmt.tla re-executed in lock-step against the real state (drift, never a violation)
*)
EXTENDS Stmt

Trace == ndJsonDeserialize("trace.ndjson")

CONSTANT StopOn

VARIABLES l, l0,
          ri,       \* line of the last event that carries a real projection (real == Trace[ri].state)
          oi,       \* line of the last Call event (rops == Trace[oi].ops)
          cps,      \* op-log length -> line whose real projection was logged when the log had that length (checkpoints)
          rbOK, dcOK,
          pli, rem, rdone,     \* line of the last CommitBegin (0 = none), real Cache calls since, commit finished
          sync,     \* the model and the real state are comparable in this state
          evb,      \* pod -> line of the real projection logged just before its latest successful Evict (0 = none)
          phOK,     \* the last Commit left no phantom: no pod changed virtually by this statement without a Cache call for it
          uvOK,     \* the last un-eviction gave the pod back what it had before that Evict
          clOK,     \* the last Rollback / Discard / un-eviction restored the resource-claim view (see C13_ClaimsObs)
          hid,      \* <<node, pod>>: the pod was re-nominated onto another GPU of the node it is being evicted from; the node
                    \* then counts it twice by design (releasing on the old GPU, nominated on the new one) under ONE entry
          drifted,  \* a drift monitor was FALSE in an earlier state of this scenario (reported once)
          taint,    \* some property was FALSE in an earlier state of this scenario (drift monitors are then void)
          dmsg      \* first drift noticed by an event handler ("" = none)

tvars == <<vars, l, l0, ri, oi, cps, rbOK, dcOK, pli, rem, rdone, sync, evb, uvOK, clOK, phOK, hid, drifted, taint, dmsg>>

real  == Trace[ri].state
rops  == IF Trace[oi].ev = "Scenario" THEN <<>> ELSE Trace[oi].ops

Starts == {i \in 1..Len(Trace) : Trace[i].ev = "Scenario"}

\* ---- real projection -> model shape ----
RPod(r)   == [st |-> r.st, node |-> r.node, groups |-> r.groups, virt |-> (r.virt = 1), acc |-> r.acc]
RNode(r)  == [ig |-> r.ig, rg |-> r.rg, ug |-> r.ug, ic |-> r.ic, rc |-> r.rc, uc |-> r.uc,
              um |-> r.um, rm |-> r.rm, am |-> r.am, mark |-> SeqSet(r.mark), pods |-> r.pods]
RPods(st)   == [p \in DOMAIN st.pods |-> RPod(st.pods[p])]
RNodes(st)  == [n \in DOMAIN st.nodes |-> RNode(st.nodes[n])]
RJobs(st)   == [j \in DOMAIN st.jobs |-> JobCounters(st.jobs[j])]
RQueues(st) == [q \in DOMAIN st.queues |-> QueueCounters(st.queues[q])]
\* the projection compared by C13_RollbackObs / C13_DiscardObs on real states: everything logged about pods, nodes,
\* workloads and queues, GPU groups of Pending pods normalised (the resource-claim part is judged by C13_ClaimsObs)
RNorm(st) == [pods |-> [p \in DOMAIN st.pods |->
                 [st.pods[p] EXCEPT !.groups = IF st.pods[p].st = "Pending" THEN <<>> ELSE @,
                                    !.acc = IF ActiveAllocated(st.pods[p].st) THEN @ ELSE 0]],
              nodes |-> st.nodes, jobs |-> st.jobs, queues |-> st.queues]
\* the resource-claim part of a logged state (see harness/cmd/stmt/dra.go ProjectClaims); nothing is normalised.
\* Only pods with a claim / nodes with DRA devices have entries (a scenario without DRA has two empty parts).
RClaims(st) == st.claims
RClaimOf(st, p) == IF p \in DOMAIN st.claims.pods THEN st.claims.pods[p] ELSE <<>>
ROps(o) == [i \in 1..Len(o) |-> [k |-> o[i].k, p |-> o[i].p, tgt |-> o[i].tgt + 1, valid |-> (o[i].valid = 1)]]

SetCp(f, k, st) == [x \in DOMAIN f \cup {k} |-> IF x = k THEN st ELSE f[x]]

TraceInit ==
  \E i \in Starts :
    /\ l0 = i /\ l = i + 1
    /\ cfg = Trace[i].cfg
    /\ ri = i /\ oi = i
    /\ pod = RPods(Trace[i].state) /\ node = RNodes(Trace[i].state)
    /\ job = RJobs(Trace[i].state) /\ queue = RQueues(Trace[i].state)
    /\ ops = <<>> /\ emitted = <<>> /\ plan = <<>> /\ phase = "open" /\ ci = 0 /\ conv = FALSE
    /\ nfail = 0 /\ nstmt = 1 /\ bad = FALSE /\ saved = <<>> /\ hist = <<>>
    /\ act = Lbl("Init", "", "", FALSE, <<>>, 0, "", TRUE)
    /\ cps = [x \in {0} |-> i]
    /\ rbOK = TRUE /\ dcOK = TRUE /\ pli = 0 /\ rem = <<>> /\ rdone = TRUE
    /\ sync = TRUE /\ evb = [p \in DOMAIN Trace[i].cfg.pods |-> 0] /\ uvOK = TRUE /\ clOK = TRUE /\ phOK = TRUE /\ hid = {} /\ drifted = FALSE /\ taint = FALSE /\ dmsg = ""

Ev == Trace[l]
\* (observed from the logged call and the logged state before it) Pipeline of a shared pod that the node still
\* holds (virtually evicted) onto other GPU groups of that node
MovesGpu(e) == /\ Shared(e.p) /\ real.nodes[e.node].pods[e.p].st = "Releasing"
               /\ real.nodes[e.node].pods[e.p].groups # e.g
\* (observed) Pipeline of a pod the node still holds, without updateIfExists and not onto other GPUs: the code un-evicts
UnevictPath(e) == real.nodes[e.node].pods[e.p].st # "none" /\ e.upd = 0 /\ ~MovesGpu(e)
\* everything the session says about one pod: its own record and every node's entry for it
PodSeen(st, p) == [pod |-> st.pods[p], on |-> [n \in DOMAIN st.nodes |-> st.nodes[n].pods[p]]]
\* b = real projection when the statement began, a = after Commit returned, em = the Cache calls Commit made:
\* a pod that this statement changed virtually must have reached the cluster (a successful call for it), and no pod
\* may be left Allocated (a committed allocation is Binding, a failed or stopped one is Pending again)
NoPhantom(b, a, em) ==
  \A p \in DOMAIN a.pods :
    /\ (a.pods[p].virt = 1 /\ b.pods[p].virt = 0) => \E x \in 1..Len(em) : em[x].p = p /\ em[x].ok
    /\ (a.pods[p].st = "Allocated") => (b.pods[p].st = "Allocated")
StillHidden(h, st) == {x \in h : st.nodes[x[1]].pods[x[2]].st = "Pipelined"}
Here(kind) == l <= Len(Trace) /\ Trace[l].ev = kind

\* (after a drift the model is not advanced any more: its operators may not even be defined on the diverged state)
SetS(S) == IF drifted THEN UNCHANGED <<pod, node, job, queue, ops>>
           ELSE pod' = S.pod /\ node' = S.node /\ job' = S.job /\ queue' = S.queue /\ ops' = S.ops
Keep == UNCHANGED <<cfg, nfail, nstmt, bad, saved, hist, l0>>

TraceCall ==
  /\ Here("Call")
  /\ LET e == Ev
         L == Len(e.ops)
     IN
     /\ ri' = l /\ oi' = l /\ sync' = TRUE /\ l' = l + 1
     /\ hid' = StillHidden(hid \cup (IF e.op = "Pipeline" /\ MovesGpu(e) THEN {<<e.node, e.p>>} ELSE {}), e.state)
     /\ phOK' = IF e.op = "CommitEnd" THEN NoPhantom(Trace[cps[0]].state, e.state, rem) ELSE TRUE
     /\ evb' = IF e.op = "Evict" /\ e.err = 0 THEN [evb EXCEPT ![e.p] = ri] ELSE evb
     /\ uvOK' = IF (e.op = "Unevict" \/ (e.op = "Pipeline" /\ UnevictPath(e))) /\ e.err = 0 /\ evb[e.p] # 0
                THEN PodSeen(e.state, e.p) = PodSeen(Trace[evb[e.p]].state, e.p) ELSE TRUE
     /\ clOK' = CASE e.op = "Rollback" -> (e.cp \in DOMAIN cps => RClaims(e.state) = RClaims(Trace[cps[e.cp]].state))
                   [] e.op = "Discard"  -> RClaims(e.state) = RClaims(Trace[cps[0]].state)
                   [] (e.op = "Unevict" \/ (e.op = "Pipeline" /\ UnevictPath(e))) /\ e.err = 0 /\ evb[e.p] # 0 ->
                        RClaimOf(e.state, e.p) = RClaimOf(Trace[evb[e.p]].state, e.p)
                   [] OTHER -> TRUE
     /\ act' = Lbl(e.op, e.p, e.node, e.upd = 1, e.g, e.cp, e.j, e.err = 0)
     /\ CASE e.op = "Evict" ->
               /\ SetS(EvictOp(Cur, e.p)) /\ cps' = SetCp(cps, L, l)
               /\ UNCHANGED <<emitted, plan, phase, ci, conv, rbOK, dcOK, pli, rem, rdone, dmsg>>
          [] e.op = "Pipeline" ->
               /\ SetS(PipelineOp(Cur, e.p, e.node, e.upd = 1, e.g)) /\ cps' = SetCp(cps, L, l)
               /\ dmsg' = IF dmsg = "" /\ ~drifted /\ (e.err = 1) # PipelineFails(Cur, e.p, e.node, e.upd = 1, e.g)
                          THEN "Pipeline: returned error differs from the model" ELSE dmsg
               /\ UNCHANGED <<emitted, plan, phase, ci, conv, rbOK, dcOK, pli, rem, rdone>>
          [] e.op = "Allocate" ->
               /\ SetS(AllocateOp(Cur, e.p, e.node, e.g)) /\ cps' = SetCp(cps, L, l)
               /\ UNCHANGED <<emitted, plan, phase, ci, conv, rbOK, dcOK, pli, rem, rdone, dmsg>>
          [] e.op = "Unevict" ->
               /\ SetS(UnevictEarliest(Cur, e.p)) /\ cps' = SetCp(cps, L, l)
               /\ dmsg' = IF dmsg = "" /\ ~drifted /\ (e.err = 1) # UnevictFails(Cur, e.p)
                          THEN "Unevict: returned error differs from the model" ELSE dmsg
               /\ UNCHANGED <<emitted, plan, phase, ci, conv, rbOK, dcOK, pli, rem, rdone>>
          [] e.op = "Checkpoint" ->
               /\ cps' = SetCp(cps, e.cp, l)
               /\ dmsg' = IF dmsg = "" /\ e.cp # L THEN "Checkpoint() differs from the logged op-log length" ELSE dmsg
               /\ UNCHANGED <<pod, node, job, queue, ops, emitted, plan, phase, ci, conv, rbOK, dcOK, pli, rem, rdone>>
          [] e.op = "Rollback" ->
               /\ SetS(RollbackFn(Cur, e.cp))
               /\ rbOK' = (e.cp \in DOMAIN cps /\ RNorm(e.state) = RNorm(Trace[cps[e.cp]].state))
               /\ dmsg' = IF dmsg = "" /\ e.cp \notin DOMAIN cps THEN "Rollback to a checkpoint that was never logged" ELSE dmsg
               /\ UNCHANGED <<cps, emitted, plan, phase, ci, conv, dcOK, pli, rem, rdone>>
          [] e.op = "Discard" ->
               /\ SetS(DiscardFn(Cur))
               /\ dcOK' = (RNorm(e.state) = RNorm(Trace[cps[0]].state))
               /\ cps' = [x \in {0} |-> l] /\ conv' = FALSE
               /\ UNCHANGED <<emitted, plan, phase, ci, rbOK, pli, rem, rdone, dmsg>>
          [] e.op = "Convert" ->
               /\ SetS(ConvertFn(Cur, e.j)) /\ conv' = TRUE
               /\ UNCHANGED <<cps, emitted, plan, phase, ci, rbOK, dcOK, pli, rem, rdone, dmsg>>
          [] e.op = "CommitBegin" ->
               /\ phase' = "committing" /\ ci' = 1 /\ emitted' = <<>> /\ plan' = ops
               /\ pli' = l /\ rem' = <<>> /\ rdone' = FALSE
               /\ UNCHANGED <<pod, node, job, queue, ops, cps, conv, rbOK, dcOK, dmsg>>
          [] e.op = "CommitEnd" ->
               /\ ops' = <<>> /\ phase' = "open" /\ ci' = 0 /\ conv' = FALSE /\ rdone' = TRUE
               /\ cps' = [x \in {0} |-> l]
               /\ dmsg' = IF dmsg = "" /\ ~drifted /\ phase = "committing" /\ NextValid(ops, ci) # 0
                          THEN "Commit ended although the model has a valid operation left" ELSE dmsg
               /\ UNCHANGED <<pod, node, job, queue, emitted, plan, rbOK, dcOK, pli, rem>>
          [] OTHER ->
               /\ dmsg' = IF dmsg = "" THEN "unknown Call op" ELSE dmsg
               /\ UNCHANGED <<pod, node, job, queue, ops, cps, emitted, plan, phase, ci, conv, rbOK, dcOK, pli, rem, rdone>>
  /\ Keep

\* a Cache call made by the real Commit = one CommitStep of the model with the logged outcome
TraceCache ==
  /\ Here("Cache")
  /\ LET e == Ev
         i == IF drifted THEN 0 ELSE NextValid(ops, ci)
     IN
     /\ rem' = Append(rem, [c |-> e.c, p |-> e.p, ok |-> (e.ok = 1)])
     /\ IF phase = "committing" /\ i # 0 /\ ~drifted
        THEN LET r == CommitOne(Cur, i, e.ok = 1) IN
             /\ SetS(r.S)
             /\ emitted' = Append(emitted, [c |-> CallOf(ops[i]).c, p |-> ops[i].p, ok |-> (e.ok = 1)])
             /\ ci' = IF r.stop THEN 0 ELSE i + 1
             /\ dmsg' = IF dmsg = "" /\ (CallOf(ops[i]).c # e.c \/ ops[i].p # e.p)
                        THEN "Cache call differs from the model's next commit step" ELSE dmsg
        ELSE /\ dmsg' = IF dmsg = "" THEN "Cache call although the model has no commit step left" ELSE dmsg
             /\ UNCHANGED <<pod, node, job, queue, ops, emitted, ci>>
  /\ sync' = FALSE /\ l' = l + 1
  /\ UNCHANGED <<ri, oi, cps, rbOK, dcOK, pli, rdone, plan, phase, conv, act, hid, evb, uvOK, clOK, phOK>>
  /\ Keep

\* a hook inside Rollback / Discard / Convert / Commit: only the real state is observed
TraceH ==
  /\ Here("H")
  /\ ri' = l /\ sync' = FALSE /\ l' = l + 1 /\ hid' = StillHidden(hid, Ev.state)
  /\ UNCHANGED <<pod, node, job, queue, ops, emitted, plan, phase, ci, conv, act,
                 oi, cps, rbOK, dcOK, pli, rem, rdone, dmsg, evb, uvOK, clOK, phOK>>
  /\ Keep

(***************************************************************************)
(* Properties, on the real observations only                               *)
(***************************************************************************)
C13_RollbackObs == rbOK
C13_DiscardObs  == dcOK
rplan == IF pli = 0 THEN <<>> ELSE ROps(Trace[pli].ops)
C13_CommitNetObs == CommitNetOK(rplan, rem, rdone)
\* un-evicting a pod gives it back exactly what it had before its eviction (status, node, GPU groups, virtual flag,
\* accepted resources, its entries on the nodes) - whatever the op log says
C13_UnevictObs == uvOK
\* discarding / rolling back what-if steps, or putting an evicted pod back, leaves the scheduler's view of resource claims
\* (per pod and per ResourceClaim object, and the devices counted as in use) exactly as it was at that point
C13_ClaimsObs == clOK
\* a Commit, complete or stopped by a failed bind, leaves nothing of the statement applied in the session that did not
\* reach the cluster
C13_NoPhantomObs == phOK

RealPodView == [p \in DOMAIN real.pods |-> [st |-> real.pods[p].st, acc |-> real.pods[p].acc]]
C14_JobObs   == \A j \in DOMAIN real.jobs : JobCounters(real.jobs[j]) = TruthJob(RealPodView, j)
C14_QueueObs == \A q \in DOMAIN real.queues : QueueCounters(real.queues[q]) = TruthQueue(RealPodView, q)
\* the accepted GPU quota of a pod that holds or is nominated to resources - what the queues are charged with - is
\* the one its CURRENT node gives it, recomputed from the request and the node's device memory (a gpu-memory
\* request is a different portion on nodes with different devices)
C14_AcceptedObs == \A p \in DOMAIN real.pods :
   (ActiveAllocated(real.pods[p].st) /\ real.pods[p].node \in Nodes) => real.pods[p].acc = AccQ(p, real.pods[p].node)
\* the vector form of a quantity equals its structured form (both logged)
C14_VectorObs ==
  /\ \A j \in DOMAIN real.jobs : real.jobs[j].vg = real.jobs[j].ag /\ real.jobs[j].vc = real.jobs[j].ac
  /\ \A n \in DOMAIN real.nodes : LET r == real.nodes[n] IN
        r.vig = r.ig /\ r.vrg = r.rg /\ r.vug = r.ug /\ r.vic = r.ic /\ r.vrc = r.rc /\ r.vuc = r.uc
\* node base accounting (CPU and whole-GPU dimension) recomputed from the pods the node holds
C14_NodeBaseObs ==
  \A n \in DOMAIN real.nodes :
    LET r == real.nodes[n]
        on(S) == {p \in DOMAIN r.pods : r.pods[p].st \in S}
        all == on({"Allocated", "Pipelined", "Binding", "Bound", "Running", "Releasing"})
        twice == {p \in DOMAIN r.pods : <<n, p>> \in hid}      \* also counted as releasing (see hid)
    IN /\ r.uc = Sum(all, LAMBDA p : RC(p)) + Sum(twice, LAMBDA p : RC(p))
       /\ r.ic = cfg.nodes[n].cpu - Sum(all \ on({"Pipelined"}), LAMBDA p : RC(p)) - Sum(twice, LAMBDA p : RC(p))
       /\ r.rc = Sum(on({"Releasing"}), LAMBDA p : RC(p)) + Sum(twice, LAMBDA p : RC(p)) - Sum(on({"Pipelined"}), LAMBDA p : RC(p))
       /\ r.ug = Sum(all, LAMBDA p : RG(p))

\* resource claims (DRA): what the session's DRA manager counts as allocated is exactly what the claims hold - no device
\* is allocated to two ResourceClaim objects, and the devices counted as in use on a node (the allocator's input) are
\* the devices of that node's pool in the allocations of the claims
ClaimPods == {p \in DOMAIN real.claims.pods : real.claims.pods[p].obj # ""}
C14_ClaimDevicesObs ==
  /\ \A p, q \in ClaimPods : real.claims.pods[p].obj # real.claims.pods[q].obj =>
         SeqSet(real.claims.pods[p].odev) \cap SeqSet(real.claims.pods[q].odev) = {}
  /\ \A n \in DOMAIN real.claims.inuse :
         {n \o "/" \o d : d \in SeqSet(real.claims.inuse[n])} =
           UNION {SeqSet(real.claims.pods[p].odev) : p \in {x \in ClaimPods : real.claims.pods[x].onode = n}}

\* StopOn selects the properties whose violation ends a scenario: "C13", "C14" or "all"
Healthy == /\ (StopOn # "C14") => (C13_RollbackObs /\ C13_DiscardObs /\ C13_CommitNetObs /\ C13_UnevictObs /\ C13_ClaimsObs /\ C13_NoPhantomObs)
           /\ (StopOn # "C13") => (C14_JobObs /\ C14_QueueObs /\ C14_AcceptedObs /\ C14_VectorObs /\ C14_NodeBaseObs /\ C14_ClaimDevicesObs)

(***************************************************************************)
(* Drift monitors: model prediction vs real                                *)
(***************************************************************************)
\* after a property violation (of either family) the real code has left the specified behaviour: the model's
\* predictions are then not comparable any more (no drift verdict for the rest of the scenario)
AllC == C13_RollbackObs /\ C13_DiscardObs /\ C13_CommitNetObs /\ C13_UnevictObs /\ C13_ClaimsObs /\ C13_NoPhantomObs /\ C14_JobObs /\ C14_QueueObs /\ C14_AcceptedObs /\ C14_VectorObs /\ C14_NodeBaseObs /\ C14_ClaimDevicesObs
Clean == sync /\ ~taint /\ AllC
D_Pods   == Clean => RPods(real) = pod
D_Nodes  == Clean => RNodes(real) = node
D_Jobs   == Clean => RJobs(real) = [j \in Jobs |-> JobCounters(job[j])]
D_Queues == Clean => RQueues(real) = [q \in Queues |-> QueueCounters(queue[q])]
D_Ops    == (Clean /\ phase = "open") =>
              /\ Len(rops) = Len(ops)
              /\ \A i \in 1..Len(ops) : LET r == ROps(rops)[i] IN
                    /\ r.k = ops[i].k /\ r.p = ops[i].p
                    /\ (ops[i].k = "undo" => r.tgt = ops[i].tgt)
                    /\ r.valid = OpValid(ops, i)
D_Msg    == (~taint /\ AllC) => dmsg = ""
D_NoErr  == (Clean /\ act.n \notin {"Init", "CommitEnd", "Pipeline", "Unevict"}) => act.ok
\* Commit returns the error of the LAST Bind / Evict call it made (a later success overwrites an earlier failure)
D_CommitErr == (Clean /\ act.n = "CommitEnd") =>
                 LET F == {x \in 1..Len(rem) : rem[x].c \in {"bind", "evict"}}
                 IN act.ok <=> (F = {} \/ rem[CHOOSE x \in F : \A y \in F : y <= x].ok)
\* the model's own initial state (fold of AddTask in pod order, declarative counters) equals the real snapshot
D_Init   == (l = l0 + 1) =>
              /\ node = [n \in Nodes |-> FoldInit(n, EmptyNode(n), {p \in Pods : cfg.pods[p].node = n /\ ActiveUsed(cfg.pods[p].st)})]
              /\ pod = InitPod
D_Shape  == (l <= Len(Trace) /\ Trace[l].ev # "Scenario") => Trace[l].ev \in {"Call", "Cache", "H"}
\* Reporting: the C13_ / C14_ predicates and the D_ monitors are evaluated by TLC in every state of every scenario;
\* a FALSE one is reported with a VIOL / DRIFT line (CONSTRAINT Report; this avoids one counterexample
\* reconstruction per violating scenario, of which a single genuine defect produces hundreds). A scenario is not
\* continued past a property violation; after a drift it continues (the properties are pure observations) but
\* the monitors are silent.
Viol(name, ok) == ok \/ PrintT(<<"VIOL", name, l0, l>>)
Drift(name, ok) == ok \/ PrintT(<<"DRIFT", name, l0, l, dmsg>>)
AllD == D_Pods /\ D_Nodes /\ D_Jobs /\ D_Queues /\ D_Ops /\ D_Msg /\ D_NoErr /\ D_CommitErr /\ D_Init /\ D_Shape
Report ==
  /\ Viol("C13_RollbackObs", C13_RollbackObs) /\ Viol("C13_DiscardObs", C13_DiscardObs) /\ Viol("C13_CommitNetObs", C13_CommitNetObs)
  /\ Viol("C13_UnevictObs", C13_UnevictObs) /\ Viol("C13_ClaimsObs", C13_ClaimsObs) /\ Viol("C13_NoPhantomObs", C13_NoPhantomObs)
  /\ Viol("C14_JobObs", C14_JobObs) /\ Viol("C14_QueueObs", C14_QueueObs) /\ Viol("C14_AcceptedObs", C14_AcceptedObs) /\ Viol("C14_VectorObs", C14_VectorObs)
  /\ Viol("C14_NodeBaseObs", C14_NodeBaseObs) /\ Viol("C14_ClaimDevicesObs", C14_ClaimDevicesObs)
  /\ drifted \/ ( /\ Drift("D_Pods", D_Pods) /\ Drift("D_Nodes", D_Nodes) /\ Drift("D_Jobs", D_Jobs) /\ Drift("D_Queues", D_Queues)
                  /\ Drift("D_Ops", D_Ops) /\ Drift("D_Msg", D_Msg) /\ Drift("D_NoErr", D_NoErr) /\ Drift("D_CommitErr", D_CommitErr)
                  /\ Drift("D_Init", D_Init) /\ Drift("D_Shape", D_Shape) )

TraceNext == /\ Healthy /\ (TraceCall \/ TraceCache \/ TraceH)
             /\ taint' = (taint \/ ~AllC) /\ drifted' = (drifted \/ ~AllD)
TraceSpec == TraceInit /\ [][TraceNext]_tvars
=============================================================================
