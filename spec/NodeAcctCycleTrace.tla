-------------------------- MODULE NodeAcctCycleTrace --------------------------
(* Trace validation of the node accounting DURING real scheduling cycles (C14 node part at every
   simulation step; C02 node part on the same observations).

   harness/cmd/cluster -acct (harness/internal/world/acctobs.go) runs the REAL scheduler cycles of the
   generated cluster scenarios and records, after every framework.Statement hook event (evict, pipeline,
   allocate, unevict, unpipeline, unallocate, begin / end of Checkpoint / Rollback / Discard / Commit /
   Convert) and after every action, one "Obs" line per node whose observation changed:
     A        := projection of the session's real node_info.NodeInfo (Idle / Used / Releasing, the
                 GPU-sharing maps)                                   -- what the scheduler believes
     vec      := the *Vector twins,  present / npresent := NodeInfo.PodInfos
     E        := the accounting entries recomputed from "the pods and their statuses": every task of
                 ssn.ClusterInfo.PodGroupInfos (status, NodeName, GPUGroups, request), the reservation
                 pods of the API store, and the terminating incarnation that a re-nomination of a
                 virtually evicted pod leaves behind (gh = 1: on the same node, other GPU group - its
                 PodInfos entry was replaced; gh = 0: on the node the pod is leaving)
                                                                    -- NEVER read from the NodeInfo
   There is no prediction: an observation takes the state over from the log (like NodeAcctTrace!Restore),
   the C14_ / C02_ predicates of NodeAcct are evaluated with CurE <- TraceE on the REAL values against
   the declarative truth of E. One Scenario line per (cluster scenario, node, cycle): `kinds` maps the
   scenario's pods (then the reservation pods) to the vocabulary of NodeAcct for THAT node (the GPU
   memory of a fraction request depends on the node), `nd` is the node. *)
EXTENDS NodeAcct

Trace == ndJsonDeserialize("trace.ndjson")

VARIABLES l, l0, G, E, present, npresent, vec, info
tvars == <<vars, l, l0, G, E, present, npresent, vec, info>>

Starts == {i \in 1..Len(Trace) : Trace[i].ev = "Scenario"}

Vm(r) == V(r.cpu, r.gpu \div 1000, r.pods)
RealAcct(ev, GG) ==
  [idle |-> Vm(ev.idle), used |-> Vm(ev.used), rel |-> Vm(ev.rel),
   um |-> [g \in Rng(GG) |-> ev.um[CHOOSE i \in 1..Len(GG) : GG[i] = g]],
   am |-> [g \in Rng(GG) |-> ev.am[CHOOSE i \in 1..Len(GG) : GG[i] = g]],
   rm |-> [g \in Rng(GG) |-> ev.rm[CHOOSE i \in 1..Len(GG) : GG[i] = g]],
   mk |-> {GG[i] : i \in {j \in 1..Len(GG) : ev.mk[j] = 1}},
   ak |-> {GG[i] : i \in {j \in 1..Len(GG) : ev.ak[j] = 1}}]
EntriesOf(ev) == {[p |-> ev.pods[i].p, st |-> ev.pods[i].st, grp |-> ev.pods[i].grp, gh |-> ev.pods[i].gh, nom |-> ev.pods[i].nom] : i \in 1..Len(ev.pods)}
PresentOf(ev) == {[p |-> ev.present[i].p, st |-> ev.present[i].st, grp |-> ev.present[i].grp] : i \in 1..Len(ev.present)}
NoInfo == [op |-> "Init", call |-> "None", err |-> "", units |-> TRUE, ghostb |-> FALSE, pipeb |-> FALSE, k |-> 0, act |-> "", nomev |-> FALSE]

\* a nominated (Pipelined) pod that asks for GPU (fraction or whole) is accounted on the node
PipeGpu(X) == \E e \in X : e.st = "Pipelined" /\ kinds[e.p].k \in {"frac", "whole"}

TraceInit ==
  \E i \in Starts :
    /\ l0 = i /\ l = i + 1
    /\ nd = [n |-> Trace[i].n, gpumem |-> Trace[i].gpumem, cpu |-> Trace[i].cpu, maxpods |-> Trace[i].maxpods]
    /\ kinds = Trace[i].kinds
    /\ G = Trace[i].groups
    /\ A = [idle |-> V(Trace[i].cpu, Trace[i].n, Trace[i].maxpods), used |-> V(0, 0, 0), rel |-> V(0, 0, 0),
            um |-> [g \in Rng(Trace[i].groups) |-> 0], am |-> [g \in Rng(Trace[i].groups) |-> 0],
            rm |-> [g \in Rng(Trace[i].groups) |-> 0], mk |-> {}, ak |-> {}]
    /\ vec = [idle |-> A.idle, used |-> A.used, rel |-> A.rel]
    /\ E = {} /\ present = {} /\ npresent = 0 /\ info = NoInfo
    /\ pods = <<>> /\ ghost = <<>> /\ log = <<>> /\ phase = "trace" /\ pc = <<>> /\ seen = 0 /\ nops = 0
    /\ act = Lbl("Init", "None", 0, "None", <<>>) /\ taint = FALSE

\* Obs: the state is taken over from the real projection and the recomputed entries; `pipeb` / `ghostb`
\* remember the context of the previous observation of this node (signature classes of st_nodeacct)
TraceObs ==
  /\ l <= Len(Trace) /\ Trace[l].ev = "Obs"
  /\ LET ev == Trace[l] IN
     /\ A' = RealAcct(ev, G)
     /\ E' = EntriesOf(ev)
     /\ present' = PresentOf(ev) /\ npresent' = ev.npresent
     /\ vec' = [idle |-> Vm(ev.idlev), used |-> Vm(ev.usedv), rel |-> Vm(ev.relv)]
     /\ info' = [op |-> ev.op, call |-> "Obs", err |-> ev.err, ghostb |-> \E e \in E : e.gh = 1, pipeb |-> PipeGpu(E),
                 k |-> ev.k, act |-> ev.act,
                 \* sticky for the rest of the cycle on this node: an entry that was only nominated has been evicted
                 nomev |-> info.nomev \/ \E i \in 1..Len(ev.pods) : ev.pods[i].nom = 1,
                 units |-> \A f \in {"idle", "used", "rel", "idlev", "usedv", "relv"} : ev[f].gpu % 1000 = 0]
     /\ act' = Lbl(ev.op, "Obs", ev.p, "None", <<>>)
  /\ l' = l + 1
  /\ UNCHANGED <<nd, kinds, pods, ghost, log, phase, pc, seen, nops, taint, l0, G>>

TraceNext == TraceObs
TraceSpec == TraceInit /\ [][TraceNext]_tvars

TraceE == E

\* ---- properties on the real values that only exist in traces ----
\* pods present on the real node = the entries recomputed from the job side (not the incarnations whose
\* PodInfos entry was replaced). Statuses are compared by accounting bucket: BindPod at commit turns the
\* job-side status into Binding while the node keeps its Allocated clone (same bucket, no node call);
\* GPU groups are compared for fraction pods only (a reservation pod carries its group as a label)
Bucket(st) == IF st \in {"Releasing", "Pipelined"} THEN st ELSE "Held"
Key(x) == [p |-> x.p, st |-> Bucket(x.st), grp |-> IF IsFrac(x.p) THEN x.grp ELSE <<>>]
C14_NodePods ==
  /\ \A x \in present : x.p \in DOMAIN kinds
  /\ {Key(x) : x \in present} = {Key(e) : e \in {x \in E : x.gh = 0}}
  /\ npresent = Cardinality({x \in E : x.gh = 0})
\* vector and structured representation agree
C14_NodeVector == vec.idle = A.idle /\ vec.used = A.used /\ vec.rel = A.rel

\* Finding G37 (reclaim / preempt / consolidation take pods as victims that are only NOMINATED): from the first
\* eviction of a nominated pod on this node to the end of the cycle the node predicates are judged under this
\* name (the name of the same finding at cycle end in Cluster.tla). NodeAcct never evicts a nominated pod, its
\* truth reads such an entry as a terminating pod that holds its request although it physically holds nothing,
\* and un-evicting it leaves the device counters drifted; st_cycleacct.py attributes a failure in such an
\* observation to this predicate.
NomEv == info.nomev
C14_EndNodeAfterNominatedEviction ==
  NomEv => /\ C14_NodeUsed /\ C14_NodeIdle /\ C14_NodeReleasing /\ C14_NodeUsedMem /\ C14_NodeAllocMem /\ C14_NodeRelMem
           /\ C14_NodeMarker /\ C14_NodePods /\ C14_NodeVector

\* ---- drift monitors (never a violation) ----
D_Units == info.units
D_NoError == info.err = ""

(* Triage pass (st_cycleacct.py): one TLC run evaluates every predicate in every recorded state and
   prints the failing ones with the two values; the driver then confirms one scenario per distinct
   unknown signature with the predicates as ordinary INVARIANTs. *)
Failing ==
  F("C14_NodeUsed", C14_NodeUsed)
  \cup F("C14_NodeIdle", C14_NodeIdle)
  \cup F("C14_NodeReleasing", C14_NodeReleasing)
  \cup F("C14_NodeUsedMem", C14_NodeUsedMem)
  \cup F("C14_NodeAllocMem", C14_NodeAllocMem)
  \cup F("C14_NodeRelMem", C14_NodeRelMem)
  \cup F("C14_NodeMarker", C14_NodeMarker)
  \cup F("C14_NodePods", C14_NodePods)
  \cup F("C14_NodeVector", C14_NodeVector)
  \cup F("C14_EndNodeAfterNominatedEviction", C14_EndNodeAfterNominatedEviction)
  \cup F("C02_GroupFits", C02_GroupFits)
  \cup F("C02_Exclusive", C02_Exclusive)
  \cup F("C02_Distinct", C02_Distinct)
  \cup F("D_Units", D_Units)
  \cup F("D_NoError", D_NoError)
Triage ==
  IF Failing = {} THEN TRUE
  ELSE PrintT("VERDICT " \o ToJson(
         [l0 |-> l0, l |-> l - 1, failing |-> Failing,
          didle |-> VSub(A.idle, TruthIdle(E)), dused |-> VSub(A.used, TruthUsed(E)), drel |-> VSub(A.rel, TruthRel(E)),
          real |-> [idle |-> A.idle, used |-> A.used, rel |-> A.rel],
          truth |-> [idle |-> TruthIdle(E), used |-> TruthUsed(E), rel |-> TruthRel(E)],
          pipegpu |-> PipeGpu(E) \/ info.pipeb,
          ghost |-> \E e \in E : e.gh = 1, ghostb |-> info.ghostb,
          op |-> info.op, call |-> info.call, k |-> info.k, act |-> info.act, nomev |-> info.nomev]))
=============================================================================
