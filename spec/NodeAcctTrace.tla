---------------------------- MODULE NodeAcctTrace ----------------------------
(* Trace validation for the node accounting (C14 node part, C02 node part).

   Every Step event was recorded by harness/cmd/nodeacct after one call on a REAL
   node_info.NodeInfo. The state is set from the log:
     A        := projection of the real NodeInfo (Idle/Used/Releasing, the four GPU-sharing maps)
     E        := the accounting entries the session believes are on the node (the harness' own book:
                 pod, status, GPU groups; gh = 1 for the terminating incarnation left by Consolidate)
     present  := the real NodeInfo.PodInfos, vec := the *Vector representations
     pred     := what the transcription (NodeAcct!ApplyCall) predicts from the previous REAL state
   The C14_ / C02_ predicates of NodeAcct are evaluated with CurE <- TraceE, i.e. on the real values
   against the declarative truth computed from the logged entries: the verdict does not depend on
   the transcription. D_* are drift monitors (never a violation).
   One initial state per Scenario line; a scenario ends at the next Scenario line or at EOF. *)
EXTENDS NodeAcct

Trace == ndJsonDeserialize("trace.ndjson")

VARIABLES l, l0, G, E, present, npresent, vec, pred, info
tvars == <<vars, l, l0, G, E, present, npresent, vec, pred, info>>

Starts == {i \in 1..Len(Trace) : Trace[i].ev = "Scenario"}

Vm(r) == V(r.cpu, r.gpu \div 1000, r.pods)
IdxOf(g) == CHOOSE i \in 1..Len(G) : G[i] = g
RealAcct(ev, GG) ==
  [idle |-> Vm(ev.idle), used |-> Vm(ev.used), rel |-> Vm(ev.rel),
   um |-> [g \in Rng(GG) |-> ev.um[CHOOSE i \in 1..Len(GG) : GG[i] = g]],
   am |-> [g \in Rng(GG) |-> ev.am[CHOOSE i \in 1..Len(GG) : GG[i] = g]],
   rm |-> [g \in Rng(GG) |-> ev.rm[CHOOSE i \in 1..Len(GG) : GG[i] = g]],
   mk |-> {GG[i] : i \in {j \in 1..Len(GG) : ev.mk[j] = 1}},
   ak |-> {GG[i] : i \in {j \in 1..Len(GG) : ev.ak[j] = 1}}]
EntriesOf(ev) == {[p |-> ev.pods[i].p, st |-> ev.pods[i].st, grp |-> ev.pods[i].grp, gh |-> ev.pods[i].gh, nom |-> ev.pods[i].nom] : i \in 1..Len(ev.pods)}
PresentOf(ev) == {[p |-> ev.present[i].p, st |-> ev.present[i].st, grp |-> ev.present[i].grp] : i \in 1..Len(ev.present)}
NoInfo == [op |-> "Init", call |-> "None", err |-> "", mm |-> 0, dec |-> 1, units |-> TRUE, ghostb |-> FALSE, pipeb |-> FALSE]

\* a nominated (Pipelined) pod that asks for GPU (fraction or whole) is accounted on the node
PipeGpu(X) == \E e \in X : e.st = "Pipelined" /\ kinds[e.p].k \in {"frac", "whole"}

TraceInit ==
  \E i \in Starts :
    /\ l0 = i /\ l = i + 1
    /\ nd = [n |-> Trace[i].n, gpumem |-> Trace[i].gpumem, cpu |-> Trace[i].cpu, maxpods |-> Trace[i].maxpods]
    /\ kinds = Trace[i].kinds
    /\ G = Trace[i].groups
    /\ A = [idle |-> V(Trace[i].cpu, Trace[i].n, Trace[i].maxpods), used |-> V(0, 0, 0), rel |-> V(0, 0, 0),
            um |-> [g \in Rng(Trace[i].groups) |-> 0], am |-> [g \in Rng(Trace[i].groups) |-> 0],
            rm |-> [g \in Rng(Trace[i].groups) |-> 0], mk |-> {}, ak |-> {}]
    /\ pred = A
    /\ vec = [idle |-> A.idle, used |-> A.used, rel |-> A.rel]
    /\ E = {} /\ present = {} /\ npresent = 0 /\ info = NoInfo
    /\ pods = <<>> /\ ghost = <<>> /\ log = <<>> /\ phase = "trace" /\ pc = <<>> /\ seen = 0 /\ nops = 0
    /\ act = Lbl("Init", "None", 0, "None", <<>>) /\ taint = FALSE

TraceStep ==
  /\ l <= Len(Trace) /\ Trace[l].ev = "Step"
  /\ LET ev == Trace[l] IN
     /\ A' = RealAcct(ev, G)
     /\ pred' = ApplyCall(A, ev.call, ev.p, ev.st, ev.grp, ev.ost, ev.ogrp)
     /\ E' = EntriesOf(ev)
     /\ present' = PresentOf(ev) /\ npresent' = ev.npresent
     /\ vec' = [idle |-> Vm(ev.idlev), used |-> Vm(ev.usedv), rel |-> Vm(ev.relv)]
     /\ info' = [op |-> ev.op, call |-> ev.call, err |-> ev.err, mm |-> ev.mm, dec |-> ev.dec, ghostb |-> \E e \in E : e.gh = 1, pipeb |-> PipeGpu(E),
                 units |-> \A f \in {"idle", "used", "rel", "idlev", "usedv", "relv"} : ev[f].gpu % 1000 = 0]
     /\ act' = Lbl(ev.op, ev.call, ev.p, ev.st, ev.grp)
  /\ l' = l + 1
  /\ UNCHANGED <<nd, kinds, pods, ghost, log, phase, pc, seen, nops, taint, l0, G>>

\* Restore: the harness re-executed (silently) a prefix of calls that is logged and judged in another
\* scenario; the state is taken over from the real projection, no prediction is made for this line
TraceRestore ==
  /\ l <= Len(Trace) /\ Trace[l].ev = "Restore"
  /\ LET ev == Trace[l] IN
     /\ A' = RealAcct(ev, G) /\ pred' = RealAcct(ev, G)
     /\ E' = EntriesOf(ev)
     /\ present' = PresentOf(ev) /\ npresent' = ev.npresent
     /\ vec' = [idle |-> Vm(ev.idlev), used |-> Vm(ev.usedv), rel |-> Vm(ev.relv)]
     /\ info' = [NoInfo EXCEPT !.op = "Restore", !.err = ev.err]
     /\ act' = Lbl("Restore", "None", 0, "None", <<>>)
  /\ l' = l + 1
  /\ UNCHANGED <<nd, kinds, pods, ghost, log, phase, pc, seen, nops, taint, l0, G>>

TraceNext == TraceStep \/ TraceRestore
TraceSpec == TraceInit /\ [][TraceNext]_tvars

TraceE == E

\* ---- properties on the real values that only exist in traces ----
\* pods present on the real node = the entries the session believes are there (not the ghosts)
C14_NodePods ==
  /\ present = {[p |-> e.p, st |-> e.st, grp |-> e.grp] : e \in {x \in E : x.gh = 0}}
  /\ npresent = Cardinality({x \in E : x.gh = 0})
\* vector and structured representation agree
C14_NodeVector == vec.idle = A.idle /\ vec.used = A.used /\ vec.rel = A.rel

\* ---- drift monitors ----
D_Units == info.units
D_NoError == info.err = ""
D_Drift == pred = A                 \* the transcription, applied to the previous real state, predicts the real state
D_Model == info.mm = 0              \* (reserved)
\* the placement decision of the replayed operation (allocate vs nominate, on these GPU groups) is the
\* one the REAL fit functions take in the real state: C02 verdicts on replayed model behaviours are
\* therefore verdicts on decisions of the real code
D_Decision == info.dec = 1

(* Triage pass (st_nodeacct.py): one TLC run evaluates every predicate in every recorded state and
   prints the failing ones; the driver then confirms one scenario per distinct signature with the
   predicates as ordinary INVARIANTs. *)
Failing ==
  F("C14_NodeUsed", C14_NodeUsed)
  \cup F("C14_NodeIdle", C14_NodeIdle)
  \cup F("C14_NodeReleasing", C14_NodeReleasing)
  \cup F("C14_NodeUsedMem", C14_NodeUsedMem)
  \cup F("C14_NodeAllocMem", C14_NodeAllocMem)
  \cup F("C14_NodeRelMem", C14_NodeRelMem)
  \cup F("C14_NodeMarker", C14_NodeMarker)
  \cup F("C14_NodePods", C14_NodePods)
  \cup F("C14_NodeVector", C14_NodeVector)
  \cup F("C02_GroupFits", C02_GroupFits)
  \cup F("C02_Exclusive", C02_Exclusive)
  \cup F("C02_Distinct", C02_Distinct)
  \cup F("D_Units", D_Units)
  \cup F("D_NoError", D_NoError)
  \cup F("D_Drift", D_Drift)
  \cup F("D_Model", D_Model)
  \cup F("D_Decision", D_Decision)
Triage ==
  IF Failing = {} THEN TRUE
  ELSE PrintT("VERDICT " \o ToJson(
         [l0 |-> l0, l |-> l - 1, failing |-> Failing,
          didle |-> VSub(A.idle, TruthIdle(E)), dused |-> VSub(A.used, TruthUsed(E)), drel |-> VSub(A.rel, TruthRel(E)),
          pipegpu |-> PipeGpu(E) \/ info.pipeb,
          ghost |-> \E e \in E : e.gh = 1, ghostb |-> info.ghostb,
          op |-> info.op, call |-> info.call]))
=============================================================================
