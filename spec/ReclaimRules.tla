---------------------------- MODULE ReclaimRules ----------------------------
(* Design-level model of inter-queue reclaim in a CLOSED system (C15, C07, C05 at rule level).

   One resource (whole GPUs), interchangeable 1-GPU preemptible jobs, a two-level queue tree
   (departments -> leaf queues). The scheduler is abstracted to the RULES its proportion plugin
   applies before a reclaim statement is committed
   (pkg/scheduler/plugins/proportion/reclaimable/{reclaimable.go,strategies/strategies.go}):
     CanReclaim      the reclaimer's leaf stays within its fair share            (CanReclaimResources)
     FitsStrategy    at the level where the two queues diverge: the victim queue is above its fair
                     share (MaintainFairShare), or the reclaimer stays within its deserved quota and
                     the victim queue is above its deserved quota (GuaranteeDeservedQuota)
     Saturation      no ancestor of the reclaimer ends above its fair share AND at least as saturated
                     (allocated / fair share, times the multiplier M) as the sibling it took from
   Everything else (which queue goes first, which victim) is nondeterministic. The system is closed:
   an evicted job is pending again at once, demand per leaf is constant, so fair shares are constant;
   they are NOT computed here but chosen nondeterministically in Init among all vectors that satisfy
   the fair-share contract (C09: FairShareContract) - the result therefore holds for every division
   the contract allows, and TLC shows with the rule switches what each rule is for:
     * with every rule: no behaviour evicts forever                            (C15_EventuallyQuiet)
     * without CanReclaim or with M < 1: TLC exhibits the eviction cycle       (non-vacuity)
   The initial states are exported as scenarios and run on the real scheduler for 8 cycles, where
   ClusterTrace judges the real decisions with the C15, C07, C06 and C05 predicates.                   *)
EXTENDS Integers, Sequences, FiniteSets, FiniteSetsExt, TLC, Json

CONSTANTS NDepts,     \* departments 1..NDepts
          LeavesPer,  \* leaves per department
          Total,      \* GPUs of the cluster
          MaxReq,     \* at most MaxReq jobs per leaf
          Quotas,     \* possible deserved quotas of a leaf
          M10,        \* saturation multiplier * 10 (10 = 1.0)
          UseCanReclaim, UseStrategy, UseSaturation,   \* rule switches (TRUE = as the code)
          UseContract                                  \* fair shares satisfy the contract

Depts  == 1..NDepts
Leaves == (NDepts + 1)..(NDepts + NDepts * LeavesPer)
Queues == Depts \cup Leaves
Parent(q) == IF q \in Depts THEN 0 ELSE ((q - NDepts - 1) \div LeavesPer) + 1
Children(d) == {q \in Leaves : Parent(q) = d}

VARIABLES des,    \* des[q]   deserved quota (GPUs) of every queue
          fair2,  \* fair2[q] fair share in HALF GPUs
          run,    \* run[q]   running jobs of leaf q
          pend,   \* pend[q]  pending jobs of leaf q
          evictions   \* bounded counter, only for the exporter / state constraint
vars == <<des, fair2, run, pend, evictions>>

Sum(S, f(_)) == MapThenSumSet(f, S)
Req(q) == IF q \in Leaves THEN run[q] + pend[q] ELSE Sum(Children(q), LAMBDA c : run[c] + pend[c])
A(q)   == IF q \in Leaves THEN run[q] ELSE Sum(Children(q), LAMBDA c : run[c])
Used   == Sum(Leaves, LAMBDA c : run[c])
Min2(a, b) == IF a < b THEN a ELSE b

\* ---- the fair-share contract (C09), for one parent with total t2 (half GPUs) ----
Want2(q) == 2 * Req(q)
\* all ways to split `target` half-GPUs over the queues qs, nobody above its request
RECURSIVE Splits(_, _)
Splits(qs, target) ==
  IF qs = {} THEN (IF target = 0 THEN {<<>>} ELSE {})
  ELSE LET q == CHOOSE x \in qs : \A y \in qs : x <= y
           rest == qs \ {q}
       IN UNION {{(q :> v) @@ f : f \in Splits(rest, target - v)} : v \in 0..Min2(Want2(q), target)}
\* the divisions of t2 over qs that the contract allows: nothing wasted, nothing invented, nobody
\* above its request, and - when the deserved quotas fit - everybody gets its deserved quota first
Divisions(t2, qs) ==
  LET need == Sum(qs, LAMBDA q : Min2(2 * des[q], Want2(q)))
  IN {f \in Splits(qs, Min2(t2, Sum(qs, Want2))) :
        (UseContract /\ need <= t2) => \A q \in qs : f[q] >= Min2(2 * des[q], Want2(q))}
RECURSIVE WithLeaves(_, _)
WithLeaves(ds, acc) ==
  IF ds = {} THEN {acc}
  ELSE LET d == CHOOSE x \in ds : \A y \in ds : x <= y
       IN UNION {WithLeaves(ds \ {d}, acc @@ f) : f \in Divisions(acc[d], Children(d))}
FairVectors == UNION {WithLeaves(Depts, fd) : fd \in Divisions(2 * Total, Depts)}

Init ==
  /\ run \in [Leaves -> 0..MaxReq] /\ pend \in [Leaves -> 0..MaxReq]
  /\ \A q \in Leaves : run[q] + pend[q] <= MaxReq
  /\ Used <= Total
  /\ \E dl \in [Leaves -> Quotas] : des = [q \in Queues |-> IF q \in Leaves THEN dl[q] ELSE Sum(Children(q), LAMBDA c : dl[c])]
  /\ fair2 \in FairVectors
  /\ evictions = 0

\* ---- the rules ----
Level(q, v) == IF Parent(q) = Parent(v) THEN <<q, v>> ELSE <<Parent(q), Parent(v)>>
CanReclaim(q) == 2 * (A(q) + 1) <= fair2[q]
FitsStrategy(q, v) ==
  LET rq == Level(q, v)[1]  vq == Level(q, v)[2]
  IN \/ 2 * A(vq) > fair2[vq]
     \/ (A(rq) + 1 <= des[rq] /\ A(vq) > des[vq])
\* a (ancestor-or-self of the reclaimer) against x (ancestor-or-self of the victim), siblings
Saturated(a, x) ==
  LET aR == A(a) + 1  aS == A(x) - 1
  IN 2 * aR > fair2[a] /\ fair2[x] > 0 /\ aR * M10 * fair2[x] >= aS * fair2[a] * 10
SaturationOK(q, v) ==
  \A a \in {q, Parent(q)} : \A x \in {v, Parent(v)} :
     (a # x /\ Parent(a) = Parent(x)) => ~Saturated(a, x)

Allocate(q) ==
  /\ pend[q] > 0 /\ Used < Total
  /\ run' = [run EXCEPT ![q] = @ + 1] /\ pend' = [pend EXCEPT ![q] = @ - 1]
  /\ UNCHANGED <<des, fair2, evictions>>

Reclaim(q, v) ==
  /\ q # v /\ pend[q] > 0 /\ run[v] > 0 /\ Used = Total
  /\ UseCanReclaim => CanReclaim(q)
  /\ UseStrategy => FitsStrategy(q, v)
  /\ UseSaturation => SaturationOK(q, v)
  /\ run' = [run EXCEPT ![q] = @ + 1, ![v] = @ - 1]
  /\ pend' = [pend EXCEPT ![q] = @ - 1, ![v] = @ + 1]
  /\ evictions' = evictions + 1
  /\ UNCHANGED <<des, fair2>>

Next == \E q \in Leaves : Allocate(q) \/ \E v \in Leaves : Reclaim(q, v)
Spec == Init /\ [][Next]_vars

\* the counter is observation only: the liveness check runs on the view without it
View == <<des, fair2, run, pend>>

TypeOK == /\ \A q \in Leaves : run[q] >= 0 /\ pend[q] >= 0
          /\ Used <= Total

\* ---- properties, design level ----
\* C15: every behaviour eventually stops evicting (no cycle of the state graph contains a Reclaim)
C15_EventuallyQuiet == <>[][\A q, v \in Leaves : ~Reclaim(q, v)]_<<des, fair2, run, pend>>
\* C07 (rule level): a reclaim never takes from a levelled queue within both its deserved quota and
\* its fair share, and the reclaimer's leaf ends within its fair share
C07_Rules == [][\A q, v \in Leaves : Reclaim(q, v) =>
                  LET vq == Level(q, v)[2] IN /\ (A(vq) > des[vq] \/ 2 * A(vq) > fair2[vq])
                                              /\ 2 * (A(q) + 1) <= fair2[q]]_vars
\* a potential that every reclaim strictly decreases would prove C15 for every size; TLC checks the
\* candidate on the bounded model: the total excess over fair share, summed over all queues
Excess2 == Sum(Queues, LAMBDA x : IF 2 * A(x) > fair2[x] THEN 2 * A(x) - fair2[x] ELSE 0)
PotentialNonIncreasing == [][\A q, v \in Leaves : Reclaim(q, v) => Excess2' <= Excess2]_vars

\* ---- export of the initial states as scenarios for the real scheduler ----
ScenarioOf == [ total |-> Total,
                leaves |-> [q \in Leaves |-> [dept |-> Parent(q), des |-> des[q], run |-> run[q], pend |-> pend[q]]] ]
Emit == PrintT(ToJson(ScenarioOf))
GenInit ==
  /\ run \in [Leaves -> 0..MaxReq] /\ pend \in [Leaves -> 0..MaxReq]
  /\ \A q \in Leaves : run[q] + pend[q] <= MaxReq
  /\ Used = Total                               \* full clusters: the interesting ones for reclaim
  /\ \E q \in Leaves : pend[q] > 0
  /\ \E dl \in [Leaves -> Quotas] : des = [q \in Queues |-> IF q \in Leaves THEN dl[q] ELSE Sum(Children(q), LAMBDA c : dl[c])]
  /\ fair2 = [q \in Queues |-> 0]
  /\ evictions = 0
GenNext == FALSE /\ UNCHANGED vars
=============================================================================
