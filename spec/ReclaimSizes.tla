---------------------------- MODULE ReclaimSizes ----------------------------
(* Design-level model of the scheduling CYCLE in a closed system with jobs of DIFFERENT SIZES
   (C15 at rule level; companion of ReclaimRules, which has interchangeable 1-GPU jobs and no cycle
   structure). One resource (whole GPUs of one pool), single-pod preemptible jobs of 1..MaxSize GPUs
   and two priorities, leaf queues under one department.

   What is modelled is the interplay that ReclaimRules abstracts away:
     * a cycle runs allocate, then reclaim, then preempt (pkg/scheduler/actions);
     * reclaim / preempt evict running jobs FOR a pending job, which is only NOMINATED: it holds the
       freed capacity until the end of the cycle (nothing else is bound onto releasing capacity);
     * nominations are not persisted: at the next cycle the evicted pods are gone, the nominated job
       is simply pending again, and allocate hands the free capacity to whichever pending job comes
       first in the queue order and fits - not necessarily the job the capacity was freed for;
     * the proportion plugin's rules guard every reclaim statement (CanReclaim, FitsStrategy at the
       victims' queue, Saturation), priorities guard preempt.
   Fair shares are constant in a closed system (demand is constant); as in ReclaimRules they are not
   computed but chosen in Init among all vectors the fair-share contract (C09) allows.

   Switch Persist = FALSE is the code as it is. TLC then exhibits eviction cycles among single-pod
   jobs of different sizes although every single statement obeys the rules (known findings: the
   move-based livelocks and the preempt+reclaim livelock of profile flat). Persist = TRUE is the
   repair direction named in the findings: a nominated job keeps its reservation and is bound first
   in the next cycle. The initial states are exported and run on the real scheduler for 8 cycles,
   where ClusterTrace judges C15_NoLasso on the real decisions.                                    *)
EXTENDS Integers, Sequences, FiniteSets, FiniteSetsExt, TLC, Json

CONSTANTS NQ,        \* leaf queues 1..NQ
          NJ,        \* jobs 1..NJ
          Total,     \* GPUs of the pool
          Sizes,     \* possible job sizes (GPUs)
          Prios,     \* possible job priorities
          Quotas,    \* possible deserved quotas of a queue
          M10,       \* saturation multiplier * 10
          Persist,   \* TRUE: nominations are honoured by the next cycle (repair direction)
          FixedJobs  \* <<>>: enumerate every job vector; else a sequence of [q, s, p] records (one scenario)

Queues == 1..NQ
Jobs == 1..NJ

VARIABLES jobs,   \* jobs[j] = [q, s, p]: queue, size, priority (constant after Init; index = age, older first)
          des,    \* des[q] deserved quota
          fair2,  \* fair2[q] fair share in half GPUs
          st,     \* st[j] \in {"pending", "running", "nominated", "evicted"} (evicted: pending again from the next cycle on)
          phase,  \* "allocate" | "reclaim" | "preempt"
          seen,   \* jobs the current action has already popped from its queue of pending jobs
          ev      \* evictions so far (observation only; hidden by the view)
vars == <<jobs, des, fair2, st, phase, seen, ev>>
View == <<jobs, des, fair2, st, phase, seen>>

Sum(S, f(_)) == MapThenSumSet(f, S)
Min2(a, b) == IF a < b THEN a ELSE b
JobsOf(q) == {j \in Jobs : jobs[j].q = q}
Size(j) == jobs[j].s
Holding == {j \in Jobs : st[j] \in {"running", "nominated"}}
Used == Sum(Holding, Size)
Free == Total - Used
A(q) == Sum({j \in JobsOf(q) : st[j] \in {"running", "nominated"}}, Size)     \* allocated incl. nominated (queue usage)
Req(q) == Sum(JobsOf(q), Size)

\* ---- fair-share vectors the contract allows (one level) ----
RECURSIVE Splits(_, _)
Splits(qs, target) ==
  IF qs = {} THEN (IF target = 0 THEN {<<>>} ELSE {})
  ELSE LET q == CHOOSE x \in qs : \A y \in qs : x <= y
       IN UNION {{(q :> v) @@ f : f \in Splits(qs \ {q}, target - v)} : v \in 0..Min2(2 * Req(q), target)}
FairVectors ==
  LET need == Sum(Queues, LAMBDA q : Min2(2 * des[q], 2 * Req(q)))
  IN {f \in Splits(Queues, Min2(2 * Total, Sum(Queues, LAMBDA q : 2 * Req(q)))) :
        need <= 2 * Total => \A q \in Queues : f[q] >= Min2(2 * des[q], 2 * Req(q))}

\* job vectors modulo permutation of jobs with equal age class: jobs are listed by (queue, priority desc, size)
Canonical(jv) == \A i \in 1..(NJ - 1) :
   \/ jv[i].q < jv[i + 1].q
   \/ jv[i].q = jv[i + 1].q /\ jv[i].p > jv[i + 1].p
   \/ jv[i].q = jv[i + 1].q /\ jv[i].p = jv[i + 1].p /\ jv[i].s <= jv[i + 1].s

InitCommon ==
  /\ IF FixedJobs = <<>> THEN jobs \in {jv \in [Jobs -> [q : Queues, s : Sizes, p : Prios]] : Canonical(jv)}
     ELSE jobs = FixedJobs
  /\ des \in [Queues -> Quotas]
  /\ st \in [Jobs -> {"pending", "running"}]
  /\ Used <= Total
  /\ phase = "allocate" /\ seen = {} /\ ev = 0
Init == InitCommon /\ fair2 \in FairVectors

\* ---- the order in which an action pops the pending jobs (utils.JobsOrderByQueues) ----
\* inside a queue: higher priority first, then older (smaller index)
Before(i, j) == jobs[i].q = jobs[j].q /\ (jobs[i].p > jobs[j].p \/ (jobs[i].p = jobs[j].p /\ i < j))
Waiting == {j \in Jobs : st[j] = "pending" /\ j \notin seen}
Heads == {j \in Waiting : ~\E i \in Waiting : Before(i, j)}          \* one per queue that has waiting jobs
\* between queues (proportion/queue_order.GetQueueOrderResult, one resource, equal queue priorities), for the head
\* jobs i of queue l and j of queue r: under-utilised before over-utilised (against the fair share); a queue that
\* stays within its deserved quota with the job first; a queue without any allocatable share that would hold
\* something last; then the smaller share (allocated + job) / max(deserved, fair share), the smaller share without
\* the job, the smaller allocatable share, the older queue
Alloc2(q) == IF 2 * des[q] > fair2[q] THEN 2 * des[q] ELSE fair2[q]
Over(q) == 2 * A(q) > fair2[q]
Starved(q, j) == A(q) + Size(j) <= des[q]
ZeroPen(q, j) == Alloc2(q) = 0 /\ A(q) + Size(j) > 0
\* share a / al as a pair, with "no allocatable share" = maximal penalty
ShareLess(a1, al1, a2, al2) ==
  IF al1 = 0 /\ al2 = 0 THEN a1 < a2
  ELSE IF al1 = 0 THEN a1 = 0 /\ a2 > 0
  ELSE IF al2 = 0 THEN a2 > 0
  ELSE a1 * al2 < a2 * al1
ShareEq(a1, al1, a2, al2) == ~ShareLess(a1, al1, a2, al2) /\ ~ShareLess(a2, al2, a1, al1)
QueueFirst(i, j) ==      \* head i of queue l is popped before head j of queue r
  LET l == jobs[i].q  r == jobs[j].q IN
  IF Over(l) # Over(r) THEN ~Over(l)
  ELSE IF Starved(l, i) # Starved(r, j) THEN Starved(l, i)
  ELSE IF ZeroPen(l, i) # ZeroPen(r, j) THEN ~ZeroPen(l, i)
  ELSE IF ~ShareEq(A(l) + Size(i), Alloc2(l), A(r) + Size(j), Alloc2(r)) THEN ShareLess(A(l) + Size(i), Alloc2(l), A(r) + Size(j), Alloc2(r))
  ELSE IF ~ShareEq(A(l), Alloc2(l), A(r), Alloc2(r)) THEN ShareLess(A(l), Alloc2(l), A(r), Alloc2(r))
  ELSE IF Alloc2(l) # Alloc2(r) THEN Alloc2(l) < Alloc2(r)
  ELSE l < r
IsNext(j) == j \in Heads /\ \A i \in Heads \ {j} : QueueFirst(j, i)

\* ---- allocate: every pending job is popped in order; it is bound when it fits ----
Allocate(j) ==
  /\ phase = "allocate" /\ IsNext(j)
  /\ st' = IF Size(j) <= Free THEN [st EXCEPT ![j] = "running"] ELSE st
  /\ seen' = seen \cup {j}
  /\ UNCHANGED <<jobs, des, fair2, phase, ev>>
PhaseDone(from, to) ==
  /\ phase = from /\ Waiting = {}
  /\ phase' = to /\ seen' = {}
  /\ UNCHANGED <<jobs, des, fair2, st, ev>>

\* ---- victims: a minimal set of running jobs that makes room for j ----
Room(j, V) == Size(j) <= Free + Sum(V, Size)
MinimalFor(j, V) == Room(j, V) /\ \A v \in V : ~Room(j, V \ {v})
Taken(V, x) == Sum({v \in V : jobs[v].q = x}, Size)
MaxOf(V, x) == LET S == {Size(v) : v \in {w \in V : jobs[w].q = x}} IN IF S = {} THEN 0 ELSE Max(S)

\* the proportion plugin's rules for reclaimer job j of queue q and victim set V
CanReclaim(j) == 2 * (A(jobs[j].q) + Size(j)) <= fair2[jobs[j].q]
\* some order of the victims of queue x passes the per-victim check iff the one with its biggest victim last does
FitsStrategy(j, V, x) ==
  LET q == jobs[j].q
      before == A(x) - Taken(V, x) + MaxOf(V, x)
  IN \/ 2 * before > fair2[x]
     \/ (A(q) + Size(j) <= des[q] /\ before > des[x])
Saturated(j, V, x) ==
  LET q == jobs[j].q
      aR == A(q) + Size(j)  aS == A(x) - Taken(V, x)
  IN 2 * aR > fair2[q] /\ fair2[x] > 0 /\ aR * M10 * fair2[x] >= aS * fair2[q] * 10
\* (a job that would fit the capacity released earlier in the cycle without a victim of its own is not served by
\* reclaim / preempt: their solver only builds scenarios with victims; allocate picks it up in the next cycle)
ReclaimOK(j, V) ==
  /\ V # {} /\ \A v \in V : st[v] = "running" /\ jobs[v].q # jobs[j].q
  /\ MinimalFor(j, V)
  /\ CanReclaim(j)
  /\ \A x \in {jobs[v].q : v \in V} : FitsStrategy(j, V, x) /\ ~Saturated(j, V, x)
PreemptOK(j, V) ==
  /\ V # {} /\ \A v \in V : st[v] = "running" /\ jobs[v].q = jobs[j].q /\ jobs[v].p < jobs[j].p
  /\ MinimalFor(j, V)
Victims == SUBSET {j \in Jobs : st[j] = "running"}
\* the action pops job j: if some victim set passes the rules one of them is committed (which one is the solver's
\* business: nondeterministic), otherwise the job is skipped; a job that fits without victims is nominated onto
\* the free capacity
Displace(j, V) ==
  /\ st' = [k \in Jobs |-> IF k = j THEN "nominated" ELSE IF k \in V THEN "evicted" ELSE st[k]]
  /\ ev' = ev + Cardinality(V)
  /\ seen' = seen \cup {j}
  /\ UNCHANGED <<jobs, des, fair2, phase>>
Skip(j) == seen' = seen \cup {j} /\ UNCHANGED <<jobs, des, fair2, st, phase, ev>>
Reclaim(j, V) == phase = "reclaim" /\ IsNext(j) /\ ReclaimOK(j, V) /\ Displace(j, V)
ReclaimSkip(j) == phase = "reclaim" /\ IsNext(j) /\ (~\E V \in Victims : ReclaimOK(j, V)) /\ Skip(j)
Preempt(j, V) == phase = "preempt" /\ IsNext(j) /\ PreemptOK(j, V) /\ Displace(j, V)
PreemptSkip(j) == phase = "preempt" /\ IsNext(j) /\ (~\E V \in Victims : PreemptOK(j, V)) /\ Skip(j)

\* end of the cycle: the evicted pods are gone; nominations are forgotten (Persist = FALSE: the job is pending
\* again and competes with everybody) or honoured (Persist = TRUE: the job is bound onto its reservation)
EndCycle ==
  /\ phase = "preempt" /\ Waiting = {}
  /\ st' = [k \in Jobs |-> IF st[k] = "nominated" THEN (IF Persist THEN "running" ELSE "pending")
                           ELSE IF st[k] = "evicted" THEN "pending" ELSE st[k]]
  /\ phase' = "allocate" /\ seen' = {}
  /\ UNCHANGED <<jobs, des, fair2, ev>>

Next ==
  \/ \E j \in Jobs : Allocate(j) \/ ReclaimSkip(j) \/ PreemptSkip(j)
  \/ PhaseDone("allocate", "reclaim") \/ PhaseDone("reclaim", "preempt")
  \/ \E j \in Jobs : \E V \in Victims : Reclaim(j, V) \/ Preempt(j, V)
  \/ EndCycle
Spec == Init /\ [][Next]_vars /\ WF_vars(Next)

TypeOK == Used <= Total /\ phase \in {"allocate", "reclaim", "preempt"}

\* C15 at rule level: every behaviour eventually stops evicting
Evicting == \E j \in Jobs : \E V \in Victims : Reclaim(j, V) \/ Preempt(j, V)
C15_EventuallyQuiet == <>[][~Evicting]_View
\* C07 at rule level: every victim queue is above its deserved quota or its fair share when its last victim is taken
C07_Rules == [][\A j \in Jobs : \A V \in Victims : Reclaim(j, V) =>
                  \A x \in {jobs[v].q : v \in V} :
                     LET before == A(x) - Taken(V, x) + MaxOf(V, x) IN before > des[x] \/ 2 * before > fair2[x]]_vars

\* ---- export of the initial states as scenarios for the real scheduler ----
ScenarioOf == [ total |-> Total, nq |-> NQ,
                des |-> [q \in Queues |-> des[q]],
                jobs |-> [j \in Jobs |-> [q |-> jobs[j].q, s |-> jobs[j].s, p |-> jobs[j].p, run |-> IF st[j] = "running" THEN 1 ELSE 0]] ]
Emit == PrintT(ToJson(ScenarioOf))
GenInit == InitCommon /\ fair2 = [q \in Queues |-> 0]
           /\ Free < Min({Size(j) : j \in {k \in Jobs : st[k] = "pending"}} \cup {Total + 1})   \* nothing pending fits: reclaim / preempt territory
           /\ \E j \in Jobs : st[j] = "pending"
GenNext == FALSE /\ UNCHANGED vars
=============================================================================
