------------------------------- MODULE Stmt -------------------------------
(* The scheduler's what-if transaction log (properties C13, C14 job/queue part).

   Shaped after pkg/scheduler/framework/statement.go (+ operations.go, session.go BindPod,
   api/node_info/{node_info,gpu_sharing_node_info}.go, api/podgroup_info/job_info.go,
   subgroup_info/podset.go, plugins/proportion/proportion.go allocate/deallocate handlers):

     EvictOp / PipelineOp / AllocateOp      = Statement.Evict / Pipeline / Allocate
     UnevictFn / UnpipelineFn / UnallocateFn= the stored reverse closures unevict / unpipeline / unallocate
     UndoAt                                 = undoOperation(i) (runs the closure, APPENDS undo(i))
     UnevictEarliest                        = Unevict = undoEarliestValidOperation(task, evict)
     RollbackFn                             = Rollback(cp): undo i = Len-1 .. cp, then truncate
     DiscardFn                              = Discard
     ConvertFn                              = ConvertAllAllocatedToPipelined(job)
     CommitBegin / CommitStep / CommitEnd   = the loop of Commit, one Cache call per step
     OpValid                                = operationValid (first undo that targets i decides, recursively)
     NodeAdd / NodeRemove / NodeUpdate / NodeConsolidate = NodeInfo.AddTask / RemoveTask / UpdateTask /
                                              ConsolidateSharedPodInfoToDifferentGPU (the node keeps a CLONE
                                              of the task: status and groups as of the add)
     JobUpdate                              = PodGroupInfo.UpdateTaskStatus (resetTaskState + AddTaskInfo,
                                              PodSet.AssignTask)
     QueueApply                             = proportion allocate / deallocate handler up the parent chain

   Deliberate oddities of the code that are modelled as they are: Pipeline on a pod already on the
   node without updateIfExists is Unevict; unevict does not restore NodeName; allocateOperation keeps
   a clone of the task (commit / convert continue on the clone: virtual flag of the clone); a failed
   Bind un-allocates the task, undoes the operations after it (newest first) and clears the log; callers of
   Allocate/Pipeline assign the pod's GPU groups before the call
   (gpu_sharing.AllocateFractionalGPUTaskToNode).

   Four places follow the INTENDED behaviour, not the code as first found (all were reproduced as
   defects on the real code by this module's traces; findings/F14, F15, F21, F22):
     - un-pipelining a shared pod that Pipeline had moved to another GPU of the same node puts the node's
       entry of the pod back (the resources on the previous GPU were never removed);
     - un-pipelining a virtually evicted pod gives it back the GPU groups its previous node holds for it (the
       caller overwrites the pod's groups before Pipeline, so the recorded "previous" groups were the new ones);
     - ConvertAllAllocatedToPipelined un-allocates with the virtual flag the pod had before its Allocate;
     - a failed Cache.Evict undoes, newest first, the still valid operations of that pod from the eviction on
       (the code un-evicted to the CURRENT, already Releasing, status and re-fired the allocate handlers).

   The whole-device transfer heuristics of gpu_sharing_node_info.go (guards N < Idle + usedGPUs ...) are
   transcribed as they are. With a nominated pod on a node that has shared GPUs they are not symmetric
   (known finding F23, DESIGN F9): in the larger scenarios this model itself violates C13_Rollback /
   C13_Discard - a prediction; the verdict comes from the real traces.

   Resource claims (DRA). A scenario may publish a node's GPUs as DRA devices (cfg.nodes[n].dra = cfg.nodes[n].gpu > 0:
   one ResourceSlice, no extended resource) and give a pod ONE ResourceClaim for one such device (cfg.pods[p].claim =
   object name, .pcn = name of the pod's claim entry - different from the object name for a template-generated claim -,
   .dev = index of the device a Running pod holds). In THIS model such a pod is a whole-GPU pod (kind "whole", gpu 1):
   node, workload and queue accounting of a DRA GPU is the accounting of a whole GPU (the D_ monitors of StmtTrace
   confirm that on the real code). Which device the DRA allocator picks, what the pod and the DRA manager remember
   about it across evict / un-evict, and that an undo restores it, is NOT modelled here: it is judged on the real
   observations only (StmtTrace!C13_ClaimsObs, C14_ClaimDevicesObs); the fields claim / pcn / dev are not read by
   this module.

   Quantities: GPUs in milli-GPU (1 device = 1000), CPU in milli-cores, shared GPU memory in units
   with one device = cfg.nodes[n].gmem units (100 when the node has no gpu.memory label). All scenario data lives in the variable cfg (constant along a
   behaviour) so that trace validation can load scenarios from the trace.                       *)
EXTENDS Integers, Sequences, FiniteSets, FiniteSetsExt, TLC, Json

CONSTANTS Cfg,       \* scenario used for model checking: [nodes, queues, jobs, pods, groups]
          MaxOps,    \* forward operations are enabled while Len(ops) < MaxOps
          MaxFail,   \* injected Cache failures per behaviour
          MaxStmts   \* statements per behaviour

VARIABLES cfg,       \* scenario
          pod,       \* pod -> [st, node, groups, virt, acc] (the PodInfo held by the workload; acc = GPU quota of its
                     \*         AcceptedResource, set whenever a node takes the pod: queues are charged with it)
          node,      \* node -> [ig, rg, ug, ic, rc, uc, um, rm, am, mark, pods]
          job,       \* job -> [ag, ac, naa, idx, psaa, psau, psal]
          queue,     \* queue -> [ag, anpg, ac, anpc]
          ops,       \* the operation log
          emitted,   \* Cache calls of the current / last Commit
          plan,      \* op log as of CommitBegin (history, for C13_CommitNet)
          phase,     \* "open" | "committing"
          ci,        \* next log index Commit looks at
          conv,      \* ConvertAllAllocatedToPipelined ran in this statement
          nfail, nstmt,
          bad,       \* exploration bound: a Rollback / Discard did not restore the checkpoint (not expanded further)
          saved,     \* history: saved[i] = Proj when Len(ops) = i was last reached by a forward operation
          act,       \* label of the last action
          hist       \* labels since Init (export of behaviours)

vars == <<cfg, pod, node, job, queue, ops, emitted, plan, phase, ci, conv, nfail, nstmt, bad, saved, act, hist>>
view == <<cfg, pod, node, job, queue, ops, emitted, plan, phase, ci, conv, nfail, nstmt, bad>>

NoNode == ""
NoPod  == [st |-> "none", groups |-> <<>>]

Statuses == {"Pending", "Allocated", "Pipelined", "Binding", "Running", "Releasing"}
ActiveUsed(s)      == s \in {"Allocated", "Pipelined", "Binding", "Bound", "Running", "Releasing"}
ActiveAllocated(s) == s \in {"Allocated", "Pipelined", "Binding", "Bound", "Running"}
Alive(s)           == s \in {"Allocated", "Pipelined", "Binding", "Bound", "Running", "Pending", "Gated"}
AllocatedSt(s)     == s \in {"Allocated", "Bound", "Binding", "Running"}
B(b) == IF b THEN 1 ELSE 0

Pods   == DOMAIN cfg.pods
Nodes  == DOMAIN cfg.nodes
Jobs   == DOMAIN cfg.jobs
Queues == DOMAIN cfg.queues
Groups == {cfg.groups[i] : i \in DOMAIN cfg.groups}
SeqSet(s) == {s[i] : i \in DOMAIN s}

PJ(p)     == cfg.pods[p].job
\* kinds: "whole" (gpu devices), "frac" (gpu-fraction: portion gq of a device), "mem" (gpu-memory: mem units)
Shared(p) == cfg.pods[p].kind \in {"frac", "mem"}
GQ(p)     == cfg.pods[p].gq                        \* GPUs of the request (ResReq.GPUs(): 0 for a gpu-memory request), milli-GPU
RG(p)     == IF Shared(p) THEN 0 ELSE cfg.pods[p].gq   \* GPUs tracked in Idle/Used/Releasing (shared GPUs excluded)
RC(p)     == cfg.pods[p].cpu
NG(n)     == cfg.nodes[n].gpu
GMem(n)   == cfg.nodes[n].gmem                     \* memory units of one device of node n (MemoryOfEveryGpuOnNode)
\* GetResourceGpuMemory(ResReq) on node n
MemOn(p, n) == IF cfg.pods[p].kind = "mem" THEN cfg.pods[p].mem ELSE (cfg.pods[p].gq * GMem(n)) \div 1000
\* GPU quota of the AcceptedResource node n gives the pod (setAcceptedResources): a gpu-memory request becomes the
\* portion of n's device memory, rounded up to 1/100 (getGpuMemoryFractionalOnNode)
AccQ(p, n) == IF cfg.pods[p].kind = "mem" THEN 10 * ((cfg.pods[p].mem * 100 + GMem(n) - 1) \div GMem(n)) ELSE cfg.pods[p].gq
JobPods(j) == {p \in Pods : PJ(p) = j}
NP(j)     == cfg.jobs[j].np = 1

RECURSIVE Chain(_)
Chain(q) == IF q = "" \/ q \notin Queues THEN {} ELSE {q} \cup Chain(cfg.queues[q].parent)

Sum(S, f(_)) == MapThenSumSet(f, S)
MinOf(S) == CHOOSE x \in S : \A y \in S : x <= y

(***************************************************************************)
(* Node accounting (transcription of node_info.go / gpu_sharing_node_info) *)
(***************************************************************************)
UsedSharedCount(nd) == Cardinality({g \in Groups : nd.um[g] > 0})
UsedGPUs(nd) == (nd.ug \div 1000) + UsedSharedCount(nd)          \* getNumberOfUsedGPUs
IdleWhole(nd) == nd.ig \div 1000

AddSharedG(n, nd, m, st, g) ==
  LET nd1 == [nd EXCEPT !.um[g] = @ + m]
  IN CASE st = "Releasing" ->
            LET nd2 == [nd1 EXCEPT !.rm[g] = @ + m, !.am[g] = @ + m]
            IN IF nd2.um[g] = nd2.rm[g]
               THEN LET nd3 == IF g \notin nd2.mark THEN [nd2 EXCEPT !.rg = @ + 1000, !.mark = @ \cup {g}] ELSE nd2
                    IN IF NG(n) < IdleWhole(nd3) + UsedGPUs(nd3) THEN [nd3 EXCEPT !.ig = @ - 1000] ELSE nd3
               ELSE nd2
       [] st = "Pipelined" ->
            LET nd2 == [nd1 EXCEPT !.rm[g] = @ - m]
            IN IF nd2.um[g] - m = nd2.rm[g] + m THEN [nd2 EXCEPT !.rg = @ - 1000] ELSE nd2
       [] OTHER ->
            LET nd2 == [nd1 EXCEPT !.am[g] = @ + m]
                nd3 == IF nd2.um[g] <= m /\ NG(n) < IdleWhole(nd2) + UsedGPUs(nd2) THEN [nd2 EXCEPT !.ig = @ - 1000] ELSE nd2
            IN IF g \in nd3.mark THEN [nd3 EXCEPT !.rg = @ - 1000, !.mark = @ \ {g}] ELSE nd3

RemoveSharedG(n, nd, m, st, g) ==
  LET nd1 == [nd EXCEPT !.um[g] = @ - m]
  IN CASE st = "Releasing" ->
            LET nd2 == [nd1 EXCEPT !.rm[g] = @ - m, !.am[g] = @ - m]
            IN IF nd2.um[g] <= 0
               THEN LET nd3 == IF NG(n) >= IdleWhole(nd2) + UsedGPUs(nd2) THEN [nd2 EXCEPT !.ig = @ + 1000] ELSE nd2
                    IN IF g \in nd3.mark THEN [nd3 EXCEPT !.rg = @ - 1000, !.mark = @ \ {g}] ELSE nd3
               ELSE nd2
       [] st = "Pipelined" ->
            LET nd2 == [nd1 EXCEPT !.rm[g] = @ + m]
            IN IF (nd2.um[g] + m = nd2.rm[g] - m) \/ (nd2.um[g] = 0 /\ nd2.rm[g] = 0)     \* isPipelinedToReleasingGpu
               THEN [nd2 EXCEPT !.rg = @ + 1000] ELSE nd2
       [] OTHER ->
            LET nd2 == [nd1 EXCEPT !.am[g] = @ - m]
                nd3 == IF nd2.um[g] <= 0 /\ NG(n) >= IdleWhole(nd2) + UsedGPUs(nd2) THEN [nd2 EXCEPT !.ig = @ + 1000] ELSE nd2
            IN IF nd3.um[g] # 0 /\ nd3.rm[g] = nd3.um[g] /\ g \notin nd3.mark              \* isGpuReleasingFromSharedTasks
               THEN [nd3 EXCEPT !.rg = @ + 1000, !.mark = @ \cup {g}] ELSE nd3

RECURSIVE AddSharedAll(_, _, _, _, _)
AddSharedAll(n, nd, m, st, gs) ==
  IF gs = <<>> THEN nd ELSE AddSharedAll(n, AddSharedG(n, nd, m, st, Head(gs)), m, st, Tail(gs))
RECURSIVE RemoveSharedAll(_, _, _, _, _)
RemoveSharedAll(n, nd, m, st, gs) ==
  IF gs = <<>> THEN nd ELSE RemoveSharedAll(n, RemoveSharedG(n, nd, m, st, Head(gs)), m, st, Tail(gs))

AddTaskRes(n, nd, p, st, gs) ==
  LET nd1 == [nd EXCEPT !.ug = @ + RG(p), !.uc = @ + RC(p)]
      nd2 == CASE st = "Releasing" -> [nd1 EXCEPT !.rg = @ + RG(p), !.rc = @ + RC(p), !.ig = @ - RG(p), !.ic = @ - RC(p)]
               [] st = "Pipelined" -> [nd1 EXCEPT !.rg = @ - RG(p), !.rc = @ - RC(p)]
               [] OTHER            -> [nd1 EXCEPT !.ig = @ - RG(p), !.ic = @ - RC(p)]
  IN IF Shared(p) THEN AddSharedAll(n, nd2, MemOn(p, n), st, gs) ELSE nd2

RemoveTaskRes(n, nd, p, st, gs) ==
  LET nd1 == [nd EXCEPT !.ug = @ - RG(p), !.uc = @ - RC(p)]
      nd2 == CASE st = "Releasing" -> [nd1 EXCEPT !.rg = @ - RG(p), !.rc = @ - RC(p), !.ig = @ + RG(p), !.ic = @ + RC(p)]
               [] st = "Pipelined" -> [nd1 EXCEPT !.rg = @ + RG(p), !.rc = @ + RC(p)]
               [] OTHER            -> [nd1 EXCEPT !.ig = @ + RG(p), !.ic = @ + RC(p)]
  IN IF Shared(p) THEN RemoveSharedAll(n, nd2, MemOn(p, n), st, gs) ELSE nd2

OnNode(nd, p) == nd.pods[p].st # "none"
\* AddTask: error (no change) if the task is already on the node
NodeAdd(n, nd, p, st, gs) ==
  IF OnNode(nd, p) THEN nd ELSE [AddTaskRes(n, nd, p, st, gs) EXCEPT !.pods[p] = [st |-> st, groups |-> gs]]
\* RemoveTask: uses the node's own clone (status / groups as of the add); error (no change) if absent
NodeRemove(n, nd, p) ==
  IF ~OnNode(nd, p) THEN nd
  ELSE [RemoveTaskRes(n, nd, p, nd.pods[p].st, nd.pods[p].groups) EXCEPT !.pods[p] = NoPod]
NodeUpdate(n, nd, p, st, gs) == IF ~OnNode(nd, p) THEN nd ELSE NodeAdd(n, NodeRemove(n, nd, p), p, st, gs)
\* addTask(ti, allowTaskToExistOnDifferentGPU = true): the old entry is dropped WITHOUT removing its resources
NodeConsolidate(n, nd, p, st, gs) == [AddTaskRes(n, nd, p, st, gs) EXCEPT !.pods[p] = [st |-> st, groups |-> gs]]

EmptyNode(n) ==
  [ig |-> 1000 * NG(n), rg |-> 0, ug |-> 0, ic |-> cfg.nodes[n].cpu, rc |-> 0, uc |-> 0,
   um |-> [g \in Groups |-> 0], rm |-> [g \in Groups |-> 0], am |-> [g \in Groups |-> 0],
   mark |-> {}, pods |-> [p \in Pods |-> NoPod]]

(***************************************************************************)
(* Workload counters (job_info.go UpdateTaskStatus, podset.go AssignTask)  *)
(***************************************************************************)
JobUpdate(jb, p, old, new) ==
  LET a1 == IF AllocatedSt(old) THEN [jb EXCEPT !.ag = @ - GQ(p), !.ac = @ - RC(p)] ELSE jb       \* resetTaskState
      a2 == [a1 EXCEPT !.idx[old] = @ - 1, !.naa = @ - B(ActiveAllocated(old))]                    \* deleteTaskIndex
      a3 == [a2 EXCEPT !.psaa = @ - B(ActiveAllocated(old)) + B(ActiveAllocated(new)),            \* PodSet.AssignTask
                       !.psau = @ - B(ActiveUsed(old)) + B(ActiveUsed(new)),
                       !.psal = @ - B(Alive(old)) + B(Alive(new))]
      a4 == [a3 EXCEPT !.idx[new] = @ + 1, !.naa = @ + B(ActiveAllocated(new))]                    \* addTaskIndex
  IN IF AllocatedSt(new) THEN [a4 EXCEPT !.ag = @ + GQ(p), !.ac = @ + RC(p)] ELSE a4

(***************************************************************************)
(* Queue usage (proportion allocateHandlerFn / deallocateHandlerFn)        *)
(***************************************************************************)
\* amt = GPU quota of the task's AcceptedResource at the time the handler fires
QueueApply(qs, p, sign, amt) ==
  LET ch == Chain(cfg.jobs[PJ(p)].queue)
      np == NP(PJ(p))
  IN [q \in Queues |->
        IF q \in ch
        THEN [ag   |-> qs[q].ag + sign * amt,   ac   |-> qs[q].ac + sign * RC(p),
              anpg |-> qs[q].anpg + sign * B(np) * amt, anpc |-> qs[q].anpc + sign * B(np) * RC(p)]
        ELSE qs[q]]

(***************************************************************************)
(* Declarative truth (C14) - written independently of the update code      *)
(***************************************************************************)
TruthJob(pd, j) ==
  [ag   |-> Sum({p \in JobPods(j) : AllocatedSt(pd[p].st)}, LAMBDA p : GQ(p)),
   ac   |-> Sum({p \in JobPods(j) : AllocatedSt(pd[p].st)}, LAMBDA p : RC(p)),
   naa  |-> Cardinality({p \in JobPods(j) : ActiveAllocated(pd[p].st)}),
   idx  |-> [s \in Statuses |-> Cardinality({p \in JobPods(j) : pd[p].st = s})],
   psaa |-> Cardinality({p \in JobPods(j) : ActiveAllocated(pd[p].st)}),
   psau |-> Cardinality({p \in JobPods(j) : ActiveUsed(pd[p].st)}),
   psal |-> Cardinality({p \in JobPods(j) : Alive(pd[p].st)})]

\* a queue is charged for the pods of its subtree that hold resources now or are nominated to
\* (active-allocated statuses); Releasing pods have been given back, Pending ones are only requested
QPods(pd, q, onlyNP) == {p \in Pods : q \in Chain(cfg.jobs[PJ(p)].queue) /\ ActiveAllocated(pd[p].st) /\ (onlyNP => NP(PJ(p)))}
TruthQueue(pd, q) ==
  [ag   |-> Sum(QPods(pd, q, FALSE), LAMBDA p : pd[p].acc), ac   |-> Sum(QPods(pd, q, FALSE), LAMBDA p : RC(p)),
   anpg |-> Sum(QPods(pd, q, TRUE), LAMBDA p : pd[p].acc),  anpc |-> Sum(QPods(pd, q, TRUE), LAMBDA p : RC(p))]

JobCounters(jb) == [ag |-> jb.ag, ac |-> jb.ac, naa |-> jb.naa, idx |-> jb.idx, psaa |-> jb.psaa, psau |-> jb.psau, psal |-> jb.psal]
QueueCounters(q) == [ag |-> q.ag, ac |-> q.ac, anpg |-> q.anpg, anpc |-> q.anpc]

JobOK(pd, jbs) == \A j \in Jobs : JobCounters(jbs[j]) = TruthJob(pd, j)
QueueOK(pd, qs) == \A q \in Queues : QueueCounters(qs[q]) = TruthQueue(pd, q)

(***************************************************************************)
(* Projection compared by C13: pods, nodes, workload counters, queues.      *)
(* The GPU groups of a Pending pod are a caller scratch field (gpu_sharing  *)
(* assigns them before Allocate / Pipeline; un-allocating does not and need *)
(* not reset them): normalised.                                            *)
(***************************************************************************)
\* (the accepted quota only means something while the pod holds or is nominated to resources)
NormPod(r) == [st |-> r.st, node |-> r.node, groups |-> IF r.st = "Pending" THEN <<>> ELSE r.groups, virt |-> r.virt,
               acc |-> IF ActiveAllocated(r.st) THEN r.acc ELSE 0]
ProjOf(pd, nds, jbs, qs) ==
  [pods |-> [p \in Pods |-> NormPod(pd[p])], nodes |-> nds,
   jobs |-> [j \in Jobs |-> JobCounters(jbs[j])], queues |-> [q \in Queues |-> QueueCounters(qs[q])]]

(***************************************************************************)
(* Statement operations as functions on S = [pod, node, job, queue, ops]   *)
(***************************************************************************)
OpRec(k, p, ps, pn, pg, pv, nn, tgt, mv) == [k |-> k, p |-> p, ps |-> ps, pn |-> pn, pg |-> pg, pv |-> pv, nn |-> nn, tgt |-> tgt, mv |-> mv]
UndoRec(i) == OpRec("undo", "", "", "", <<>>, FALSE, "", i, FALSE)

FireAlloc(S, p)   == [S EXCEPT !.queue = QueueApply(@, p, 1, S.pod[p].acc)]
FireDealloc(S, p) == [S EXCEPT !.queue = QueueApply(@, p, -1, S.pod[p].acc)]

\* operationValid(i): the FIRST undo that targets i decides, recursively
RECURSIVE OpValid(_, _)
OpValid(os, i) ==
  LET U == {u \in 1..Len(os) : os[u].k = "undo" /\ os[u].tgt = i}
  IN IF U = {} THEN TRUE ELSE ~OpValid(os, MinOf(U))

\* independent reading of "still valid": undone an odd number of times by undos that themselves count
RECURSIVE NetValid(_, _)
NetValid(os, i) ==
  LET U == {u \in 1..Len(os) : os[u].k = "undo" /\ os[u].tgt = i /\ NetValid(os, u)}
  IN Cardinality(U) % 2 = 0

EvictOp(S, p) ==
  LET pr == S.pod[p]
      n  == pr.node
      S1 == [S EXCEPT !.job[PJ(p)] = JobUpdate(@, p, pr.st, "Releasing"),
                      !.pod[p].st = "Releasing", !.pod[p].acc = AccQ(p, n),
                      !.node[n] = NodeUpdate(n, @, p, "Releasing", pr.groups)]
      S2 == FireDealloc(S1, p)
  IN [S2 EXCEPT !.ops = Append(@, OpRec("evict", p, pr.st, n, pr.groups, pr.virt, "", 0, FALSE)),
                !.pod[p].virt = TRUE]

UnevictFn(S, p, ps, n, pg, pv) ==
  LET S1 == [S EXCEPT !.job[PJ(p)] = JobUpdate(@, p, S.pod[p].st, ps),
                      !.pod[p] = [st |-> ps, node |-> @.node, groups |-> pg, virt |-> pv, acc |-> AccQ(p, n)]]
      S2 == [S1 EXCEPT !.node[n] = IF OnNode(@, p) THEN NodeUpdate(n, @, p, ps, pg) ELSE NodeAdd(n, @, p, ps, pg)]
  IN FireAlloc(S2, p)          \* the node takes the pod (AcceptedResource recomputed) BEFORE the handlers fire

\* mv: Pipeline had moved the pod to another GPU of the node (NodeConsolidate): its entry is put back
UnpipelineFn(S, p, pn, ps, pg, pv, mv) ==
  LET host == S.pod[p].node
      S1 == [S EXCEPT !.job[PJ(p)] = JobUpdate(@, p, S.pod[p].st, ps),
                      !.pod[p] = [st |-> ps, node |-> pn, groups |-> pg, virt |-> pv, acc |-> @.acc]]
      S2 == [S1 EXCEPT !.node[host] = IF mv THEN [NodeRemove(host, @, p) EXCEPT !.pods[p] = [st |-> ps, groups |-> pg]]
                                      ELSE NodeRemove(host, @, p)]
      \* a pod that is still on its previous node has the GPU groups that node holds for it (the recorded
      \* previous groups may be the ones the caller assigned for this Pipeline)
      S3 == IF pn \in Nodes /\ OnNode(S2.node[pn], p) THEN [S2 EXCEPT !.pod[p].groups = S2.node[pn].pods[p].groups] ELSE S2
  IN FireDealloc(S3, p)

UnallocateFn(S, p, pv) ==
  LET host == S.pod[p].node
      S1 == [S EXCEPT !.job[PJ(p)] = JobUpdate(@, p, S.pod[p].st, "Pending"), !.pod[p].st = "Pending"]
      S2 == [S1 EXCEPT !.node[host] = NodeRemove(host, @, p)]
      S3 == [S2 EXCEPT !.pod[p].node = NoNode, !.pod[p].virt = pv]
  IN FireDealloc(S3, p)

RECURSIVE UndoAt(_, _)
UndoAt(S, i) ==
  IF ~OpValid(S.ops, i) THEN S
  ELSE LET op == S.ops[i]
           S1 == CASE op.k = "evict"    -> UnevictFn(S, op.p, op.ps, op.pn, op.pg, op.pv)
                   [] op.k = "pipeline" -> UnpipelineFn(S, op.p, op.pn, op.ps, op.pg, op.pv, op.mv)
                   [] op.k = "allocate" -> UnallocateFn(S, op.p, op.pv)
                   [] op.k = "undo"     ->
                        \* redo closure of the undone operation. Surviving undo entries only ever target evict
                        \* entries (Unevict); the other redo closures are unreachable for well-formed programs
                        IF S.ops[op.tgt].k = "evict" THEN EvictOp(S, S.ops[op.tgt].p)
                        ELSE Assert(FALSE, <<"unreachable redo", op, S.ops[op.tgt]>>)
       IN [S1 EXCEPT !.ops = Append(@, UndoRec(i))]

\* Unevict = undoEarliestValidOperation(task, evict); error (no change) if there is none
EvictIdx(os, p) == {i \in 1..Len(os) : os[i].k = "evict" /\ os[i].p = p /\ OpValid(os, i)}
UnevictEarliest(S, p) == IF EvictIdx(S.ops, p) = {} THEN S ELSE UndoAt(S, MinOf(EvictIdx(S.ops, p)))

\* Unevict / Pipeline return an error (and change nothing but the task's groups) when the pod is on the node and
\* there is no valid evict entry of it in THIS statement (e.g. its eviction was abandoned by a failed Commit)
PipeMv(S, p, n, gs) ==
  LET g == IF Shared(p) THEN gs ELSE S.pod[p].groups
  IN OnNode(S.node[n], p) /\ Len(g) > 0 /\ Shared(p) /\ g # <<"-1">> /\ g # S.node[n].pods[p].groups
PipelineFails(S, p, n, upd, gs) == OnNode(S.node[n], p) /\ ~upd /\ ~PipeMv(S, p, n, gs) /\ EvictIdx(S.ops, p) = {}
UnevictFails(S, p) == EvictIdx(S.ops, p) = {}

\* gs: the GPU groups the caller assigned to the task before the call (shared pods only)
PipelineOp(S, p, n, upd, gs) ==
  LET pr0 == S.pod[p]
      pr  == IF Shared(p) THEN [pr0 EXCEPT !.groups = gs] ELSE pr0
      on  == OnNode(S.node[n], p)
      mv  == on /\ Len(pr.groups) > 0 /\ Shared(p) /\ pr.groups # <<"-1">> /\ pr.groups # S.node[n].pods[p].groups
  IN IF on /\ ~upd /\ ~mv
     THEN UnevictEarliest([S EXCEPT !.pod[p].groups = S.node[n].pods[p].groups], p)
     ELSE LET prevG == IF mv THEN S.node[n].pods[p].groups ELSE pr.groups
              S1 == [S EXCEPT !.job[PJ(p)] = JobUpdate(@, p, pr.st, "Pipelined"),
                              !.pod[p] = [st |-> "Pipelined", node |-> n, groups |-> pr.groups, virt |-> pr.virt, acc |-> AccQ(p, n)]]
              S2 == [S1 EXCEPT !.node[n] = IF mv THEN NodeConsolidate(n, @, p, "Pipelined", pr.groups)
                                            ELSE IF on THEN NodeUpdate(n, @, p, "Pipelined", pr.groups)
                                            ELSE NodeAdd(n, @, p, "Pipelined", pr.groups)]
              S3 == FireAlloc(S2, p)
          IN [S3 EXCEPT !.ops = Append(@, OpRec("pipeline", p, pr.st, pr.node, prevG, pr.virt, n, 0, mv)),
                        !.pod[p].virt = TRUE]

AllocateOp(S, p, n, gs) ==
  LET pr0 == S.pod[p]
      pr  == IF Shared(p) THEN [pr0 EXCEPT !.groups = gs] ELSE pr0
      S1 == [S EXCEPT !.job[PJ(p)] = JobUpdate(@, p, pr.st, "Allocated"),
                      !.pod[p] = [st |-> "Allocated", node |-> n, groups |-> pr.groups, virt |-> pr.virt, acc |-> AccQ(p, n)]]
      S2 == [S1 EXCEPT !.node[n] = NodeAdd(n, @, p, "Allocated", pr.groups)]
      S3 == FireAlloc(S2, p)
      \* the log keeps a CLONE of the task: groups (pg) and virtual flag (pv) as of now
  IN [S3 EXCEPT !.ops = Append(@, OpRec("allocate", p, pr.st, pr.node, pr.groups, pr.virt, n, 0, FALSE)),
                !.pod[p].virt = TRUE]

RECURSIVE UndoDown(_, _, _)
UndoDown(S, i, lo) == IF i < lo THEN S ELSE UndoDown(UndoAt(S, i), i - 1, lo)

RollbackFn(S, cp) == [UndoDown(S, Len(S.ops), cp + 1) EXCEPT !.ops = SubSeq(@, 1, cp)]
DiscardFn(S) == IF Len(S.ops) = 0 THEN S ELSE [UndoDown(S, Len(S.ops), 1) EXCEPT !.ops = <<>>]

\* ConvertAllAllocatedToPipelined(j): for each allocate entry of j (log order, entries as of the start):
\* unallocate(clone, nextNode, clone's virtual flag); Pipeline(clone, clone.NodeName, TRUE) (appends); then drop j's
\* allocate entries. (The code as first found passed TRUE: a later Discard left the Pending pod flagged virtual, F21.)
RECURSIVE ConvertFrom(_, _, _, _)
ConvertFrom(S, j, i, n0) ==
  IF i > n0 THEN S
  ELSE LET op == S.ops[i]
       IN IF op.k = "allocate" /\ PJ(op.p) = j
          THEN LET S1 == UnallocateFn([S EXCEPT !.pod[op.p].groups = op.pg], op.p, op.pv)
               IN ConvertFrom(PipelineOp(S1, op.p, op.nn, TRUE, op.pg), j, i + 1, n0)
          ELSE ConvertFrom(S, j, i + 1, n0)
ConvertFn(S, j) ==
  LET S1 == ConvertFrom(S, j, 1, Len(S.ops))
  IN [S1 EXCEPT !.ops = SelectSeq(@, LAMBDA op : ~(op.k = "allocate" /\ PJ(op.p) = j))]

ShouldPipelineJob(pd, j) ==
  /\ \E p \in JobPods(j) : pd[p].st = "Pipelined"
  /\ Cardinality({p \in JobPods(j) : pd[p].st # "Pipelined" /\ ActiveAllocated(pd[p].st)}) < cfg.jobs[j].min

RECURSIVE UndoTaskDown(_, _, _, _)
UndoTaskDown(S, p, j, lo) ==
  IF j < lo THEN S
  ELSE UndoTaskDown(IF S.ops[j].k # "undo" /\ S.ops[j].p = p THEN UndoAt(S, j) ELSE S, p, j - 1, lo)

\* undoOperationsFrom(lo): every still valid non-undo entry at or after lo, newest first
RECURSIVE UndoRestDown(_, _, _)
UndoRestDown(S, j, lo) ==
  IF j < lo THEN S
  ELSE UndoRestDown(IF S.ops[j].k # "undo" THEN UndoAt(S, j) ELSE S, j - 1, lo)

\* Commit, one valid log entry at a time. NextValid = first valid index >= ci, 0 if none.
\* (undo entries match no case of the switch in Commit)
NextValid(os, c) ==
  IF c = 0 THEN 0
  ELSE LET V == {i \in c..Len(os) : os[i].k # "undo" /\ OpValid(os, i)} IN IF V = {} THEN 0 ELSE MinOf(V)
CallOf(op) == [c |-> CASE op.k = "evict" -> "evict" [] op.k = "pipeline" -> "pipelined" [] op.k = "allocate" -> "bind" [] OTHER -> "none",
               p |-> op.p]
\* returns [S, stop]: state after the Cache call returned ok / failed
CommitOne(S, i, ok) ==
  LET op == S.ops[i]
      p  == op.p
  IN CASE op.k = "evict" ->
            IF ok THEN [S |-> [S EXCEPT !.pod[p].virt = FALSE], stop |-> FALSE]
            ELSE \* failed eviction: the still valid operations of p from i on are undone, newest first
                 [S |-> UndoTaskDown(S, p, Len(S.ops), i), stop |-> FALSE]
       [] op.k = "pipeline" -> [S |-> S, stop |-> FALSE]
       [] op.k = "allocate" ->
            \* commitAllocate works on the CLONE kept in the log: NodeName = nn, groups = pg, virtual = pv
            IF ok THEN [S |-> [S EXCEPT !.job[PJ(p)] = JobUpdate(@, p, S.pod[p].st, "Binding"),
                                         !.pod[p] = [st |-> "Binding", node |-> op.nn, groups |-> op.pg, virt |-> op.pv, acc |-> @.acc]],
                        stop |-> FALSE]
            ELSE LET S1 == UnallocateFn([S EXCEPT !.pod[p] = [st |-> @.st, node |-> op.nn, groups |-> op.pg, virt |-> op.pv, acc |-> @.acc]], p, FALSE)
                     \* the commit stops here: the entries after the failed one are undone, newest first (6091c57; the code
                     \* as first found abandoned them and left their virtual effect in the session)
                     S2 == UndoRestDown(S1, Len(S1.ops), i + 1)
                 IN [S |-> [S2 EXCEPT !.ops = <<>>], stop |-> TRUE]
       [] OTHER -> [S |-> S, stop |-> FALSE]

(***************************************************************************)
(* State machine                                                           *)
(***************************************************************************)
Cur == [pod |-> pod, node |-> node, job |-> job, queue |-> queue, ops |-> ops]
Proj == ProjOf(pod, node, job, queue)
ProjS(S) == ProjOf(S.pod, S.node, S.job, S.queue)

Lbl(n, p, nd, upd, g, cp, j, ok) == [n |-> n, p |-> p, node |-> nd, upd |-> upd, g |-> g, cp |-> cp, j |-> j, ok |-> ok]

\* pods of node n in a fixed order (initial accounting = fold of AddTask, as the snapshot does)
RECURSIVE FoldInit(_, _, _)
FoldInit(n, nd, ps) ==
  IF ps = {} THEN nd
  ELSE LET p == CHOOSE x \in ps : \A y \in ps : cfg.pods[x].ord <= cfg.pods[y].ord
       IN FoldInit(n, NodeAdd(n, nd, p, cfg.pods[p].st, cfg.pods[p].groups), ps \ {p})

InitPod == [p \in Pods |-> [st |-> cfg.pods[p].st, node |-> cfg.pods[p].node, groups |-> cfg.pods[p].groups, virt |-> FALSE,
                             acc |-> IF ActiveUsed(cfg.pods[p].st) THEN AccQ(p, cfg.pods[p].node) ELSE 0]]

Init ==
  /\ cfg = Cfg
  /\ pod = InitPod
  /\ node = [n \in Nodes |-> FoldInit(n, EmptyNode(n), {p \in Pods : cfg.pods[p].node = n /\ ActiveUsed(cfg.pods[p].st)})]
  /\ job = [j \in Jobs |-> TruthJob(InitPod, j)]
  /\ queue = [q \in Queues |-> TruthQueue(InitPod, q)]
  /\ ops = <<>> /\ emitted = <<>> /\ plan = <<>> /\ phase = "open" /\ ci = 0 /\ conv = FALSE
  /\ nfail = 0 /\ nstmt = 1 /\ bad = FALSE
  /\ saved = [i \in 0..(MaxOps + 1) |-> IF i = 0 THEN ProjOf(InitPod, node, job, queue) ELSE <<>>]
  /\ act = Lbl("Init", "", "", FALSE, <<>>, 0, "", TRUE)
  /\ hist = <<>>

\* assign the five data variables from S', record history
Apply(S, lbl, forward) ==
  /\ pod' = S.pod /\ node' = S.node /\ job' = S.job /\ queue' = S.queue /\ ops' = S.ops
  /\ act' = lbl /\ hist' = Append(hist, lbl)
  /\ saved' = IF forward /\ Len(S.ops) <= MaxOps + 1 THEN [saved EXCEPT ![Len(S.ops)] = ProjS(S)] ELSE saved
  /\ bad' = (bad \/ (lbl.n = "Rollback" /\ ProjS(S) # saved[lbl.cp]) \/ (lbl.n = "Discard" /\ ProjS(S) # saved[0]))
  /\ UNCHANGED cfg

Open == phase = "open" /\ ~conv
CanAppend == Len(ops) < MaxOps

\* ---- caller-side fitness (when the actions call the operations) ----
FreshGroups == {g \in Groups :
                  /\ \A n \in Nodes : node[n].um[g] = 0 /\ node[n].rm[g] = 0 /\ node[n].am[g] = 0 /\ g \notin node[n].mark
                                      /\ \A p \in Pods : g \notin SeqSet(node[n].pods[p].groups)
                  /\ \A p \in Pods : pod[p].st = "Pending" \/ g \notin SeqSet(pod[p].groups)
                  /\ \A i \in 1..Len(ops) : g \notin SeqSet(ops[i].pg)}
GIdx(g) == CHOOSE i \in DOMAIN cfg.groups : cfg.groups[i] = g
FreshSet == IF FreshGroups = {} THEN {} ELSE {CHOOSE g \in FreshGroups : \A h \in FreshGroups : GIdx(g) <= GIdx(h)}   \* one canonical fresh id
GroupFitsAlloc(n, g, p) == node[n].um[g] > 0 /\ node[n].am[g] # node[n].rm[g] /\ GMem(n) - node[n].am[g] - MemOn(p, n) >= 0
GroupFitsPipe(n, g, p)  == node[n].um[g] > 0 /\ node[n].am[g] # node[n].rm[g] /\ GMem(n) - node[n].am[g] + node[n].rm[g] - MemOn(p, n) >= 0
AllocChoices(p, n) ==
  IF ~Shared(p) THEN IF node[n].ig >= RG(p) /\ node[n].ic >= RC(p) THEN {<<>>} ELSE {}
  ELSE IF node[n].ic < RC(p) THEN {}
       ELSE {<<g>> : g \in {g \in Groups : GroupFitsAlloc(n, g, p)}} \cup (IF node[n].ig >= 1000 THEN {<<g>> : g \in FreshSet} ELSE {})
PipeChoices(p, n) ==
  IF ~Shared(p) THEN IF node[n].ig + node[n].rg >= RG(p) /\ node[n].ic + node[n].rc >= RC(p) THEN {<<>>} ELSE {}
  ELSE IF node[n].ic + node[n].rc < RC(p) THEN {}
       ELSE {<<g>> : g \in {g \in Groups : GroupFitsPipe(n, g, p)}} \cup (IF node[n].ig + node[n].rg >= 1000 THEN {<<g>> : g \in FreshSet} ELSE {})

Evict(p) ==
  /\ Open /\ CanAppend /\ pod[p].st = "Running"
  /\ Apply(EvictOp(Cur, p), Lbl("Evict", p, "", FALSE, <<>>, 0, "", TRUE), TRUE)
  /\ UNCHANGED <<emitted, plan, phase, ci, conv, nfail, nstmt>>

Pipeline(p, n, upd, gs) ==
  /\ Open /\ CanAppend
  /\ \/ pod[p].st = "Pending"
     \/ pod[p].st = "Releasing" /\ pod[p].virt /\ ~upd
  /\ \/ gs \in PipeChoices(p, n)
     \/ Shared(p) /\ OnNode(node[n], p) /\ gs = node[n].pods[p].groups       \* back onto its own GPU
  /\ Apply(PipelineOp(Cur, p, n, upd, gs), Lbl("Pipeline", p, n, upd, gs, 0, "", TRUE), TRUE)
  /\ UNCHANGED <<emitted, plan, phase, ci, conv, nfail, nstmt>>

Allocate(p, n, gs) ==
  /\ Open /\ CanAppend /\ pod[p].st = "Pending"
  /\ gs \in AllocChoices(p, n)
  /\ Apply(AllocateOp(Cur, p, n, gs), Lbl("Allocate", p, n, FALSE, gs, 0, "", TRUE), TRUE)
  /\ UNCHANGED <<emitted, plan, phase, ci, conv, nfail, nstmt>>

Unevict(p) ==
  /\ Open /\ CanAppend /\ pod[p].st = "Releasing" /\ pod[p].virt /\ EvictIdx(ops, p) # {}
  /\ Apply(UnevictEarliest(Cur, p), Lbl("Unevict", p, "", FALSE, <<>>, 0, "", TRUE), TRUE)
  /\ UNCHANGED <<emitted, plan, phase, ci, conv, nfail, nstmt>>

Rollback(cp) ==
  /\ Open /\ cp \in 0..(Len(ops) - 1)
  /\ Apply(RollbackFn(Cur, cp), Lbl("Rollback", "", "", FALSE, <<>>, cp, "", TRUE), FALSE)
  /\ UNCHANGED <<emitted, plan, phase, ci, conv, nfail, nstmt>>

NewStatement == nstmt' = nstmt + 1 /\ conv' = FALSE /\ phase' = "open" /\ ci' = 0

Discard ==
  /\ phase = "open" /\ Len(ops) > 0
  /\ Apply(DiscardFn(Cur), Lbl("Discard", "", "", FALSE, <<>>, 0, "", TRUE), TRUE)
  /\ NewStatement
  /\ UNCHANGED <<emitted, plan, nfail>>

Convert(j) ==
  /\ Open /\ ShouldPipelineJob(pod, j)
  /\ \A i \in 1..Len(ops) : ops[i].k \in {"allocate", "pipeline"}          \* allocate-action shaped statement
  /\ \E i \in 1..Len(ops) : ops[i].k = "allocate" /\ PJ(ops[i].p) = j
  /\ Apply(ConvertFn(Cur, j), Lbl("Convert", "", "", FALSE, <<>>, 0, j, TRUE), FALSE)
  /\ conv' = TRUE
  /\ UNCHANGED <<emitted, plan, phase, ci, nfail, nstmt>>

CommitBegin ==
  /\ phase = "open" /\ Len(ops) > 0
  /\ phase' = "committing" /\ ci' = 1 /\ emitted' = <<>> /\ plan' = ops
  /\ act' = Lbl("CommitBegin", "", "", FALSE, <<>>, 0, "", TRUE) /\ hist' = Append(hist, act')
  /\ UNCHANGED <<cfg, pod, node, job, queue, ops, conv, nfail, nstmt, saved, bad>>

CommitStep(ok) ==
  /\ phase = "committing"
  /\ LET i == NextValid(ops, ci) IN
       /\ i # 0
       /\ ok \/ (ops[i].k \in {"evict", "allocate"} /\ nfail < MaxFail)
       /\ LET r == CommitOne(Cur, i, ok) IN
            /\ Apply(r.S, Lbl("CommitStep", ops[i].p, "", FALSE, <<>>, 0, "", ok), FALSE)
            /\ emitted' = Append(emitted, [c |-> CallOf(ops[i]).c, p |-> ops[i].p, ok |-> ok])
            /\ ci' = IF r.stop THEN 0 ELSE i + 1
            /\ nfail' = nfail + B(~ok)
  /\ UNCHANGED <<plan, phase, conv, nstmt>>

CommitEnd ==
  /\ phase = "committing"
  /\ ci = 0 \/ NextValid(ops, ci) = 0
  /\ ops' = <<>>
  /\ act' = Lbl("CommitEnd", "", "", FALSE, <<>>, 0, "", TRUE) /\ hist' = Append(hist, act')
  /\ saved' = [saved EXCEPT ![0] = Proj]
  /\ NewStatement
  /\ UNCHANGED <<cfg, pod, node, job, queue, emitted, plan, nfail, bad>>

Next ==
  /\ nstmt <= MaxStmts /\ ~bad
  /\ \/ \E p \in Pods : Evict(p) \/ Unevict(p)
     \/ \E p \in Pods, n \in Nodes, upd \in BOOLEAN : \E gs \in {<<>>} \cup {<<g>> : g \in Groups} : Pipeline(p, n, upd, gs)
     \/ \E p \in Pods, n \in Nodes : \E gs \in {<<>>} \cup {<<g>> : g \in Groups} : Allocate(p, n, gs)
     \/ \E cp \in 0..MaxOps : Rollback(cp)
     \/ Discard
     \/ \E j \in Jobs : Convert(j)
     \/ CommitBegin
     \/ \E ok \in BOOLEAN : CommitStep(ok)
     \/ CommitEnd

Spec == Init /\ [][Next]_vars

\* export of behaviours: one line per transition = the labels of a path from Init that ends with it
PathOut == PrintT("PATH " \o ToJson(hist'))

(***************************************************************************)
(* Properties                                                              *)
(***************************************************************************)
TypeOK ==
  /\ \A p \in Pods : pod[p].st \in Statuses /\ pod[p].node \in Nodes \cup {NoNode} /\ pod[p].virt \in BOOLEAN
  /\ phase \in {"open", "committing"}
  /\ \A i \in 1..Len(ops) : ops[i].k \in {"evict", "pipeline", "allocate", "undo"}

\* C13: rollback / discard restore the projection of the checkpoint
C13_Rollback == [][act'.n = "Rollback" => Proj' = saved[act'.cp]]_vars
C13_Discard  == [][act'.n = "Discard" => Proj' = saved[0]]_vars

\* C13: Commit emits exactly the net effect of the entries still valid (in log order), stops after a
\* failed bind, never emits for an undone entry, each pod at most once per call kind
NetCalls(os) == LET V == SelectSeq([i \in 1..Len(os) |-> [i |-> i, op |-> os[i]]], LAMBDA r : r.op.k # "undo" /\ NetValid(os, r.i))
                IN [x \in 1..Len(V) |-> CallOf(V[x].op)]
\* em matches nc in order; the entries of a pod whose eviction failed earlier are void (Commit undoes them:
\* nothing may be emitted for them); when Commit is done nothing else may be missing unless a bind failed
RECURSIVE Match(_, _, _, _)
Match(nc, em, failed, done) ==
  IF nc # <<>> /\ Head(nc).p \in failed THEN Match(Tail(nc), em, failed, done)
  ELSE IF em = <<>> THEN (~done) \/ nc = <<>>
  ELSE /\ nc # <<>>
       /\ Head(nc).c = Head(em).c /\ Head(nc).p = Head(em).p
       /\ Match(Tail(nc), Tail(em), IF Head(em).c = "evict" /\ ~Head(em).ok THEN failed \cup {Head(em).p} ELSE failed,
                done /\ ~(Len(em) = 1 /\ Head(em).c = "bind" /\ ~Head(em).ok))
CommitNetOK(pl, em, done) ==
  /\ Match(NetCalls(pl), em, {}, done)
  /\ \A x, y \in 1..Len(em) : (x # y /\ em[x].c = em[y].c) => em[x].p # em[y].p
C13_CommitNet == CommitNetOK(plan, emitted, phase = "open")

\* C14 (workload / queue part): counters equal the values recomputed from the pod statuses
C14_Job == JobOK(pod, job)
C14_Queue == QueueOK(pod, queue)
=============================================================================
