--------------------------- MODULE FairShareContract ---------------------------
(* The documented contract of fair-share division among sibling queues (property C09), as
   predicates over an input record and a result; no variables. Used by FairShare (design model and
   trace validation of SetResourcesShare) and by Cluster (fair shares of real sessions).        *)
EXTENDS Integers, Sequences, FiniteSets, FiniteSetsExt, TLC

CONSTANTS Scale,      \* units per rounding unit
          Slack       \* tolerance (in 1/Scale units) when judging float results

Unl == -1

Min2(a, b) == IF a < b THEN a ELSE b
Max2(a, b) == IF a > b THEN a ELSE b
SumOver(S, f(_)) == MapThenSumSet(f, S)

(***************************************************************************)
(* The contract, over an input record                                      *)
(*   inp = [total, kn, kd, queues : Seq([des, lim, w, prio, req, use])]    *)
(* and a result fs : Seq(Int) aligned with inp.queues.                     *)
(***************************************************************************)
Idx(inp) == 1..Len(inp.queues)
Q(inp, i) == inp.queues[i]
Des(inp, i) == IF Q(inp, i).des = Unl THEN inp.total ELSE Q(inp, i).des
CapReq(inp, i) == IF Q(inp, i).lim = Unl THEN Q(inp, i).req ELSE Min2(Q(inp, i).lim, Q(inp, i).req)
Given(inp, i) == Min2(Des(inp, i), CapReq(inp, i))
Surplus(inp, fs, i) == fs[i] - Given(inp, i)
ToDivide(inp) == Max2(0, inp.total - SumOver(Idx(inp), LAMBDA i : Given(inp, i)))
Left(inp, fs) == ToDivide(inp) - SumOver(Idx(inp), LAMBDA i : Surplus(inp, fs, i))

\* a queue that still wants resources (judged with tolerance s: s = 0 inside the model)
Wants(inp, fs, i, s) == fs[i] + s < CapReq(inp, i)
\* sum of over-quota weights of the queues of priority p that still want resources
\* (wf[j] = 1 iff queue j still has a positive remaining request in the final state: computed
\*  exactly by the model, logged from the real floats by the harness)
WSum(inp, wf, p) == SumOver({j \in Idx(inp) : Q(inp, j).prio = p /\ wf[j] = 1}, LAMBDA j : Q(inp, j).w)
\* numerator of the effective (time-based-fairness adjusted) weight of queue i among the wanting
\* queues of its priority: max(0, nW + k (nW - usage)) > 0 with nW = w/W, k = kn/kd, usage = use/Scale
EffNum(inp, wf, i) ==
  LET W == WSum(inp, wf, Q(inp, i).prio)
  IN  Max2(0, Q(inp, i).w * (inp.kd + inp.kn) * Scale - inp.kn * Q(inp, i).use * W)
EffPos(inp, fs, wf, i, s) == Wants(inp, fs, i, s) /\ wf[i] = 1 /\ Q(inp, i).w > 0 /\ EffNum(inp, wf, i) > 0

C09c_Lower(inp, fs) == \A i \in Idx(inp) : fs[i] + Slack >= Given(inp, i)
C09c_Upper(inp, fs) == \A i \in Idx(inp) : fs[i] < Max2(Given(inp, i), CapReq(inp, i)) + Scale + Slack
C09c_Conservation(inp, fs) ==
  SumOver(Idx(inp), LAMBDA i : Surplus(inp, fs, i)) <= ToDivide(inp) + Slack * Len(inp.queues)
C09c_NoWaste(inp, fs, wf) ==
  Left(inp, fs) > Slack * (Len(inp.queues) + 1) => \A i \in Idx(inp) : ~EffPos(inp, fs, wf, i, Slack)
\* while a higher priority holds a queue that still wants resources and has positive effective
\* weight, all strictly lower priorities together hold less than one unit per queue at or above it
C09c_PriorityOrder(inp, fs, wf) ==
  \A i \in Idx(inp) : EffPos(inp, fs, wf, i, Slack) =>
     LET p == Q(inp, i).prio
         lower == {j \in Idx(inp) : Q(inp, j).prio < p}
         upper == {j \in Idx(inp) : Q(inp, j).prio >= p}
     IN  SumOver(lower, LAMBDA j : Surplus(inp, fs, j)) < Scale * Cardinality(upper) + Slack * Len(inp.queues)
\* same priority, same usage, same deserved/limit/request: the larger weight does not get less
\* surplus than the smaller one, up to one rounding unit
C09c_WeightMonotone(inp, fs) ==
  \A i, j \in Idx(inp) :
     (/\ Q(inp, i).prio = Q(inp, j).prio /\ Q(inp, i).use = Q(inp, j).use
      /\ Q(inp, i).des = Q(inp, j).des /\ Q(inp, i).lim = Q(inp, j).lim /\ Q(inp, i).req = Q(inp, j).req
      /\ Q(inp, i).w > Q(inp, j).w)
     => Surplus(inp, fs, i) + Scale + Slack >= Surplus(inp, fs, j)

Contract(inp, fs, wf) ==
  /\ C09c_Lower(inp, fs) /\ C09c_Upper(inp, fs) /\ C09c_Conservation(inp, fs)
  /\ C09c_NoWaste(inp, fs, wf) /\ C09c_PriorityOrder(inp, fs, wf) /\ C09c_WeightMonotone(inp, fs)

=============================================================================
