------------------------------- MODULE Totality -------------------------------
(* A scheduling cycle completes on any API state (property C10).

   Two things live here.

   1. The queue handling of the snapshot and of every "walk to the root" loop, shaped after
        pkg/scheduler/cache/cluster_info/queue.go
          LinkStep    = one iteration of updateQueueChildren       (Go map order = nondeterminism)
          PruneStep   = one iteration of cleanQueueOrphans
          DeleteStep  = one activation of deleteQueueAndChildren   (explicit stack)
          PruneCyc    = the REPAIRED design only (PruneCycles = TRUE): drop every queue whose
                        parent chain reaches no root
        pkg/scheduler/plugins/proportion/proportion.go (updateQueuesResourceUsageFor*Job, the
        allocate / deallocate handlers), capacity_policy, reclaimable, minruntime resolver
          WalkStep    = one iteration of `for q, ok := queues[id]; ok; q, ok = queues[q.ParentQueue]`
      over an ARBITRARY parent function (values: another queue, "" = root, "missing" = a name
      that is no queue). C10_Terminates is <>done under weak fairness. For the code as written
      (PruneCycles = FALSE) TLC is expected to find the lasso for every parent cycle that is
      reachable from a job's queue: nothing prunes cycles. That is a prediction; it is executed on
      the real scheduler by harness/cmd/totality and judged there (TotalityTrace).

   2. Init is the generator of malformed API states ("families" of scenarios, each varying one
      kind of object around a healthy base; the check additionally grafts families onto each
      other with a seeded sampler):
        Q  queue parent functions x queue of the job   (self-parent, 2-, 3-, 4-cycles, chains
           into cycles, dangling parents, job on a non-leaf / pruned / missing queue)
        S  sub-group specs (<= 3 sub-groups, parent in names + {nil, missing, self, upper-case},
           duplicate names, minMember in MinSet), pod-group minMember, pods' sub-group labels
        P  pod GPU annotation classes (the lexical classes of GpuRequest.tla)
        N  node shapes x request kind of the pod x pinned to that node or not
      Every scenario also contains an untouched control workload (queues cdept <- cteam, node
      cnode, pod group cpg with pod cpod requesting one whole GPU) which must be bound.
*)
EXTENDS Integers, Sequences, FiniteSets, TLC

CONSTANTS NQ,           \* malformed-side queues q1..qNQ (<= 4)
          PruneCycles,  \* FALSE: UpdateQueueHierarchy as written; TRUE: repaired design
          Families,     \* subset of {"Q","S","P","N"}; "Q0" = family Q without the press / run variants
          Canonical,    \* TRUE: family Q modulo renaming of queues (one representative per orbit)
          MinSet,       \* minMember values
          FracSet, MemSet, DevSet,   \* annotation classes (names only; strings are the harness's)
          NodeSet,      \* node shape classes
          OnlyTerminating, \* TRUE: restrict Init to scenarios for which no hang is predicted
          SitSet           \* situations the malformed job is put into (subset of Sits, contains "alloc")

QName(i) == "q" \o ToString(i)
QN == {QName(i) : i \in 1..NQ}
Missing == "missing"
ParVals == QN \cup {"", Missing}
\* healthy queues: the control workload's (cdept <- cteam) and those of the well-formed counterpart jobs of the
\* situations (rdept <- rteam)
Ctl == {"cdept", "cteam", "rdept", "rteam"}
CtlPar(q) == IF q = "cteam" THEN "cdept" ELSE IF q = "rteam" THEN "rdept" ELSE ""

(* SITUATIONS. The malformed objects are crossed with the role their job plays in the cycle (all actions of the
   default configuration run: allocate, consolidation, reclaim, preempt, stalegangeviction):
     alloc      pending, there is room (only allocate has work)
     vreclaim   RUNNING, its queue over its fair share, the cluster part it runs on is full and a well-formed
                pending job of another queue (rteam), under its fair share, reclaims: the job is a reclaim victim
     vpreempt   RUNNING; a well-formed pending job of higher priority in the SAME queue preempts: preempt victim
     vconsol    RUNNING, one pod on each of two half-full nodes; a well-formed pending pod needs a whole node:
                consolidation considers moving the job's pods
     reclaimer  pending, the cluster part is full of a well-formed running job of another queue over its fair share
     preemptor  pending with higher priority, the cluster part is full of a well-formed lower-priority running job
                of the same queue
     stale      one pod RUNNING, the other cannot be placed, and the pod group has been below its minimum for
                longer than the grace period (stale time stamp two hours old): stalegangeviction evicts the job
                when its gang is unsatisfied *)
Sits == {"alloc", "vreclaim", "vpreempt", "vconsol", "reclaimer", "preemptor", "stale"}
NonAlloc == SitSet \ {"alloc"}

(***************************************************************************)
(* Static (declarative) reading of the queue algorithms; parametric in the  *)
(* queue set so that TotalityTrace can apply it to logged scenarios.        *)
(***************************************************************************)
RECURSIVE SurvivesN(_, _, _, _)
\* cleanQueueOrphans deletes q iff following parents from q hits a non-empty name that is no queue
SurvivesN(QS, par, q, n) ==
  IF n = 0 \/ par[q] = "" THEN TRUE
  ELSE IF par[q] \notin QS THEN FALSE
  ELSE SurvivesN(QS, par, par[q], n - 1)
LiveAsIs(QS, par) == {q \in QS : SurvivesN(QS, par, q, Cardinality(QS) + 1)}

RECURSIVE ReachesRootN(_, _, _, _)
ReachesRootN(QS, par, q, n) ==
  IF n = 0 THEN FALSE
  ELSE IF par[q] = "" THEN TRUE
  ELSE IF par[q] \notin QS THEN FALSE
  ELSE ReachesRootN(QS, par, par[q], n - 1)
LiveRepaired(QS, par) == {q \in QS : ReachesRootN(QS, par, q, Cardinality(QS) + 1)}

RECURSIVE AncN(_, _, _, _)
\* the queue reached after n parent steps inside L, or "" once the walk left L
AncN(L, par, q, n) == IF q \notin L THEN "" ELSE IF n = 0 THEN q ELSE AncN(L, par, par[q], n - 1)
WalkHangs(L, par, q) == q \in L /\ AncN(L, par, q, Cardinality(L) + 1) # ""
\* length of the cycle the walk from q ends in (only meaningful if WalkHangs)
CycleLen(L, par, q) ==
  LET c == AncN(L, par, q, Cardinality(L) + 1)
  IN  CHOOSE k \in 1..(Cardinality(L) + 1) : AncN(L, par, c, k) = c /\ \A j \in 1..(k - 1) : AncN(L, par, c, j) # c
HasCycle(L, par) == \E q \in L : WalkHangs(L, par, q)
Children(L, par, q) == {c \in L : par[c] = q}

(***************************************************************************)
(* Scenarios                                                               *)
(***************************************************************************)
BasePar == [q \in QN |-> IF q = "q1" THEN "" ELSE "q1"]
BaseJobQ == IF NQ >= 2 THEN "q2" ELSE "q1"
NoSubs == <<>>
Base == [fam |-> "B", par |-> BasePar, jobq |-> BaseJobQ, pgmin |-> 1, subs |-> NoSubs,
         labels |-> <<"", "">>, frac |-> "absent", mem |-> "absent", dev |-> "absent", gpu |-> 0,
         node |-> "healthy", pin |-> 0, press |-> 0, run |-> 0, sit |-> "alloc"]
InSits(S, X) == {[s EXCEPT !.sit = x] : s \in S, x \in X}

\* ---- family Q
Idx(x) == IF x = "" THEN 0 ELSE IF x = Missing THEN NQ + 1 ELSE CHOOSE i \in 1..NQ : QName(i) = x
Pow(b, e) == IF e = 0 THEN 1 ELSE IF e = 1 THEN b ELSE IF e = 2 THEN b * b ELSE IF e = 3 THEN b * b * b ELSE b * b * b * b
QKey(par, jobq) ==
  LET B == NQ + 2
      RECURSIVE S(_)
      S(i) == IF i > NQ THEN 0 ELSE Idx(par[QName(i)]) * Pow(B, i - 1) + S(i + 1)
  IN  S(1) + Idx(jobq) * Pow(B, NQ)
Img(p, x) == IF x \in QN THEN p[x] ELSE x
Renamed(p, par) == [q \in QN |-> LET o == CHOOSE o \in QN : p[o] = q IN Img(p, par[o])]
IsCanonical(par, jobq) ==
  \A p \in Permutations(QN) : QKey(par, jobq) <= QKey(Renamed(p, par), Img(p, jobq))
FamQ == {[Base EXCEPT !.fam = "Q", !.par = par, !.jobq = jq] :
            par \in [QN -> ParVals], jq \in QN \cup {Missing, ""}}
FamQc0 == IF Canonical THEN {s \in FamQ : IsCanonical(s.par, s.jobq)} ELSE FamQ
\* press = 1: the job's pods request a whole GPU and are pinned to a node that is not ready, so they
\* cannot be placed (the reclaim / preempt / consolidation paths are exercised);
\* run = 1: the job's first pod is already running
Pressed(s, pr) == IF pr = 0 THEN s ELSE [s EXCEPT !.press = 1, !.gpu = 1, !.pin = 1, !.node = "notready"]
\* shapes whose job survives snapshotting as written (its queue is alive; a queue in a cycle counts: whether the
\* cycle is pruned is the implementation's business) get the press / run variants and every situation
QSurvives(s) == s.jobq \in LiveAsIs(QN \cup Ctl, [q \in QN \cup Ctl |-> IF q \in Ctl THEN CtlPar(q) ELSE s.par[q]])
FamQc == IF "Q0" \in Families THEN FamQc0
         ELSE FamQc0
              \cup {[Pressed(s, pr) EXCEPT !.run = rn] : s \in {x \in FamQc0 : QSurvives(x)}, pr \in {0, 1}, rn \in {0, 1}}
              \cup InSits({x \in FamQc0 : QSurvives(x)}, NonAlloc)

\* ---- family S
SubNames == {"a", "b", "c"}
SG(n, p, m) == [name |-> n, parent |-> p, min |-> m]
Subs1 == {<<SG("a", p, m)>> : p \in {"nil", Missing, "a", "A"}, m \in MinSet}
Subs2 == {<<SG("a", p1, m1), SG(n2, p2, m2)>> :
            p1 \in {"nil", Missing, "a", "b"}, m1 \in MinSet,
            n2 \in {"a", "b"}, p2 \in {"nil", Missing, "a", "b"}, m2 \in {0, 1}}
Subs3 == {<<SG("a", p1, 1), SG("b", p2, 1), SG("c", p3, m3)>> :
            p1 \in {"nil", "a", "b", "c"}, p2 \in {"nil", "a", "c", Missing}, p3 \in {"nil", "a", "b", "c"}, m3 \in {0, 1}}
LabelSets == {<<"", "">>, <<"a", "b">>, <<"a", "zzz">>, <<"c", "c">>}
\* the sub-group specs that are crossed with the situations
Subs2r == {<<SG("a", p1, m1), SG(n2, p2, m2)>> :
            p1 \in {"nil", Missing}, m1 \in MinSet, n2 \in {"a", "b"}, p2 \in {"nil", "a"}, m2 \in {0, 1}}
Subs3r == {<<SG("a", "nil", 1), SG("b", p2, 1), SG("c", p3, m3)>> : p2 \in {"nil", "a"}, p3 \in {"nil", "a", "b"}, m3 \in {0, 1}}
SitLabelSets == {<<"a", "a">>, <<"a", "b">>, <<"a", "zzz">>}
FamS == {[Base EXCEPT !.fam = "S", !.subs = ss, !.labels = ls] : ss \in Subs1 \cup Subs2 \cup Subs3, ls \in LabelSets}
        \cup InSits({[Base EXCEPT !.fam = "S", !.subs = ss, !.labels = ls] : ss \in Subs1 \cup Subs2r \cup Subs3r, ls \in SitLabelSets}
                    \cup {[Base EXCEPT !.fam = "S", !.pgmin = pm] : pm \in MinSet}, NonAlloc)
        \cup {[Base EXCEPT !.fam = "S", !.pgmin = pm, !.labels = ls] : pm \in MinSet, ls \in LabelSets}
        \cup {[Base EXCEPT !.fam = "S", !.pgmin = pm, !.subs = <<SG("a", "nil", 1), SG("b", "nil", 1)>>, !.labels = ls] :
                pm \in MinSet, ls \in LabelSets}

\* ---- family P (star around the valid requests: at most one annotation outside its core)
CoreF == {"absent", "dec"}
CoreM == {"absent", "pos"}
CoreD == {"absent", "two"}
FamP == {[Base EXCEPT !.fam = "P", !.frac = f, !.mem = m, !.dev = d, !.gpu = g, !.run = rn] :
            f \in FracSet, m \in MemSet, d \in DevSet, g \in {0, 1}, rn \in {0, 1}}
NonCore(s) == (IF s.frac \notin CoreF THEN 1 ELSE 0) + (IF s.mem \notin CoreM THEN 1 ELSE 0) + (IF s.dev \notin CoreD THEN 1 ELSE 0)
FamPs == {s \in FamP : NonCore(s) <= 1 /\ s.run = 0}
         \cup InSits({s \in FamP : NonCore(s) <= 1 /\ s.run = 0 /\ s.gpu = 0}, NonAlloc)

\* ---- family N (request kind of the pod through its annotations / container)
Kinds == {[frac |-> "absent", mem |-> "absent", gpu |-> 0], [frac |-> "absent", mem |-> "absent", gpu |-> 1],
          [frac |-> "dec", mem |-> "absent", gpu |-> 0], [frac |-> "absent", mem |-> "pos", gpu |-> 0]}
FamN == {[Base EXCEPT !.fam = "N", !.node = n, !.pin = p, !.frac = k.frac, !.mem = k.mem, !.gpu = k.gpu, !.run = rn] :
            n \in NodeSet, p \in {0, 1}, k \in Kinds, rn \in {0, 1}}

AllQ(s) == QN \cup Ctl
FullPar(s) == [q \in QN \cup Ctl |-> IF q \in Ctl THEN CtlPar(q) ELSE s.par[q]]
Live(s) == IF PruneCycles THEN LiveRepaired(AllQ(s), FullPar(s)) ELSE LiveAsIs(AllQ(s), FullPar(s))
HangPredicted(s) == WalkHangs(Live(s), FullPar(s), s.jobq)

Scenarios0 ==
  (IF "Q" \in Families \/ "Q0" \in Families THEN FamQc ELSE {}) \cup (IF "S" \in Families THEN FamS ELSE {})
  \cup (IF "P" \in Families THEN FamPs ELSE {}) \cup (IF "N" \in Families THEN FamN ELSE {})
Scenarios == IF OnlyTerminating THEN {s \in Scenarios0 : ~HangPredicted(s)} ELSE Scenarios0

\* signature of the input shape (used for violation signatures)
SubStr(sg) == sg.name \o ":" \o sg.parent \o ":" \o ToString(sg.min)
RECURSIVE SubsStr(_)
SubsStr(ss) == IF ss = <<>> THEN "" ELSE SubStr(Head(ss)) \o (IF Len(ss) > 1 THEN "," ELSE "") \o SubsStr(Tail(ss))
RECURSIVE DepthN(_, _, _, _)
DepthN(L, par, q, n) == IF n = 0 \/ q \notin L THEN 0 ELSE 1 + DepthN(L, par, par[q], n - 1)
SigMain(s) ==
  LET L == LiveAsIs(AllQ(s), FullPar(s))
      P == FullPar(s)
  IN
  IF s.fam = "Q" THEN
       IF WalkHangs(L, P, s.jobq) THEN "queue-parent-cycle len=" \o ToString(CycleLen(L, P, s.jobq))
       ELSE (IF s.jobq \notin QN THEN "job-queue-missing"
             ELSE IF s.jobq \notin L THEN "job-queue-orphan-pruned"
             ELSE IF Children(L, P, s.jobq) # {} THEN "job-queue-nonleaf"
             ELSE "job-queue-leaf depth=" \o ToString(DepthN(L, P, s.jobq, Cardinality(L))))
            \o (IF HasCycle(L, P) THEN " unreferenced-queue-cycle" ELSE "")
  ELSE IF s.fam = "S" THEN
       "subgroups [" \o SubsStr(s.subs) \o "] pgmin=" \o ToString(s.pgmin) \o " labels=" \o s.labels[1] \o "," \o s.labels[2]
  ELSE IF s.fam = "P" THEN
       "pod-annotations frac=" \o s.frac \o " mem=" \o s.mem \o " dev=" \o s.dev \o " gpu=" \o ToString(s.gpu)
  ELSE IF s.fam = "N" THEN
       "node=" \o s.node \o " pin=" \o ToString(s.pin) \o " pod=" \o
          (IF s.gpu = 1 THEN "gpu" ELSE IF s.frac # "absent" THEN "fraction" ELSE IF s.mem # "absent" THEN "memory" ELSE "cpu")
  ELSE "base"
\* (a predicted hang keeps the bare cycle signature whatever the pods look like)
Sig(s) == IF s.fam = "Q" /\ WalkHangs(LiveAsIs(AllQ(s), FullPar(s)), FullPar(s), s.jobq) THEN SigMain(s)
          ELSE SigMain(s) \o (IF s.press = 1 THEN " unplaceable-pods" ELSE "") \o (IF s.run = 1 THEN " running-pod" ELSE "")
                          \o (IF s.sit # "alloc" THEN " sit=" \o s.sit ELSE "")

(***************************************************************************)
(* The algorithm                                                           *)
(***************************************************************************)
VARIABLES scn, pc, live, children, todo, stack, walks, cur, steps
vars == <<scn, pc, live, children, todo, stack, walks, cur, steps>>

MaxSteps == NQ + 3

Init ==
  /\ scn \in Scenarios
  /\ pc = "link"
  /\ live = QN \cup Ctl
  /\ children = [q \in QN \cup Ctl |-> {}]
  /\ todo = QN \cup Ctl
  /\ stack = <<>>
  /\ walks = <<scn.jobq, "cteam", "rteam">>      \* the queues of the jobs of the scenario
  /\ cur = ""
  /\ steps = 0

Par(q) == FullPar(scn)[q]

\* updateQueueChildren: for queueId, queue := range queues { if parent found { parent.AddChildQueue } }
LinkStep ==
  /\ pc = "link"
  /\ IF todo = {}
     THEN /\ pc' = "prune" /\ todo' = live
          /\ UNCHANGED <<children>>
     ELSE \E q \in todo :
            /\ todo' = todo \ {q}
            /\ children' = IF Par(q) # "" /\ Par(q) \in live
                           THEN [children EXCEPT ![Par(q)] = @ \cup {q}] ELSE children
            /\ pc' = pc
  /\ UNCHANGED <<scn, live, stack, walks, cur, steps>>

\* cleanQueueOrphans: range over the map (entries deleted meanwhile are not visited)
PruneStep ==
  /\ pc = "prune" /\ stack = <<>>
  /\ IF todo \cap live = {}
     THEN /\ pc' = IF PruneCycles THEN "prunecyc" ELSE "walk"
          /\ todo' = {}
          /\ UNCHANGED <<stack>>
     ELSE \E q \in todo \cap live :
            /\ todo' = todo \ {q}
            /\ stack' = IF Par(q) # "" /\ Par(q) \notin live THEN <<q>> ELSE <<>>
            /\ pc' = pc
  /\ UNCHANGED <<scn, live, children, walks, cur, steps>>

SetToSeq(S) ==
  LET RECURSIVE F(_)
      F(T) == IF T = {} THEN <<>> ELSE LET x == CHOOSE x \in T : TRUE IN <<x>> \o F(T \ {x})
  IN F(S)

\* deleteQueueAndChildren(q): not found -> return; else recurse into the children, delete q
DeleteStep ==
  /\ pc = "prune" /\ stack # <<>>
  /\ LET h == Head(stack) IN
       IF h \notin live
       THEN stack' = Tail(stack) /\ UNCHANGED live
       ELSE /\ live' = live \ {h}
            /\ stack' = SetToSeq(children[h]) \o Tail(stack)
  /\ UNCHANGED <<scn, pc, children, todo, walks, cur, steps>>

\* repaired design only: queues that reach no root are dropped as well
PruneCyc ==
  /\ pc = "prunecyc"
  /\ live' = {q \in live : ReachesRootN(live, FullPar(scn), q, Cardinality(live) + 1)}
  /\ pc' = "walk"
  /\ UNCHANGED <<scn, children, todo, stack, walks, cur, steps>>

\* for q, ok := queues[id]; ok; q, ok = queues[q.ParentQueue] { ... }
WalkStart ==
  /\ pc = "walk"
  /\ IF walks = <<>>
     THEN pc' = "done" /\ UNCHANGED <<walks, cur, steps>>
     ELSE pc' = "walking" /\ cur' = Head(walks) /\ walks' = Tail(walks) /\ steps' = 0
  /\ UNCHANGED <<scn, live, children, todo, stack>>

WalkStep ==
  /\ pc = "walking"
  /\ IF cur \in live
     THEN /\ cur' = Par(cur)
          /\ steps' = IF steps < MaxSteps THEN steps + 1 ELSE steps
          /\ pc' = pc
     ELSE pc' = "walk" /\ UNCHANGED <<cur, steps>>
  /\ UNCHANGED <<scn, live, children, todo, stack, walks>>

Next == LinkStep \/ PruneStep \/ DeleteStep \/ PruneCyc \/ WalkStart \/ WalkStep
Spec == Init /\ [][Next]_vars /\ WF_vars(Next)

TypeOK ==
  /\ pc \in {"link", "prune", "prunecyc", "walk", "walking", "done"}
  /\ live \subseteq QN \cup Ctl /\ todo \subseteq QN \cup Ctl
  /\ steps \in 0..MaxSteps
  /\ cur \in QN \cup Ctl \cup {"", Missing}

\* the loops agree with their declarative reading (binds Live / Sig / HangPredicted to the algorithm)
I_LiveIsStatic == pc \in {"walk", "walking", "done"} => live = Live(scn)
I_ChildrenIsStatic == pc \in {"walk", "walking", "done"} =>
                         \A q \in live : children[q] \cap live = Children(live, FullPar(scn), q)
I_ControlUntouched == pc \in {"walk", "walking", "done"} => Ctl \subseteq live
I_StepsBoundedIffNoHang == (pc = "walking" /\ steps = MaxSteps) => HangPredicted(scn)

C10_Terminates == <>(pc = "done")
=============================================================================
