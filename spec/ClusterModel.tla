----------------------------- MODULE ClusterModel -----------------------------
(* Design-level model of the scheduler/binder/kubelet loop over a small cluster.

   The scheduler is abstracted to its RULES (what the code is meant to guarantee before it
   issues a Cache call); everything else (which pod, which node, which order, which faults) is
   nondeterministic, so TLC explores every interleaving of
     SchedBind      bind a pending pod to a node where it fits the really idle capacity
                    (capacity not held by running, terminating or binding pods); a sharer joins
                    an existing GPU group with room or opens a new one on an idle device
     SchedEvict     evict a running pod (it becomes terminating and keeps its capacity)
     BindFails      the BindRequest creation / the binder fails: the pod is pending again
     BinderBinds    the binder completes a bind: the pod runs
     PodGone        a terminating pod disappears (closed system: it is recreated pending)
     SchedNominate  nominate (pipeline) a pending pod onto capacity that is idle or held by terminating
                    pods only: the pod holds nothing, nothing is handed out
     NewCycle       nominations are not persisted: at the next cycle every nominated pod is pending
   and checks that these rules imply the capacity properties (C01, C02) in every reachable state.
   Its initial states (all small clusters within the constants) are also exported as scenarios
   and run on the real scheduler (spec -> code direction), where ClusterTrace judges the real
   decisions with the same predicates.                                                      *)
EXTENDS Integers, Sequences, FiniteSets, FiniteSetsExt, TLC, Json

CONSTANTS NNodes,      \* number of nodes
          GpuChoices,  \* possible GPU counts of a node
          NPods,       \* number of pods
          Kinds,       \* pod kinds, subset of {"cpu", "g1", "g2", "f50", "f30", "m2"}
          MaxSteps     \* bound on scheduler/environment steps

GpuMem == 40000
CpuCap == 4000
Nodes == 1..NNodes
Pods == 1..NPods
GroupIds == 1..(NPods * 2)

\* request of a kind: cpu (milli), whole gpus, fraction (1/100), devices
Req(k) == CASE k = "cpu" -> [cpu |-> 1000, gpu |-> 0, frac |-> 0,  devs |-> 0]
            [] k = "g1"  -> [cpu |-> 500,  gpu |-> 1, frac |-> 0,  devs |-> 0]
            [] k = "g2"  -> [cpu |-> 500,  gpu |-> 2, frac |-> 0,  devs |-> 0]
            [] k = "f50" -> [cpu |-> 500,  gpu |-> 0, frac |-> 50, devs |-> 1]
            [] k = "f30" -> [cpu |-> 500,  gpu |-> 0, frac |-> 30, devs |-> 1]
            [] k = "m2"  -> [cpu |-> 500,  gpu |-> 0, frac |-> 50, devs |-> 2]

VARIABLES gpus,    \* gpus[n]
          kind,    \* kind[p]
          st,      \* st[p] in pending / nominated / binding / running / terminating
          node,    \* node[p] (0 = none)
          grp,     \* grp[p] : set of group ids
          steps
vars == <<gpus, kind, st, node, grp, steps>>

Sum(S, f(_)) == MapThenSumSet(f, S)
OnNode(n) == {p \in Pods : node[p] = n /\ st[p] \in {"binding", "running", "terminating"}}
CpuUsed(n) == Sum(OnNode(n), LAMBDA p : Req(kind[p]).cpu)
WholeUsed(n) == Sum(OnNode(n), LAMBDA p : Req(kind[p]).gpu)
GroupsOn(n) == UNION {grp[p] : p \in OnNode(n)}
MemOf(p) == (Req(kind[p]).frac * GpuMem) \div 100
GroupMem(n, g) == Sum({p \in OnNode(n) : g \in grp[p]}, MemOf)
DevicesUsed(n) == WholeUsed(n) + Cardinality(GroupsOn(n))
AllGroups == UNION {grp[p] : p \in Pods}

TypeOK == /\ \A p \in Pods : st[p] \in {"pending", "nominated", "binding", "running", "terminating"}
          /\ \A p \in Pods : (st[p] = "pending") <=> (node[p] = 0)

\* initial clusters: some pods already running, placed within capacity (checked by InitOK)
InitOK == \A n \in Nodes : /\ CpuUsed(n) <= CpuCap /\ DevicesUsed(n) <= gpus[n]
                           /\ \A g \in GroupsOn(n) : GroupMem(n, g) <= GpuMem
Init ==
  /\ gpus \in [Nodes -> GpuChoices]
  /\ kind \in [Pods -> Kinds]
  /\ st \in [Pods -> {"pending", "running", "terminating"}]
  /\ node \in [Pods -> 0..NNodes]
  /\ \A p \in Pods : (st[p] = "pending") <=> (node[p] = 0)
  \* canonical group naming for initial sharers: a running sharer p owns group p (and p + NPods)
  /\ grp = [p \in Pods |-> IF st[p] = "pending" \/ Req(kind[p]).devs = 0 THEN {}
                           ELSE IF Req(kind[p]).devs = 1 THEN {p} ELSE {p, p + NPods}]
  \* symmetry breaking: pod kinds non-decreasing in an arbitrary order of their names
  /\ steps = 0
  /\ InitOK

\* ---- the scheduler's rules ----
\* what the scheduler treats as taken when it binds: the pods that hold the node and the pods nominated onto
\* it in this cycle (their capacity is reserved until NewCycle)
Taken(n) == OnNode(n) \cup {q \in Pods : node[q] = n /\ st[q] = "nominated"}
TakenGroups(n) == UNION {grp[q] : q \in Taken(n)}
TakenGroupMem(n, g) == Sum({q \in Taken(n) : g \in grp[q]}, MemOf)
FitsIdle(p, n, gs) ==
  LET r == Req(kind[p])
      newG == gs \ TakenGroups(n)
      devs == Sum(Taken(n), LAMBDA q : Req(kind[q]).gpu) + Cardinality(TakenGroups(n))
  IN /\ Sum(Taken(n), LAMBDA q : Req(kind[q]).cpu) + r.cpu <= CpuCap
     /\ IF r.devs = 0
        THEN gs = {} /\ devs + r.gpu <= gpus[n]
        ELSE /\ Cardinality(gs) = r.devs
             /\ devs + Cardinality(newG) <= gpus[n]
             /\ \A g \in gs : TakenGroupMem(n, g) + MemOf(p) <= GpuMem
             /\ newG \cap AllGroups = {}        \* a new group gets a fresh id

\* capacity for a nomination: everything not held by running / binding pods (terminating pods will leave)
Staying(n) == {p \in Pods : node[p] = n /\ st[p] \in {"binding", "running"}}
NomGroups(n) == UNION {grp[p] : p \in Staying(n)}
NomGroupMem(n, g) == Sum({p \in Staying(n) : g \in grp[p]}, MemOf)
StayOrNom(n) == Staying(n) \cup {q \in Pods : node[q] = n /\ st[q] = "nominated"}
SNGroups(n) == UNION {grp[q] : q \in StayOrNom(n)}
SNGroupMem(n, g) == Sum({q \in StayOrNom(n) : g \in grp[q]}, MemOf)
FitsReleasing(p, n, gs) ==
  LET r == Req(kind[p])
      newG == gs \ SNGroups(n)
      devs == Sum(StayOrNom(n), LAMBDA q : Req(kind[q]).gpu) + Cardinality(SNGroups(n))
  IN /\ Sum(StayOrNom(n), LAMBDA q : Req(kind[q]).cpu) + r.cpu <= CpuCap
     /\ IF r.devs = 0 THEN gs = {} /\ devs + r.gpu <= gpus[n]
        ELSE /\ Cardinality(gs) = r.devs /\ devs + Cardinality(newG) <= gpus[n]
             /\ \A g \in gs : SNGroupMem(n, g) + MemOf(p) <= GpuMem
             /\ newG \cap AllGroups = {}
SchedNominate(p, n, gs) ==
  /\ st[p] = "pending" /\ FitsReleasing(p, n, gs) /\ ~FitsIdle(p, n, gs)   \* what fits idle capacity is bound
  /\ st' = [st EXCEPT ![p] = "nominated"] /\ node' = [node EXCEPT ![p] = n] /\ grp' = [grp EXCEPT ![p] = gs]
  /\ steps' = steps + 1 /\ UNCHANGED <<gpus, kind>>
NewCycle ==
  /\ \E p \in Pods : st[p] = "nominated"
  /\ st' = [p \in Pods |-> IF st[p] = "nominated" THEN "pending" ELSE st[p]]
  /\ node' = [p \in Pods |-> IF st[p] = "nominated" THEN 0 ELSE node[p]]
  /\ grp' = [p \in Pods |-> IF st[p] = "nominated" THEN {} ELSE grp[p]]
  /\ steps' = steps + 1 /\ UNCHANGED <<gpus, kind>>

SchedBind(p, n, gs) ==
  /\ st[p] = "pending" /\ FitsIdle(p, n, gs)
  /\ st' = [st EXCEPT ![p] = "binding"] /\ node' = [node EXCEPT ![p] = n] /\ grp' = [grp EXCEPT ![p] = gs]
  /\ steps' = steps + 1 /\ UNCHANGED <<gpus, kind>>

SchedEvict(p) ==
  /\ st[p] = "running"
  /\ st' = [st EXCEPT ![p] = "terminating"]
  /\ steps' = steps + 1 /\ UNCHANGED <<gpus, kind, node, grp>>

BindFails(p) ==
  /\ st[p] = "binding"
  /\ st' = [st EXCEPT ![p] = "pending"] /\ node' = [node EXCEPT ![p] = 0] /\ grp' = [grp EXCEPT ![p] = {}]
  /\ steps' = steps + 1 /\ UNCHANGED <<gpus, kind>>

BinderBinds(p) ==
  /\ st[p] = "binding"
  /\ st' = [st EXCEPT ![p] = "running"]
  /\ steps' = steps + 1 /\ UNCHANGED <<gpus, kind, node, grp>>

PodGone(p) ==
  /\ st[p] = "terminating"
  /\ st' = [st EXCEPT ![p] = "pending"] /\ node' = [node EXCEPT ![p] = 0] /\ grp' = [grp EXCEPT ![p] = {}]
  /\ steps' = steps + 1 /\ UNCHANGED <<gpus, kind>>

Next ==
  /\ steps < MaxSteps
  /\ \/ \E p \in Pods :
          \/ \E n \in Nodes : \E gs \in SUBSET GroupIds : Cardinality(gs) <= 2 /\ (SchedBind(p, n, gs) \/ SchedNominate(p, n, gs))
          \/ SchedEvict(p) \/ BindFails(p) \/ BinderBinds(p) \/ PodGone(p)
     \/ NewCycle
Spec == Init /\ [][Next]_vars

\* ---- the properties, design level ----
C01_Cpu == \A n \in Nodes : CpuUsed(n) <= CpuCap
C01_Gpu == \A n \in Nodes : DevicesUsed(n) <= gpus[n]
C02_GroupFits == \A n \in Nodes : \A g \in GroupsOn(n) : GroupMem(n, g) <= GpuMem
C02_GroupOnOneNode == \A p, q \in Pods : (grp[p] \cap grp[q] # {} /\ node[p] # 0 /\ node[q] # 0) => node[p] = node[q]
C02_Distinct == \A p \in Pods : st[p] # "pending" => Cardinality(grp[p]) = Req(kind[p]).devs
\* a nomination never uses capacity that a running or binding pod holds (it may wait for terminating pods)
C01_NominationWaitsOnlyForLeavers ==
  \A n \in Nodes :
     /\ Sum(StayOrNom(n), LAMBDA q : Req(kind[q]).cpu) <= CpuCap
     /\ Sum(StayOrNom(n), LAMBDA q : Req(kind[q]).gpu) + Cardinality(SNGroups(n)) <= gpus[n]
     /\ \A g \in SNGroups(n) : SNGroupMem(n, g) <= GpuMem

\* ---- export of the initial states as scenarios for the real scheduler ----
KindName(p) == kind[p]
ScenarioOf ==
  [ nodes |-> [n \in Nodes |-> [gpus |-> gpus[n]]],
    pods  |-> [p \in Pods |-> [kind |-> kind[p], st |-> st[p], node |-> node[p]]] ]
Emit == steps = 0 => PrintT(ToJson(ScenarioOf))
GenNext == FALSE /\ UNCHANGED vars
=============================================================================
