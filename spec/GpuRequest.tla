------------------------------- MODULE GpuRequest -------------------------------
(* Admission, scheduler and binder agree on GPU requests (property C19).

   A pod is abstracted to LEXICAL CLASSES of its three annotations
       gpu-fraction, gpu-memory, gpu-fraction-num-devices
   x the container carrying a whole-GPU limit (none / 1 / 2 / on an init container)
   x gpu-fraction-container-name (absent / main / init / unknown) x GPU sharing enabled.
   Init enumerates the class product (all combinations with at most MaxNonCore annotations outside
   their "core" classes {absent, a plain valid value}); it is exported as the scenario set that
   harness/cmd/gpureq concretises to strings and runs through the three real components.

   The life of a pod is the pipeline of the code:
       Mutate  (admission/webhook/v1alpha2/gpusharing.Mutate via podhooks.Default)
       Validate(gpusharing.Validate = sharing gate + gpu-request.ValidateGpuRequests)
       Mutate2 (the mutating webhook may be called again: idempotence)
       Schedule(pod_info.NewTaskInfo / updatePodAdditionalFields)
       Bind    (scheduler cache createBindRequest -> binder gpusharing.PreBind -> ConfigMap)
   In this module the steps are driven by CLASS TABLES that transcribe how Go's strconv and the
   three components read the representatives of each class (as written: Fix* = FALSE; with the
   proposed repairs: Fix* = TRUE). In GpuRequestTrace the same observation record `obs` is filled
   from what the real code did with concrete strings, the denoted quantities coming from the
   harness's own grammar. The C19_ predicates are over `obs` and therefore the same in both.
*)
EXTENDS Integers, Sequences, FiniteSets, TLC

CONSTANTS FracSet, MemSet, DevSet,   \* class names
          CtrSet,                    \* subset of {"none","one","two","init"}
          FcnSet,                    \* subset of {"absent","main","init","unknown"}
          SharingSet,                \* subset of {0,1}
          MaxNonCore,                \* 0..3
          FixNaN, FixUint, FixSubCenti   \* FALSE: the code as written; TRUE: the repaired validator

(***************************************************************************)
(* Class tables                                                            *)
(***************************************************************************)
\* what strconv.ParseFloat makes of a representative of the class
FloatCat(c) ==
  CASE c \in {"dec", "dec3", "exp", "hex", "plus", "cent"} -> "in01"
    [] c = "subcenti" -> "tiny01"            \* in (0, 0.005): rounds to 0.00 GPU
    [] c = "one" -> "eq1"
    [] c \in {"gt1", "u64"} -> "gt1"
    [] c \in {"zero", "udf"} -> "zero"       \* "1e-400" underflows to 0 without error
    [] c = "neg" -> "neg"
    [] c = "nan" -> "nan"
    [] c = "inf" -> "inf"
    [] OTHER -> "err"                        \* empty, ws, ovf (ErrRange), nonnum
\* strconv.ParseUint(s, 10, 64) / strconv.ParseInt(s, 10, 64)
UintCat(c) ==
  CASE c \in {"pos", "lead0", "max64", "big32", "u64", "one", "two", "three", "huge"} -> "pos"
    [] c = "zero" -> "zero"
    [] OTHER -> "err"                        \* empty, neg, exp, hex, plus, ws, nan, ovf, nonnum, dec
IntCat(c) ==
  CASE c \in {"pos", "lead0", "max64", "big32", "plus", "one", "two", "three", "huge"} -> "pos"
    [] c = "zero" -> "zero"
    [] c = "neg" -> "neg"
    [] OTHER -> "err"                        \* ... and u64: out of range for int64
\* strconv.ParseInt(s, 10, 32): the repaired validator bounds the device count
Int32Cat(c) == IF c \in {"max64", "big32"} THEN "err" ELSE IntCat(c)
\* what the string DENOTES (the harness's grammar: decimal / exponent / hex-float literals with an
\* optional sign; nothing else)
FracDen(c) ==
  CASE c \in {"dec", "dec3", "exp", "hex", "plus", "subcenti", "udf", "cent"} -> "in01"
    [] c = "one" -> "eq1"
    [] c \in {"gt1", "u64", "ovf"} -> "gt1"
    [] c = "zero" -> "zero"
    [] c = "neg" -> "neg"
    [] OTHER -> "bottom"                     \* empty, ws, nan, inf, nonnum
IntDen(c) ==
  CASE c \in {"pos", "lead0", "plus", "max64", "big32", "u64", "ovf", "one", "two", "three", "huge", "exp"} -> "posint"
    [] c = "zero" -> "zero"
    [] c = "neg" -> "neg"
    [] c = "dec" -> "nonint"
    [] OTHER -> "bottom"                     \* empty, ws, nan, nonnum, hex (a hex literal needs a p exponent)

Present(c) == c # "absent"
WholeLimit(p) == p.ctr # "none"
RequestsFraction(p) == Present(p.frac) \/ Present(p.mem)      \* resources.RequestsGPUFraction

\* ---- admission
ValidatorFracOk(p) ==
  ~Present(p.frac) \/ LET k == FloatCat(p.frac) IN
     \/ k = "in01"
     \/ k = "tiny01" /\ ~FixSubCenti
     \/ k = "nan" /\ ~FixNaN                  \* NaN fails every comparison of `<= 0 || >= 1`
ValidatorMemOk(p) ==
  ~Present(p.mem) \/ (IF FixUint THEN IntCat(p.mem) = "pos" ELSE UintCat(p.mem) = "pos")
ValidatorDevOk(p) ==
  ~Present(p.dev) \/ (IF FixUint THEN Int32Cat(p.dev) = "pos" ELSE UintCat(p.dev) = "pos")
M_ValidateOk(p) ==
  /\ ~(p.sharing = 0 /\ RequestsFraction(p))
  /\ ~(Present(p.frac) /\ WholeLimit(p))
  /\ ~(Present(p.mem) /\ (Present(p.frac) \/ WholeLimit(p)))
  /\ ~(Present(p.dev) /\ ~RequestsFraction(p))
  /\ ValidatorMemOk(p) /\ ValidatorFracOk(p) /\ ValidatorDevOk(p)
M_MutateOk(p) == ~(RequestsFraction(p) /\ p.fcn = "unknown")  \* GetFractionContainerRef fails
M_Admitted(p) == M_MutateOk(p) /\ M_ValidateOk(p)

\* ---- scheduler (updatePodAdditionalFields)
SchedFracOk(p) == Present(p.frac) /\ (FloatCat(p.frac) \in {"in01", "tiny01", "eq1"} \/ (FloatCat(p.frac) = "nan" /\ ~FixNaN))
SchedMemOk(p) == Present(p.mem) /\ IntCat(p.mem) = "pos"
M_SchedKind(p) ==
  IF SchedFracOk(p) THEN "fraction" ELSE IF SchedMemOk(p) THEN "memory"
  ELSE IF WholeLimit(p) THEN "whole" ELSE "none"
\* the scheduler's quantities equal the denoted ones and the request is accounted as a GPU request
\* (GPUs() > 0, or a memory request); only read for admitted, well-formed pods
M_SchedExact(p) ==
  /\ Present(p.frac) => FloatCat(p.frac) = "in01"            \* tiny01: GPUs() rounds to 0.00 - a CPU-only pod
  /\ Present(p.mem) => IntCat(p.mem) = "pos"
  /\ Present(p.dev) => IntCat(p.dev) = "pos"
  /\ ~(Present(p.frac) /\ p.dev = "max64")                   \* round(portion * 100) * count overflows int64

\* ---- denotation
FracWF(p) == ~Present(p.frac) \/ FracDen(p.frac) = "in01"
MemWF(p)  == ~Present(p.mem) \/ IntDen(p.mem) = "posint"
DevWF(p)  == ~Present(p.dev) \/ IntDen(p.dev) = "posint"
CombosWF(p) ==
  /\ ~(Present(p.frac) /\ WholeLimit(p))
  /\ ~(Present(p.mem) /\ (Present(p.frac) \/ WholeLimit(p)))
  /\ ~(Present(p.dev) /\ ~RequestsFraction(p))
  /\ ~(RequestsFraction(p) /\ p.fcn = "unknown")
M_Dwf(p) == FracWF(p) /\ MemWF(p) /\ DevWF(p) /\ CombosWF(p)
DKind(p) == IF Present(p.frac) THEN "fraction" ELSE IF Present(p.mem) THEN "memory"
            ELSE IF WholeLimit(p) THEN "whole" ELSE "none"
\* a request the cluster of the binder stage can hold at all (8 GPUs per node)
M_Fits(p) == (Present(p.dev) => p.dev \in {"one", "two", "three", "plus"}) /\ (Present(p.mem) => p.mem \in {"pos", "lead0", "plus"})
\* the binder materialises a positive portion (two decimals) for everything but sub-centi fractions
M_BindExact(p) == Present(p.frac) => FloatCat(p.frac) # "tiny01"

(***************************************************************************)
(* Scenarios                                                               *)
(***************************************************************************)
CoreF == {"absent", "dec"}
CoreM == {"absent", "pos"}
CoreD == {"absent", "two"}
\* class "cent" = EVERY two-decimal value 0.01 .. 0.99 (field cv = the value in 1/100 GPU), crossed with 1..3
\* devices: the values whose product with 100 is not an integer in binary floating point are among them
Pods0 == [frac : FracSet \ {"cent"}, mem : MemSet, dev : DevSet, ctr : CtrSet, fcn : FcnSet, sharing : SharingSet, cv : {0}]
CentPods == IF "cent" \in FracSet
            THEN [frac : {"cent"}, mem : {"absent"}, dev : {"absent", "one", "two", "three"}, ctr : {"none"},
                  fcn : {"absent", "init"} \cap FcnSet, sharing : {1} \cap SharingSet, cv : 1..99]
            ELSE {}
NonCore(p) == (IF p.frac \notin CoreF THEN 1 ELSE 0) + (IF p.mem \notin CoreM THEN 1 ELSE 0) + (IF p.dev \notin CoreD THEN 1 ELSE 0)
Pods == {p \in Pods0 : NonCore(p) <= MaxNonCore} \cup CentPods

Sig(p) ==
  LET f == IF p.frac = "cent" THEN "gpu-fraction=cent:" \o ToString(p.cv)
           ELSE IF p.frac \notin CoreF THEN "gpu-fraction=" \o p.frac ELSE ""
      m == IF p.mem \notin CoreM THEN "gpu-memory=" \o p.mem ELSE ""
      d == IF p.dev \notin CoreD /\ p.frac # "cent" THEN "num-devices=" \o p.dev ELSE ""
      sep(a, b) == IF a # "" /\ b # "" THEN a \o " " \o b ELSE a \o b
  IN IF NonCore(p) = 0 /\ p.frac # "cent"
     THEN "core frac=" \o p.frac \o " mem=" \o p.mem \o " dev=" \o p.dev \o " ctr=" \o p.ctr \o " fcn=" \o p.fcn
          \o " sharing=" \o ToString(p.sharing)
     ELSE sep(sep(f, m), d)

(***************************************************************************)
(* The pipeline                                                            *)
(***************************************************************************)
VARIABLES pod, pc, obs
vars == <<pod, pc, obs>>

NoObs == [admitted |-> FALSE, mutated |-> FALSE, idem |-> TRUE, d_wf |-> FALSE, d_kind |-> "none",
          s_kind |-> "none", s_exact |-> FALSE, s_sharing |-> FALSE,
          fits |-> FALSE, b_reached |-> FALSE, b_ok |-> FALSE, b_exact |-> FALSE, sharing |-> TRUE, updsame |-> TRUE]

Init == /\ pod \in Pods /\ pc = "new"
        /\ obs = [NoObs EXCEPT !.d_wf = M_Dwf(pod), !.d_kind = DKind(pod), !.sharing = (pod.sharing = 1), !.fits = M_Fits(pod)]

Mutate ==   /\ pc = "new"
            /\ obs' = [obs EXCEPT !.mutated = M_MutateOk(pod)]
            /\ pc' = IF M_MutateOk(pod) THEN "mutated" ELSE "stored"
            /\ UNCHANGED pod
Validate == /\ pc = "mutated"
            /\ obs' = [obs EXCEPT !.admitted = M_ValidateOk(pod)]
            /\ pc' = "validated"
            /\ UNCHANGED pod
Mutate2 ==  /\ pc = "validated"
            /\ obs' = [obs EXCEPT !.idem = TRUE]      \* the second Mutate finds its own annotation / env vars / volume
            /\ pc' = "stored"
            /\ UNCHANGED pod
\* the scheduler reads every pod that exists, admitted or not (webhooks can be off or bypassed)
Schedule == /\ pc = "stored"
            /\ obs' = [obs EXCEPT !.s_kind = M_SchedKind(pod), !.s_exact = M_SchedExact(pod),
                                  !.s_sharing = (M_SchedKind(pod) \in {"fraction", "memory"})]
            /\ pc' = "scheduled"
            /\ UNCHANGED pod
Bind ==     /\ pc = "scheduled"
            /\ obs' = [obs EXCEPT !.b_reached = (obs.admitted /\ obs.fits), !.b_ok = TRUE, !.b_exact = M_BindExact(pod)]
            /\ pc' = "done"
            /\ UNCHANGED pod
Next == Mutate \/ Validate \/ Mutate2 \/ Schedule \/ Bind
Spec == Init /\ [][Next]_vars /\ WF_vars(Next)

TypeOK == /\ pc \in {"new", "mutated", "validated", "stored", "scheduled", "done"}
          /\ obs.d_kind \in {"none", "whole", "fraction", "memory"}
          /\ obs.s_kind \in {"none", "whole", "fraction", "memory", "other"}

Done == pc = "done"
(* every admitted request denotes a finite positive quantity (in its domain, in a consistent combination) *)
C19_AdmittedIsFinitePositive == (Done /\ obs.admitted) => obs.d_wf
(* ... which the scheduler interprets as exactly that request *)
C19_SchedulerExact == (Done /\ obs.admitted /\ obs.d_wf) =>
                         obs.s_kind = obs.d_kind /\ obs.s_exact
(* ... and which the binder validates and materialises identically (given the scheduler agreed and the
   request fits the cluster at all) *)
C19_BinderAgrees == (Done /\ obs.admitted /\ obs.d_wf /\ obs.s_kind = obs.d_kind /\ obs.s_exact /\ obs.fits) =>
                         obs.b_reached /\ obs.b_ok /\ obs.b_exact
(* nothing the scheduler would treat as a GPU-sharing request gets in when malformed or when sharing is off *)
C19_NoSneak == (Done /\ obs.s_sharing /\ (~obs.d_wf \/ ~obs.sharing)) => ~obs.admitted
C19_MutateIdempotent == Done => obs.idem
(* the validating webhook gives an object arriving as an UPDATE (annotation-only change of a stored pod) the
   verdict it gives it on CREATE: what CREATE rejects cannot be smuggled in afterwards *)
C19_UpdateValidatedAsCreate == Done => obs.updsame
C19_Terminates == <>Done
=============================================================================
