------------------------------- MODULE Handoff -------------------------------
(* C12 - the scheduler -> binder hand-off through BindRequest objects.

   One node with `gpus` GPU devices (each 100 centi-GPU), a few pods that compete for it, one BindRequest
   per pod (named after the pod, as cache.createBindRequest does).  Pod kinds: whole GPU (req = 100),
   fraction of one device (req < 100, nd = 1) and multi-device fraction (req < 100 on each of nd = 2 devices,
   annotation gpu-fraction-num-devices).  GPU groups (the scheduler's name for a shared device) are abstract
   slots 1..MaxSlot: `dev[p]` = BindRequest.spec.selectedGPUGroups, `lab[p]` = the runai-gpu-group labels on
   the pod, which the binder writes ONE GROUP AT A TIME before it calls the binding sub-resource.
   The whole abstract state is ONE record `S` so that the same pure operators (`CyclePosts`, `BinderRuns`,
   ...) define the actions of the model and the one-step predictions of the trace specification.

   Code the actions are shaped after
     SchedCycle        framework.OpenSession -> SchedulerCache.Snapshot (cluster_info.Snapshot:
                       snapshotBindRequests, GetBindRequestForPod/IsFailed, getTaskStatus,
                       updatePodAdditionalFields (GPU groups of a pod with a BindRequest come from the request),
                       AddTasksToNode / addSharedTaskResources; then cleanStaleBindRequest) -> allocate action
                       -> cache.Bind/createBindRequest
     BinderAttempt     BindRequestReconciler.Reconcile incl. the deferred UpdateStatus, AS THE CODE DOES IT
                       (constant PatchRule: "phase" = status patched only when the phase changed - the code
                       before the F2 repair; "phase_or_attempts" = patched when phase or FailedAttempts changed).
                       out = "ok" | "fail" (binding sub-resource fails, rollback removes the labels) |
                       "faillabel" (multi-device pod: reserving the 2nd group fails after the 1st label was
                       written and the rollback fails too: the label stays)
                       "failclaim" (claim pod: the API server refuses the status update of the ResourceClaim in PreBind)
                       "panic" (binder.Bind panics in the call of the binding sub-resource: the deferred recover of
                       Reconcile turns the panic into a failed attempt, NO rollback runs (the labels of a
                       fraction pod stay) and Reconcile always returns an error: the key is re-queued)
     SchedCycleRefused a scheduler cycle in which the API server refuses the DELETE of stale BindRequests
                       (p = the pod whose stale request is refused, "" = every stale request): Snapshot returns
                       the error of cleanStaleBindRequest, OpenSession fails, the cycle ends there (scheduler.go:
                       "will try again next cycle"): the other stale requests are deleted, nothing is allocated
     BinderCrashAfterLabel  the binder dies right after one label patch (nothing else reaches the store); restart
     BindDoneStatusLost the `binding` sub-resource succeeded but the BindRequest status patch was lost
     BinderRestart     binder process restart: every existing BindRequest is re-queued
     NodeDeleted/NodeAdded, PodDeleted, GcBr (k8s garbage collector removes the BindRequest of a deleted pod)
     StartDrain        from here on the environment is fault-free (resync of the binder's queue, then only
                       successful reconciles, scheduler cycles and garbage collection): C12_Quiesces
   `q[p]` is the controller-runtime work queue: a key is queued by a create/update event of the BindRequest,
   by a returned error and by RequeueAfter > 0; only queued keys are reconciled.
   `att`, `fl` are ghost counters of the current BindRequest incarnation: calls of the binding sub-resource
   and failed reconciles.

   Pod shape "claim" (cl[p] = 1): the pod asks for its GPU through ONE DRA resource claim (one device of class
   gpu.nvidia.com); the node of such a scenario publishes its `gpus` GPUs as the devices 1..gpus of a ResourceSlice
   (a DRA node takes no device-plugin GPU requests: every pod of the scenario is a claim pod, req = 100, counted as a
   whole GPU by the node accounting).  For a claim pod `dev[p]` = the devices in
   BindRequest.spec.resourceClaimAllocations (written by cache.Bind from what the DRA allocator chose), `lab[p]` = the
   devices in the claim's status.allocation in the API - written by the binder's DynamicResources plugin in PreBind,
   BEFORE the binding call, and NOT rolled back by a failed attempt (UnAllocate is a no-op: known finding of C11);
   out = "failclaim": the API server refuses that status update - a failed attempt that leaves the claim unallocated.
   `inf[p]` = the in-flight ("pending") allocation that the scheduler PROCESS remembers for the claim
   (dynamicresources.assumePendingClaims -> SignalClaimPendingAllocation at session open, for every pod with a live
   BindRequest whose claim is still unallocated in the API); it is what keeps the device of a request in flight out
   of the DRA allocator's free set.  Constant InflightRule: "sticky" = the code as found (nothing ever calls
   RemoveClaimPendingAllocation: the entry - and its device - stays for the life of the scheduler process, and a
   pending pod whose unallocated claim has an entry is refused by the DRA PreFilter "in the process of being
   allocated"), "session" = the design (the in-flight set of a session is exactly the live requests of its snapshot).
   PodDeleted: the resource claim controller removes the reservation and deallocates the claim (lab[p] = {}).

   `leaks` counts the attempts that left GPU group labels behind without a rollback
   ("faillabel", "panic" of a fraction pod) and is bounded by MaxLeaks; refused cycles and panics of whole-GPU
   pods need no counter (a refused cycle adds no request, every panic uses up one retry of the request).  backoffLimit: lim = -1 stands for nil.                                            *)
EXTENDS Integers, FiniteSets, Sequences, TLC, Json

CONSTANTS Pods,          \* set of pod names (strings)
          Cap,           \* capacity of one GPU device in centi-GPU (100)
          Limits,        \* set of backoffLimit values, -1 = nil
          ShapeSet,      \* set of [gpus, req, nd, cl]: devices of the node, request per device, devices per pod, claim pod (0 | 1)
          PresentSet,    \* set of subsets of Pods: which pods exist in the scenario
          PersistSet,    \* subset of BOOLEAN: TRUE = every bind attempt of the scenario fails (C12_Terminates)
          PatchRule,     \* "phase" | "phase_or_attempts"
          InflightRule,  \* "sticky" | "session" (claim pods only)
          AllowDrain,    \* BOOLEAN: StartDrain enabled
          FreshAny,      \* BOOLEAN: a new GPU group may get any unreferenced slot (trace) / the smallest (model checking)
          MaxSlot,
          MaxAtt,        \* saturation of the ghost counters
          MaxRestarts, MaxFlips, MaxLeaks,
          MaxLevel       \* bound of the breadth-first level for the (optional) CONSTRAINT DepthBound

VARIABLES S,     \* the abstract state (record, see InitState)
          obs,   \* what the last step was and, after a SchedCycle, what the scheduler saw: pre-state + snapshot
          act    \* label of the last transition (hidden by VIEW; exported on the edges)
vars == <<S, obs, act>>
View == <<S, obs>>

PatchRules == {"phase", "phase_or_attempts"}
InflightRules == {"sticky", "session", "withdrawn"}
Slots == 1..MaxSlot
NoObs == [k |-> "none"]
NoBr(g) == [ex |-> FALSE, ph |-> "", fa |-> 0, gen |-> g]

RECURSIVE SumOver(_, _)
SumOver(f, T) == IF T = {} THEN 0 ELSE LET x == CHOOSE x \in T : TRUE IN f[x] + SumOver(f, T \ {x})
Min(a, b) == IF a < b THEN a ELSE b
Max(a, b) == IF a > b THEN a ELSE b
Pow2(n) == IF n <= 0 THEN 1 ELSE IF n = 1 THEN 2 ELSE IF n = 2 THEN 4 ELSE IF n = 3 THEN 8 ELSE IF n = 4 THEN 16 ELSE 32
Sat(n) == Min(n, MaxAtt)
RECURSIVE SmallestN(_, _)
SmallestN(T, n) == IF n = 0 \/ T = {} THEN {} ELSE LET m == CHOOSE m \in T : \A x \in T : m <= x IN {m} \cup SmallestN(T \ {m}, n - 1)

(* ---- what "terminally failed" means (bindrequest_info.IsFailed) ------------------------------------- *)
Terminal(b, L) == b.ex /\ b.ph = "Failed" /\ (L = -1 \/ b.fa >= L)
Live(b, L) == b.ex /\ ~Terminal(b, L)
LimPlus(L) == IF L = -1 THEN 0 ELSE L          \* cap of status.failedAttempts
LimEff(L) == IF L < 1 THEN 1 ELSE L            \* a nil/0 limit still sees the one error-requeue of the first failure

(* ---- device accounting, parameterised by the set of charged pods T and their groups G ------------------- *)
IsFrac(s, p) == s.req[p] < Cap
IsClaim(s, p) == s.cl[p] = 1
UsedBy(s, T, G(_, _), d) == SumOver(s.req, {p \in T : IsFrac(s, p) /\ d \in G(s, p)})
SharedBy(s, T, G(_, _)) == {d \in Slots : UsedBy(s, T, G, d) > 0}
WholeBy(s, T) == Cardinality({p \in T : ~IsFrac(s, p)})
IdleWholeBy(s, T, G(_, _)) == s.gpus - Cardinality(SharedBy(s, T, G)) - WholeBy(s, T)
IdleBy(s, T, G(_, _)) == Cap * IdleWholeBy(s, T, G) + SumOver([d \in Slots |-> Cap - UsedBy(s, T, G, d)], SharedBy(s, T, G))

(* ---- the scheduler's snapshot of a state (cluster_info.Snapshot) -------------------------------------- *)
StatusOf(s, p) == IF ~s.alive[p] THEN "None"
                  ELSE IF s.bound[p] THEN "Bound"                                   \* Pending phase + spec.nodeName
                  ELSE IF s.up /\ Live(s.br[p], s.lim) THEN "Binding"                 \* live BindRequest for an existing node
                  ELSE "Pending"
OnNode(s, p) == StatusOf(s, p) \in {"Bound", "Binding"}
ChargedSet(s) == {p \in Pods : s.up /\ OnNode(s, p)}
\* updatePodAdditionalFields: the groups of a pod whose BindRequest is in the snapshot's map come from the request
InMap(s, p) == s.up /\ Live(s.br[p], s.lim)
GroupsOf(s, p) == IF ~s.alive[p] \/ IsClaim(s, p) THEN {} ELSE IF InMap(s, p) /\ s.dev[p] # {} THEN s.dev[p] ELSE s.lab[p]
\* claim pods.  assumePendingClaims at session open: in-flight allocations of the pods with a live request in the snapshot
\* whose claim is unallocated in the API; under the rule "sticky" every older entry stays
InfPost(s, r) == [p \in Pods |-> IF IsClaim(s, p) /\ s.alive[p] /\ InMap(s, p) /\ s.lab[p] = {} THEN s.dev[p]
                                 ELSE IF r = "sticky" THEN s.inf[p] ELSE {}]
\* the devices the DRA manager counts as allocated (allocator, DRA filter): claims allocated in the API, in-flight
\* allocations, and - within a cycle - the claims the cycle has allocated itself (assume cache; they are in the new requests)
HeldBy(s, p) == IF ~IsClaim(s, p) THEN {} ELSE s.lab[p] \cup s.inf[p] \cup (IF s.alive[p] /\ InMap(s, p) THEN s.dev[p] ELSE {})
UsedDevs(s) == UNION {HeldBy(s, p) : p \in Pods}
\* PodInfo.ResourceClaimInfo: the allocation of the claim in the API, overridden by the one in a live request (a pod that
\* is bound to a node the snapshot does not have gets a record without claims: getPodInfo -> NewTaskInfo(pod, nil))
PclOf(s, p) == IF ~s.alive[p] \/ ~IsClaim(s, p) \/ (s.bound[p] /\ ~s.up) THEN {} ELSE IF InMap(s, p) /\ s.dev[p] # {} THEN s.dev[p] ELSE s.lab[p]
SnapOf(s, r) ==
             [st |-> [p \in Pods |-> StatusOf(s, p)],
              on |-> [p \in Pods |-> OnNode(s, p)],
              grp |-> [p \in Pods |-> GroupsOf(s, p)],
              pcl |-> [p \in Pods |-> PclOf(s, p)],
              used |-> UNION {IF IsClaim(s, p) THEN s.lab[p] \cup InfPost(s, r)[p] ELSE {} : p \in Pods},
              mem |-> [d \in Slots |-> IF s.up THEN UsedBy(s, ChargedSet(s), GroupsOf, d) ELSE 0],
              whole |-> IF s.up THEN IdleWholeBy(s, ChargedSet(s), GroupsOf) ELSE 0,
              idle |-> IF s.up THEN IdleBy(s, ChargedSet(s), GroupsOf) ELSE 0,
              node |-> s.up]

(* ---- SchedCycle ------------------------------------------------------------------------------------------ *)
Stale(s) == {p \in Pods : s.br[p].ex /\ (~s.up \/ Terminal(s.br[p], s.lim))}
PendingSet(s) == {p \in Pods : StatusOf(s, p) = "Pending"}
Referenced(s) == UNION {(IF s.br[p].ex THEN s.dev[p] ELSE {}) \cup (IF s.alive[p] THEN s.lab[p] ELSE {}) : p \in Pods}
\* placements of a fractional pod: nd distinct devices, each one shared with room or a fresh device (a whole idle GPU)
FracPlacements(s, p) ==
  LET shared == SharedBy(s, ChargedSet(s), GroupsOf)
      room == {d \in shared : UsedBy(s, ChargedSet(s), GroupsOf, d) + s.req[p] <= Cap}
      unref == Slots \ Referenced(s)
      idleWhole == IdleWholeBy(s, ChargedSet(s), GroupsOf)
  IN UNION {
       LET nfresh == s.nd[p] - Cardinality(R) IN
       IF nfresh < 0 \/ nfresh > idleWhole \/ nfresh > Cardinality(unref) THEN {}
       ELSE IF FreshAny THEN {R \cup F : F \in {F \in SUBSET unref : Cardinality(F) = nfresh}}
       ELSE {R \cup SmallestN(unref, nfresh)}
     : R \in SUBSET room }
Placed(s, p, D) ==
  [s EXCEPT !.br[p] = [ex |-> TRUE, ph |-> "", fa |-> 0, gen |-> 1 - s.br[p].gen],
            !.dev[p] = D, !.q[p] = TRUE, !.att[p] = 0, !.fl[p] = 0]
\* a claim pod: a whole idle GPU by the node's count, and a device: the one its claim holds in the API, else - unless the
\* claim has an in-flight allocation (DRA PreFilter: "in the process of being allocated") - the first free device
ClaimPlacements(s, p) ==
  IF s.lab[p] # {} THEN {s.lab[p]}
  ELSE IF s.inf[p] # {} THEN {}
  ELSE LET free == (1..s.gpus) \ UsedDevs(s) IN
       IF free = {} THEN {} ELSE IF FreshAny THEN {{d} : d \in free} ELSE {SmallestN(free, 1)}
Place(s, p) == IF IsClaim(s, p) THEN (IF IdleWholeBy(s, ChargedSet(s), GroupsOf) >= 1 THEN {Placed(s, p, D) : D \in ClaimPlacements(s, p)} ELSE {})
               ELSE IF IsFrac(s, p) THEN {Placed(s, p, D) : D \in FracPlacements(s, p)}
               ELSE IF IdleWholeBy(s, ChargedSet(s), GroupsOf) >= 1 THEN {Placed(s, p, {})} ELSE {}
\* the allocate action tries the pending pods one after the other in its own order; a pod that fits is placed
RECURSIVE Alloc(_, _)
Alloc(s, P) == IF P = {} THEN {s}
               ELSE UNION {IF Place(s, p) = {} THEN Alloc(s, P \ {p}) ELSE UNION {Alloc(t, P \ {p}) : t \in Place(s, p)} : p \in P}
CleanedSet(s, T) ==
  [s EXCEPT !.br = [p \in Pods |-> IF p \in T THEN NoBr(s.br[p].gen) ELSE s.br[p]],
            !.dev = [p \in Pods |-> IF p \in T THEN {} ELSE s.dev[p]],
            !.q = [p \in Pods |-> IF p \in T THEN FALSE ELSE s.q[p]],
            !.att = [p \in Pods |-> IF p \in T THEN 0 ELSE s.att[p]],
            !.fl = [p \in Pods |-> IF p \in T THEN 0 ELSE s.fl[p]]]
Cleaned(s) == CleanedSet(s, Stale(s))
\* rule "withdrawn" (the code since fix G49): the cycle sees the in-flight allocations of the live requests like rule
\* "session", and the plugin withdraws them from the shared DRA manager when the session closes
CyclePosts(s, r) == LET s1 == [s EXCEPT !.inf = InfPost(s, r)]
                        posts == IF ~s.up THEN {Cleaned(s1)} ELSE Alloc(Cleaned(s1), PendingSet(s1))
                    IN IF r = "withdrawn" THEN {[t EXCEPT !.inf = [p \in Pods |-> {}]] : t \in posts} ELSE posts
\* the cycle in which the API server refuses the DELETE of the stale requests R: cleanStaleBindRequest issues every
\* DELETE (goroutines), the ones that are not refused go through; its error fails Snapshot/OpenSession: no allocation
RefusedSet(s, p) == IF p = "" THEN Stale(s) ELSE {p} \cap Stale(s)
RefusedEnabled(s, p) == RefusedSet(s, p) # {}
RefusedPost(s, p) == CleanedSet(s, Stale(s) \ RefusedSet(s, p))

(* ---- one reconcile of the BindRequest of p; `out` = the injected fault ---------------------------------- *)
Reach(s, p) == s.br[p].ex /\ s.br[p].ph # "Succeeded" /\ s.alive[p] /\ ~s.bound[p] /\ s.up
\* the label patch of group d (the reservation step drops labels of groups the request does not select)
Labelled(s, p, d) == IF s.nd[p] = 1 THEN {d} ELSE (s.lab[p] \cap s.dev[p]) \cup {d}
BinderRuns(s, p, out, rule) ==
  LET b == s.br[p] IN
  IF ~b.ex \/ b.ph = "Succeeded"
  THEN {[post |-> [s EXCEPT !.q[p] = FALSE], err |-> FALSE, rq |-> 0, bind |-> FALSE]}
  ELSE
    LET reach == Reach(s, p)
        leak == reach /\ out = "faillabel" /\ IsFrac(s, p) /\ s.nd[p] = 2
        claimRefused == reach /\ out = "failclaim"      \* PreBind: the status update of the claim is refused
        bindCalled == reach /\ ~leak /\ ~claimRefused
        panic == bindCalled /\ out = "panic"       \* raised inside the call of the binding sub-resource
        errc == IF ~s.alive[p] THEN TRUE          \* Get pod: NotFound
                ELSE IF s.bound[p] THEN FALSE     \* pod already bound: success without binding
                ELSE IF ~s.up THEN TRUE           \* Get node: NotFound
                ELSE out # "ok"
        \* UpdateStatus
        inc == errc /\ s.lim # -1 /\ s.lim > b.fa
        faN == IF inc THEN b.fa + 1 ELSE b.fa
        phN == IF errc THEN "Failed" ELSE "Succeeded"
        changed == phN # b.ph \/ (rule = "phase_or_attempts" /\ faN # b.fa)   \* else: early return, nothing patched, error swallowed
        bN == IF changed THEN [b EXCEPT !.ph = phN, !.fa = faN] ELSE b
        labs == IF reach /\ IsClaim(s, p) THEN {IF claimRefused \/ s.lab[p] # {} THEN s.lab[p] ELSE s.dev[p]}   \* written in PreBind, never rolled back
                ELSE IF ~reach \/ ~IsFrac(s, p) THEN {s.lab[p]}
                ELSE IF leak THEN {Labelled(s, p, d) : d \in s.dev[p]}     \* one label written, rollback failed
                ELSE IF errc /\ ~panic THEN {{}}                            \* rollback removed the group labels
                ELSE {s.dev[p]}                  \* every selected group labelled, then bound | bind panicked: no rollback
    IN {[post |-> [s EXCEPT !.br[p] = bN,
                            !.lab[p] = L,
                            \* attempts that left group labels behind without a rollback
                            !.leaks = IF leak \/ (panic /\ IsFrac(s, p)) THEN s.leaks + 1 ELSE s.leaks,
                            !.bound[p] = s.bound[p] \/ (bindCalled /\ ~errc),
                            !.att[p] = IF bindCalled THEN Sat(s.att[p] + 1) ELSE s.att[p],
                            !.fl[p] = IF errc THEN Sat(s.fl[p] + 1) ELSE s.fl[p],
                            !.q[p] = changed \/ inc],   \* update event | returned error | RequeueAfter
         \* UpdateStatus swallows the error when it patches nothing - also the error of a recovered panic (fix G46: it used
         \* to be returned always, which re-queued a terminally failed request for ever while Bind kept panicking)
         err |-> changed /\ errc, rq |-> IF inc THEN Pow2(b.fa) ELSE 0, bind |-> bindCalled] : L \in labs}

\* A panic can hit any attempt that gets as far as the binding call, also on a terminally failed request (there the
\* reconcile records nothing and - since fix G46 - returns no error: no re-queue, like any other bind error).
PanicEnabled(s, p) == Reach(s, p)
StatusLostEnabled(s, p) == s.q[p] /\ Reach(s, p)
StatusLostPost(s, p) == [s EXCEPT !.bound[p] = TRUE, !.att[p] = Sat(s.att[p] + 1), !.q[p] = FALSE,
                                  !.lab[p] = IF IsFrac(s, p) \/ (IsClaim(s, p) /\ s.lab[p] = {}) THEN s.dev[p] ELSE s.lab[p]]
RestartPost(s) == [s EXCEPT !.q = [p \in Pods |-> s.br[p].ex], !.restarts = s.restarts + 1]
CrashEnabled(s, p) == s.q[p] /\ Reach(s, p) /\ IsFrac(s, p) /\ s.dev[p] \ s.lab[p] # {}
CrashPosts(s, p) == {[RestartPost(s) EXCEPT !.lab[p] = Labelled(s, p, d)] : d \in s.dev[p] \ s.lab[p]}
GcPost(s, p) == [s EXCEPT !.br[p] = NoBr(s.br[p].gen), !.dev[p] = {}, !.q[p] = FALSE, !.att[p] = 0, !.fl[p] = 0]
PodDeletedPost(s, p) == [s EXCEPT !.alive[p] = FALSE, !.bound[p] = FALSE, !.lab[p] = {}]
DrainPost(s) == [RestartPost(s) EXCEPT !.drain = TRUE]

(* ---- the model -------------------------------------------------------------------------------------------- *)
InitState(L, sh, present, persist) ==
  [lim |-> L, gpus |-> sh.gpus, req |-> sh.req, nd |-> sh.nd, cl |-> sh.cl, inf |-> [p \in Pods |-> {}], persist |-> persist, drain |-> FALSE,
   up |-> TRUE, flips |-> 0, restarts |-> 0, leaks |-> 0,
   alive |-> [p \in Pods |-> p \in present], bound |-> [p \in Pods |-> FALSE],
   br |-> [p \in Pods |-> NoBr(0)], dev |-> [p \in Pods |-> {}], lab |-> [p \in Pods |-> {}],
   q |-> [p \in Pods |-> FALSE], att |-> [p \in Pods |-> 0], fl |-> [p \in Pods |-> 0]]

NoAct(n, p, out) == [n |-> n, p |-> p, out |-> out]
Init == /\ \E L \in Limits, sh \in ShapeSet, present \in PresentSet, persist \in PersistSet : S = InitState(L, sh, present, persist)
        /\ obs = NoObs /\ act = NoAct("Init", "", "")

SchedCycle ==
  /\ \E post \in CyclePosts(S, InflightRule) : S' = post
  /\ obs' = [k |-> "cycle", pre |-> S, snap |-> SnapOf(S, InflightRule)]
  /\ act' = NoAct("SchedCycle", "", "")

\* p = "" (every stale request refused) is only a label of its own when there are at least two stale requests
SchedCycleRefused(p) ==
  /\ ~S.drain /\ RefusedEnabled(S, p)
  /\ p = "" => Cardinality(Stale(S)) >= 2
  /\ S' = RefusedPost(S, p)
  /\ obs' = NoObs /\ act' = NoAct("SchedCycleRefused", p, "")

BinderAttempt(p, out) ==
  /\ S.q[p]
  /\ S.persist => out # "ok"
  /\ S.drain => out = "ok"
  \* canonical label: `out` only matters when the binder gets as far as reserving/binding
  /\ ~Reach(S, p) => out = (IF S.persist THEN "fail" ELSE "ok")
  /\ out = "faillabel" => Reach(S, p) /\ IsFrac(S, p) /\ S.nd[p] = 2 /\ S.leaks < MaxLeaks
  /\ out = "panic" => PanicEnabled(S, p) /\ (IsFrac(S, p) => S.leaks < MaxLeaks)
  /\ out = "failclaim" => Reach(S, p) /\ IsClaim(S, p)
  /\ \E r \in BinderRuns(S, p, out, PatchRule) : S' = r.post
  /\ obs' = NoObs /\ act' = NoAct("BinderAttempt", p, out)

BindDoneStatusLost(p) ==
  /\ ~S.persist /\ ~S.drain /\ StatusLostEnabled(S, p)
  /\ S' = StatusLostPost(S, p)
  /\ obs' = NoObs /\ act' = NoAct("BindDoneStatusLost", p, "")

BinderCrashAfterLabel(p) ==
  /\ ~S.persist /\ ~S.drain /\ S.restarts < MaxRestarts /\ CrashEnabled(S, p)
  /\ \E t \in CrashPosts(S, p) : S' = t
  /\ obs' = NoObs /\ act' = NoAct("BinderCrashAfterLabel", p, "")

BinderRestart ==
  /\ ~S.drain /\ S.restarts < MaxRestarts /\ \E p \in Pods : S.br[p].ex /\ ~S.q[p]
  /\ S' = RestartPost(S)
  /\ obs' = NoObs /\ act' = NoAct("BinderRestart", "", "")

NodeDeleted ==
  /\ ~S.drain /\ S.up /\ S.flips < MaxFlips
  /\ S' = [S EXCEPT !.up = FALSE, !.flips = S.flips + 1]
  /\ obs' = NoObs /\ act' = NoAct("NodeDeleted", "", "")

NodeAdded ==
  /\ ~S.drain /\ ~S.up /\ S.flips < MaxFlips
  /\ S' = [S EXCEPT !.up = TRUE, !.flips = S.flips + 1]
  /\ obs' = NoObs /\ act' = NoAct("NodeAdded", "", "")

PodDeleted(p) ==
  /\ ~S.drain /\ S.alive[p]
  /\ S' = PodDeletedPost(S, p)
  /\ obs' = NoObs /\ act' = NoAct("PodDeleted", p, "")

GcBr(p) ==
  /\ S.br[p].ex /\ ~S.alive[p]
  /\ S' = GcPost(S, p)
  /\ obs' = NoObs /\ act' = NoAct("GcBr", p, "")

StartDrain ==
  /\ AllowDrain /\ ~S.drain /\ ~S.persist
  /\ S' = DrainPost(S)
  /\ obs' = NoObs /\ act' = NoAct("StartDrain", "", "")

BinderStep(p) == \E out \in {"ok", "fail", "faillabel", "panic", "failclaim"} : BinderAttempt(p, out)
Next == \/ SchedCycle \/ SchedCycleRefused("") \/ BinderRestart \/ NodeDeleted \/ NodeAdded \/ StartDrain
        \/ \E p \in Pods : SchedCycleRefused(p) \/ BinderStep(p) \/ BindDoneStatusLost(p) \/ BinderCrashAfterLabel(p) \/ PodDeleted(p) \/ GcBr(p)

Spec == Init /\ [][Next]_vars
FairSpec == Spec /\ WF_vars(SchedCycle) /\ \A p \in Pods : WF_vars(BinderStep(p)) /\ WF_vars(GcBr(p))

(* ---- types ------------------------------------------------------------------------------------------------- *)
BrType == [ex : BOOLEAN, ph : {"", "Failed", "Succeeded"}, fa : 0..MaxAtt, gen : {0, 1}]
TypeOK ==
  /\ S.lim \in Limits /\ [gpus |-> S.gpus, req |-> S.req, nd |-> S.nd, cl |-> S.cl] \in ShapeSet
  /\ S.inf \in [Pods -> SUBSET Slots]
  /\ S.persist \in BOOLEAN /\ S.drain \in BOOLEAN /\ S.up \in BOOLEAN
  /\ S.flips \in 0..MaxFlips /\ S.restarts \in 0..(MaxRestarts + 1) /\ S.leaks \in 0..MaxLeaks
  /\ S.alive \in [Pods -> BOOLEAN] /\ S.bound \in [Pods -> BOOLEAN] /\ S.q \in [Pods -> BOOLEAN]
  /\ S.br \in [Pods -> BrType]
  /\ S.dev \in [Pods -> SUBSET Slots] /\ S.lab \in [Pods -> SUBSET Slots]
  /\ S.att \in [Pods -> 0..MaxAtt] /\ S.fl \in [Pods -> 0..MaxAtt]
  /\ obs.k \in {"none", "cycle"}

(* ---- C12: property predicates (state predicates over S and obs; HandoffTrace binds S/obs to the real values) *)
\* what a state promises on the node: bound pods and pods with a live BindRequest, with the groups of the
\* request while it lives (declarative truth, written without the snapshot's status logic)
Promised(s) == {p \in Pods : s.alive[p] /\ (s.bound[p] \/ Live(s.br[p], s.lim))}
TruthGroups(s, p) == IF Live(s.br[p], s.lim) /\ s.dev[p] # {} THEN s.dev[p] ELSE s.lab[p]

\* every snapshot keeps the GPU groups of a live BindRequest on its pod: exactly the groups the request selected
C12_ChargedGroups ==
  obs.k = "cycle" =>
    \A p \in Pods : (obs.pre.up /\ obs.pre.alive[p] /\ Live(obs.pre.br[p], obs.pre.lim) /\ IsFrac(obs.pre, p))
                      => obs.snap.grp[p] = obs.pre.dev[p]
\* every snapshot charges the pod of a live BindRequest to the selected node: the pod is Binding there, every GPU
\* group is charged the memory of the pods that hold it, a device that carries a group is not idle ...
C12_Charged ==
  obs.k = "cycle" =>
    LET pre == obs.pre  snap == obs.snap IN
    /\ \A p \in Pods : (pre.alive[p] /\ ~pre.bound[p] /\ pre.up /\ Live(pre.br[p], pre.lim))
                         => snap.st[p] = "Binding" /\ snap.on[p]
    /\ pre.up => /\ snap.idle = IdleBy(pre, Promised(pre), TruthGroups) /\ snap.idle >= 0
                 /\ \A d \in Slots : snap.mem[d] = UsedBy(pre, Promised(pre), TruthGroups, d)
                 /\ snap.whole = IdleWholeBy(pre, Promised(pre), TruthGroups)
\* the devices a state promises to the claim of a pod: what the claim holds in the API and, while the request lives, what
\* the request hands to it (declarative truth, written without the scheduler's in-flight bookkeeping)
TruthDevs(s, p) == IF ~IsClaim(s, p) THEN {}
                   ELSE s.lab[p] \cup (IF s.alive[p] /\ s.up /\ Live(s.br[p], s.lim) THEN s.dev[p] ELSE {})
\* every cycle treats the claimed devices as taken: the devices of a live request (not started, failed k times and
\* retrying, bound with the status lost ...) and of the claims allocated in the API are in the set the DRA allocator
\* and the DRA filter work from, and the pod's own record carries the devices of its request
C12_ChargedDevices ==
  obs.k = "cycle" =>
    \A p \in Pods : IsClaim(obs.pre, p) =>
       /\ obs.pre.lab[p] \subseteq obs.snap.used
       /\ (obs.pre.up /\ obs.pre.alive[p] /\ Live(obs.pre.br[p], obs.pre.lim))
             => /\ obs.pre.dev[p] \subseteq obs.snap.used
                /\ obs.pre.dev[p] # {} => obs.snap.pcl[p] = obs.pre.dev[p]
\* ... and after a terminal outcome (request deleted / terminally failed / node or pod gone) the device is free again:
\* nothing but claims allocated in the API and live requests holds a device.  The scheduler as found did not do this
\* (InflightRule "sticky", finding G49, fixed): not judged when the check is told to follow that rule
DevicesFreed == obs.k = "cycle" => obs.snap.used \subseteq UNION {TruthDevs(obs.pre, p) : p \in Pods}
C12_DevicesFreed == InflightRule \in {"session", "withdrawn"} => DevicesFreed
\* ... so no later cycle hands the capacity out again
C12_NoDoubleBooking ==
  /\ S.up => /\ \A d \in Slots : UsedBy(S, Promised(S), TruthGroups, d) <= Cap
             /\ IdleWholeBy(S, Promised(S), TruthGroups) >= 0
  /\ \A p, q \in Pods : p # q => TruthDevs(S, p) \cap TruthDevs(S, q) = {}

\* a request for a deleted node is deleted by the next cycle and its pod is schedulable (Pending) again
C12_DeletedNode ==
  obs.k = "cycle" =>
    \A p \in Pods : (obs.pre.br[p].ex /\ ~obs.pre.up) =>
       /\ ~S.br[p].ex
       /\ (obs.pre.alive[p] /\ ~obs.pre.bound[p]) => obs.snap.st[p] = "Pending"

\* a terminally failed request is deleted by the next cycle (a new incarnation may replace it), pod schedulable again
C12_FailedCleaned ==
  obs.k = "cycle" =>
    \A p \in Pods : Terminal(obs.pre.br[p], obs.pre.lim) =>
       /\ ~S.br[p].ex \/ S.br[p].gen # obs.pre.br[p].gen
       /\ (obs.pre.alive[p] /\ ~obs.pre.bound[p]) => obs.snap.st[p] = "Pending"

\* the binder retries a failing request at most backoffLimit times
C12_BoundedRetry ==
  \A p \in Pods : /\ S.att[p] <= LimEff(S.lim) + 1 + S.restarts
                  /\ S.br[p].ex => S.br[p].fa <= LimPlus(S.lim)

\* ... with the attempt count persisted: after every failed attempt the stored count is the number of failures (capped)
C12_AttemptsPersisted ==
  \A p \in Pods : S.br[p].ex => S.br[p].fa = Min(S.fl[p], LimPlus(S.lim))

\* ... after which the request is observably failed to the scheduler (safety form, evaluated on real traces too)
C12_FailedObservable ==
  \A p \in Pods : (S.br[p].ex /\ S.br[p].ph # "Succeeded" /\ S.fl[p] >= 1 /\ S.fl[p] >= LimPlus(S.lim))
                    => Terminal(S.br[p], S.lim)

\* the hand-off has come to rest in a good state: nothing queued, every request gone or Succeeded with its pod
\* bound, no pod left Binding, and every unbound pod is unbound because it does not fit
Quiescent(s) ==
  /\ \A p \in Pods : /\ ~s.q[p]
                     /\ s.br[p].ex => s.br[p].ph = "Succeeded" /\ s.bound[p] /\ s.alive[p]
  /\ s.up => LET t == [s EXCEPT !.inf = InfPost(s, InflightRule)] IN
             \A p \in Pods : (s.alive[p] /\ ~s.bound[p]) => Place(t, p) = {}

\* temporal: under persistent failure every request becomes observably failed (or disappears)
Unsettled(p) == S.br[p].ex /\ S.br[p].ph # "Succeeded" /\ ~Terminal(S.br[p], S.lim)
C12_Terminates == \A p \in Pods : (S.persist /\ Unsettled(p)) ~> ~Unsettled(p)
\* temporal: once the environment is fault-free the hand-off quiesces (a later fault-free attempt succeeds)
C12_QuiescesEventually == S.drain ~> Quiescent(S)

(* ---- export of the labelled transition graph (direction A) ------------------------------------------------ *)
DepthBound == TLCGet("level") <= MaxLevel

Edge == PrintT("EDGE " \o ToJson([a |-> act', s |-> S, t |-> S']))
=============================================================================
