------------------------------- MODULE Handoff -------------------------------
(* C12 - the scheduler -> binder hand-off through BindRequest objects.

   One node (one GPU, capacity Cap = 100 centi-GPU), a few pods that compete for it, one BindRequest
   per pod (named after the pod, as cache.createBindRequest does).  The whole abstract state is ONE record
   `S` so that the same pure operators (`CyclePosts`, `BinderPost`, ...) define the actions of the model and
   the one-step predictions of the trace specification (HandoffTrace.tla).

   Code the actions are shaped after
     SchedCycle        framework.OpenSession -> SchedulerCache.Snapshot (cluster_info.Snapshot:
                       snapshotBindRequests, GetBindRequestForPod/IsFailed, getTaskStatus, AddTasksToNode;
                       then cleanStaleBindRequest) -> allocate action -> cache.Bind/createBindRequest
     BinderAttempt     BindRequestReconciler.Reconcile incl. the deferred UpdateStatus, AS THE CODE DOES IT
                       (constant PatchRule: "phase" = status is patched only when the phase changed - the
                       code as found, candidate F2; "phase_or_attempts" = patched when phase or
                       FailedAttempts changed - the repaired code)
     BindDoneStatusLost the `binding` sub-resource succeeded but the BindRequest status patch was lost
     BinderRestart     binder process restart: every existing BindRequest is re-queued
     NodeDeleted/NodeAdded, PodDeleted, GcBr (k8s garbage collector removes the BindRequest owned by a
                       deleted pod)
   `q[p]` is the controller-runtime work queue: a key is queued by a create/update event of the BindRequest,
   by a returned error and by RequeueAfter > 0; only queued keys are reconciled.
   `att`, `fl` are ghost counters of the current BindRequest incarnation: calls of the binding sub-resource
   and failed reconciles.  backoffLimit: lim = -1 stands for nil.                                            *)
EXTENDS Integers, FiniteSets, Sequences, TLC, Json

CONSTANTS Pods,          \* set of pod names (strings)
          Cap,           \* capacity of the node's GPU in centi-GPU (100)
          Limits,        \* set of backoffLimit values, -1 = nil
          ReqSet,        \* set of functions Pods -> request in centi-GPU (100 = whole GPU, < 100 = fraction)
          PresentSet,    \* set of subsets of Pods: which pods exist in the scenario
          PersistSet,    \* subset of BOOLEAN: TRUE = every bind attempt of the scenario fails (C12_Terminates)
          PatchRule,     \* "phase" | "phase_or_attempts"
          MaxAtt,        \* saturation of the ghost counters
          MaxRestarts, MaxFlips,
          MaxLevel       \* bound of the breadth-first level for the (optional) CONSTRAINT DepthBound

VARIABLES S,     \* the abstract state (record, see Init)
          obs,   \* what the last step was and, after a SchedCycle, what the scheduler saw: pre-state + snapshot
          act    \* label of the last transition (hidden by VIEW; exported on the edges)
vars == <<S, obs, act>>
View == <<S, obs>>

PatchRules == {"phase", "phase_or_attempts"}
NoObs == [k |-> "none"]
NoBr(g) == [ex |-> FALSE, ph |-> "", fa |-> 0, gen |-> g]

RECURSIVE SumOver(_, _)
SumOver(f, T) == IF T = {} THEN 0 ELSE LET x == CHOOSE x \in T : TRUE IN f[x] + SumOver(f, T \ {x})
Min(a, b) == IF a < b THEN a ELSE b
Max(a, b) == IF a > b THEN a ELSE b
Pow2(n) == IF n <= 0 THEN 1 ELSE IF n = 1 THEN 2 ELSE IF n = 2 THEN 4 ELSE IF n = 3 THEN 8 ELSE IF n = 4 THEN 16 ELSE 32
Sat(n) == Min(n, MaxAtt)

(* ---- what "terminally failed" means (bindrequest_info.IsFailed) ------------------------------------- *)
Terminal(b, L) == b.ex /\ b.ph = "Failed" /\ (L = -1 \/ b.fa >= L)
Live(b, L) == b.ex /\ ~Terminal(b, L)
LimPlus(L) == IF L = -1 THEN 0 ELSE L          \* cap of status.failedAttempts
LimEff(L) == IF L < 1 THEN 1 ELSE L            \* a nil/0 limit still sees the one error-requeue of the first failure

(* ---- the scheduler's snapshot of a state (cluster_info.Snapshot) -------------------------------------- *)
StatusOf(s, p) == IF ~s.alive[p] THEN "None"
                  ELSE IF s.bound[p] THEN "Bound"                                   \* Pending phase + spec.nodeName
                  ELSE IF s.up /\ Live(s.br[p], s.lim) THEN "Binding"                 \* live BindRequest for an existing node
                  ELSE "Pending"
OnNode(s, p) == StatusOf(s, p) \in {"Bound", "Binding"}
ChargedSet(s) == {p \in Pods : s.up /\ OnNode(s, p)}
IdleOf(s) == IF s.up THEN Cap - SumOver(s.req, ChargedSet(s)) ELSE 0
SnapOf(s) == [st |-> [p \in Pods |-> StatusOf(s, p)],
              on |-> [p \in Pods |-> OnNode(s, p)],
              idle |-> IdleOf(s), node |-> s.up]

(* ---- SchedCycle ------------------------------------------------------------------------------------------ *)
Stale(s) == {p \in Pods : s.br[p].ex /\ (~s.up \/ Terminal(s.br[p], s.lim))}
PendingSet(s) == {p \in Pods : StatusOf(s, p) = "Pending"}
Fits(s, T) == SumOver(s.req, T) <= IdleOf(s)
\* the allocate action places pending pods greedily in its own order: any maximal fitting subset
Choices(s) == IF ~s.up THEN {{}}
              ELSE {T \in SUBSET PendingSet(s) : Fits(s, T) /\ \A p \in PendingSet(s) \ T : ~Fits(s, T \cup {p})}
CyclePost(s, T) ==
  [s EXCEPT !.br = [p \in Pods |-> IF p \in T THEN [ex |-> TRUE, ph |-> "", fa |-> 0, gen |-> 1 - s.br[p].gen]
                                   ELSE IF p \in Stale(s) THEN NoBr(s.br[p].gen) ELSE s.br[p]],
            !.q = [p \in Pods |-> IF p \in T THEN TRUE ELSE IF p \in Stale(s) THEN FALSE ELSE s.q[p]],
            !.att = [p \in Pods |-> IF p \in T \cup Stale(s) THEN 0 ELSE s.att[p]],
            !.fl = [p \in Pods |-> IF p \in T \cup Stale(s) THEN 0 ELSE s.fl[p]]]
CyclePosts(s) == {CyclePost(s, T) : T \in Choices(s)}

(* ---- one reconcile of the BindRequest of p; `out` = what the binding sub-resource does if it is called --- *)
BinderRun(s, p, out, rule) ==
  LET b == s.br[p] IN
  IF ~b.ex \/ b.ph = "Succeeded"
  THEN [post |-> [s EXCEPT !.q[p] = FALSE], err |-> FALSE, rq |-> 0, bind |-> FALSE]
  ELSE
    LET bindCalled == s.alive[p] /\ ~s.bound[p] /\ s.up
        errc == IF ~s.alive[p] THEN TRUE          \* Get pod: NotFound
                ELSE IF s.bound[p] THEN FALSE     \* pod already bound: success without binding
                ELSE IF ~s.up THEN TRUE           \* Get node: NotFound
                ELSE out = "fail"
        \* UpdateStatus
        inc == errc /\ s.lim # -1 /\ s.lim > b.fa
        faN == IF inc THEN b.fa + 1 ELSE b.fa
        phN == IF errc THEN "Failed" ELSE "Succeeded"
        changed == phN # b.ph \/ (rule = "phase_or_attempts" /\ faN # b.fa)   \* else: early return, nothing patched, error swallowed
        bN == IF changed THEN [b EXCEPT !.ph = phN, !.fa = faN] ELSE b
    IN [post |-> [s EXCEPT !.br[p] = bN,
                           !.bound[p] = s.bound[p] \/ (bindCalled /\ ~errc),
                           !.att[p] = IF bindCalled THEN Sat(s.att[p] + 1) ELSE s.att[p],
                           !.fl[p] = IF errc THEN Sat(s.fl[p] + 1) ELSE s.fl[p],
                           !.q[p] = changed \/ inc],        \* update event | returned error | RequeueAfter
        err |-> changed /\ errc, rq |-> IF inc THEN Pow2(b.fa) ELSE 0, bind |-> bindCalled]
BinderPost(s, p, out, rule) == BinderRun(s, p, out, rule).post

StatusLostEnabled(s, p) == s.q[p] /\ s.br[p].ex /\ s.br[p].ph # "Succeeded" /\ s.alive[p] /\ ~s.bound[p] /\ s.up
StatusLostPost(s, p) == [s EXCEPT !.bound[p] = TRUE, !.att[p] = Sat(s.att[p] + 1), !.q[p] = FALSE]
RestartPost(s) == [s EXCEPT !.q = [p \in Pods |-> s.br[p].ex], !.restarts = s.restarts + 1]
GcPost(s, p) == [s EXCEPT !.br[p] = NoBr(s.br[p].gen), !.q[p] = FALSE, !.att[p] = 0, !.fl[p] = 0]

(* ---- the model -------------------------------------------------------------------------------------------- *)
InitState(L, r, present, persist) ==
  [lim |-> L, req |-> r, persist |-> persist, up |-> TRUE, flips |-> 0, restarts |-> 0,
   alive |-> [p \in Pods |-> p \in present], bound |-> [p \in Pods |-> FALSE],
   br |-> [p \in Pods |-> NoBr(0)], q |-> [p \in Pods |-> FALSE],
   att |-> [p \in Pods |-> 0], fl |-> [p \in Pods |-> 0]]

Init == /\ \E L \in Limits, r \in ReqSet, present \in PresentSet, persist \in PersistSet : S = InitState(L, r, present, persist)
        /\ obs = NoObs /\ act = [n |-> "Init", p |-> "", out |-> ""]

SchedCycle ==
  /\ \E post \in CyclePosts(S) : S' = post
  /\ obs' = [k |-> "cycle", pre |-> S, snap |-> SnapOf(S)]
  /\ act' = [n |-> "SchedCycle", p |-> "", out |-> ""]

BinderAttempt(p, out) ==
  /\ S.q[p]
  /\ S.persist => out = "fail"
  \* canonical label: `out` only matters when the binding sub-resource is reached
  /\ (~(S.br[p].ex /\ S.br[p].ph # "Succeeded" /\ S.alive[p] /\ ~S.bound[p] /\ S.up)) => out = "ok" \/ S.persist
  /\ S' = BinderPost(S, p, out, PatchRule)
  /\ obs' = NoObs /\ act' = [n |-> "BinderAttempt", p |-> p, out |-> out]

BindDoneStatusLost(p) ==
  /\ ~S.persist /\ StatusLostEnabled(S, p)
  /\ S' = StatusLostPost(S, p)
  /\ obs' = NoObs /\ act' = [n |-> "BindDoneStatusLost", p |-> p, out |-> ""]

BinderRestart ==
  /\ S.restarts < MaxRestarts /\ \E p \in Pods : S.br[p].ex /\ ~S.q[p]
  /\ S' = RestartPost(S)
  /\ obs' = NoObs /\ act' = [n |-> "BinderRestart", p |-> "", out |-> ""]

NodeDeleted ==
  /\ S.up /\ S.flips < MaxFlips
  /\ S' = [S EXCEPT !.up = FALSE, !.flips = S.flips + 1]
  /\ obs' = NoObs /\ act' = [n |-> "NodeDeleted", p |-> "", out |-> ""]

NodeAdded ==
  /\ ~S.up /\ S.flips < MaxFlips
  /\ S' = [S EXCEPT !.up = TRUE, !.flips = S.flips + 1]
  /\ obs' = NoObs /\ act' = [n |-> "NodeAdded", p |-> "", out |-> ""]

PodDeleted(p) ==
  /\ S.alive[p]
  /\ S' = [S EXCEPT !.alive[p] = FALSE, !.bound[p] = FALSE]
  /\ obs' = NoObs /\ act' = [n |-> "PodDeleted", p |-> p, out |-> ""]

GcBr(p) ==
  /\ S.br[p].ex /\ ~S.alive[p]
  /\ S' = GcPost(S, p)
  /\ obs' = NoObs /\ act' = [n |-> "GcBr", p |-> p, out |-> ""]

BinderStep(p) == \E out \in {"ok", "fail"} : BinderAttempt(p, out)
Next == \/ SchedCycle \/ BinderRestart \/ NodeDeleted \/ NodeAdded
        \/ \E p \in Pods : BinderStep(p) \/ BindDoneStatusLost(p) \/ PodDeleted(p) \/ GcBr(p)

Spec == Init /\ [][Next]_vars
FairSpec == Spec /\ \A p \in Pods : WF_vars(BinderStep(p))

(* ---- types ------------------------------------------------------------------------------------------------- *)
BrType == [ex : BOOLEAN, ph : {"", "Failed", "Succeeded"}, fa : 0..MaxAtt, gen : {0, 1}]
TypeOK ==
  /\ S.lim \in Limits /\ S.req \in ReqSet /\ S.persist \in BOOLEAN /\ S.up \in BOOLEAN
  /\ S.flips \in 0..MaxFlips /\ S.restarts \in 0..MaxRestarts
  /\ S.alive \in [Pods -> BOOLEAN] /\ S.bound \in [Pods -> BOOLEAN] /\ S.q \in [Pods -> BOOLEAN]
  /\ S.br \in [Pods -> BrType]
  /\ S.att \in [Pods -> 0..MaxAtt] /\ S.fl \in [Pods -> 0..MaxAtt]
  /\ obs.k \in {"none", "cycle"}

(* ---- C12: property predicates (state predicates over S and obs; HandoffTrace binds S/obs to the real values) *)
\* capacity promised on the node by a state: bound pods and pods with a live BindRequest
Promised(s) == {p \in Pods : s.alive[p] /\ (s.bound[p] \/ Live(s.br[p], s.lim))}

\* every snapshot charges the pod of a live BindRequest to the selected node ...
C12_Charged ==
  obs.k = "cycle" =>
    LET pre == obs.pre  snap == obs.snap IN
    /\ \A p \in Pods : (pre.alive[p] /\ ~pre.bound[p] /\ pre.up /\ Live(pre.br[p], pre.lim))
                         => snap.st[p] = "Binding" /\ snap.on[p]
    /\ pre.up => snap.idle = Cap - SumOver(pre.req, Promised(pre)) /\ snap.idle >= 0
\* ... so no later cycle hands the capacity out again
C12_NoDoubleBooking == S.up => SumOver(S.req, Promised(S)) <= Cap

\* a request for a deleted node is deleted by the next cycle and its pod is schedulable (Pending) again
C12_DeletedNode ==
  obs.k = "cycle" =>
    \A p \in Pods : (obs.pre.br[p].ex /\ ~obs.pre.up) =>
       /\ ~S.br[p].ex
       /\ (obs.pre.alive[p] /\ ~obs.pre.bound[p]) => obs.snap.st[p] = "Pending"

\* a terminally failed request is deleted by the next cycle (a new incarnation may replace it), pod schedulable again
C12_FailedCleaned ==
  obs.k = "cycle" =>
    \A p \in Pods : Terminal(obs.pre.br[p], obs.pre.lim) =>
       /\ ~S.br[p].ex \/ S.br[p].gen # obs.pre.br[p].gen
       /\ (obs.pre.alive[p] /\ ~obs.pre.bound[p]) => obs.snap.st[p] = "Pending"

\* the binder retries a failing request at most backoffLimit times
C12_BoundedRetry ==
  \A p \in Pods : /\ S.att[p] <= LimEff(S.lim) + 1 + S.restarts
                  /\ S.br[p].ex => S.br[p].fa <= LimPlus(S.lim)

\* ... with the attempt count persisted: after every failed attempt the stored count is the number of failures (capped)
C12_AttemptsPersisted ==
  \A p \in Pods : S.br[p].ex => S.br[p].fa = Min(S.fl[p], LimPlus(S.lim))

\* ... after which the request is observably failed to the scheduler (safety form, evaluated on real traces too)
C12_FailedObservable ==
  \A p \in Pods : (S.br[p].ex /\ S.br[p].ph # "Succeeded" /\ S.fl[p] >= 1 /\ S.fl[p] >= LimPlus(S.lim))
                    => Terminal(S.br[p], S.lim)

\* temporal: under persistent failure every request becomes observably failed (or disappears)
Unsettled(p) == S.br[p].ex /\ S.br[p].ph # "Succeeded" /\ ~Terminal(S.br[p], S.lim)
C12_Terminates == \A p \in Pods : (S.persist /\ Unsettled(p)) ~> ~Unsettled(p)

DepthBound == TLCGet("level") <= MaxLevel

(* ---- export of the labelled transition graph (direction A) ------------------------------------------------ *)
Edge == PrintT("EDGE " \o ToJson([a |-> act', s |-> S, t |-> S']))
=============================================================================
