----------------------------- MODULE BinderTrace -----------------------------
(* Trace validation for C11 / C17: traces recorded by harness/cmd/binder from the REAL
   BindRequestReconciler / Binder / resource-reservation service / plugins / event handlers.

   Every event carries the projection `st` of the API store after the event; the store variable S
   of Binder.tla is BOUND to it after every event, so every C11_* / C17_* invariant of Binder.tla is
   evaluated by TLC on real store projections only (the observation flags in ctl are driven by the
   real Start / Call / End events as well).
   The model runs alongside as a one-step predictor: for every recorded client call (and mutex
   acquisition) the successor of Binder!Succ with the same label is looked up in the real pre-state;
   a call the model would not make, or a post-state that differs from the predicted one, is
   recorded in `drift` (D_NoDrift: specification drift, exit 2 - never a violation).
   Writes are strict. A READ (get / list) the model does not expect at that position is accepted as a
   stuttering step (xr = 1, counted as extra_reads): reordering or adding reads is a legal refactoring; if such
   a read is failed by injection the model cannot follow the error path: it stops predicting for that actor
   (no drift) and the verdict is left to the property predicates.
   A departure at a WRITE (or at a mutex operation) also stops the prediction for that actor; it counts as drift only
   if the store at the end of the actor's run is none of the stores the model allows from the departure point
   (and the driver reports drift only for scenarios in which no property predicate fails).
   One initial state per Scenario line; handlers are total. *)
EXTENDS Binder, Json

Trace == ndJsonDeserialize("trace.ndjson")

VARIABLES l, l0, drift, xr, alt
tvars == <<vars, l, l0, drift, xr, alt>>

Starts == {i \in 1..Len(Trace) : Trace[i].ev = "Scenario"}
Ev == Trace[l]
Is(name) == l <= Len(Trace) /\ Trace[l].ev = name
Note(what) == IF Len(drift) < 4 THEN Append(drift, <<l - l0, what>>) ELSE drift

TraceInit ==
  \E i \in Starts :
    /\ l0 = i /\ l = i + 1
    /\ cfg = Trace[i].cfg
    /\ S = Trace[i].st
    /\ L = [a \in Actors |-> L0]
    /\ mutex = M0
    /\ ctl = Ctl0
    /\ hist = <<>>
    /\ drift = IF Trace[i].st = InitStore(Trace[i].cfg) THEN <<>> ELSE << <<0, "init">> >>
    /\ xr = 0
    /\ alt = [a \in Actors |-> {}]

OthersIdle(a) == \A b \in Actors \ {a} : L[b].t = "idle"

TraceStart ==
  /\ Is("Start")
  /\ LET a == Ev.a
         t == Ev.t
         p == Ev.p
     IN /\ a \in Actors
        /\ CASE t = "rec" ->
                  /\ L' = [L EXCEPT ![a] = StartRecL(S, p)]
                  /\ ctl' = ObserveStart(ctl, "rec", p, "", {})
                  /\ drift' = IF Ev.st = S /\ L[a].t = "idle" THEN drift ELSE Note("start-rec")
             [] t \in {"sync", "syncnode"} ->
                  /\ L' = [L EXCEPT ![a] = StartSyncL(t)]
                  /\ ctl' = ObserveStart(ctl, "sync", 0, "", {})
                  /\ drift' = IF Ev.st = S /\ L[a].t = "idle" THEN drift ELSE Note("start-sync")
             [] OTHER ->   \* hdl: the object changed in the store, then the handler is delivered the event
                  LET ok == p \in Pods /\ HdlEnabled(S, Ev.e, p)
                      C == IF ok THEN StartHdlC(S, Ev.e, p, mutex) ELSE {}
                      c1 == ObserveStart(ctl, "hdl", p, Ev.e, IF ok THEN EvGroups(S, Ev.e, p) ELSE {})
                  IN /\ drift' = IF ok /\ HdlStore(S, Ev.e, p) = Ev.st /\ L[a].t = "idle" THEN drift ELSE Note("start-hdl")
                     /\ IF C = {} THEN L' = [L EXCEPT ![a] = [L0 EXCEPT !.t = "hdl", !.pc = "lost"]]
                        ELSE \E c \in C : L' = [L EXCEPT ![a] = IF c.L.t = "idle" THEN [L0 EXCEPT !.t = "hdl", !.pc = "ended"] ELSE c.L]
                     /\ ctl' = c1
  /\ S' = Ev.st
  /\ l' = l + 1
  /\ xr' = 0 /\ alt' = alt
  /\ UNCHANGED <<cfg, mutex, hist, l0>>

Match(lab) ==
  IF Ev.ev = "Lock" THEN lab.n = "lock" /\ lab.g = Ev.g
  ELSE IF Ev.ev = "Wait" THEN lab.n = "wait" /\ lab.g = Ev.g
  ELSE lab.n = "call" /\ lab.verb = Ev.verb /\ lab.kind = Ev.kind /\ lab.g = Ev.g /\ lab.pt = Ev.pt /\ lab.res = Ev.res

\* stores in which the model lets actor a end when it runs on alone and fault-free from (St, lc, m)
RECURSIVE Ends(_, _, _, _)
Ends(a, St, lc, m) ==
  IF lc.t = "idle" THEN {St}
  ELSE UNION {Ends(a, r.S, r.L, r.M) : r \in {r \in SuccOf(a, St, lc, m) : r.lab.res = "ok" /\ r.lab.n # "wait"}}

\* a client call, a mutex acquisition or the start of waiting for a mutex of actor a
TraceStep ==
  /\ (Is("Call") \/ Is("Lock") \/ Is("Wait"))
  /\ LET a == Ev.a
         C == IF a \in Actors THEN {r \in Succ(a) : Match(r.lab)} ELSE {}
         crash == Ev.ev = "Call" /\ Ev.res = "crash"
         lab == IF Ev.ev \in {"Lock", "Wait"}
                THEN [n |-> IF Ev.ev = "Lock" THEN "lock" ELSE "wait", a |-> a, verb |-> "", kind |-> "", g |-> Ev.g, pt |-> "", res |-> "ok", k |-> 0, pc |-> "", gi |-> 0]
                ELSE [n |-> "call", a |-> a, verb |-> Ev.verb, kind |-> Ev.kind, g |-> Ev.g, pt |-> Ev.pt, res |-> Ev.res, k |-> Ev.k, pc |-> "", gi |-> 0]
     IN /\ a \in Actors
        /\ ctl' = ObserveCall(ctl, L[a], lab)
        /\ IF C = {}
           THEN LET xread == Ev.ev = "Call" /\ Ev.verb \in {"get", "list"} /\ L[a].pc \notin {"lost", "wlost"}
                    gone == L[a].pc \in {"lost", "wlost"}
                IN /\ L' = IF crash THEN [b \in Actors |-> L0]
                           ELSE IF xread /\ Ev.res = "ok" THEN L          \* stutter: the model waits at its own next call
                           ELSE IF gone \/ xread THEN [L EXCEPT ![a].pc = IF gone THEN L[a].pc ELSE "lost"]
                           ELSE [L EXCEPT ![a].pc = "wlost"]              \* departure at a write / lock: stop predicting
                   /\ mutex' = IF crash THEN M0 ELSE mutex
                   /\ xr' = IF xread THEN 1 ELSE 0
                   \* the outcomes the model allows for the rest of this actor's run (judged at its End)
                   /\ alt' = IF ~gone /\ ~xread /\ ~crash THEN [alt EXCEPT ![a] = Ends(a, S, L[a], mutex)] ELSE alt
                   /\ drift' = IF xread /\ Ev.st # S THEN Note(<<"read-wrote", L[a].pc>>) ELSE drift
           ELSE \E r \in C :
                  /\ L' = IF crash THEN [b \in Actors |-> L0]
                          ELSE [L EXCEPT ![a] = IF r.L.t = "idle" THEN [L[a] EXCEPT !.pc = "ended"] ELSE r.L]
                  /\ mutex' = IF crash THEN M0 ELSE r.M
                  /\ drift' = IF r.S = Ev.st THEN drift ELSE Note(<<"store", L[a].pc>>)
                  /\ xr' = 0
                  /\ alt' = alt
  /\ S' = Ev.st
  /\ l' = l + 1
  /\ UNCHANGED <<cfg, hist, l0>>

TraceEnd ==
  /\ Is("End")
  /\ LET a == Ev.a
     IN /\ a \in Actors
        /\ ctl' = ObserveEnd([ctl EXCEPT !.check = 0, !.final = 0, !.evgroups = {}], L[a], OthersIdle(a), Ev.st, Ev.err, Ev.requeue)
        /\ L' = [L EXCEPT ![a] = L0]
        /\ mutex' = [g \in Groups |-> IF mutex[g] = a THEN 0 ELSE mutex[g]]
        /\ drift' = IF L[a].pc = "ended" /\ Ev.st = S /\ (\A g \in Groups : mutex[g] # a) THEN drift
                    ELSE IF L[a].pc = "lost" THEN drift
                    ELSE IF L[a].pc = "wlost" THEN (IF alt[a] = {} \/ Ev.st \in alt[a] THEN drift   \* {}: the model cannot run on alone (mutex taken): not judged
                                                    ELSE Note(<<"departed-at-write", Cardinality(alt[a])>>))
                    ELSE Note(<<"end", L[a].pc>>)
  /\ S' = Ev.st
  /\ l' = l + 1
  /\ xr' = 0 /\ alt' = [alt EXCEPT ![Ev.a] = {}]
  /\ UNCHANGED <<cfg, hist, l0>>

TraceEnv ==
  /\ Is("Env")
  /\ LET pred == CASE Ev.e = "PodRunning" -> [S EXCEPT !.pods[Ev.p].ph = "Running"]
                   [] Ev.e = "PodTerminating" -> [S EXCEPT !.pods[Ev.p].ph = "Terminating"]
                   [] Ev.e = "Annotate" -> IF S.res[Ev.g].n > 0 /\ S.res[Ev.g].idx < 0
                                           THEN [S EXCEPT !.res[Ev.g].idx = S.nidx, !.nidx = S.nidx + 1] ELSE S
                   [] OTHER -> S
     \* Stuck: every unfinished actor was blocked for good in a group mutex (the harness abandoned the process)
     IN drift' = IF Ev.e = "Stuck" THEN Note("stuck-in-mutex") ELSE IF pred = Ev.st THEN drift ELSE Note(<<"env", Ev.e>>)
  /\ IF Ev.e \in {"Restart", "Stuck"} THEN L' = [a \in Actors |-> L0] /\ mutex' = M0 ELSE UNCHANGED <<L, mutex>>
  /\ ctl' = [ctl EXCEPT !.check = 0, !.final = 0, !.evgroups = {}]
  /\ S' = Ev.st
  /\ l' = l + 1
  /\ xr' = 0 /\ alt' = alt
  /\ UNCHANGED <<cfg, hist, l0>>

\* markers written by the harness: Check (no-op, the check-point flag comes from the End of a sync), Final
TraceMark ==
  /\ (Is("Check") \/ Is("Final"))
  /\ drift' = IF Ev.st = S THEN drift ELSE Note("mark")
  /\ ctl' = IF Ev.ev = "Final" THEN [ctl EXCEPT !.final = 1] ELSE ctl
  /\ S' = Ev.st
  /\ l' = l + 1
  /\ xr' = 0 /\ alt' = alt
  /\ UNCHANGED <<cfg, L, mutex, hist, l0>>

TraceNext == TraceStart \/ TraceStep \/ TraceEnd \/ TraceEnv \/ TraceMark
TraceSpec == TraceInit /\ [][TraceNext]_tvars

(* ---- export of schedules from the model: fault schedules (c11), histories (c17 simulation) ---- *)
GenInit == Init /\ l = 0 /\ l0 = 0 /\ drift = <<>> /\ xr = 0 /\ alt = <<>>
GenNext == Next /\ UNCHANGED <<l, l0, drift, xr, alt>>
Emit11 == (ctl.phase = "done") => PrintT("SCHED " \o ToJson([cfg |-> cfg, faults |-> hist, k1 |-> ctl.k1, nrec |-> ctl.nrec]))
\* c17 (simulation): print the history of a behaviour when nothing is left to do
Emit17 == (~ENABLED GenNext) => PrintT("HIST " \o ToJson([cfg |-> cfg, steps |-> hist]))

\* drift monitors (never a violation)
D_NoDrift == drift = <<>>
D_Known == (l <= Len(Trace) /\ Trace[l].ev # "Scenario") =>
             Trace[l].ev \in {"Start", "Call", "Lock", "Wait", "End", "Env", "Check", "Final"}
=============================================================================
