// Package gpureqcls concretises the lexical annotation classes of spec/GpuRequest.tla (also used as
// pod-annotation classes by spec/Totality.tla) to strings.
package gpureqcls

// Absent is the marker for "annotation not set".
const Absent = "\x00absent"

// Frac: gpu-fraction classes.
var Frac = map[string][]string{
	"absent":   {Absent},
	"empty":    {""},
	"dec":      {"0.5", "0.25", "0.07"},
	"dec3":     {"0.125", "0.333", "0.166"},
	"subcenti": {"0.001", "0.004", "0.0000000001"},
	"one":      {"1", "1.0", "1.00"},
	"gt1":      {"1.5", "2", "17"},
	"zero":     {"0", "0.0", "-0"},
	"neg":      {"-0.5", "-1", "-0.25"},
	"exp":      {"5e-1", "2.5E-1", "25e-2"},
	"hex":      {"0x1p-1", "0X1p-2", "0x_1p-1"},
	"plus":     {"+0.5", "+.25", "+0.07"},
	"ws":       {" 0.5", "0.5 ", "0.5\n"},
	"nan":      {"NaN", "nan", "NAN"},
	"inf":      {"Inf", "+Inf", "-Inf"},
	"ovf":      {"1e400", "1e999", "17e308"},
	"udf":      {"1e-400", "1e-999", "0.1e-400"},
	"u64":      {"9223372036854775808", "18446744073709551615", "9223372036854775809"},
	"nonnum":   {"abc", "0,5", "0.5GPU"},
}

// Mem: gpu-memory classes (MiB, integer).
var Mem = map[string][]string{
	"absent": {Absent},
	"empty":  {""},
	"pos":    {"2500", "5000", "1000"},
	"lead0":  {"02500", "005000", "0001000"},
	"zero":   {"0", "00", "000"},
	"neg":    {"-2500", "-1", "-5000"},
	"exp":    {"25e2", "5E3", "1e3"},
	"hex":    {"0x9C4", "0X1388", "0x3e8"},
	"plus":   {"+2500", "+5000", "+1000"},
	"ws":     {" 2500", "2500 ", "2500\n"},
	"nan":    {"NaN", "nan", "Inf"},
	"ovf":    {"18446744073709551616", "99999999999999999999", "36893488147419103232"},
	"u64":    {"9223372036854775808", "18446744073709551615", "9223372036854777856"},
	"max64":  {"9223372036854775807", "4611686018427387904", "2147483648"},
	"nonnum": {"abc", "2500Mi", "25OO"},
	"dec":    {"0.5", "2500.5", "1.25"},
}

// Dev: gpu-fraction-num-devices classes.
var Dev = map[string][]string{
	"absent": {Absent},
	"empty":  {""},
	"one":    {"1", "01", "001"},
	"two":    {"2", "3", "02"},
	"three":  {"3", "03", "003"},
	"zero":   {"0", "00", "000"},
	"neg":    {"-3", "-1", "-2"},
	"exp":    {"2e0", "1E0", "2e1"},
	"hex":    {"0x2", "0X1", "0x3"},
	"plus":   {"+2", "+1", "+3"},
	"ws":     {" 2", "2 ", "2\n"},
	"nan":    {"NaN", "nan", "Inf"},
	"ovf":    {"18446744073709551616", "99999999999999999999", "36893488147419103232"},
	"u64":    {"9223372036854775808", "18446744073709551615", "9223372036854775810"},
	"max64":  {"9223372036854775807", "4611686018427387904", "1844674407370955162"},
	"big32":  {"2147483648", "4294967296", "1000000000000"},
	"huge":   {"1000", "65", "100000"},
	"nonnum": {"abc", "two", "2x"},
	"dec":    {"1.5", "2.5", "0.5"},
}

// Pick returns variant k (mod the number of representatives) of a class; ok=false for unknown classes.
func Pick(table map[string][]string, class string, k int) (string, bool) {
	v, ok := table[class]
	if !ok || len(v) == 0 {
		return "", false
	}
	if k < 0 {
		k = -k
	}
	return v[k%len(v)], true
}
