// Package world materialises abstract cluster scenarios (the record shape of spec/Cluster.tla) as
// Kubernetes / KAI API objects in fake clientsets, runs the REAL scheduler on them and projects the
// API store back to the abstract state.
//
// Units: cpu in milli-cores, mem in MB (10^6 bytes), gpu = whole GPUs requested, frac = GPU portion
// per device in 1/100, gpuMem = requested GPU memory per device in MiB, devs = number of fractional
// devices (0 = not a fractional request), queue gpu amounts in milli-GPUs (-1 = unlimited).
// All cross references are 1-based indices (0 = none) so that the TLA+ side needs no name lookups.
package world

import (
	"fmt"
	"strconv"
	"strings"
	"time"

	v1 "k8s.io/api/core/v1"
	schedulingv1 "k8s.io/api/scheduling/v1"
	"k8s.io/apimachinery/pkg/api/resource"
	metav1 "k8s.io/apimachinery/pkg/apis/meta/v1"
	"k8s.io/apimachinery/pkg/types"

	kaiv1alpha1 "github.com/NVIDIA/KAI-scheduler/pkg/apis/kai/v1alpha1"
	enginev2 "github.com/NVIDIA/KAI-scheduler/pkg/apis/scheduling/v2"
	enginev2alpha2 "github.com/NVIDIA/KAI-scheduler/pkg/apis/scheduling/v2alpha2"
	commonconstants "github.com/NVIDIA/KAI-scheduler/pkg/common/constants"
)

const (
	Namespace       = "ns"
	ReservationNS   = "kai-resource-reservation"
	ReservationApp  = "kai-resource-reservation"
	SchedulerName   = "kai-scheduler"
	podIndexAnnot   = "verif/pod-index"
	jobIndexAnnot   = "verif/job-index"
	ZoneLabel       = "topology.kubernetes.io/zone"
	HostnameLabel   = "kubernetes.io/hostname"
	podLabelKeyBase = "verif/l-"
)

type Taint struct {
	Key    string `json:"key"`
	Val    string `json:"val"`
	Effect string `json:"effect"` // NoSchedule | NoExecute | PreferNoSchedule
}

type Node struct {
	Name    string            `json:"name"`
	Cpu     int               `json:"cpu"`
	Mem     int               `json:"mem"`
	Pods    int               `json:"pods"`
	Gpus    int               `json:"gpus"`
	GpuMem  int               `json:"gpuMem"`
	Labels  map[string]string `json:"labels"`
	Taints  []Taint           `json:"taints"`
	Ready   int               `json:"ready"`
	Unsched int               `json:"unsched"`
	Ext     map[string]int    `json:"ext"` // allocatable MIG instances / extended resources by resource name
}

type Queue struct {
	Name   string `json:"name"`
	Parent int    `json:"parent"`
	Prio   int    `json:"prio"`
	GQ     int    `json:"gq"` // gpu quota (milli), -1 unlimited
	GL     int    `json:"gl"` // gpu limit
	GW     int    `json:"gw"` // gpu over-quota weight
	CQ     int    `json:"cq"` // cpu quota (milli-cores)
	CL     int    `json:"cl"`
	MQ     int    `json:"mq"` // memory quota (MB)
	ML     int    `json:"ml"`
	MinRtP int    `json:"minRtP"` // preempt min runtime, seconds (0 = unset)
	MinRtR int    `json:"minRtR"` // reclaim min runtime, seconds (0 = unset)
}

type Job struct {
	Name      string `json:"name"`
	Queue     int    `json:"queue"` // 1-based index of the leaf queue; 0 = a queue that does not exist
	Prio      int    `json:"prio"`
	Preempt   int    `json:"preempt"` // 1 preemptible, 0 non-preemptible
	Min       int    `json:"min"`
	Age       int    `json:"age"`       // seconds since creation
	LastStart int    `json:"lastStart"` // seconds since last start, -1 = never
	Shape     int    `json:"shape"`     // jobs with equal shape > 0 are "comparable" (same template, gang shape, preemptibility)
	Subs      []Sub  `json:"subs"`      // optional flat sub-groups (pod sets); Min is then the sum of their minimums
	Topo      string `json:"topo"`      // name of the topology the job is constrained by ("" = none; may name a missing one)
	TopoReq   int    `json:"topoReq"`   // required level: 1-based index into the scenario topology's levels (0 = none)
	TopoPref  int    `json:"topoPref"`  // preferred (soft) level, same indexing; may be coarser than the required one
}

// Topology is the (single) topology CRD object of a scenario: node label keys, coarsest first.
type Topology struct {
	Name   string   `json:"name"`
	Levels []string `json:"levels"`
}

// Sub is one pod set of a job.
type Sub struct {
	Name   string `json:"name"`
	Min    int    `json:"min"`
	Parent string `json:"parent"` // "" = directly under the root; a sub-group that is a parent holds no pods
	// TopoReq: required level of the scenario topology for the pods of THIS sub-group (1-based, 0 = none);
	// for a parent sub-group it covers the pods of all its descendants
	TopoReq int `json:"topoReq"`
}

type Tol struct {
	Key    string `json:"key"`
	Op     string `json:"op"` // Equal | Exists
	Val    string `json:"val"`
	Effect string `json:"effect"` // "" = all
}

type Pod struct {
	Name   string   `json:"name"`
	Job    int      `json:"job"`
	Cpu    int      `json:"cpu"`
	Mem    int      `json:"mem"`
	Gpu    int      `json:"gpu"`
	Frac   int      `json:"frac"`
	GpuMem int      `json:"gpuMem"`
	Devs   int      `json:"devs"`
	Sub    int      `json:"sub"`   // 1-based index into the job's Subs (0 = default pod set)
	InitCpu int     `json:"initCpu"` // cpu request of an init container (0 = none); effective cpu = max(cpu, initCpu) + ovhCpu
	OvhCpu  int     `json:"ovhCpu"`  // pod overhead cpu (RuntimeClass)
	Phase  string   `json:"phase"` // P | R
	Node   int      `json:"node"`
	Term   int      `json:"term"`
	Groups []string `json:"groups"`
	// hard placement constraints (C04)
	Sel    map[string]string `json:"sel"`    // nodeSelector
	AffIn  map[string]string `json:"affIn"`  // required node affinity: key In {val}
	AffNot map[string]string `json:"affNot"` // required node affinity: key NotIn {val}
	Tols   []Tol             `json:"tols"`
	Labels map[string]string `json:"labels"` // pod labels (matched by (anti-)affinity terms)
	PodAff []PodTerm         `json:"podAff"`
	PodAnt []PodTerm         `json:"podAnt"`
	Ext    map[string]int    `json:"ext"` // requested MIG instances / extended resources by resource name
}

// PodTerm is a required pod (anti-)affinity term: label key=val on other pods, topology key.
type PodTerm struct {
	Key  string `json:"key"`
	Val  string `json:"val"`
	Topo string `json:"topo"` // "host" | "zone"
}

type Cfg struct {
	Placement     string `json:"placement"` // binpack | spread
	Consolidation int    `json:"consolidation"`
	Signatures    int    `json:"signatures"`
	ConsReclaim   int    `json:"consReclaim"`
	SatMult       int    `json:"satMult"` // reclaimer saturation multiplier, 1/1000
	Cycles        int    `json:"cycles"`
	Env           string `json:"env"`       // "closed": binds complete, terminated pods vanish, evicted pods are recreated pending; "stall": binder does nothing, terminating pods stay
	BindFail      []int  `json:"bindFail"`  // global indices (1-based, over the whole run) of Bind calls whose BindRequest creation fails
	EvictFail     []int  `json:"evictFail"` // likewise for Evict calls
	FullHier      int    `json:"fullHier"`
	Actions       string `json:"actions"` // optional override
	// node pool of the scheduler (conf.SchedulingNodePoolParams): PoolKey "" = no pool; PoolVal "" = nodes /
	// pod groups / queues WITHOUT the label key; otherwise those labelled PoolKey=PoolVal
	PoolKey string `json:"poolKey"`
	PoolVal string `json:"poolVal"`
	// arguments of the minruntime plugin: defaults used when no queue on the resolution path sets a value (seconds,
	// 0 = unset) and the reclaim resolve method ("" = "lca" | "queue")
	DefMinRtP   int    `json:"defMinRtP"`
	DefMinRtR   int    `json:"defMinRtR"`
	MinRtMethod string `json:"minRtMethod"`
}

// InPool reports whether the node belongs to the scheduler's node pool.
func (sc *Scenario) InPool(n *Node) bool {
	if sc.Cfg.PoolKey == "" {
		return true
	}
	v, ok := n.Labels[sc.Cfg.PoolKey]
	if sc.Cfg.PoolVal == "" {
		return !ok
	}
	return ok && v == sc.Cfg.PoolVal
}

func (sc *Scenario) poolLabels() map[string]string {
	if sc.Cfg.PoolKey == "" || sc.Cfg.PoolVal == "" {
		return nil
	}
	return map[string]string{sc.Cfg.PoolKey: sc.Cfg.PoolVal}
}

type Scenario struct {
	ID     string  `json:"id"`
	Class  string  `json:"class"`
	Cfg    Cfg     `json:"cfg"`
	Nodes  []Node  `json:"nodes"`
	Queues []Queue `json:"queues"`
	Jobs   []Job   `json:"jobs"`
	Pods   []Pod   `json:"pods"`
	Topo   Topology `json:"topo"`
}

var Epoch = time.Now().Add(-100 * time.Hour).Truncate(time.Second)

func (sc *Scenario) Normalize() {
	for i := range sc.Nodes {
		n := &sc.Nodes[i]
		if n.Labels == nil {
			n.Labels = map[string]string{}
		}
		if n.Taints == nil {
			n.Taints = []Taint{}
		}
		if n.Ext == nil {
			n.Ext = map[string]int{}
		}
	}
	if sc.Topo.Levels == nil {
		sc.Topo.Levels = []string{}
	}
	for i := range sc.Jobs {
		if sc.Jobs[i].Subs == nil {
			sc.Jobs[i].Subs = []Sub{}
		}
	}
	for i := range sc.Pods {
		p := &sc.Pods[i]
		if p.Groups == nil {
			p.Groups = []string{}
		}
		if p.Sel == nil {
			p.Sel = map[string]string{}
		}
		if p.AffIn == nil {
			p.AffIn = map[string]string{}
		}
		if p.AffNot == nil {
			p.AffNot = map[string]string{}
		}
		if p.Tols == nil {
			p.Tols = []Tol{}
		}
		if p.Labels == nil {
			p.Labels = map[string]string{}
		}
		if p.Ext == nil {
			p.Ext = map[string]int{}
		}
		if p.PodAff == nil {
			p.PodAff = []PodTerm{}
		}
		if p.PodAnt == nil {
			p.PodAnt = []PodTerm{}
		}
	}
	if sc.Cfg.BindFail == nil {
		sc.Cfg.BindFail = []int{}
	}
	if sc.Cfg.EvictFail == nil {
		sc.Cfg.EvictFail = []int{}
	}
	if sc.Cfg.SatMult == 0 {
		sc.Cfg.SatMult = 1000
	}
	if sc.Cfg.Placement == "" {
		sc.Cfg.Placement = "binpack"
	}
	if sc.Cfg.Cycles == 0 {
		sc.Cfg.Cycles = 1
	}
	if sc.Cfg.Env == "" {
		sc.Cfg.Env = "closed"
	}
}

func qty(v int, suffix string) resource.Quantity { return resource.MustParse(strconv.Itoa(v) + suffix) }

func BuildNode(n *Node) *v1.Node {
	labels := map[string]string{
		HostnameLabel: n.Name,
	}
	if n.Gpus > 0 {
		labels["nvidia.com/gpu.count"] = strconv.Itoa(n.Gpus)
		labels["nvidia.com/gpu.memory"] = strconv.Itoa(n.GpuMem)
		labels[commonconstants.DefaultGPUWorkerNodeLabelKey] = "true"
	}
	for k, v := range n.Labels {
		labels[k] = v
	}
	alloc := v1.ResourceList{
		v1.ResourceCPU:    qty(n.Cpu, "m"),
		v1.ResourceMemory: qty(n.Mem, "M"),
		v1.ResourcePods:   qty(n.Pods, ""),
	}
	if n.Gpus > 0 {
		alloc[commonconstants.NvidiaGpuResource] = qty(n.Gpus, "")
	}
	for r, c := range n.Ext {
		alloc[v1.ResourceName(r)] = qty(c, "")
		if strings.HasPrefix(r, "nvidia.com/mig-") {
			labels[commonconstants.MigStrategyLabel] = "mixed"
		}
	}
	node := &v1.Node{
		ObjectMeta: metav1.ObjectMeta{Name: n.Name, Labels: labels, UID: types.UID("node-" + n.Name)},
		Spec:       v1.NodeSpec{Unschedulable: n.Unsched == 1},
		Status:     v1.NodeStatus{Allocatable: alloc, Capacity: alloc.DeepCopy()},
	}
	ready := v1.ConditionTrue
	if n.Ready == 0 {
		ready = v1.ConditionFalse
	}
	node.Status.Conditions = []v1.NodeCondition{{Type: v1.NodeReady, Status: ready}}
	for _, t := range n.Taints {
		node.Spec.Taints = append(node.Spec.Taints, v1.Taint{Key: t.Key, Value: t.Val, Effect: v1.TaintEffect(t.Effect)})
	}
	return node
}

func fq(v int, div float64) float64 {
	if v < 0 {
		return -1
	}
	return float64(v) / div
}

func BuildQueue(sc *Scenario, i int) *enginev2.Queue {
	q := &sc.Queues[i]
	parent := ""
	if q.Parent > 0 {
		parent = sc.Queues[q.Parent-1].Name
	}
	prio := q.Prio
	w := float64(q.GW)
	obj := &enginev2.Queue{
		ObjectMeta: metav1.ObjectMeta{Name: q.Name, UID: types.UID("queue-" + q.Name), Labels: sc.poolLabels(),
			CreationTimestamp: metav1.Time{Time: Epoch.Add(time.Duration(i) * time.Second)}},
		Spec: enginev2.QueueSpec{
			ParentQueue: parent,
			Priority:    &prio,
			Resources: &enginev2.QueueResources{
				GPU:    enginev2.QueueResource{Quota: fq(q.GQ, 1000), Limit: fq(q.GL, 1000), OverQuotaWeight: w},
				CPU:    enginev2.QueueResource{Quota: fq(q.CQ, 1), Limit: fq(q.CL, 1), OverQuotaWeight: w},
				Memory: enginev2.QueueResource{Quota: fq(q.MQ, 1), Limit: fq(q.ML, 1), OverQuotaWeight: w},
			},
		},
	}
	if q.MinRtP > 0 {
		obj.Spec.PreemptMinRuntime = &metav1.Duration{Duration: time.Duration(q.MinRtP) * time.Second}
	}
	if q.MinRtR > 0 {
		obj.Spec.ReclaimMinRuntime = &metav1.Duration{Duration: time.Duration(q.MinRtR) * time.Second}
	}
	return obj
}

func BuildTopology(sc *Scenario) *kaiv1alpha1.Topology {
	t := &kaiv1alpha1.Topology{ObjectMeta: metav1.ObjectMeta{Name: sc.Topo.Name, UID: types.UID("topo-" + sc.Topo.Name)}}
	for _, l := range sc.Topo.Levels {
		t.Spec.Levels = append(t.Spec.Levels, kaiv1alpha1.TopologyLevel{NodeLabel: l})
	}
	return t
}

// queueNameOf: queue index 0 = a queue that does not exist (the pod group of a deleted queue: the scheduler
// keeps such pod groups in its snapshot and must leave them, and only them, alone)
func queueNameOf(sc *Scenario, q int) string {
	if q <= 0 || q > len(sc.Queues) {
		return "no-such-queue"
	}
	return sc.Queues[q-1].Name
}

func PrioClassName(v int) string { return fmt.Sprintf("prio-%d", v) }

func BuildPriorityClass(v int) *schedulingv1.PriorityClass {
	return &schedulingv1.PriorityClass{ObjectMeta: metav1.ObjectMeta{Name: PrioClassName(v)}, Value: int32(v)}
}

func BuildPodGroup(sc *Scenario, j int, now time.Time) *enginev2alpha2.PodGroup {
	job := &sc.Jobs[j]
	pre := enginev2alpha2.Preemptible
	if job.Preempt == 0 {
		pre = enginev2alpha2.NonPreemptible
	}
	pg := &enginev2alpha2.PodGroup{
		ObjectMeta: metav1.ObjectMeta{
			Name: job.Name, Namespace: Namespace, UID: types.UID("pg-" + job.Name), Labels: sc.poolLabels(),
			CreationTimestamp: metav1.Time{Time: now.Add(-time.Duration(job.Age) * time.Second)},
			Annotations:       map[string]string{jobIndexAnnot: strconv.Itoa(j + 1)},
		},
		Spec: enginev2alpha2.PodGroupSpec{
			MinMember:         int32(job.Min),
			Queue:             queueNameOf(sc, job.Queue),
			PriorityClassName: PrioClassName(job.Prio),
			Preemptibility:    pre,
		},
	}
	if job.Topo != "" {
		pg.Spec.TopologyConstraint = enginev2alpha2.TopologyConstraint{Topology: job.Topo}
		if job.TopoReq > 0 && job.TopoReq <= len(sc.Topo.Levels) {
			pg.Spec.TopologyConstraint.RequiredTopologyLevel = sc.Topo.Levels[job.TopoReq-1]
		}
		if job.TopoPref > 0 && job.TopoPref <= len(sc.Topo.Levels) {
			pg.Spec.TopologyConstraint.PreferredTopologyLevel = sc.Topo.Levels[job.TopoPref-1]
		}
	}
	for _, sub := range job.Subs {
		sg := enginev2alpha2.SubGroup{Name: sub.Name, MinMember: int32(sub.Min)}
		if sub.Parent != "" {
			parent := sub.Parent
			sg.Parent = &parent
		}
		if sub.TopoReq > 0 && sub.TopoReq <= len(sc.Topo.Levels) {
			sg.TopologyConstraint = &enginev2alpha2.TopologyConstraint{Topology: sc.Topo.Name, RequiredTopologyLevel: sc.Topo.Levels[sub.TopoReq-1]}
		}
		pg.Spec.SubGroups = append(pg.Spec.SubGroups, sg)
	}
	if job.LastStart >= 0 {
		pg.Annotations[commonconstants.LastStartTimeStamp] = now.Add(-time.Duration(job.LastStart) * time.Second).UTC().Format(time.RFC3339)
	}
	return pg
}

// FracString renders a portion in 1/100 as the annotation value.
func FracString(frac int) string {
	return strconv.FormatFloat(float64(frac)/100, 'f', -1, 64)
}

// BuildPod builds the API object of pod i (0-based); gen > 0 marks a re-creation (new UID/name).
func BuildPod(sc *Scenario, i int, gen int, now time.Time) *v1.Pod {
	p := &sc.Pods[i]
	job := &sc.Jobs[p.Job-1]
	name := p.Name
	if gen > 0 {
		name = fmt.Sprintf("%s-r%d", p.Name, gen)
	}
	req := v1.ResourceList{}
	if p.Cpu > 0 {
		req[v1.ResourceCPU] = qty(p.Cpu, "m")
	}
	if p.Mem > 0 {
		req[v1.ResourceMemory] = qty(p.Mem, "M")
	}
	if p.Gpu > 0 {
		req[commonconstants.NvidiaGpuResource] = qty(p.Gpu, "")
	}
	for r, c := range p.Ext {
		req[v1.ResourceName(r)] = qty(c, "")
	}
	labels := map[string]string{}
	for k, v := range p.Labels {
		labels[k] = v
	}
	if p.Sub > 0 && p.Sub <= len(job.Subs) {
		labels[commonconstants.SubGroupLabelKey] = job.Subs[p.Sub-1].Name
	}
	ann := map[string]string{
		commonconstants.PodGroupAnnotationForPod: job.Name,
		podIndexAnnot:                            strconv.Itoa(i + 1),
	}
	if p.Frac > 0 {
		ann[commonconstants.GpuFraction] = FracString(p.Frac)
	}
	if p.GpuMem > 0 {
		ann[commonconstants.GpuMemory] = strconv.Itoa(p.GpuMem)
	}
	if p.Devs > 1 {
		ann[commonconstants.GpuFractionsNumDevices] = strconv.Itoa(p.Devs)
	}
	pod := &v1.Pod{
		ObjectMeta: metav1.ObjectMeta{
			Name: name, Namespace: Namespace, UID: types.UID("pod-" + name), Labels: labels, Annotations: ann,
			CreationTimestamp: metav1.Time{Time: now.Add(-time.Duration(job.Age) * time.Second)},
		},
		Spec: v1.PodSpec{
			SchedulerName: SchedulerName,
			Containers:    []v1.Container{{Name: "main", Image: "x", Resources: v1.ResourceRequirements{Requests: req, Limits: req.DeepCopy()}}},
			NodeSelector:  map[string]string{},
		},
		Status: v1.PodStatus{Phase: v1.PodPending},
	}
	if p.InitCpu > 0 {
		ireq := v1.ResourceList{v1.ResourceCPU: qty(p.InitCpu, "m")}
		pod.Spec.InitContainers = []v1.Container{{Name: "init", Image: "x", Resources: v1.ResourceRequirements{Requests: ireq, Limits: ireq.DeepCopy()}}}
	}
	if p.OvhCpu > 0 {
		pod.Spec.Overhead = v1.ResourceList{v1.ResourceCPU: qty(p.OvhCpu, "m")}
	}
	for k, v := range p.Sel {
		pod.Spec.NodeSelector[k] = v
	}
	var reqs []v1.NodeSelectorRequirement
	for k, v := range p.AffIn {
		reqs = append(reqs, v1.NodeSelectorRequirement{Key: k, Operator: v1.NodeSelectorOpIn, Values: []string{v}})
	}
	for k, v := range p.AffNot {
		reqs = append(reqs, v1.NodeSelectorRequirement{Key: k, Operator: v1.NodeSelectorOpNotIn, Values: []string{v}})
	}
	if len(reqs) > 0 || len(p.PodAff) > 0 || len(p.PodAnt) > 0 {
		pod.Spec.Affinity = &v1.Affinity{}
	}
	if len(reqs) > 0 {
		pod.Spec.Affinity.NodeAffinity = &v1.NodeAffinity{RequiredDuringSchedulingIgnoredDuringExecution: &v1.NodeSelector{
			NodeSelectorTerms: []v1.NodeSelectorTerm{{MatchExpressions: reqs}}}}
	}
	topo := func(t string) string {
		if t == "zone" {
			return ZoneLabel
		}
		return HostnameLabel
	}
	term := func(t PodTerm) v1.PodAffinityTerm {
		return v1.PodAffinityTerm{TopologyKey: topo(t.Topo),
			LabelSelector: &metav1.LabelSelector{MatchLabels: map[string]string{t.Key: t.Val}}}
	}
	if len(p.PodAff) > 0 {
		pod.Spec.Affinity.PodAffinity = &v1.PodAffinity{}
		for _, t := range p.PodAff {
			pod.Spec.Affinity.PodAffinity.RequiredDuringSchedulingIgnoredDuringExecution = append(
				pod.Spec.Affinity.PodAffinity.RequiredDuringSchedulingIgnoredDuringExecution, term(t))
		}
	}
	if len(p.PodAnt) > 0 {
		pod.Spec.Affinity.PodAntiAffinity = &v1.PodAntiAffinity{}
		for _, t := range p.PodAnt {
			pod.Spec.Affinity.PodAntiAffinity.RequiredDuringSchedulingIgnoredDuringExecution = append(
				pod.Spec.Affinity.PodAntiAffinity.RequiredDuringSchedulingIgnoredDuringExecution, term(t))
		}
	}
	for _, t := range p.Tols {
		pod.Spec.Tolerations = append(pod.Spec.Tolerations, v1.Toleration{Key: t.Key, Operator: v1.TolerationOperator(t.Op), Value: t.Val, Effect: v1.TaintEffect(t.Effect)})
	}
	if gen == 0 && p.Phase == "R" {
		pod.Status.Phase = v1.PodRunning
		pod.Spec.NodeName = sc.Nodes[p.Node-1].Name
		ApplyGroupLabels(pod, p.Groups, p.Devs > 1)
		if p.Term == 1 {
			t := metav1.NewTime(now.Add(-10 * time.Second))
			pod.DeletionTimestamp = &t
			pod.Finalizers = []string{"verif/terminating"}
		}
	}
	return pod
}

// ApplyGroupLabels labels a consumer pod exactly as the binder's resource reservation service does
// (resource_reservation.go: multi-fraction pods get one prefixed label per group, others the plain label).
func ApplyGroupLabels(pod *v1.Pod, groups []string, multi bool) {
	if pod.Labels == nil {
		pod.Labels = map[string]string{}
	}
	for _, g := range groups {
		if multi {
			pod.Labels[commonconstants.MultiGpuGroupLabelPrefix+g] = g
		} else {
			pod.Labels[commonconstants.GPUGroup] = g
		}
	}
}

// BuildReservationPod is the pod the binder creates to hold a shared GPU device.
func BuildReservationPod(nodeName, group string) *v1.Pod {
	req := v1.ResourceList{commonconstants.NvidiaGpuResource: qty(1, "")}
	return &v1.Pod{
		ObjectMeta: metav1.ObjectMeta{
			Name: "gpu-reservation-" + nodeName + "-" + group, Namespace: ReservationNS, UID: types.UID("resv-" + group),
			Labels: map[string]string{commonconstants.AppLabelName: ReservationApp, commonconstants.GPUGroup: group},
		},
		Spec: v1.PodSpec{NodeName: nodeName, SchedulerName: SchedulerName,
			Containers: []v1.Container{{Name: "resv", Image: "x", Resources: v1.ResourceRequirements{Requests: req, Limits: req.DeepCopy()}}}},
		Status: v1.PodStatus{Phase: v1.PodRunning},
	}
}
