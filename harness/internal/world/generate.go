package world

import (
	"fmt"
	"math/rand"
	"strings"
)

// Generate builds a random, well-formed scenario: the initial API state itself is within capacity
// (no node or GPU device oversubscribed, running gangs at or above their minimum, queues exist), so
// that any violation observed later is attributable to the scheduler's own decisions.
//
// Profiles steer the distribution:
//
//	mixed     everything
//	fraction  mostly fractional / gpu-memory / multi-fraction requests on few GPUs
//	full      clusters filled by over-quota / low-priority preemptible work plus pending work of
//	          under-quota queues / higher priority (reclaim, preempt, consolidation)
//	fifo      several comparable jobs per queue competing for too little capacity
//	closed    like full, more cycles, closed environment (livelock detection)
//	slots     nodes with very few pod slots
//	constr    node labels / taints / selectors / affinities / pod (anti-)affinity
func Generate(r *rand.Rand, profile string) *Scenario {
	if profile == "unobs" {
		return otherKindProtected(r, generateUnobstructed(r))
	}
	if profile == "topo" {
		return generateTopology(r)
	}
	if profile == "minrt" || profile == "elastic" {
		return generateVictims(r, profile)
	}
	if profile == "reclaim2" {
		return generateReclaim2(r)
	}
	if profile == "sat" {
		return generateSaturation(r)
	}
	if profile == "satc" {
		// the saturation comparison with a conservative multiplier, played as a closed system for 8 cycles (C15)
		if r.Intn(2) == 0 {
			return generateDeptOver(r)
		}
		sc := generateSaturation(r)
		sc.Class = "satc"
		sc.Cfg.Cycles = 8
		sc.Cfg.SatMult = []int{1200, 1500, 2000, 3000}[r.Intn(4)]
		for i := range sc.Jobs {
			sc.Jobs[i].Preempt = 1
		}
		for i := range sc.Pods {
			if sc.Pods[i].Gpu == 0 {
				sc.Pods[i].Gpu, sc.Pods[i].Cpu = 1, 500
			}
		}
		for i := range sc.Queues {
			sc.Queues[i].CQ = -1
		}
		sc.Normalize()
		return sc
	}
	if profile == "frag" {
		return generateFrag(r)
	}
	if profile == "foreign" {
		return generateForeign(r)
	}
	if profile == "flat" {
		return generateFlat(r)
	}
	if profile == "ext" {
		return generateExt(r)
	}
	if profile == "quota" {
		return generateQuotaTree(r)
	}
	if profile == "unobs2" {
		return otherKindProtected(r, generateUnobstructedMulti(r))
	}
	if profile == "chains" {
		return generateChains(r)
	}
	if profile == "hetero" {
		return generateHetero(r)
	}
	if profile == "npfs" {
		return generateNpFs(r)
	}
	if profile == "abandon" {
		return generateAbandon(r)
	}
	if profile == "bindfail" || profile == "overhead" || profile == "nested" || profile == "sharers" || profile == "elasticnom" {
		return generateTight(r, profile)
	}
	pick := func(vs ...int) int { return vs[r.Intn(len(vs))] }
	chance := func(p float64) bool { return r.Float64() < p }
	sc := &Scenario{Class: profile}
	sc.Cfg = Cfg{Placement: []string{"binpack", "spread"}[r.Intn(2)], Consolidation: pick(0, 1, 1), Signatures: pick(0, 1),
		ConsReclaim: pick(0, 0, 1), SatMult: pick(1000, 1000, 1200, 2000), Cycles: pick(1, 2, 3), Env: "closed", FullHier: 1}
	if chance(0.25) {
		sc.Cfg.Env = "stall"
	}
	if profile == "closed" {
		sc.Cfg.Env = "closed"
		sc.Cfg.Cycles = 8
	}
	if profile == "fraction" && chance(0.35) {
		// the binder is caught half way through a multi-device fraction pod when the next cycle starts
		sc.Cfg.Env = "slowbind"
		sc.Cfg.Cycles = pick(2, 3)
	}
	if (profile == "full" || profile == "mixed" || profile == "slots" || profile == "fraction") && sc.Cfg.Env == "closed" && chance(0.15) {
		// lagging informers: for one cycle a BindRequest already says Succeeded while its pod still looks unbound
		sc.Cfg.Env = "lagpod"
		sc.Cfg.Cycles = pick(2, 3)
	}
	if profile != "closed" && profile != "fifo" {
		if chance(0.2) {
			sc.Cfg.BindFail = []int{1 + r.Intn(4)}
		}
		if chance(0.1) {
			sc.Cfg.EvictFail = []int{1 + r.Intn(3)}
		}
	}

	// ---- nodes
	nn := pick(1, 2, 2, 3, 4)
	if profile == "fraction" {
		nn = pick(1, 1, 2)
	}
	gpuMem := pick(16000, 40000, 80000)
	// nodes with different devices: a gpu-memory request is then a different portion of a device (and a different
	// charge to the queues) on every node; requests are chosen so that every portion is a whole number of 1/100 GPU
	hetero := (profile == "fraction" || profile == "mixed" || profile == "constr") && nn > 1 && chance(0.35)
	for i := 0; i < nn; i++ {
		n := Node{Name: fmt.Sprintf("n%d", i+1), Cpu: pick(4000, 8000, 16000, 32000), Mem: pick(16000, 64000), Pods: 110,
			Gpus: pick(0, 1, 2, 2, 4, 4), GpuMem: gpuMem, Ready: 1}
		if hetero {
			n.GpuMem = []int{16000, 40000, 80000}[(i+r.Intn(2))%3]
		}
		if profile == "fraction" {
			n.Gpus = pick(1, 2, 2, 3)
		}
		if profile == "full" || profile == "closed" || profile == "fifo" {
			n.Gpus = pick(1, 2, 2, 4)
		}
		if profile == "slots" || chance(0.08) {
			n.Pods = pick(2, 3, 4, 5)
		}
		n.Labels = map[string]string{ZoneLabel: []string{"za", "zb"}[r.Intn(2)]}
		if profile == "constr" {
			if chance(0.5) {
				n.Labels["disk"] = []string{"ssd", "hdd"}[r.Intn(2)]
			}
			if chance(0.3) {
				n.Taints = append(n.Taints, Taint{Key: "ded", Val: []string{"a", "b"}[r.Intn(2)], Effect: []string{"NoSchedule", "NoExecute", "PreferNoSchedule"}[r.Intn(3)]})
			}
			if chance(0.12) {
				n.Ready = 0
			}
			if chance(0.12) {
				n.Unsched = 1
			}
		}
		sc.Nodes = append(sc.Nodes, n)
	}
	// ---- node pool: the scheduler only owns the nodes (pod groups, queues) selected by its pool label;
	// the other nodes are empty and stay attractive (nothing runs there)
	if (profile == "constr" && chance(0.45)) || (profile == "mixed" && chance(0.12)) {
		sc.Cfg.PoolKey = "kai.scheduler/node-pool"
		sc.Cfg.PoolVal = []string{"a", "a", ""}[r.Intn(3)]
		in := 0
		for i := range sc.Nodes {
			out := chance(0.4) && !(i == len(sc.Nodes)-1 && in == 0)
			switch {
			case out && sc.Cfg.PoolVal != "" && chance(0.3):
				// no pool label at all
			case out:
				sc.Nodes[i].Labels[sc.Cfg.PoolKey] = "b"
			case sc.Cfg.PoolVal != "":
				sc.Nodes[i].Labels[sc.Cfg.PoolKey] = sc.Cfg.PoolVal
				in++
			default:
				in++
			}
		}
	}
	totalGpus := 0
	for i := range sc.Nodes {
		if sc.InPool(&sc.Nodes[i]) {
			totalGpus += sc.Nodes[i].Gpus
		}
	}

	// ---- queues: optional parents (departments) and leaves
	np := pick(1, 1, 2)
	threeLevel := chance(0.2)
	quota := func() int {
		v := pick(-1, 0, 0, 1000, 1000, 2000, 3000, 500)
		return v
	}
	limit := func() int { return pick(-1, -1, -1, 1000, 2000, 3000, 4000, 500) }
	for i := 0; i < np; i++ {
		sc.Queues = append(sc.Queues, Queue{Name: fmt.Sprintf("d%d", i+1), Parent: 0, Prio: pick(100, 100, 200), GQ: pick(-1, 1000, 2000, 4000, 8000), GL: pick(-1, -1, 2000, 4000, 8000),
			GW: pick(0, 1, 1, 2), CQ: -1, CL: -1, MQ: -1, ML: -1})
	}
	for i := range sc.Queues {
		// min-runtime inherited from a department
		if chance(0.15) {
			sc.Queues[i].MinRtR = pick(3600, 36000)
		}
		if chance(0.1) {
			sc.Queues[i].MinRtP = pick(3600, 36000)
		}
	}
	parents := np
	if threeLevel {
		// a middle level under d1
		sc.Queues = append(sc.Queues, Queue{Name: "m1", Parent: 1, Prio: 100, GQ: quota(), GL: limit(), GW: pick(1, 2), CQ: -1, CL: -1, MQ: -1, ML: -1})
		parents++
	}
	nl := pick(1, 2, 2, 3, 4)
	var leaves []int
	for i := 0; i < nl; i++ {
		par := 1 + r.Intn(parents)
		q := Queue{Name: fmt.Sprintf("q%d", i+1), Parent: par, Prio: pick(100, 100, 100, 200), GQ: quota(), GL: limit(), GW: pick(0, 1, 1, 1, 2, 3),
			CQ: -1, CL: -1, MQ: -1, ML: -1}
		if chance(0.15) {
			q.CQ = pick(1000, 2000, 4000)
		}
		if chance(0.1) {
			q.CL = pick(2000, 4000, 8000)
		}
		if chance(0.15) {
			q.ML = pick(1000, 4000, 8000)
		}
		if chance(0.1) {
			q.MQ = pick(1000, 4000)
		}
		if chance(0.15) {
			q.MinRtP = pick(3600, 36000)
		}
		if chance(0.15) {
			q.MinRtR = pick(3600, 36000)
		}
		sc.Queues = append(sc.Queues, q)
		leaves = append(leaves, len(sc.Queues))
	}
	// a parent that ended up childless would be a leaf for the scheduler; make sure jobs only use leaves with no children
	hasChild := map[int]bool{}
	for _, q := range sc.Queues {
		hasChild[q.Parent] = true
	}

	// ---- capacity bookkeeping for the initial placement
	type nodeUse struct {
		cpu, mem, pods, whole int
		groups                map[string]int // group -> used memory (MiB)
	}
	use := make([]nodeUse, nn)
	for i := range use {
		use[i].groups = map[string]int{}
	}
	memOf := func(p *Pod, n *Node) int {
		if p.GpuMem > 0 {
			return p.GpuMem
		}
		return p.Frac * n.GpuMem / 100
	}
	groupSeq := 0
	effCpu := func(p *Pod) int {
		c := p.Cpu
		if p.InitCpu > c {
			c = p.InitCpu
		}
		return c + p.OvhCpu
	}
	tryPlace := func(p *Pod, ni int) bool {
		n := &sc.Nodes[ni]
		u := &use[ni]
		if n.Ready == 0 || n.Unsched == 1 || len(n.Taints) > 0 || !sc.InPool(n) {
			return false
		}
		if u.cpu+effCpu(p) > n.Cpu || u.mem+p.Mem > n.Mem {
			return false
		}
		if p.Devs == 0 {
			if u.pods+1 > n.Pods || u.whole+len(u.groups)+p.Gpu > n.Gpus {
				return false
			}
			u.cpu += effCpu(p)
			u.mem += p.Mem
			u.pods++
			u.whole += p.Gpu
			return true
		}
		need := memOf(p, n)
		if need > n.GpuMem || n.Gpus == 0 {
			return false
		}
		var chosen []string
		newGroups := 0
		for g, m := range u.groups {
			if len(chosen) < p.Devs && m+need <= n.GpuMem && r.Intn(3) > 0 {
				chosen = append(chosen, g)
			}
		}
		for len(chosen) < p.Devs {
			newGroups++
			groupSeq++
			chosen = append(chosen, fmt.Sprintf("g%d", groupSeq))
		}
		if u.whole+len(u.groups)+newGroups > n.Gpus || u.pods+1+newGroups > n.Pods {
			return false
		}
		for _, g := range chosen {
			u.groups[g] += need
		}
		u.cpu += effCpu(p)
		u.mem += p.Mem
		u.pods += 1 + newGroups
		p.Groups = chosen
		return true
	}

	// ---- jobs and pods
	nj := pick(2, 3, 4, 5, 6)
	if profile == "fifo" {
		nj = pick(4, 5, 6, 7)
	}
	shapeSeq := 0
	type tmpl struct {
		cpu, mem, gpu, frac, gpuMem, devs, size, min, preempt, initCpu, ovhCpu int
	}
	newTmpl := func() tmpl {
		t := tmpl{cpu: pick(100, 500, 1000, 2000), mem: pick(100, 1000, 4000), size: pick(1, 1, 1, 2, 2, 3, 4), preempt: pick(1, 1, 0)}
		kind := pick(0, 1, 1, 1, 2, 2, 3, 4)
		if profile == "fraction" {
			kind = pick(1, 2, 2, 2, 3, 3, 4, 4)
		}
		if profile == "full" || profile == "closed" || profile == "fifo" {
			kind = pick(1, 1, 1, 2)
			t.size = pick(1, 1, 1, 2)
			if profile == "closed" {
				t.size = pick(1, 1, 2, 2, 3)
			}
		}
		switch kind {
		case 1:
			t.gpu = pick(1, 1, 1, 2)
		case 2:
			t.frac, t.devs = pick(25, 50, 50, 70, 30, 100), 1
		case 3:
			t.gpuMem, t.devs = pick(4000, 8000, 10000, 20000), 1
			if t.gpuMem > gpuMem {
				t.gpuMem = gpuMem / 2
			}
			if hetero {
				t.gpuMem = pick(4000, 8000, 8000)
			}
		case 4:
			t.frac, t.devs = pick(50, 50, 30), 2
		}
		t.min = 1 + r.Intn(t.size)
		if chance(0.5) {
			t.min = t.size
		}
		if profile == "slots" && chance(0.3) {
			// best-effort pods (no or negligible requests): the only thing they take is a pod slot
			t.cpu, t.mem, t.gpu, t.frac, t.gpuMem, t.devs = pick(0, 0, 5), pick(0, 0, 5), 0, 0, 0, 0
		}
		if profile == "mixed" || profile == "slots" {
			if chance(0.15) {
				t.initCpu = pick(1000, 2000, 3000, 4000)
			}
			if chance(0.12) {
				t.ovhCpu = pick(250, 500, 1500)
			}
		}
		return t
	}
	var fifoTmpl tmpl
	fifoShape := 0
	extremePrio := profile == "fifo" && chance(0.2)
	if profile == "fifo" {
		fifoTmpl = newTmpl()
		shapeSeq++
		fifoShape = shapeSeq
	}
	for j := 0; j < nj; j++ {
		t := newTmpl()
		shape := 0
		leaf := leaves[r.Intn(len(leaves))]
		if profile == "fifo" && j >= 1 && chance(0.75) {
			t = fifoTmpl
			shape = fifoShape
			leaf = leaves[0]
		}
		job := Job{Name: fmt.Sprintf("j%d", j+1), Queue: leaf, Prio: pick(50, 50, 50, 75, 100), Preempt: t.preempt, Min: t.min,
			Age: 600 + 60*r.Intn(50), LastStart: -1, Shape: shape}
		if profile == "fifo" && shape > 0 {
			job.Prio = pick(50, 50, 75)
			if extremePrio {
				job.Prio = pick(-1500000000, 50, 1000000000, 1000000000)
			}
		}
		if job.Prio >= 100 && shape == 0 {
			job.Preempt = 0 // mirrors CalculatePreemptibility default; the explicit field is still set
		}
		sc.Jobs = append(sc.Jobs, job)
		// decide how much of the job is already running
		runFrac := r.Float64()
		switch profile {
		case "full", "closed":
			if j < nj-2 {
				runFrac = 1
				if t.size > t.min && chance(0.5) {
					runFrac = 0.6 // an elastic job running at or above its minimum with pods still pending
				}
			} else {
				runFrac = 0
			}
		case "fifo":
			if shape > 0 {
				runFrac = 0
			}
		}
		running := 0
		var podIdx []int
		// optional sub-groups: two flat pod sets splitting the job's pods
		sizeA := 0
		minA, minB := 0, 0
		atMin := false // every pod set runs exactly its minimum, the surplus pods are pending (e.g. a scale-up that found no room)
		if t.size >= 2 && shape == 0 && (profile == "mixed" || profile == "full" || profile == "closed") && chance(0.3) {
			if chance(0.5) {
				t.size = pick(3, 3, 4) // room for pod sets with surplus pods
			}
			sizeA = (t.size + 1) / 2
			minA = 1 + r.Intn(sizeA)
			minB = 1 + r.Intn(t.size-sizeA)
			atMin = minA+minB < t.size && chance(0.5)
			sc.Jobs[j].Subs = []Sub{{Name: "sa", Min: minA}, {Name: "sb", Min: minB}}
			if chance(0.5) {
				// hierarchical: sb nested under an intermediate sub-group set (index 3, holds no pods)
				sc.Jobs[j].Subs = []Sub{{Name: "sa", Min: minA}, {Name: "sb", Min: minB, Parent: "grp"}, {Name: "grp", Min: 0}}
			}
			sc.Jobs[j].Min = minA + minB
			t.min = minA + minB
			if runFrac > 0.45 {
				runFrac = 1 // pod-set jobs start either fully running or fully pending
			}
		}
		for k := 0; k < t.size; k++ {
			p := Pod{Name: fmt.Sprintf("j%d-p%d", j+1, k+1), Job: j + 1, Cpu: t.cpu, Mem: t.mem, Gpu: t.gpu, Frac: t.frac, GpuMem: t.gpuMem,
				Devs: t.devs, Phase: "P", InitCpu: t.initCpu, OvhCpu: t.ovhCpu}
			if sizeA > 0 {
				if k < sizeA {
					p.Sub = 1
				} else {
					p.Sub = 2
				}
			}
			if profile == "constr" {
				decorate(r, &p, sc)
			}
			sc.Pods = append(sc.Pods, p)
			podIdx = append(podIdx, len(sc.Pods)-1)
		}
		wantRun := 0
		if runFrac > 0.45 {
			wantRun = t.min + r.Intn(t.size-t.min+1)
			if runFrac > 0.9 {
				wantRun = t.size
			}
		}
		needRun := t.size
		if atMin {
			needRun = minA + minB
			if wantRun > 0 {
				wantRun = needRun
			}
		}
		for x, pi := range podIdx {
			if running >= wantRun {
				break
			}
			if atMin && !((x < sizeA && x < minA) || (x >= sizeA && x-sizeA < minB)) {
				continue
			}
			p := &sc.Pods[pi]
			if len(p.Sel) > 0 || len(p.AffIn) > 0 || len(p.AffNot) > 0 || len(p.PodAff) > 0 || len(p.PodAnt) > 0 {
				continue // constrained pods start pending: the generator does not evaluate constraints
			}
			order := r.Perm(nn)
			for _, ni := range order {
				if tryPlace(p, ni) {
					p.Phase, p.Node = "R", ni+1
					running++
					break
				}
			}
		}
		if running > 0 && (running < t.min || (sizeA > 0 && running < needRun)) {
			// cannot leave a gang partially running in the initial state: roll the job back to pending
			// (capacity bookkeeping stays conservative)
			for _, pi := range podIdx {
				sc.Pods[pi].Phase, sc.Pods[pi].Node, sc.Pods[pi].Groups = "P", 0, nil
			}
			running = 0
		}
		if running > 0 {
			sc.Jobs[j].LastStart = pick(60, 1800, 18000, 180000)
			if chance(0.12) {
				// one surplus / or all pods terminating
				for _, pi := range podIdx {
					if sc.Pods[pi].Phase == "R" && chance(0.5) {
						sc.Pods[pi].Term = 1
					}
				}
			}
		}
	}
	if profile == "fifo" && chance(0.5) {
		// pod groups of a queue that does not exist (deleted queue, typo): they can never be scheduled and must
		// not disturb the order in which the others are
		for x := 0; x < pick(1, 2, 3); x++ {
			sc.Jobs = append(sc.Jobs, Job{Name: fmt.Sprintf("orphan%d", x+1), Queue: 0, Prio: pick(50, 75), Preempt: 1, Min: 1, Age: 600 + 60*r.Intn(50), LastStart: -1})
			sc.Pods = append(sc.Pods, Pod{Name: fmt.Sprintf("orphan%d-p1", x+1), Job: len(sc.Jobs), Cpu: 100, Mem: 100, Gpu: pick(0, 1), Phase: "P"})
		}
	}
	if profile == "fifo" && chance(0.5) {
		// an older, partially running multi-sub-group job of the same leaf queue and priority as the
		// comparable jobs: its leader is pending (e.g. recreated) while its workers run above their
		// minimum. Its position in the job order must not disturb the order among the comparable jobs.
		j := len(sc.Jobs)
		job := Job{Name: fmt.Sprintf("j%d", j+1), Queue: leaves[0], Prio: 50, Preempt: 1, Min: 2, Age: 7200 + r.Intn(600), LastStart: 36000,
			Subs: []Sub{{Name: "leader", Min: 1}, {Name: "workers", Min: 1}}}
		var placed []Pod
		ok := true
		for k := 0; k < 2; k++ {
			p := Pod{Name: fmt.Sprintf("j%d-p%d", j+1, k+2), Job: j + 1, Cpu: 100, Mem: 100, Gpu: 0, Sub: 2, Phase: "P"}
			done := false
			for _, ni := range r.Perm(nn) {
				if tryPlace(&p, ni) {
					p.Phase, p.Node = "R", ni+1
					done = true
					break
				}
			}
			ok = ok && done
			placed = append(placed, p)
		}
		if ok {
			sc.Jobs = append(sc.Jobs, job)
			sc.Pods = append(sc.Pods, Pod{Name: fmt.Sprintf("j%d-p1", j+1), Job: j + 1, Cpu: 100, Mem: 100, Gpu: 0, Sub: 1, Phase: "P"})
			sc.Pods = append(sc.Pods, placed...)
		}
	}
	_ = totalGpus
	_ = hasChild
	sc.Normalize()
	return sc
}

// decorate adds hard placement constraints to a pending pod (profile constr).
func decorate(r *rand.Rand, p *Pod, sc *Scenario) {
	chance := func(q float64) bool { return r.Float64() < q }
	if chance(0.3) {
		p.Sel = map[string]string{"disk": []string{"ssd", "hdd"}[r.Intn(2)]}
	}
	if chance(0.2) {
		p.AffIn = map[string]string{ZoneLabel: []string{"za", "zb"}[r.Intn(2)]}
	}
	if chance(0.15) {
		p.AffNot = map[string]string{"disk": []string{"ssd", "hdd"}[r.Intn(2)]}
	}
	if chance(0.4) {
		p.Tols = append(p.Tols, Tol{Key: "ded", Op: []string{"Equal", "Exists"}[r.Intn(2)], Val: []string{"a", "b"}[r.Intn(2)], Effect: []string{"", "NoSchedule", "NoExecute"}[r.Intn(3)]})
		if p.Tols[0].Op == "Exists" {
			p.Tols[0].Val = ""
		}
	}
	if chance(0.5) {
		p.Labels = map[string]string{"app": []string{"x", "y"}[r.Intn(2)]}
	}
	if chance(0.2) {
		p.PodAnt = append(p.PodAnt, PodTerm{Key: "app", Val: []string{"x", "y"}[r.Intn(2)], Topo: []string{"host", "zone"}[r.Intn(2)]})
	}
	if chance(0.12) {
		p.PodAff = append(p.PodAff, PodTerm{Key: "app", Val: []string{"x", "y"}[r.Intn(2)], Topo: []string{"host", "zone"}[r.Intn(2)]})
	}
}

// generateUnobstructed builds members of the "unobstructed single-claimant class" of C05:
// interchangeable nodes, interchangeable single-pod 1-GPU jobs, no constraints, no min-runtime, a
// completely full cluster and exactly one pending job which either
//   - (reclaim) belongs to a queue that stays within its deserved quota with it, while another
//     queue runs preemptible pods above its deserved quota, or
//   - (preempt) has strictly higher priority than a preemptible running job of its own queue
//     (and its queue is at/over its quota so that reclaim does not apply first).
//
// Such a job must be bound or nominated within one cycle.
func generateUnobstructed(r *rand.Rand) *Scenario {
	pick := func(vs ...int) int { return vs[r.Intn(len(vs))] }
	sc := &Scenario{Class: "unobs"}
	sc.Cfg = Cfg{Placement: []string{"binpack", "spread"}[r.Intn(2)], Consolidation: pick(0, 1), Signatures: pick(0, 1),
		ConsReclaim: pick(0, 1), SatMult: pick(1000, 1200, 2000), Cycles: 1, Env: "closed", FullHier: 1}
	nn := pick(1, 2, 2, 3)
	g := pick(1, 2, 2)
	for i := 0; i < nn; i++ {
		sc.Nodes = append(sc.Nodes, Node{Name: fmt.Sprintf("n%d", i+1), Cpu: 16000, Mem: 64000, Pods: 110, Gpus: g, GpuMem: 40000, Ready: 1})
	}
	total := nn * g
	reclaim := r.Intn(2) == 0
	deep := r.Intn(3) == 0 // leaf queues under two departments instead of one
	sc.Queues = append(sc.Queues, Queue{Name: "d1", Parent: 0, Prio: 100, GQ: -1, GL: -1, GW: 1, CQ: -1, CL: -1, MQ: -1, ML: -1})
	parentB := 1
	if deep {
		sc.Queues = append(sc.Queues, Queue{Name: "d2", Parent: 0, Prio: 100, GQ: -1, GL: -1, GW: 1, CQ: -1, CL: -1, MQ: -1, ML: -1})
		parentB = 2
	}
	if reclaim {
		sc.Class = "unobs-reclaim"
		// queue A holds the whole cluster and is above its quota by at least K; queue B deserves at least K,
		// holds nothing and has K identical pending jobs (K = 1..3): each of them is entitled to reclaim
		kc := pick(1, 1, 2, 3)
		if kc > total {
			kc = total
		}
		qb := kc + r.Intn(2)
		if qb > total {
			qb = total
		}
		maxQa := total - qb
		if total-kc < maxQa {
			maxQa = total - kc
		}
		qa := 0
		if maxQa > 0 {
			qa = r.Intn(maxQa + 1)
		}
		sc.Queues = append(sc.Queues, Queue{Name: "qa", Parent: 1, Prio: 100, GQ: qa * 1000, GL: -1, GW: 1, CQ: -1, CL: -1, MQ: -1, ML: -1})
		sc.Queues = append(sc.Queues, Queue{Name: "qb", Parent: parentB, Prio: 100, GQ: qb * 1000, GL: -1, GW: 1, CQ: -1, CL: -1, MQ: -1, ML: -1})
		qaIdx, qbIdx := len(sc.Queues)-1, len(sc.Queues)
		k := 0
		for n := 0; n < nn; n++ {
			for d := 0; d < g; d++ {
				k++
				sc.Jobs = append(sc.Jobs, Job{Name: fmt.Sprintf("j%d", k), Queue: qaIdx, Prio: 50, Preempt: 1, Min: 1, Age: 3600 + 60*k, LastStart: 36000})
				sc.Pods = append(sc.Pods, Pod{Name: fmt.Sprintf("j%d-p1", k), Job: k, Cpu: 500, Mem: 500, Gpu: 1, Phase: "R", Node: n + 1})
			}
		}
		prio, pre := pick(50, 75), pick(0, 1)
		for c := 0; c < kc; c++ {
			k++
			sc.Jobs = append(sc.Jobs, Job{Name: fmt.Sprintf("j%d", k), Queue: qbIdx, Prio: prio, Preempt: pre, Min: 1, Age: 600 + 60*c, LastStart: -1})
			sc.Pods = append(sc.Pods, Pod{Name: fmt.Sprintf("j%d-p1", k), Job: k, Cpu: 500, Mem: 500, Gpu: 1, Phase: "P"})
		}
	} else {
		sc.Class = "unobs-preempt"
		// one queue holding the whole cluster with preemptible low-priority jobs; quota = 0 so that the
		// K identical pending jobs (same queue, higher priority) cannot reclaim and must preempt
		sc.Queues = append(sc.Queues, Queue{Name: "qa", Parent: 1, Prio: 100, GQ: 0, GL: -1, GW: 1, CQ: -1, CL: -1, MQ: -1, ML: -1})
		qaIdx := len(sc.Queues)
		k := 0
		for n := 0; n < nn; n++ {
			for d := 0; d < g; d++ {
				k++
				sc.Jobs = append(sc.Jobs, Job{Name: fmt.Sprintf("j%d", k), Queue: qaIdx, Prio: 50, Preempt: 1, Min: 1, Age: 3600 + 60*k, LastStart: 36000})
				sc.Pods = append(sc.Pods, Pod{Name: fmt.Sprintf("j%d-p1", k), Job: k, Cpu: 500, Mem: 500, Gpu: 1, Phase: "R", Node: n + 1})
			}
		}
		kc := pick(1, 1, 2, 3)
		if kc > total {
			kc = total
		}
		for c := 0; c < kc; c++ {
			k++
			sc.Jobs = append(sc.Jobs, Job{Name: fmt.Sprintf("j%d", k), Queue: qaIdx, Prio: 75, Preempt: 1, Min: 1, Age: 600 + 60*c, LastStart: -1})
			sc.Pods = append(sc.Pods, Pod{Name: fmt.Sprintf("j%d-p1", k), Job: k, Cpu: 500, Mem: 500, Gpu: 1, Phase: "P"})
		}
	}
	sc.Normalize()
	return sc
}

// generateTopology builds clusters with a 1-3 level topology (unbalanced, some nodes missing a
// label), gangs with a required level, partially running constrained gangs, a job naming a
// missing topology, and competing unconstrained work so that reclaim/preempt/consolidation see
// constrained jobs too.
func generateTopology(r *rand.Rand) *Scenario {
	pick := func(vs ...int) int { return vs[r.Intn(len(vs))] }
	chance := func(p float64) bool { return r.Float64() < p }
	sc := &Scenario{Class: "topo"}
	sc.Cfg = Cfg{Placement: []string{"binpack", "spread"}[r.Intn(2)], Consolidation: pick(0, 1), Signatures: pick(0, 1),
		ConsReclaim: pick(0, 1), SatMult: 1000, Cycles: pick(1, 2, 3), Env: "closed", FullHier: 1}
	nl := pick(1, 2, 2, 3)
	keys := []string{"t/zone", "t/block", "t/rack"}[:nl]
	sc.Topo = Topology{Name: "topo1", Levels: keys}
	nn := pick(3, 4, 4, 5)
	for i := 0; i < nn; i++ {
		n := Node{Name: fmt.Sprintf("n%d", i+1), Cpu: 16000, Mem: 64000, Pods: 110, Gpus: pick(1, 2, 2), GpuMem: 40000, Ready: 1, Labels: map[string]string{}}
		// domain labels: zone by halves, block by pairs, rack per node-ish (unbalanced)
		vals := []string{fmt.Sprintf("z%d", i*2/nn), fmt.Sprintf("b%d", i/2), fmt.Sprintf("r%d", (i+1)/2)}
		for k := 0; k < nl; k++ {
			if chance(0.12) {
				continue // node lacks this level's label
			}
			n.Labels[keys[k]] = vals[k]
		}
		sc.Nodes = append(sc.Nodes, n)
	}
	sc.Queues = []Queue{{Name: "d1", Parent: 0, Prio: 100, GQ: -1, GL: -1, GW: 1, CQ: -1, CL: -1, MQ: -1, ML: -1},
		{Name: "q1", Parent: 1, Prio: 100, GQ: pick(0, 1000, 2000), GL: -1, GW: 1, CQ: -1, CL: -1, MQ: -1, ML: -1},
		{Name: "q2", Parent: 1, Prio: 100, GQ: pick(1000, 2000, 4000), GL: -1, GW: 1, CQ: -1, CL: -1, MQ: -1, ML: -1}}
	used := make([]int, nn)
	nj := pick(2, 3, 4)
	for j := 0; j < nj; j++ {
		size := pick(2, 2, 3)
		job := Job{Name: fmt.Sprintf("j%d", j+1), Queue: 2 + r.Intn(2), Prio: pick(50, 50, 75), Preempt: 1, Min: size, Age: 600 + 60*j, LastStart: -1}
		if chance(0.75) {
			job.Topo = "topo1"
			job.TopoReq = 1 + r.Intn(nl)
		}
		if chance(0.08) {
			job.Topo = "missing-topology"
			job.TopoReq = 1
		}
		if job.Topo == "topo1" && chance(0.35) {
			job.TopoPref = 1 + r.Intn(nl) // a soft level: finer than, equal to or COARSER than the required one
		}
		if chance(0.3) {
			job.Min = 1 + r.Intn(size) // elastic
		}
		// replicas that must not share a host (required pod anti-affinity among the gang's own pods)
		spread := job.Topo == "topo1" && chance(0.3)
		// sub-group level constraints: two pod sets (optionally under a common parent sub-group), each
		// with its own required level - usually finer than the job's own level, or the job itself has none
		subOf := func(k int) int { return 0 }
		if nl >= 1 && job.Topo != "missing-topology" && chance(0.4) {
			size = pick(2, 3, 4)
			szA := 1 + r.Intn(size-1)
			finer := func(base int) int {
				if base >= nl {
					return nl
				}
				return base + 1 + r.Intn(nl-base)
			}
			base := job.TopoReq
			if job.Topo == "" || chance(0.3) {
				job.Topo, job.TopoReq, base = "", 0, 0
			}
			ta, tb := finer(base), finer(base)
			if chance(0.25) {
				tb = 0
			}
			job.Subs = []Sub{{Name: "sa", Min: szA, TopoReq: ta}, {Name: "sb", Min: size - szA, TopoReq: tb}}
			if chance(0.3) {
				// a parent sub-group carrying a constraint for both pod sets
				pt := 0
				if base < nl && chance(0.7) {
					pt = base + 1
				}
				job.Subs = []Sub{{Name: "sa", Min: szA, TopoReq: ta, Parent: "grp"}, {Name: "sb", Min: size - szA, TopoReq: tb, Parent: "grp"}, {Name: "grp", Min: 0, TopoReq: pt}}
			}
			job.Min = size
			subOf = func(k int) int {
				if k < szA {
					return 1
				}
				return 2
			}
		}
		sc.Jobs = append(sc.Jobs, job)
		// an unconstrained job may already run (anywhere it fits); constrained ones start pending, or
		// with ONE pod running (pinning the domain) when elastic with min 1
		for k := 0; k < size; k++ {
			p := Pod{Name: fmt.Sprintf("j%d-p%d", j+1, k+1), Job: j + 1, Cpu: 500, Mem: 500, Gpu: 1, Phase: "P", Sub: subOf(k)}
			if spread {
				app := fmt.Sprintf("j%d", j+1)
				p.Labels = map[string]string{"app": app}
				p.PodAnt = []PodTerm{{Key: "app", Val: app, Topo: "host"}}
			}
			runIt := (job.Topo == "" && len(job.Subs) == 0 && chance(0.6)) || (job.Topo == "topo1" && job.Min == 1 && k == 0 && chance(0.5))
			if runIt {
				for _, ni := range r.Perm(nn) {
					if used[ni] < sc.Nodes[ni].Gpus {
						used[ni]++
						p.Phase, p.Node = "R", ni+1
						break
					}
				}
			}
			sc.Pods = append(sc.Pods, p)
		}
		// unconstrained running job must be a complete gang or not running at all
		if job.Topo == "" {
			run := 0
			for _, p := range sc.Pods[len(sc.Pods)-size:] {
				if p.Phase == "R" {
					run++
				}
			}
			if run > 0 && run < job.Min {
				for i := len(sc.Pods) - size; i < len(sc.Pods); i++ {
					if sc.Pods[i].Phase == "R" {
						used[sc.Pods[i].Node-1]--
						sc.Pods[i].Phase, sc.Pods[i].Node = "P", 0
					}
				}
			} else if run > 0 {
				sc.Jobs[j].LastStart = 36000
			}
		} else if sc.Pods[len(sc.Pods)-size].Phase == "R" {
			sc.Jobs[j].LastStart = 36000
		}
	}
	sc.Normalize()
	return sc
}

// generateVictims builds full clusters whose running work is made of eligible-looking victims:
// profile minrt   - min-runtime settings on the department, the leaves or both (reclaim and preempt
//
//	values differ), victims started recently or long ago, elastic and gang victims;
//
// profile elastic - elastic victims (min < running), some of their surplus pods already terminating
//
//	(stalled environment), pending claimants needing 1-3 GPUs.
//
// One department, 2-3 sibling leaf queues: victims in an over-quota queue, claimants in an
// under-quota sibling (reclaim) and/or with higher priority in the victims' queue (preempt).
func generateVictims(r *rand.Rand, profile string) *Scenario {
	pick := func(vs ...int) int { return vs[r.Intn(len(vs))] }
	chance := func(p float64) bool { return r.Float64() < p }
	sc := &Scenario{Class: profile}
	sc.Cfg = Cfg{Placement: []string{"binpack", "spread"}[r.Intn(2)], Consolidation: pick(0, 1), Signatures: pick(0, 1),
		ConsReclaim: pick(0, 1), SatMult: 1000, Cycles: pick(1, 2), Env: "closed", FullHier: 1}
	if profile == "elastic" {
		sc.Cfg.Env = "stall"
		sc.Cfg.Cycles = pick(1, 2, 3)
	}
	nn := pick(1, 2, 2)
	g := pick(2, 4)
	for i := 0; i < nn; i++ {
		sc.Nodes = append(sc.Nodes, Node{Name: fmt.Sprintf("n%d", i+1), Cpu: 32000, Mem: 64000, Pods: 110, Gpus: g, GpuMem: 40000, Ready: 1})
	}
	total := nn * g
	dep := Queue{Name: "d1", Parent: 0, Prio: 100, GQ: -1, GL: -1, GW: 1, CQ: -1, CL: -1, MQ: -1, ML: -1}
	qa := Queue{Name: "qa", Parent: 1, Prio: 100, GQ: pick(0, 1000), GL: -1, GW: 1, CQ: -1, CL: -1, MQ: -1, ML: -1}
	qb := Queue{Name: "qb", Parent: 1, Prio: 100, GQ: pick(1000, 2000, 3000), GL: -1, GW: 1, CQ: -1, CL: -1, MQ: -1, ML: -1}
	if profile == "minrt" {
		// reclaim / preempt min-runtime on the department, on the victims' leaf, or both - never the same value twice
		switch r.Intn(4) {
		case 0:
			dep.MinRtR = pick(3600, 36000)
		case 1:
			qa.MinRtR = pick(3600, 36000)
		case 2:
			dep.MinRtR, qa.MinRtR = 36000, 3600
		case 3:
			dep.MinRtP = pick(3600, 36000)
		}
		if chance(0.4) {
			qa.MinRtP = pick(3600, 36000)
		}
		if chance(0.2) {
			dep.MinRtP = pick(3600, 36000)
		}
		// the plugin's defaults (used where no queue on the path says anything) - never the same value for both -
		// and the reclaim resolve method
		if chance(0.4) {
			switch r.Intn(3) {
			case 0:
				sc.Cfg.DefMinRtR = pick(3600, 36000)
			case 1:
				sc.Cfg.DefMinRtP = pick(3600, 36000)
			default:
				sc.Cfg.DefMinRtR, sc.Cfg.DefMinRtP = 36000, 3600
			}
			if chance(0.5) {
				// let the defaults matter: clear what the queues say for one of the two kinds
				if chance(0.5) {
					dep.MinRtR, qa.MinRtR = 0, 0
				} else {
					dep.MinRtP, qa.MinRtP = 0, 0
				}
			}
		}
		if chance(0.25) {
			sc.Cfg.MinRtMethod = "queue"
		}
	}
	sc.Queues = []Queue{dep, qa, qb}
	// a second department with a claimant of its own: for that "foreign" reclaimer the lowest common ancestor is
	// the root, so the victims' min-runtime is resolved from their DEPARTMENT (often unset), while the sibling
	// queue qb resolves it from the victims' leaf - the same victim job has two different answers in one cycle
	foreign := 0
	if profile == "minrt" && chance(0.4) {
		gq := pick(1000, 2000)
		sc.Queues = append(sc.Queues, Queue{Name: "d2", Parent: 0, Prio: 100, GQ: gq, GL: -1, GW: 1, CQ: -1, CL: -1, MQ: -1, ML: -1},
			Queue{Name: "qc", Parent: 4, Prio: 100, GQ: gq, GL: -1, GW: 1, CQ: -1, CL: -1, MQ: -1, ML: -1})
		foreign = 5
	}
	if chance(0.25) {
		// the API refuses the second or third eviction of the run (statements with several victims)
		sc.Cfg.EvictFail = []int{pick(2, 2, 3)}
	}
	used := make([]int, nn)
	k := 0
	place := func() int {
		for _, ni := range r.Perm(nn) {
			if used[ni] < g {
				used[ni]++
				return ni + 1
			}
		}
		return 0
	}
	// victims in qa until the cluster is full
	for free := total; free > 0; {
		size := pick(1, 2, 3)
		if size > free {
			size = free
		}
		min := size
		if size > 1 && (profile == "elastic" || chance(0.5)) {
			min = 1 + r.Intn(size-1)
		}
		k++
		job := Job{Name: fmt.Sprintf("j%d", k), Queue: 2, Prio: pick(50, 50, 60), Preempt: 1, Min: min, Age: 7200 + 60*k,
			LastStart: pick(60, 1800, 18000, 180000)}
		// a victim made of two pod sets that each run exactly their minimum, with a surplus pod still pending in
		// one of them (a scale-up that found no room): evicting must take the whole workload or nothing
		podSets := size >= 2 && chance(0.35)
		if podSets {
			a := 1 + r.Intn(size-1)
			job.Subs = []Sub{{Name: "sa", Min: a}, {Name: "sb", Min: size - a}}
			job.Min, min = size, size
		}
		sc.Jobs = append(sc.Jobs, job)
		for i := 0; i < size; i++ {
			p := Pod{Name: fmt.Sprintf("j%d-p%d", k, i+1), Job: k, Cpu: 500, Mem: 500, Gpu: 1, Phase: "R", Node: place()}
			if profile == "elastic" && i >= min && chance(0.5) {
				p.Term = 1
			}
			if podSets {
				p.Sub = 2
				if i < job.Subs[0].Min {
					p.Sub = 1
				}
			}
			sc.Pods = append(sc.Pods, p)
		}
		if podSets {
			for i := 0; i < pick(1, 1, 2); i++ {
				sc.Pods = append(sc.Pods, Pod{Name: fmt.Sprintf("j%d-p%d", k, size+i+1), Job: k, Cpu: 500, Mem: 500, Gpu: 1, Phase: "P", Sub: pick(1, 2)})
			}
		}
		// an elastic job that is at the same time a victim candidate (running pods above its minimum) and a
		// claimant (pods still pending): later actions of the cycle see it in both roles
		if profile == "elastic" && !podSets && chance(0.5) {
			for i := 0; i < pick(1, 1, 2); i++ {
				sc.Pods = append(sc.Pods, Pod{Name: fmt.Sprintf("j%d-p%d", k, size+i+1), Job: k, Cpu: 500, Mem: 500, Gpu: 1, Phase: "P"})
			}
		}
		free -= size
	}
	// claimants: reclaimers in qb, optionally a higher-priority preemptor in qa, the foreign reclaimer in qc
	nc := pick(1, 1, 2)
	if foreign > 0 {
		nc++
	}
	for c := 0; c < nc; c++ {
		size := pick(1, 1, 2, 3)
		k++
		q := 3
		prio := pick(50, 75)
		if chance(0.3) {
			q, prio = 2, 100
		}
		if foreign > 0 && c == 0 {
			q, prio, size = foreign, 50, pick(1, 1, 2)
		}
		pre := pick(0, 1)
		if prio >= 100 {
			pre = 0
		}
		sc.Jobs = append(sc.Jobs, Job{Name: fmt.Sprintf("j%d", k), Queue: q, Prio: prio, Preempt: pre, Min: size, Age: 600 + 60*c, LastStart: -1})
		for i := 0; i < size; i++ {
			sc.Pods = append(sc.Pods, Pod{Name: fmt.Sprintf("j%d-p%d", k, i+1), Job: k, Cpu: 500, Mem: 500, Gpu: 1, Phase: "P"})
		}
	}
	sc.Normalize()
	return sc
}

// generateTight builds small clusters whose capacity is tight for a specific interaction:
//
//	bindfail  a gang whose k-th BindRequest creation fails while other pending jobs want exactly the
//	          capacity of its already bound members (Commit's failure path must not give it back)
//	overhead  pods with init containers larger than their containers plus RuntimeClass overhead on
//	          nodes where only the correct request (max(containers, init) + overhead) decides the fit
//	nested    a hierarchical pod group (leader under the root, workers in a pod set nested under an
//	          intermediate sub-group) on a node with one idle GPU and one GPU held by a terminating
//	          pod, so that part of the gang can be bound and the rest only nominated
func generateTight(r *rand.Rand, profile string) *Scenario {
	pick := func(vs ...int) int { return vs[r.Intn(len(vs))] }
	sc := &Scenario{Class: profile}
	sc.Cfg = Cfg{Placement: []string{"binpack", "spread"}[r.Intn(2)], Consolidation: pick(0, 1), Signatures: pick(0, 1),
		ConsReclaim: 0, SatMult: 1000, Cycles: pick(1, 2), Env: []string{"closed", "stall"}[r.Intn(2)], FullHier: 1}
	sc.Queues = []Queue{{Name: "d1", Parent: 0, Prio: 100, GQ: -1, GL: -1, GW: 1, CQ: -1, CL: -1, MQ: -1, ML: -1},
		{Name: "q1", Parent: 1, Prio: 100, GQ: -1, GL: -1, GW: 1, CQ: -1, CL: -1, MQ: -1, ML: -1},
		{Name: "q2", Parent: 1, Prio: 100, GQ: -1, GL: -1, GW: 1, CQ: -1, CL: -1, MQ: -1, ML: -1}}
	switch profile {
	case "bindfail":
		g := pick(2, 3, 4)
		sc.Nodes = []Node{{Name: "n1", Cpu: 16000, Mem: 64000, Pods: 110, Gpus: g, GpuMem: 40000, Ready: 1}}
		if pick(0, 1) == 1 {
			sc.Nodes = append(sc.Nodes, Node{Name: "n2", Cpu: 16000, Mem: 64000, Pods: 110, Gpus: pick(1, 2), GpuMem: 40000, Ready: 1})
		}
		gang := pick(2, 2, 3)
		if gang > g {
			gang = g
		}
		sc.Jobs = append(sc.Jobs, Job{Name: "j1", Queue: 2, Prio: 75, Preempt: 1, Min: gang, Age: 7200, LastStart: -1})
		for i := 0; i < gang; i++ {
			sc.Pods = append(sc.Pods, Pod{Name: fmt.Sprintf("j1-p%d", i+1), Job: 1, Cpu: 500, Mem: 500, Gpu: 1, Phase: "P"})
		}
		sc.Cfg.BindFail = []int{2 + r.Intn(gang-1)} // a later member of the gang fails, earlier ones succeeded
		nj := pick(1, 2)
		for j := 0; j < nj; j++ {
			size := pick(1, 2)
			sc.Jobs = append(sc.Jobs, Job{Name: fmt.Sprintf("j%d", j+2), Queue: 2 + r.Intn(2), Prio: 50, Preempt: 1, Min: 1, Age: 600 + 60*j, LastStart: -1})
			sc.Pods = append(sc.Pods, Pod{Name: fmt.Sprintf("j%d-p1", j+2), Job: j + 2, Cpu: 500, Mem: 500, Gpu: pick(1, size, g), Phase: "P"})
		}
	case "overhead":
		cap := pick(4000, 6000, 8000)
		sc.Nodes = []Node{{Name: "n1", Cpu: cap, Mem: 64000, Pods: 110, Gpus: 0, GpuMem: 40000, Ready: 1}}
		if pick(0, 1) == 1 {
			sc.Nodes = append(sc.Nodes, Node{Name: "n2", Cpu: cap, Mem: 64000, Pods: 110, Gpus: 0, GpuMem: 40000, Ready: 1})
		}
		nj := pick(1, 2, 3)
		for j := 0; j < nj; j++ {
			c := pick(500, 1000, 2000)
			initC := pick(0, c+1000, c+2000, cap-1000, cap-500)
			ovh := pick(0, 500, 1000, 1500, 2000)
			sc.Jobs = append(sc.Jobs, Job{Name: fmt.Sprintf("j%d", j+1), Queue: 2 + r.Intn(2), Prio: 50, Preempt: 1, Min: 1, Age: 600 + 60*j, LastStart: -1})
			sc.Pods = append(sc.Pods, Pod{Name: fmt.Sprintf("j%d-p1", j+1), Job: j + 1, Cpu: c, Mem: 500, InitCpu: initC, OvhCpu: ovh, Phase: "P"})
		}
	case "sharers":
		// GPU groups holding running and terminating sharers in various mixes, pending single- and
		// multi-fraction pods that fit some groups only on memory a terminating sharer still holds
		g := pick(2, 3)
		sc.Nodes = []Node{{Name: "n1", Cpu: 32000, Mem: 64000, Pods: 110, Gpus: g, GpuMem: 40000, Ready: 1}}
		sc.Cfg.Env = []string{"stall", "closed"}[r.Intn(2)]
		sc.Cfg.Placement = []string{"binpack", "binpack", "spread"}[r.Intn(3)]
		k := 0
		for gi := 0; gi < g; gi++ {
			mode := pick(0, 1, 2, 3) // 0 empty, 1 running 0.5, 2 running 0.5 + terminating 0.5, 3 terminating 0.5 only
			grp := fmt.Sprintf("g%d", gi+1)
			add := func(term int) {
				k++
				sc.Jobs = append(sc.Jobs, Job{Name: fmt.Sprintf("j%d", k), Queue: 2 + r.Intn(2), Prio: 50, Preempt: 1, Min: 1, Age: 7200 + k, LastStart: 36000})
				sc.Pods = append(sc.Pods, Pod{Name: fmt.Sprintf("j%d-p1", k), Job: k, Cpu: 500, Mem: 500, Frac: 50, Devs: 1, Phase: "R", Node: 1, Term: term, Groups: []string{grp}})
			}
			switch mode {
			case 1:
				add(0)
			case 2:
				add(0)
				add(1)
			case 3:
				add(1)
			}
		}
		np := pick(1, 2, 3)
		for i := 0; i < np; i++ {
			k++
			devs := pick(1, 2, 2)
			sc.Jobs = append(sc.Jobs, Job{Name: fmt.Sprintf("j%d", k), Queue: 2 + r.Intn(2), Prio: 50, Preempt: 1, Min: 1, Age: 600 + i, LastStart: -1})
			sc.Pods = append(sc.Pods, Pod{Name: fmt.Sprintf("j%d-p1", k), Job: k, Cpu: 500, Mem: 500, Frac: pick(50, 50, 30), Devs: devs, Phase: "P"})
		}
	case "elasticnom":
		// an elastic job (more pending pods than its minimum) whose minimum does not fit the idle GPUs: part of it
		// has to wait for a terminating pod, so the whole minimum is nominated and nothing is bound - while there is
		// still idle room for one more pod when the job comes back for its surplus pods in the same cycle
		g := pick(2, 3, 4)
		sc.Nodes = []Node{{Name: "n1", Cpu: 16000, Mem: 64000, Pods: 110, Gpus: g, GpuMem: 40000, Ready: 1}}
		sc.Cfg.Env = []string{"stall", "stall", "closed"}[r.Intn(3)]
		idle := pick(1, 1, 2)
		if idle >= g {
			idle = g - 1
		}
		k := 0
		for i := 0; i < g-idle; i++ {
			k++
			sc.Jobs = append(sc.Jobs, Job{Name: fmt.Sprintf("j%d", k), Queue: 3, Prio: 50, Preempt: 1, Min: 1, Age: 7200 + k, LastStart: 36000})
			sc.Pods = append(sc.Pods, Pod{Name: fmt.Sprintf("j%d-p1", k), Job: k, Cpu: 500, Mem: 500, Gpu: 1, Phase: "R", Node: 1, Term: pick(1, 1, 0)})
		}
		k++
		min := idle + 1
		size := min + pick(1, 1, 2)
		job := Job{Name: fmt.Sprintf("j%d", k), Queue: 2, Prio: 50, Preempt: 1, Min: min, Age: 600, LastStart: -1}
		if pick(0, 1, 1) == 0 && min >= 2 {
			job.Subs = []Sub{{Name: "sa", Min: 1}, {Name: "sb", Min: min - 1}}
		}
		sc.Jobs = append(sc.Jobs, job)
		for i := 0; i < size; i++ {
			p := Pod{Name: fmt.Sprintf("j%d-p%d", k, i+1), Job: k, Cpu: 500, Mem: 500, Gpu: 1, Phase: "P"}
			if len(job.Subs) > 0 {
				p.Sub = 2
				if i == 0 {
					p.Sub = 1
				}
			}
			sc.Pods = append(sc.Pods, p)
		}
		if pick(0, 1) == 1 {
			k++
			sc.Jobs = append(sc.Jobs, Job{Name: fmt.Sprintf("j%d", k), Queue: 3, Prio: 50, Preempt: 1, Min: 1, Age: 300, LastStart: -1})
			sc.Pods = append(sc.Pods, Pod{Name: fmt.Sprintf("j%d-p1", k), Job: k, Cpu: 500, Mem: 500, Gpu: 1, Phase: "P"})
		}
	case "nested":
		sc.Nodes = []Node{{Name: "n1", Cpu: 16000, Mem: 64000, Pods: 110, Gpus: 2, GpuMem: 40000, Ready: 1}}
		sc.Cfg.Env = "stall"
		// a terminating whole-GPU pod holds one device
		sc.Jobs = append(sc.Jobs, Job{Name: "j1", Queue: 3, Prio: 50, Preempt: 1, Min: 1, Age: 7200, LastStart: 36000})
		sc.Pods = append(sc.Pods, Pod{Name: "j1-p1", Job: 1, Cpu: 500, Mem: 500, Gpu: 1, Phase: "R", Node: 1, Term: 1})
		workers := pick(2, 2, 3)
		job := Job{Name: "j2", Queue: 2, Prio: 50, Preempt: 1, Min: 1 + workers, Age: 600, LastStart: -1,
			Subs: []Sub{{Name: "leader", Min: 1}, {Name: "workers0", Min: workers, Parent: "workers"}, {Name: "workers", Min: 0}}}
		if pick(0, 1) == 1 { // flat variant as control
			job.Subs = []Sub{{Name: "leader", Min: 1}, {Name: "workers0", Min: workers}}
		}
		sc.Jobs = append(sc.Jobs, job)
		sc.Pods = append(sc.Pods, Pod{Name: "j2-p1", Job: 2, Cpu: 500, Mem: 500, Gpu: 0, Sub: 1, Phase: "P"})
		for i := 0; i < workers; i++ {
			sc.Pods = append(sc.Pods, Pod{Name: fmt.Sprintf("j2-p%d", i+2), Job: 2, Cpu: 500, Mem: 500, Gpu: 1, Sub: 2, Phase: "P"})
		}
		if workers == 3 {
			sc.Nodes[0].Gpus = 3
			sc.Jobs = append(sc.Jobs, Job{Name: "j3", Queue: 3, Prio: 50, Preempt: 1, Min: 1, Age: 7100, LastStart: 36000})
			sc.Pods = append(sc.Pods, Pod{Name: "j3-p1", Job: 3, Cpu: 500, Mem: 500, Gpu: 1, Phase: "R", Node: 1, Term: pick(0, 1)})
		}
	}
	sc.Normalize()
	return sc
}

// generateReclaim2 builds clusters in which SEVERAL reclaimers act in one cycle on victim queues that
// are only slightly above their deserved quota / fair share, so that the legality of a later victim
// (or of a later reclaimer) depends on what was already taken: victims spread over two leaf queues of
// one department, two reclaimers of different queues, large single-pod reclaimers that need several
// victims at once, small spare nodes that are useless for re-placing victims.
func generateReclaim2(r *rand.Rand) *Scenario {
	pick := func(vs ...int) int { return vs[r.Intn(len(vs))] }
	sc := &Scenario{Class: "reclaim2"}
	sc.Cfg = Cfg{Placement: []string{"binpack", "spread"}[r.Intn(2)], Consolidation: pick(0, 1), Signatures: pick(0, 1),
		ConsReclaim: pick(0, 1), SatMult: 1000, Cycles: pick(1, 2), Env: "closed", FullHier: 1}
	big := pick(4, 6, 8)
	sc.Nodes = []Node{{Name: "n1", Cpu: 64000, Mem: 64000, Pods: 110, Gpus: big, GpuMem: 40000, Ready: 1}}
	spare := pick(0, 1, 2)
	for i := 0; i < spare; i++ {
		sc.Nodes = append(sc.Nodes, Node{Name: fmt.Sprintf("n%d", i+2), Cpu: 64000, Mem: 64000, Pods: 110, Gpus: 1, GpuMem: 40000, Ready: 1})
	}
	twoLevel := pick(0, 1) == 1
	// departments
	sc.Queues = []Queue{{Name: "dv", Parent: 0, Prio: 100, GQ: -1, GL: -1, GW: 1, CQ: -1, CL: -1, MQ: -1, ML: -1}}
	depR := 1
	if twoLevel {
		// victims' department slightly over its quota; reclaimers in another department ordered first
		sc.Queues[0].GQ = pick(big/2, big/2+1, big-1) * 1000
		sc.Queues = append(sc.Queues, Queue{Name: "dr", Parent: 0, Prio: 200, GQ: pick(big/2, big) * 1000, GL: -1, GW: 1, CQ: -1, CL: -1, MQ: -1, ML: -1})
		depR = 2
	}
	// victim leaf queues under dv
	nv := pick(1, 2, 2)
	var vq []int
	for i := 0; i < nv; i++ {
		sc.Queues = append(sc.Queues, Queue{Name: fmt.Sprintf("qv%d", i+1), Parent: 1, Prio: 100, GQ: pick(0, 1000, 2000), GL: -1, GW: 1, CQ: -1, CL: -1, MQ: -1, ML: -1})
		vq = append(vq, len(sc.Queues))
	}
	// reclaimer leaf queues
	nr := pick(1, 2, 2)
	var rq []int
	for i := 0; i < nr; i++ {
		sc.Queues = append(sc.Queues, Queue{Name: fmt.Sprintf("qr%d", i+1), Parent: depR, Prio: 200, GQ: pick(2000, 4000, big*1000/2), GL: -1, GW: 1, CQ: -1, CL: -1, MQ: -1, ML: -1})
		rq = append(rq, len(sc.Queues))
	}
	// victims fill the big node
	k := 0
	for free := big; free > 0; {
		size := pick(1, 2, 2)
		if size > free {
			size = free
		}
		k++
		sc.Jobs = append(sc.Jobs, Job{Name: fmt.Sprintf("j%d", k), Queue: vq[r.Intn(len(vq))], Prio: 50, Preempt: 1, Min: 1, Age: 7200 + 60*k, LastStart: 36000})
		sc.Pods = append(sc.Pods, Pod{Name: fmt.Sprintf("j%d-p1", k), Job: k, Cpu: 500, Mem: 500, Gpu: size, Phase: "R", Node: 1})
		free -= size
	}
	for i := 0; i < nr; i++ {
		k++
		sc.Jobs = append(sc.Jobs, Job{Name: fmt.Sprintf("j%d", k), Queue: rq[i], Prio: 50, Preempt: 1, Min: 1, Age: 600 + 60*i, LastStart: -1})
		sc.Pods = append(sc.Pods, Pod{Name: fmt.Sprintf("j%d-p1", k), Job: k, Cpu: 500, Mem: 500, Gpu: pick(2, 3, 4, big/2), Phase: "P"})
	}
	sc.Normalize()
	return sc
}

// generateSaturation: full clusters where GPU and CPU are both contended and both carry quotas, over
// 2-3 level queue trees with unevenly over-allocated siblings, so that reclaim statements are decided
// by the fair-share saturation comparison between the reclaimer's ancestors and the victims' queues
// (C07 saturation clause) and not only by the leaf-level strategy checks.
func generateSaturation(r *rand.Rand) *Scenario {
	pick := func(vs ...int) int { return vs[r.Intn(len(vs))] }
	sc := &Scenario{Class: "sat"}
	sc.Cfg = Cfg{Placement: []string{"binpack", "spread"}[r.Intn(2)], Consolidation: pick(0, 1), Signatures: pick(0, 1),
		ConsReclaim: pick(0, 0, 1), SatMult: pick(1000, 1000, 1500, 2000), Cycles: pick(1, 2, 3), Env: "closed", FullHier: 1}
	nn := pick(1, 2)
	gpn := pick(2, 4)
	cpn := pick(8000, 16000)
	for i := 0; i < nn; i++ {
		sc.Nodes = append(sc.Nodes, Node{Name: fmt.Sprintf("n%d", i+1), Cpu: cpn, Mem: 64000, Pods: 110, Gpus: gpn, GpuMem: 40000, Ready: 1})
	}
	totG, totC := nn*gpn, nn*cpn
	q := func(name string, parent int) int {
		gq, cq := pick(0, 1, 1, 2, totG/2, totG)*1000, pick(-1, 0, 2000, 4000, totC/2, totC)
		sc.Queues = append(sc.Queues, Queue{Name: name, Parent: parent, Prio: pick(100, 100, 200), GQ: gq, GL: -1, GW: pick(1, 1, 2, 3), CQ: cq, CL: -1, MQ: -1, ML: -1})
		return len(sc.Queues)
	}
	var leaves []int
	nd := pick(2, 2, 3)
	levels := pick(2, 2, 3)
	for d := 0; d < nd; d++ {
		di := q(fmt.Sprintf("d%d", d+1), 0)
		if levels == 2 {
			for l := 0; l < pick(1, 2, 2); l++ {
				leaves = append(leaves, q(fmt.Sprintf("d%dq%d", d+1, l+1), di))
			}
			continue
		}
		for pj := 0; pj < pick(1, 2); pj++ {
			pi := q(fmt.Sprintf("d%dp%d", d+1, pj+1), di)
			for l := 0; l < pick(1, 2); l++ {
				leaves = append(leaves, q(fmt.Sprintf("d%dp%dq%d", d+1, pj+1, l+1), pi))
			}
		}
	}
	// a quota of a parent below the sum of its children is legal but not the interesting case: make parents at
	// least as large as the largest child in half of the scenarios
	// running jobs fill the nodes, unevenly over the leaves (a favourite leaf takes most)
	fav := leaves[r.Intn(len(leaves))]
	k := 0
	for ni := 0; ni < nn; ni++ {
		freeG, freeC := gpn, cpn
		for tries := 0; tries < 12 && (freeG > 0 || freeC >= 2000); tries++ {
			g, c := 0, 0
			switch pick(0, 0, 1, 2) {
			case 0:
				g, c = pick(1, 1, 2), 500
			case 1:
				g, c = 0, pick(2000, 4000)
			default:
				g, c = 1, 2000
			}
			if g > freeG || c > freeC {
				continue
			}
			leaf := leaves[r.Intn(len(leaves))]
			if r.Intn(2) == 0 {
				leaf = fav
			}
			k++
			pre := 1
			if r.Intn(6) == 0 {
				pre = 0
			}
			sc.Jobs = append(sc.Jobs, Job{Name: fmt.Sprintf("j%d", k), Queue: leaf, Prio: pick(50, 50, 60), Preempt: pre, Min: 1, Age: 7200 + 60*k, LastStart: 36000})
			sc.Pods = append(sc.Pods, Pod{Name: fmt.Sprintf("j%d-p1", k), Job: k, Cpu: c, Mem: 500, Gpu: g, Phase: "R", Node: ni + 1})
			freeG -= g
			freeC -= c
		}
	}
	// pending reclaimers
	for i := 0; i < pick(1, 2, 3); i++ {
		k++
		leaf := leaves[r.Intn(len(leaves))]
		g, c := pick(1, 1, 2), 500
		if r.Intn(3) == 0 {
			g, c = 0, pick(2000, 4000)
		}
		sc.Jobs = append(sc.Jobs, Job{Name: fmt.Sprintf("j%d", k), Queue: leaf, Prio: pick(50, 50, 60), Preempt: pick(1, 1, 1, 0), Min: 1, Age: 600 + 60*i, LastStart: -1})
		sc.Pods = append(sc.Pods, Pod{Name: fmt.Sprintf("j%d-p1", k), Job: k, Cpu: c, Mem: 500, Gpu: g, Phase: "P"})
	}
	sc.Normalize()
	return sc
}

// generateFlat: small closed systems of single-pod whole-GPU jobs: 1-2 nodes, 2-3 leaf queues under one or two
// departments with small quotas and over-quota weights 1-3, jobs of 1-3 GPUs with two priority levels, the cluster
// (nearly) full and several pending jobs per queue - including jobs too big to ever fit at the head of a queue.
// No gangs, no sharers: what repeats here is decided by queue order, fair share and victim selection alone.
func generateFlat(r *rand.Rand) *Scenario {
	pick := func(vs ...int) int { return vs[r.Intn(len(vs))] }
	sc := &Scenario{Class: "flat"}
	sc.Cfg = Cfg{Placement: []string{"binpack", "spread"}[r.Intn(2)], Consolidation: pick(0, 0, 1), Signatures: pick(0, 1),
		ConsReclaim: pick(0, 0, 1), SatMult: pick(1000, 1000, 1200), Cycles: 8, Env: "closed", FullHier: 1}
	nn := pick(1, 1, 2)
	g := pick(2, 3, 4)
	for i := 0; i < nn; i++ {
		sc.Nodes = append(sc.Nodes, Node{Name: fmt.Sprintf("n%d", i+1), Cpu: 32000, Mem: 64000, Pods: 110, Gpus: g, GpuMem: 40000, Ready: 1})
	}
	sc.Queues = []Queue{{Name: "d1", Parent: 0, Prio: 100, GQ: -1, GL: -1, GW: 1, CQ: -1, CL: -1, MQ: -1, ML: -1}}
	nd := 1
	if r.Intn(3) == 0 {
		sc.Queues = append(sc.Queues, Queue{Name: "d2", Parent: 0, Prio: 100, GQ: -1, GL: -1, GW: pick(1, 2), CQ: -1, CL: -1, MQ: -1, ML: -1})
		nd = 2
	}
	// sometimes a third level: mid-level queues between the departments and the leaves (the leaves of the two
	// branches then diverge two levels above themselves)
	parents := []int{}
	for i := 1; i <= nd; i++ {
		parents = append(parents, i)
	}
	if r.Intn(3) == 0 {
		if nd == 1 && r.Intn(2) == 0 {
			sc.Queues = append(sc.Queues, Queue{Name: "d2", Parent: 0, Prio: 100, GQ: -1, GL: -1, GW: pick(1, 2), CQ: -1, CL: -1, MQ: -1, ML: -1})
			nd = 2
		}
		parents = nil
		for i := 0; i < 2; i++ {
			sc.Queues = append(sc.Queues, Queue{Name: fmt.Sprintf("m%d", i+1), Parent: 1 + i%nd, Prio: 100, GQ: pick(-1, 0, 1, 2, 3) * 1000, GL: -1,
				GW: pick(1, 2), CQ: -1, CL: -1, MQ: -1, ML: -1})
			if sc.Queues[len(sc.Queues)-1].GQ < -1 {
				sc.Queues[len(sc.Queues)-1].GQ = -1
			}
			parents = append(parents, len(sc.Queues))
		}
	}
	var leaves []int
	for i := 0; i < pick(2, 2, 3); i++ {
		sc.Queues = append(sc.Queues, Queue{Name: fmt.Sprintf("q%d", i+1), Parent: parents[i%len(parents)], Prio: 100, GQ: pick(0, 1, 1, 2) * 1000, GL: -1,
			GW: pick(1, 2, 3), CQ: -1, CL: -1, MQ: -1, ML: -1})
		leaves = append(leaves, len(sc.Queues))
	}
	free := make([]int, nn)
	for i := range free {
		free[i] = g
	}
	k := 0
	add := func(leaf, size, prio int, node int) {
		k++
		ls := -1
		phase := "P"
		if node > 0 {
			ls, phase = 36000, "R"
		}
		sc.Jobs = append(sc.Jobs, Job{Name: fmt.Sprintf("j%d", k), Queue: leaf, Prio: prio, Preempt: 1, Min: 1, Age: 600 + 60*r.Intn(60), LastStart: ls})
		sc.Pods = append(sc.Pods, Pod{Name: fmt.Sprintf("j%d-p1", k), Job: k, Cpu: 500, Mem: 500, Gpu: size, Phase: phase, Node: node})
	}
	// running jobs: fill the nodes (sometimes leave one GPU idle)
	for ni := 0; ni < nn; ni++ {
		leave := pick(0, 0, 0, 1)
		for free[ni] > leave {
			size := pick(1, 1, 1, 2, 3)
			if size > free[ni] {
				size = free[ni]
			}
			add(leaves[r.Intn(len(leaves))], size, pick(50, 50, 75), ni+1)
			free[ni] -= size
		}
	}
	// pending jobs
	for i := 0; i < pick(1, 2, 3, 4); i++ {
		add(leaves[r.Intn(len(leaves))], pick(1, 1, 1, 2, 3, 3), pick(50, 50, 75), 0)
	}
	sc.Normalize()
	return sc
}

// generateExt: nodes offering MIG instances (nvidia.com/mig-*) and another extended resource, pods
// requesting one or two instances, running pods within capacity, pending demand above it, unlimited queues
// (the instances, not the queues, are the scarce thing), injected bind failures, 1-3 cycles.
func generateExt(r *rand.Rand) *Scenario {
	pick := func(vs ...int) int { return vs[r.Intn(len(vs))] }
	sc := &Scenario{Class: "ext"}
	sc.Cfg = Cfg{Placement: []string{"binpack", "spread"}[r.Intn(2)], Consolidation: pick(0, 1), Signatures: pick(0, 1),
		ConsReclaim: 0, SatMult: 1000, Cycles: pick(1, 2, 3), Env: []string{"closed", "stall"}[r.Intn(2)], FullHier: 1}
	if r.Intn(4) == 0 {
		sc.Cfg.BindFail = []int{1 + r.Intn(3)}
	}
	names := []string{"nvidia.com/mig-1g.5gb", "nvidia.com/mig-2g.10gb", "example.com/fpga"}
	nn := pick(1, 2, 2, 3)
	free := make([]map[string]int, nn)
	for i := 0; i < nn; i++ {
		n := Node{Name: fmt.Sprintf("n%d", i+1), Cpu: 16000, Mem: 64000, Pods: 110, Gpus: 0, GpuMem: 40000, Ready: 1, Ext: map[string]int{}}
		if r.Intn(4) > 0 {
			n.Ext[names[0]] = pick(1, 2, 3, 4)
			if r.Intn(2) == 0 {
				n.Ext[names[1]] = pick(1, 2)
			}
		}
		if r.Intn(3) == 0 {
			n.Ext[names[2]] = pick(1, 2)
		}
		free[i] = map[string]int{}
		for k, v := range n.Ext {
			free[i][k] = v
		}
		sc.Nodes = append(sc.Nodes, n)
	}
	sc.Queues = []Queue{{Name: "d1", Parent: 0, Prio: 100, GQ: -1, GL: -1, GW: 1, CQ: -1, CL: -1, MQ: -1, ML: -1},
		{Name: "q1", Parent: 1, Prio: 100, GQ: -1, GL: -1, GW: 1, CQ: -1, CL: -1, MQ: -1, ML: -1},
		{Name: "q2", Parent: 1, Prio: 100, GQ: -1, GL: -1, GW: 1, CQ: -1, CL: -1, MQ: -1, ML: -1}}
	nj := pick(3, 4, 5, 6, 7)
	for j := 0; j < nj; j++ {
		size := pick(1, 1, 2)
		min := 1 + r.Intn(size)
		ext := map[string]int{names[pick(0, 0, 1, 2)]: pick(1, 1, 2)}
		if r.Intn(5) == 0 {
			ext[names[2]] = 1
		}
		sc.Jobs = append(sc.Jobs, Job{Name: fmt.Sprintf("j%d", j+1), Queue: 2 + r.Intn(2), Prio: pick(50, 75), Preempt: 1, Min: min, Age: 600 + 60*r.Intn(40), LastStart: -1})
		run := r.Intn(3) == 0
		var idx []int
		for k := 0; k < size; k++ {
			e := map[string]int{}
			for a, b := range ext {
				e[a] = b
			}
			sc.Pods = append(sc.Pods, Pod{Name: fmt.Sprintf("j%d-p%d", j+1, k+1), Job: j + 1, Cpu: 500, Mem: 500, Phase: "P", Ext: e})
			idx = append(idx, len(sc.Pods)-1)
		}
		if run {
			placed := 0
			for _, pi := range idx {
				for _, ni := range r.Perm(nn) {
					ok := true
					for a, b := range sc.Pods[pi].Ext {
						if free[ni][a] < b {
							ok = false
						}
					}
					if ok {
						for a, b := range sc.Pods[pi].Ext {
							free[ni][a] -= b
						}
						sc.Pods[pi].Phase, sc.Pods[pi].Node = "R", ni+1
						placed++
						break
					}
				}
			}
			if placed < size {
				for _, pi := range idx {
					if sc.Pods[pi].Phase == "R" {
						for a, b := range sc.Pods[pi].Ext {
							free[sc.Pods[pi].Node-1][a] += b
						}
						sc.Pods[pi].Phase, sc.Pods[pi].Node = "P", 0
					}
				}
			} else {
				sc.Jobs[j].LastStart = 3600
				if r.Intn(4) == 0 {
					sc.Pods[idx[0]].Term = 1
				}
			}
		}
	}
	sc.Normalize()
	return sc
}

// generateQuotaTree: queue trees whose quotas do not add up - departments with zero quota and zero over-quota
// weight in one, two or all three resources (so that nothing, or only a rest, reaches them), children whose quotas
// over-subscribe the parent (valid: the queue webhook does not reject it), limits below quotas, two queue
// priorities, requests in gpu, cpu and memory from pending and running single-pod jobs. What is judged is the
// fair-share state of the freshly opened session at every level of the tree; one cycle.
func generateQuotaTree(r *rand.Rand) *Scenario {
	pick := func(vs ...int) int { return vs[r.Intn(len(vs))] }
	chance := func(p float64) bool { return r.Float64() < p }
	sc := &Scenario{Class: "quota"}
	sc.Cfg = Cfg{Placement: []string{"binpack", "spread"}[r.Intn(2)], Consolidation: pick(0, 1), Signatures: pick(0, 1),
		ConsReclaim: pick(0, 1), SatMult: 1000, Cycles: 1, Env: "closed", FullHier: 1}
	nn := pick(1, 2, 2, 3)
	g := pick(2, 2, 4)
	for i := 0; i < nn; i++ {
		sc.Nodes = append(sc.Nodes, Node{Name: fmt.Sprintf("n%d", i+1), Cpu: pick(8000, 16000), Mem: pick(16000, 32000), Pods: 110, Gpus: g, GpuMem: 40000, Ready: 1})
	}
	nd := pick(2, 2, 3)
	for i := 0; i < nd; i++ {
		q := Queue{Name: fmt.Sprintf("d%d", i+1), Parent: 0, Prio: pick(100, 100, 200), GQ: pick(0, 0, 1000, 2000, -1), GL: pick(-1, -1, -1, 1000, 3000),
			GW: pick(0, 0, 1, 2), CQ: pick(0, 0, 2000, 4000, -1), CL: pick(-1, -1, 4000), MQ: pick(0, 0, 4000, 8000, -1), ML: pick(-1, -1, 8000)}
		if chance(0.3) {
			// a department that gets nothing at all
			q.GQ, q.CQ, q.MQ, q.GW = 0, 0, 0, 0
		}
		sc.Queues = append(sc.Queues, q)
	}
	parents := nd
	if chance(0.3) {
		sc.Queues = append(sc.Queues, Queue{Name: "m1", Parent: 1 + r.Intn(nd), Prio: 100, GQ: pick(0, 1000, 2000), GL: -1, GW: pick(0, 1, 2),
			CQ: pick(0, 2000, -1), CL: -1, MQ: pick(0, 4000, -1), ML: -1})
		parents++
	}
	var leaves []int
	for i := 0; i < pick(2, 3, 4, 5); i++ {
		q := Queue{Name: fmt.Sprintf("q%d", i+1), Parent: 1 + r.Intn(parents), Prio: pick(100, 100, 200), GQ: pick(0, 500, 1000, 2000, 3000), GL: pick(-1, -1, -1, 500, 2000),
			GW: pick(0, 1, 1, 2, 3), CQ: pick(0, 1000, 2000, 6000, -1), CL: pick(-1, -1, 1500, 4000), MQ: pick(0, 2000, 4000, 12000, -1), ML: pick(-1, -1, 3000)}
		sc.Queues = append(sc.Queues, q)
		leaves = append(leaves, len(sc.Queues))
	}
	freeG := make([]int, nn)
	freeC := make([]int, nn)
	freeM := make([]int, nn)
	for i := range sc.Nodes {
		freeG[i], freeC[i], freeM[i] = sc.Nodes[i].Gpus, sc.Nodes[i].Cpu, sc.Nodes[i].Mem
	}
	nj := pick(3, 4, 5, 6, 7)
	for j := 0; j < nj; j++ {
		gpu := pick(0, 1, 1, 1, 2)
		cpu := pick(500, 1000, 2000, 3000)
		mem := pick(500, 2000, 4000, 6000)
		job := Job{Name: fmt.Sprintf("j%d", j+1), Queue: leaves[r.Intn(len(leaves))], Prio: pick(50, 50, 75), Preempt: 1, Min: 1, Age: 600 + 60*r.Intn(60), LastStart: -1}
		p := Pod{Name: fmt.Sprintf("j%d-p1", j+1), Job: j + 1, Cpu: cpu, Mem: mem, Gpu: gpu, Phase: "P"}
		if chance(0.4) {
			for _, ni := range r.Perm(nn) {
				if freeG[ni] >= gpu && freeC[ni] >= cpu && freeM[ni] >= mem {
					freeG[ni] -= gpu
					freeC[ni] -= cpu
					freeM[ni] -= mem
					p.Phase, p.Node = "R", ni+1
					job.LastStart = 36000
					break
				}
			}
		}
		sc.Jobs = append(sc.Jobs, job)
		sc.Pods = append(sc.Pods, p)
	}
	sc.Normalize()
	return sc
}

// generateUnobstructedMulti: the unobstructed class with SEVERAL claimant queues. Uniform full cluster of
// single-pod 1-GPU jobs; one over-quota victim queue (a leaf, or a department with two leaves) holding most of the
// cluster; 2-3 claimant leaf queues (siblings of the victims or under another department) with 1-3 pending
// single-pod jobs each, of mixed priority and preemptibility; some claimant queues are within their deserved
// quota (entitled), others are not (bystanders: over quota, or non-preemptible beyond the department's quota).
// A preempt variant has all claimants in the victims' queue. The spec decides who is entitled.
func generateUnobstructedMulti(r *rand.Rand) *Scenario {
	pick := func(vs ...int) int { return vs[r.Intn(len(vs))] }
	chance := func(p float64) bool { return r.Float64() < p }
	sc := &Scenario{Class: "unobs2"}
	sc.Cfg = Cfg{Placement: []string{"binpack", "spread"}[r.Intn(2)], Consolidation: pick(0, 1), Signatures: pick(0, 1, 1),
		ConsReclaim: pick(0, 1), SatMult: pick(1000, 1200), Cycles: 1, Env: "closed", FullHier: 1}
	nn := pick(2, 2, 3)
	g := pick(2, 3, 4)
	for i := 0; i < nn; i++ {
		sc.Nodes = append(sc.Nodes, Node{Name: fmt.Sprintf("n%d", i+1), Cpu: 32000, Mem: 64000, Pods: 110, Gpus: g, GpuMem: 40000, Ready: 1})
	}
	total := nn * g
	q := func(name string, parent, gq int) int {
		sc.Queues = append(sc.Queues, Queue{Name: name, Parent: parent, Prio: 100, GQ: gq, GL: -1, GW: 1, CQ: -1, CL: -1, MQ: -1, ML: -1})
		return len(sc.Queues)
	}
	k := 0
	addJob := func(queue, prio, pre, node int) {
		k++
		ls, phase := -1, "P"
		if node > 0 {
			ls, phase = 36000, "R"
		}
		sc.Jobs = append(sc.Jobs, Job{Name: fmt.Sprintf("j%d", k), Queue: queue, Prio: prio, Preempt: pre, Min: 1, Age: 600 + 60*r.Intn(60), LastStart: ls})
		sc.Pods = append(sc.Pods, Pod{Name: fmt.Sprintf("j%d-p1", k), Job: k, Cpu: 500, Mem: 500, Gpu: 1, Phase: phase, Node: node})
	}
	var slots []int // node index per GPU
	for n := 0; n < nn; n++ {
		for d := 0; d < g; d++ {
			slots = append(slots, n+1)
		}
	}
	if chance(0.3) {
		// preempt variant: one queue, low-priority preemptible victims, claimants of higher priorities, some of them
		// non-preemptible with a deserved quota that covers only part of them
		sc.Class = "unobs2-preempt"
		q("d1", 0, -1)
		qa := q("qa", 1, pick(0, 1, 2)*1000)
		for _, n := range slots {
			addJob(qa, 50, 1, n)
		}
		for c := 0; c < pick(2, 3, 4); c++ {
			addJob(qa, pick(60, 75, 75), pick(0, 1, 1), 0)
		}
		sc.Normalize()
		return sc
	}
	sc.Class = "unobs2-reclaim"
	twoDeps := chance(0.4)
	q("d1", 0, pick(-1, -1, 1000, 2000, 3000))
	d2 := 1
	if twoDeps {
		// the claimants' department deserves some; the victims' department is over its own quota
		sc.Queues[0].GQ = pick(0, 1000, 2000)
		d2 = q("d2", 0, pick(0, 1, 1, 2, 3, total)*1000)
	}
	var victimLeaves []int
	victimLeaves = append(victimLeaves, q("va", 1, pick(0, 0, 1)*1000))
	if chance(0.3) {
		victimLeaves = append(victimLeaves, q("vb", 1, 0))
	}
	// a queue of running NON-preemptible pods within its quota (they use up the department's non-preemptible quota)
	npQ, npRun := 0, 0
	if chance(0.5) {
		npRun = pick(1, 2)
		npQ = q("e", 1, npRun*1000)
	}
	nc := pick(2, 2, 3)
	var claimQ []int
	for i := 0; i < nc; i++ {
		par := d2
		if twoDeps && chance(0.4) {
			par = 1 // a claimant queue next to the victims, the others under the second department
		}
		claimQ = append(claimQ, q(fmt.Sprintf("c%d", i+1), par, pick(0, 1, 1, 2, 2, 3)*1000))
	}
	// "stuck bystander": the running non-preemptible pods use up the department's deserved quota, so a
	// non-preemptible claimant of that department passes its own queue's checks and is still refused
	stuck, stuckMid := 0, false
	if npRun > 0 && !twoDeps && chance(0.6) {
		stuck = claimQ[r.Intn(nc)]
		if sc.Queues[stuck-1].GQ == 0 {
			sc.Queues[stuck-1].GQ = 1000
		}
		if chance(0.5) {
			sc.Queues[0].GQ = npRun * 1000
		} else {
			// the same one level down: a mid-level queue holds the non-preemptible pods and the stuck claimants;
			// the other claimant queues hang directly under the (unlimited) department and may be non-preemptible
			stuckMid = true
			sc.Queues[0].GQ = -1
			mid := q("m1", 1, npRun*1000)
			sc.Queues[npQ-1].Parent = mid
			sc.Queues[stuck-1].Parent = mid
		}
	}
	for i, n := range slots {
		if i < npRun {
			addJob(npQ, 50, 0, n)
			continue
		}
		if i == npRun && chance(0.2) {
			addJob(claimQ[r.Intn(nc)], 50, pick(0, 1), n)
			continue
		}
		addJob(victimLeaves[r.Intn(len(victimLeaves))], 50, 1, n)
	}
	for _, cq := range claimQ {
		pre := pick(0, 1, 1, 1)
		for c := 0; c < pick(1, 1, 2, 2, 3); c++ {
			if chance(0.2) {
				pre = 1 - pre
			}
			if cq == stuck {
				pre = 0
			} else if stuck > 0 && !stuckMid {
				pre = 1
			}
			addJob(cq, pick(50, 50, 75), pre, 0)
		}
	}
	sc.Normalize()
	return sc
}

// generateChains: closed systems whose queue tree is 2-3 separate chains (org -> dept -> team, one leaf per
// chain, depth 1-3) with the same or slightly different quotas along a chain, so that two leaves diverge at the
// top of the tree; one or two nodes, full or nearly full of single-pod jobs of 1-3 GPUs, several pending jobs per
// leaf with a big one at the head of a queue. What decides here is how allocations are accounted and compared
// level by level up the chains. 8 cycles.
func generateChains(r *rand.Rand) *Scenario {
	pick := func(vs ...int) int { return vs[r.Intn(len(vs))] }
	sc := &Scenario{Class: "chains"}
	sc.Cfg = Cfg{Placement: []string{"binpack", "spread"}[r.Intn(2)], Consolidation: pick(0, 0, 1), Signatures: pick(0, 1),
		ConsReclaim: pick(0, 0, 1), SatMult: pick(1000, 1000, 1200), Cycles: 8, Env: "closed", FullHier: 1}
	nn := pick(1, 1, 2)
	g := pick(3, 4, 4, 6)
	for i := 0; i < nn; i++ {
		sc.Nodes = append(sc.Nodes, Node{Name: fmt.Sprintf("n%d", i+1), Cpu: 32000, Mem: 64000, Pods: 110, Gpus: g, GpuMem: 40000, Ready: 1})
	}
	nc := pick(2, 2, 3)
	depth := pick(2, 3, 3)
	var leaves []int
	for c := 0; c < nc; c++ {
		quota := pick(1, 2, 2, 3) * 1000
		w := pick(1, 2, 2)
		parent := 0
		for d := 0; d < depth; d++ {
			q := quota
			if d < depth-1 && r.Intn(4) == 0 {
				q = -1 // an unlimited ancestor now and then
			}
			sc.Queues = append(sc.Queues, Queue{Name: fmt.Sprintf("%s%d", []string{"org", "dept", "team"}[3-depth+d], c+1), Parent: parent, Prio: 100,
				GQ: q, GL: -1, GW: w, CQ: -1, CL: -1, MQ: -1, ML: -1})
			parent = len(sc.Queues)
		}
		leaves = append(leaves, parent)
	}
	free := make([]int, nn)
	for i := range free {
		free[i] = g
	}
	k := 0
	add := func(leaf, size, prio, node, age int) {
		k++
		ls, phase := -1, "P"
		if node > 0 {
			ls, phase = 36000, "R"
		}
		sc.Jobs = append(sc.Jobs, Job{Name: fmt.Sprintf("j%d", k), Queue: leaf, Prio: prio, Preempt: 1, Min: 1, Age: age, LastStart: ls})
		sc.Pods = append(sc.Pods, Pod{Name: fmt.Sprintf("j%d-p1", k), Job: k, Cpu: 500, Mem: 500, Gpu: size, Phase: phase, Node: node})
	}
	for ni := 0; ni < nn; ni++ {
		leave := pick(0, 0, 0, 1)
		for free[ni] > leave {
			size := pick(1, 1, 2, 2, 3)
			if size > free[ni] {
				size = free[ni]
			}
			add(leaves[r.Intn(len(leaves))], size, pick(50, 50, 75), ni+1, 3600+60*r.Intn(60))
			free[ni] -= size
		}
	}
	for _, leaf := range leaves {
		age := 3000
		for i := 0; i < pick(0, 1, 2, 2); i++ {
			size := pick(1, 1, 2, 3)
			if i == 0 {
				size = pick(1, 2, 3, 3) // often a big job at the head of the queue (older = first)
			}
			add(leaf, size, 50, 0, age)
			age -= 300
		}
	}
	sc.Normalize()
	return sc
}

// generateHetero: nodes whose GPU devices differ in memory (80 000 / 40 000 / 16 000 MiB) and pods that ask for GPU
// MEMORY: the same request is 0.15 of a device on one node and 0.75 on another, and that is what the queues are
// charged with. A queue chain with a GPU limit (or non-preemptible jobs and a deserved quota) that holds one or two
// such pods but not all of them; the pods are drawn to the big devices first (higher score) but can only land on the
// small ones (node selector / required affinity, or the big node's GPUs are taken by whole-GPU pods of another
// queue). Every portion is a whole number of 1/100 GPU. 1-2 cycles.
func generateHetero(r *rand.Rand) *Scenario {
	pick := func(vs ...int) int { return vs[r.Intn(len(vs))] }
	chance := func(p float64) bool { return r.Float64() < p }
	sc := &Scenario{Class: "hetero"}
	sc.Cfg = Cfg{Placement: []string{"binpack", "spread"}[r.Intn(2)], Consolidation: pick(0, 1), Signatures: pick(0, 1),
		ConsReclaim: 0, SatMult: 1000, Cycles: pick(1, 2), Env: []string{"closed", "stall"}[r.Intn(2)], FullHier: 1}
	sizes := []int{80000, 16000}
	if chance(0.4) {
		sizes = []int{80000, 40000, 16000}
	}
	if chance(0.5) {
		sizes[0], sizes[len(sizes)-1] = sizes[len(sizes)-1], sizes[0] // the order of the nodes must not matter
	}
	for i, m := range sizes {
		sc.Nodes = append(sc.Nodes, Node{Name: fmt.Sprintf("n%d", i+1), Cpu: 32000, Mem: 64000, Pods: 110, Gpus: 2, GpuMem: m, Ready: 1,
			Labels: map[string]string{"dev": fmt.Sprintf("m%d", m/1000)}})
	}
	small := 0
	for i := range sc.Nodes {
		if sc.Nodes[i].GpuMem == 16000 {
			small = i + 1
		}
	}
	np := chance(0.5) // non-preemptible jobs against the deserved quota instead of any job against the limit
	sc.Queues = []Queue{{Name: "d1", Parent: 0, Prio: 100, GQ: -1, GL: -1, GW: 1, CQ: -1, CL: -1, MQ: -1, ML: -1}}
	lim := pick(1000, 1000, 1500, 2000)
	q1 := Queue{Name: "q1", Parent: 1, Prio: 100, GQ: lim, GL: lim, GW: 1, CQ: -1, CL: -1, MQ: -1, ML: -1}
	if np {
		q1.GL = -1
	}
	if chance(0.3) {
		// the bound sits on the department instead
		sc.Queues[0].GQ, sc.Queues[0].GL = q1.GQ, q1.GL
		q1.GQ, q1.GL = pick(2000, 4000), -1
	}
	sc.Queues = append(sc.Queues, q1, Queue{Name: "q2", Parent: 1, Prio: 100, GQ: 4000, GL: -1, GW: 1, CQ: -1, CL: -1, MQ: -1, ML: -1})
	k := 0
	add := func(queue, pre int, p Pod) {
		k++
		ls := -1
		if p.Phase == "R" {
			ls = 36000
		}
		sc.Jobs = append(sc.Jobs, Job{Name: fmt.Sprintf("j%d", k), Queue: queue, Prio: []int{50, 100}[1-pre], Preempt: pre, Min: 1, Age: 600 + 60*k, LastStart: ls})
		p.Name, p.Job, p.Cpu, p.Mem = fmt.Sprintf("j%d-p1", k), k, 500, 500
		sc.Pods = append(sc.Pods, p)
	}
	blockBig := chance(0.5) // the big devices are all taken by whole-GPU pods of the other queue
	if blockBig {
		for i := range sc.Nodes {
			if i+1 != small {
				add(3, 1, Pod{Gpu: 2, Phase: "R", Node: i + 1})
			}
		}
	}
	pre := 1
	if np {
		pre = 0
	}
	for c := 0; c < pick(2, 3, 3); c++ {
		p := Pod{GpuMem: pick(12000, 12000, 8000), Devs: 1, Phase: "P"}
		if !blockBig {
			if chance(0.5) {
				p.Sel = map[string]string{"dev": "m16"}
			} else {
				p.AffNot = map[string]string{"dev": "m80"}
				if len(sizes) == 3 {
					p.AffIn = map[string]string{"dev": "m16"}
				}
			}
		}
		add(2, pre, p)
	}
	sc.Normalize()
	return sc
}

// generateNpFs: reclaim by NON-preemptible jobs around the fair share. One or two departments, three leaf queues with
// small quotas and over-quota weights 0-2, the cluster full of preemptible 1-GPU pods spread over two of them (one
// at or near its fair share, the other well above it), pending 1-GPU jobs: a non-preemptible one in the queue that
// is at its fair share (its non-preemptible usage still far below the deserved quota), preemptible ones elsewhere,
// and a third queue whose deserved quota is not used yet (its reserved share keeps the fair shares of the others
// down). Saturation multiplier 1.0 - 2.0. 1-2 cycles.
func generateNpFs(r *rand.Rand) *Scenario {
	pick := func(vs ...int) int { return vs[r.Intn(len(vs))] }
	chance := func(p float64) bool { return r.Float64() < p }
	sc := &Scenario{Class: "npfs"}
	sc.Cfg = Cfg{Placement: []string{"binpack", "spread"}[r.Intn(2)], Consolidation: 0, Signatures: pick(0, 1),
		ConsReclaim: pick(0, 1), SatMult: pick(1000, 1000, 1500, 2000), Cycles: pick(1, 2), Env: "closed", FullHier: 1}
	g := pick(4, 5, 6)
	sc.Nodes = []Node{{Name: "n1", Cpu: 32000, Mem: 64000, Pods: 110, Gpus: g, GpuMem: 40000, Ready: 1}}
	two := chance(0.5)
	sc.Queues = []Queue{{Name: "d1", Parent: 0, Prio: 100, GQ: -1, GL: -1, GW: 1, CQ: -1, CL: -1, MQ: -1, ML: -1}}
	dB := 1
	if two {
		sc.Queues[0].GQ = pick(2000, 3000)
		sc.Queues = append(sc.Queues, Queue{Name: "d2", Parent: 0, Prio: 100, GQ: pick(1000, 2000), GL: -1, GW: pick(1, 2), CQ: -1, CL: -1, MQ: -1, ML: -1})
		dB = 2
	}
	q := func(name string, parent, gq, w int) int {
		sc.Queues = append(sc.Queues, Queue{Name: name, Parent: parent, Prio: 100, GQ: gq, GL: -1, GW: w, CQ: -1, CL: -1, MQ: -1, ML: -1})
		return len(sc.Queues)
	}
	qa := q("qa", 1, pick(2, 2, 3)*1000, pick(0, 0, 1))
	qb := q("qb", dB, pick(0, 1)*1000, pick(0, 1, 2))
	qc := q("qc", pick(1, dB), pick(1, 2)*1000, pick(0, 1))
	k := 0
	add := func(queue, pre, node int) {
		k++
		ls, phase := -1, "P"
		if node > 0 {
			ls, phase = 36000, "R"
		}
		prio := 50
		if pre == 0 {
			prio = 100
		}
		sc.Jobs = append(sc.Jobs, Job{Name: fmt.Sprintf("j%d", k), Queue: queue, Prio: prio, Preempt: pre, Min: 1, Age: 600 + 60*r.Intn(60), LastStart: ls})
		sc.Pods = append(sc.Pods, Pod{Name: fmt.Sprintf("j%d-p1", k), Job: k, Cpu: 500, Mem: 500, Gpu: 1, Phase: phase, Node: node})
	}
	na := sc.Queues[qa-1].GQ / 1000
	if chance(0.3) {
		na--
	}
	for i := 0; i < g; i++ {
		if i < na {
			add(qa, 1, 1)
		} else {
			add(qb, 1, 1)
		}
	}
	add(qa, 0, 0) // the non-preemptible claimant of the queue at its fair share
	if chance(0.4) {
		add(qa, 0, 0)
	}
	for i := 0; i < pick(0, 1, 1, 2); i++ {
		add(qc, 1, 0)
	}
	if chance(0.3) {
		add(qb, 1, 0)
	}
	sc.Normalize()
	return sc
}

// generateAbandon: the solver's node-by-node attempts. Running gangs with one pod on each of several nodes next to
// single-pod jobs that fill the nodes (all of an over-quota queue, or of lower priority), and a claimant that needs
// most of ONE node: when a spread gang is the latest potential victim the solver tries the gang's nodes one after
// the other and abandons (rolls back) the attempts that do not make room. No limits anywhere, so every eviction
// has to be explained by room on a node.
func generateAbandon(r *rand.Rand) *Scenario {
	pick := func(vs ...int) int { return vs[r.Intn(len(vs))] }
	sc := &Scenario{Class: "abandon"}
	sc.Cfg = Cfg{Placement: []string{"binpack", "spread"}[r.Intn(2)], Consolidation: 0, Signatures: pick(0, 1),
		ConsReclaim: 0, SatMult: 1000, Cycles: pick(1, 2, 3), Env: "closed", FullHier: 1}
	nn := pick(2, 2, 3)
	gpus := make([]int, nn)
	for i := 0; i < nn; i++ {
		gpus[i] = pick(2, 3, 3, 4, 5)
	}
	// often exactly one biggest node: only there a claimant that needs a whole node fits
	big := -1
	if r.Intn(3) > 0 {
		big = r.Intn(nn)
		for i := range gpus {
			if i != big && gpus[i] >= gpus[big] {
				gpus[i] = gpus[big] - 1
			}
			if gpus[i] < 2 {
				gpus[i], gpus[big] = 2, 3
			}
		}
	}
	for i := 0; i < nn; i++ {
		sc.Nodes = append(sc.Nodes, Node{Name: fmt.Sprintf("n%d", i+1), Cpu: 32000, Mem: 64000, Pods: 110, Gpus: gpus[i], GpuMem: 40000, Ready: 1})
	}
	sc.Queues = []Queue{{Name: "d1", Parent: 0, Prio: 100, GQ: -1, GL: -1, GW: 1, CQ: -1, CL: -1, MQ: -1, ML: -1},
		{Name: "q1", Parent: 1, Prio: 100, GQ: pick(0, 1, 1, 2) * 1000, GL: -1, GW: 1, CQ: -1, CL: -1, MQ: -1, ML: -1},
		{Name: "q2", Parent: 1, Prio: 100, GQ: pick(3, 4, 6) * 1000, GL: -1, GW: pick(1, 3), CQ: -1, CL: -1, MQ: -1, ML: -1}}
	free := append([]int{}, gpus...)
	k := 0
	job := func(queue, prio, min int, age int) int {
		k++
		sc.Jobs = append(sc.Jobs, Job{Name: fmt.Sprintf("j%d", k), Queue: queue, Prio: prio, Preempt: 1, Min: min, Age: age, LastStart: 36000})
		return k
	}
	pod := func(j, size, node int) {
		phase := "P"
		if node > 0 {
			phase = "R"
		}
		n := 0
		for _, p := range sc.Pods {
			if p.Job == j {
				n++
			}
		}
		sc.Pods = append(sc.Pods, Pod{Name: fmt.Sprintf("j%d-p%d", j, n+1), Job: j, Cpu: 500, Mem: 500, Gpu: size, Phase: phase, Node: node})
	}
	// one or two spread gangs (one pod per node, sometimes not on every node), older or younger than the rest
	for gi := 0; gi < pick(1, 1, 2); gi++ {
		var on []int
		for ni := 0; ni < nn; ni++ {
			if free[ni] > 1 && (nn == 2 || r.Intn(4) > 0) {
				on = append(on, ni)
			}
		}
		if len(on) < 2 {
			continue
		}
		min := len(on)
		if r.Intn(4) == 0 {
			min = 1
		}
		j := job(2, 50, min, pick(600, 7200, 7200, 9000)+60*r.Intn(10))
		for _, ni := range on {
			pod(j, 1, ni+1)
			free[ni]--
		}
	}
	// single-pod jobs fill the nodes (sometimes one GPU stays idle on one node)
	idleOn := -1
	if r.Intn(3) == 0 {
		idleOn = r.Intn(nn)
	}
	for ni := 0; ni < nn; ni++ {
		leave := 0
		if ni == idleOn {
			leave = 1
		}
		for free[ni] > leave {
			size := pick(1, 1, 1, 2)
			if ni == big {
				// bigger pods on the biggest node: evicted there, they do not fit into the room that opens elsewhere
				size = pick(1, 2, 2, 3)
			}
			if size > free[ni]-leave {
				size = free[ni] - leave
			}
			j := job(2, pick(50, 50, 75), 1, 1200+60*r.Intn(60))
			pod(j, size, ni+1)
			free[ni] -= size
		}
	}
	// claimants: need (nearly) a whole node; from the deserving queue (reclaim) or of higher priority in the same queue (preempt)
	for i := 0; i < pick(1, 1, 2); i++ {
		size := gpus[r.Intn(nn)] - pick(0, 0, 1)
		if big >= 0 && r.Intn(4) > 0 {
			size = gpus[big]
		}
		if size < 1 {
			size = 1
		}
		q, prio := 3, pick(50, 75)
		if r.Intn(3) == 0 {
			q, prio = 2, 100
		}
		k++
		sc.Jobs = append(sc.Jobs, Job{Name: fmt.Sprintf("j%d", k), Queue: q, Prio: prio, Preempt: 1, Min: 1, Age: 300 + 60*r.Intn(10), LastStart: -1})
		sc.Pods = append(sc.Pods, Pod{Name: fmt.Sprintf("j%d-p1", k), Job: k, Cpu: 500, Mem: 500, Gpu: size, Phase: "P", Node: 0})
	}
	sc.Normalize()
	return sc
}

// generateFrag: fragmentation - consolidation territory. 2-4 nodes of 3-5 GPUs, running pods of 2 (3) GPUs that leave
// one or two GPUs idle on every node, so that a waiting pod fits nowhere although the cluster has enough idle GPUs;
// elastic jobs running above their minimum, gangs and single pods, everything of one or two queues within quota and of
// one priority (nobody is entitled to anybody's GPUs: only consolidation can help, and it may only move pods).
// Closed, 8 cycles, consolidation on.
func generateFrag(r *rand.Rand) *Scenario {
	pick := func(vs ...int) int { return vs[r.Intn(len(vs))] }
	if r.Intn(5) == 0 {
		return generateRefuge(r)
	}
	sc := &Scenario{Class: "frag"}
	sc.Cfg = Cfg{Placement: []string{"binpack", "spread"}[r.Intn(2)], Consolidation: 1, Signatures: pick(0, 1),
		ConsReclaim: pick(0, 1), SatMult: 1000, Cycles: pick(2, 8), Env: "closed", FullHier: 1}
	nn := pick(2, 3, 3, 4)
	g := pick(3, 3, 4, 5)
	for i := 0; i < nn; i++ {
		sc.Nodes = append(sc.Nodes, Node{Name: fmt.Sprintf("n%d", i+1), Cpu: 32000, Mem: 64000, Pods: 110, Gpus: g, GpuMem: 40000, Ready: 1})
	}
	tot := nn * g
	sc.Queues = []Queue{{Name: "d1", Parent: 0, Prio: 100, GQ: -1, GL: -1, GW: 1, CQ: -1, CL: -1, MQ: -1, ML: -1},
		{Name: "q1", Parent: 1, Prio: 100, GQ: tot * 1000, GL: -1, GW: 1, CQ: -1, CL: -1, MQ: -1, ML: -1}}
	nq := 1
	if r.Intn(3) == 0 {
		sc.Queues = append(sc.Queues, Queue{Name: "q2", Parent: 1, Prio: 100, GQ: tot * 1000, GL: -1, GW: 1, CQ: -1, CL: -1, MQ: -1, ML: -1})
		nq = 2
	}
	size := 2
	if g == 5 && r.Intn(2) == 0 {
		size = 3
	}
	// variant "waiting gang": bigger things wait (3 GPUs and more), so that idle rests of 2 GPUs occur - the refuge of a
	// moved 2-GPU pod that a later pod of the gang may want as well
	gangVar := g >= 4 && r.Intn(2) == 0
	if gangVar {
		size = 3
	}
	// slots: running pods of 1-3 GPUs fill every node up to an idle rest of 1 (sometimes 2) GPUs, smaller than what waits
	type slot struct{ node, size int }
	bySize := map[int][]slot{}
	for ni := 0; ni < nn; ni++ {
		rest := pick(1, 1, 1, 2)
		if gangVar {
			rest = pick(1, 2, 2)
		}
		if rest >= size {
			rest = size - 1
		}
		free := g
		for free > rest {
			sz := pick(1, 2, 2, size)
			if sz > free-rest {
				sz = free - rest
			}
			bySize[sz] = append(bySize[sz], slot{ni + 1, sz})
			free -= sz
		}
	}
	k := 0
	for sz := 1; sz <= 3; sz++ {
		slots := bySize[sz]
		r.Shuffle(len(slots), func(i, j int) { slots[i], slots[j] = slots[j], slots[i] })
		si := 0
		for si < len(slots) {
			k++
			n := pick(1, 1, 2, 2, 3)
			if n > len(slots)-si {
				n = len(slots) - si
			}
			pendingExtra := 0
			min := n
			switch pick(0, 1, 1, 2) {
			case 1: // elastic, running above its minimum
				if n > 1 {
					min = 1 + r.Intn(n-1)
				}
			case 2: // elastic with a pod still waiting
				min = 1 + r.Intn(n)
				if sz >= 2 {
					pendingExtra = 1
				}
			}
			sc.Jobs = append(sc.Jobs, Job{Name: fmt.Sprintf("j%d", k), Queue: 2 + r.Intn(nq), Prio: 50, Preempt: 1, Min: min, Age: 1200 + 60*r.Intn(60), LastStart: 36000})
			for i := 0; i < n; i++ {
				sc.Pods = append(sc.Pods, Pod{Name: fmt.Sprintf("j%d-p%d", k, i+1), Job: k, Cpu: 500, Mem: 500, Gpu: sz, Phase: "R", Node: slots[si].node})
				si++
			}
			for i := 0; i < pendingExtra; i++ {
				sc.Pods = append(sc.Pods, Pod{Name: fmt.Sprintf("j%d-p%d", k, n+i+1), Job: k, Cpu: 500, Mem: 500, Gpu: sz, Phase: "P"})
			}
		}
	}
	// sometimes part of the running work cannot be moved at all (non-preemptible)
	if r.Intn(3) == 0 {
		for i := range sc.Jobs {
			if r.Intn(2) == 0 {
				sc.Jobs[i].Preempt = 0
			}
		}
	}
	// sometimes a waiting gang of higher priority whose pods differ in size: the solver places it pod by pod, the pods
	// moved for its first pod must still have their refuge when the later pods are placed
	if gangVar {
		k++
		n := pick(2, 2, 3)
		sc.Jobs = append(sc.Jobs, Job{Name: fmt.Sprintf("j%d", k), Queue: 2 + r.Intn(nq), Prio: pick(50, 75, 75), Preempt: 1, Min: n, Age: 200, LastStart: -1})
		for i := 0; i < n; i++ {
			sz := pick(2, 2, 3, g-1, g)
			if i == 0 {
				sz = pick(3, g-1, g)
			}
			sc.Pods = append(sc.Pods, Pod{Name: fmt.Sprintf("j%d-p%d", k, i+1), Job: k, Cpu: 500, Mem: 500, Gpu: sz, Phase: "P"})
		}
	}
	// waiting pods that fit nowhere as the cluster stands
	for i := 0; i < pick(0, 1, 1, 2); i++ {
		k++
		sc.Jobs = append(sc.Jobs, Job{Name: fmt.Sprintf("j%d", k), Queue: 2 + r.Intn(nq), Prio: 50, Preempt: 1, Min: 1, Age: 300 + 60*i, LastStart: -1})
		sc.Pods = append(sc.Pods, Pod{Name: fmt.Sprintf("j%d-p1", k), Job: k, Cpu: 500, Mem: 500, Gpu: pick(size, size, 2), Phase: "P"})
	}
	sc.Normalize()
	return sc
}

// generateDeptOver (half of profile satc): two (three) departments that share the cluster by quota; one runs above its
// quota, in the other a team runs above its own quota while a sibling team within its quota has work waiting: the
// waiting job's team is entitled at its own level, whether it may take from the other department is decided by the
// saturation comparison one level up (multiplier above 1). Single-pod jobs of 1-2 GPUs, closed, 8 cycles.
func generateDeptOver(r *rand.Rand) *Scenario {
	pick := func(vs ...int) int { return vs[r.Intn(len(vs))] }
	sc := &Scenario{Class: "satc"}
	sc.Cfg = Cfg{Placement: []string{"binpack", "spread"}[r.Intn(2)], Consolidation: pick(0, 1), Signatures: pick(0, 1),
		ConsReclaim: pick(0, 0, 1), SatMult: pick(1200, 1500, 2000, 3000), Cycles: 8, Env: "closed", FullHier: 1}
	half := pick(3, 4, 4, 5)
	tot := 2 * half
	nn := pick(1, 2)
	for i := 0; i < nn; i++ {
		sc.Nodes = append(sc.Nodes, Node{Name: fmt.Sprintf("n%d", i+1), Cpu: 32000, Mem: 64000, Pods: 110, Gpus: tot / nn, GpuMem: 40000, Ready: 1})
	}
	q := func(name string, parent, gq int) int {
		sc.Queues = append(sc.Queues, Queue{Name: name, Parent: parent, Prio: 100, GQ: gq * 1000, GL: -1, GW: pick(1, 1, 2), CQ: -1, CL: -1, MQ: -1, ML: -1})
		return len(sc.Queues)
	}
	da := q("da", 0, half)
	a0 := q("a0", da, half)
	db := q("db", 0, half)
	q0 := 1 + r.Intn(half-1)
	b0 := q("b0", db, q0)
	b1 := q("b1", db, half-q0)
	over := pick(1, 1, 2)
	free := make([]int, nn)
	for i := range free {
		free[i] = tot / nn
	}
	k := 0
	run := func(leaf, gpus int) {
		for gpus > 0 {
			sz := pick(1, 1, 2)
			if sz > gpus {
				sz = gpus
			}
			ni := -1
			for i := range free {
				if free[i] >= sz {
					ni = i
					break
				}
			}
			if ni < 0 {
				sz = 1
				for i := range free {
					if free[i] >= 1 {
						ni = i
						break
					}
				}
				if ni < 0 {
					return
				}
			}
			k++
			sc.Jobs = append(sc.Jobs, Job{Name: fmt.Sprintf("j%d", k), Queue: leaf, Prio: 50, Preempt: 1, Min: 1, Age: 7200 + 60*r.Intn(60), LastStart: 36000})
			sc.Pods = append(sc.Pods, Pod{Name: fmt.Sprintf("j%d-p1", k), Job: k, Cpu: 500, Mem: 500, Gpu: sz, Phase: "R", Node: ni + 1})
			free[ni] -= sz
			gpus -= sz
		}
	}
	run(a0, half+over)
	run(b0, half-over)
	for i := 0; i < pick(1, 1, 2); i++ {
		k++
		sc.Jobs = append(sc.Jobs, Job{Name: fmt.Sprintf("j%d", k), Queue: pick(b1, b1, b1, b0, a0), Prio: 50, Preempt: 1, Min: 1, Age: 600 + 60*i, LastStart: -1})
		sc.Pods = append(sc.Pods, Pod{Name: fmt.Sprintf("j%d-p1", k), Job: k, Cpu: 500, Mem: 500, Gpu: pick(1, 2, 2), Phase: "P"})
	}
	sc.Normalize()
	return sc
}

// otherKindProtected: in a third of the unobstructed scenarios the minruntime plugin protects running jobs (they run
// for 10 hours, the default is 100) against the OTHER kind of eviction than the one the scenario expects: a default
// preempt min-runtime in the reclaim scenarios, a default reclaim min-runtime in the preempt scenarios. The expected
// progress must not depend on it.
func otherKindProtected(r *rand.Rand, sc *Scenario) *Scenario {
	if r.Intn(3) != 0 {
		return sc
	}
	switch {
	case strings.HasSuffix(sc.Class, "-reclaim"):
		sc.Cfg.DefMinRtP = 360000
	case strings.HasSuffix(sc.Class, "-preempt"):
		sc.Cfg.DefMinRtR = 360000
	}
	return sc
}

// generateRefuge (a fifth of profile frag): a waiting gang whose first pod needs a whole node A on which a movable pod V
// runs; the only refuge of V is the idle rest of node X - exactly what the gang's second pod would need as well; the
// other nodes are held by non-preemptible pods with idle rests too small for anybody. Total idle GPUs suffice, so
// consolidation tries; it may only act if every pod it takes is placed again.
func generateRefuge(r *rand.Rand) *Scenario {
	pick := func(vs ...int) int { return vs[r.Intn(len(vs))] }
	sc := &Scenario{Class: "frag"}
	sc.Cfg = Cfg{Placement: []string{"binpack", "spread"}[r.Intn(2)], Consolidation: 1, Signatures: pick(0, 1),
		ConsReclaim: pick(0, 1), SatMult: 1000, Cycles: pick(2, 8), Env: "closed", FullHier: 1}
	gA, gX := pick(4, 4, 5), pick(4, 4, 5)
	v := pick(2, 2, gA-2)
	small := pick(1, 2, 2)
	gpus := []int{gA, gX}
	for i := 0; i < small; i++ {
		gpus = append(gpus, pick(2, 3))
	}
	order := r.Perm(len(gpus))
	nodeOf := make([]int, len(gpus))
	for pos, i := range order {
		nodeOf[i] = pos + 1
	}
	byPos := make([]int, len(gpus))
	for i, g := range gpus {
		byPos[nodeOf[i]-1] = g
	}
	for pos, g := range byPos {
		sc.Nodes = append(sc.Nodes, Node{Name: fmt.Sprintf("n%d", pos+1), Cpu: 32000, Mem: 64000, Pods: 110, Gpus: g, GpuMem: 40000, Ready: 1})
	}
	tot := 0
	for _, g := range gpus {
		tot += g
	}
	sc.Queues = []Queue{{Name: "d1", Parent: 0, Prio: 100, GQ: -1, GL: -1, GW: 1, CQ: -1, CL: -1, MQ: -1, ML: -1},
		{Name: "q1", Parent: 1, Prio: 100, GQ: tot * 1000, GL: -1, GW: 1, CQ: -1, CL: -1, MQ: -1, ML: -1}}
	k := 0
	run := func(node, size, preempt, prio int) {
		k++
		sc.Jobs = append(sc.Jobs, Job{Name: fmt.Sprintf("j%d", k), Queue: 2, Prio: prio, Preempt: preempt, Min: 1, Age: 1200 + 60*r.Intn(60), LastStart: 36000})
		sc.Pods = append(sc.Pods, Pod{Name: fmt.Sprintf("j%d-p1", k), Job: k, Cpu: 500, Mem: 500, Gpu: size, Phase: "R", Node: node})
	}
	run(nodeOf[0], v, 1, 50)     // V on node A, movable
	run(nodeOf[1], gX-v, 0, 100) // node X keeps exactly v GPUs idle
	for i := 0; i < small; i++ {
		run(nodeOf[2+i], gpus[2+i]-1, pick(0, 0, 1), pick(50, 100)) // one idle GPU, of no use to anybody
	}
	k++
	n := pick(2, 2, 3)
	sc.Jobs = append(sc.Jobs, Job{Name: fmt.Sprintf("j%d", k), Queue: 2, Prio: pick(75, 75, 50), Preempt: 1, Min: n, Age: 200, LastStart: -1})
	sizes := []int{gA, v, 1}
	for i := 0; i < n; i++ {
		sc.Pods = append(sc.Pods, Pod{Name: fmt.Sprintf("j%d-p%d", k, i+1), Job: k, Cpu: 500, Mem: 500, Gpu: sizes[i], Phase: "P"})
	}
	sc.Normalize()
	return sc
}

// generateForeign: workloads with a pod on a node the scheduler does not own (the node lost its node-pool label after
// the pod was placed, or belongs to another pool): the pod group and its pods are in the session, the node is not. A
// gang sitting at its minimum with one pod on such a node can only be taken as a whole - and the foreign pod cannot be
// evicted by this scheduler. Victims of an over-quota queue / of lower priority fill the owned nodes, claimants wait.
func generateForeign(r *rand.Rand) *Scenario {
	pick := func(vs ...int) int { return vs[r.Intn(len(vs))] }
	sc := &Scenario{Class: "foreign"}
	sc.Cfg = Cfg{Placement: []string{"binpack", "spread"}[r.Intn(2)], Consolidation: pick(0, 1), Signatures: pick(0, 1),
		ConsReclaim: pick(0, 1), SatMult: 1000, Cycles: pick(1, 2), Env: "closed", FullHier: 1,
		PoolKey: "kai.scheduler/node-pool", PoolVal: "a"}
	nn := pick(1, 2)
	g := pick(2, 3, 4)
	for i := 0; i < nn; i++ {
		sc.Nodes = append(sc.Nodes, Node{Name: fmt.Sprintf("n%d", i+1), Cpu: 32000, Mem: 64000, Pods: 110, Gpus: g, GpuMem: 40000, Ready: 1,
			Labels: map[string]string{"kai.scheduler/node-pool": "a"}})
	}
	foreign := Node{Name: fmt.Sprintf("n%d", nn+1), Cpu: 32000, Mem: 64000, Pods: 110, Gpus: 4, GpuMem: 40000, Ready: 1, Labels: map[string]string{}}
	if r.Intn(2) == 0 {
		foreign.Labels["kai.scheduler/node-pool"] = "b"
	}
	sc.Nodes = append(sc.Nodes, foreign)
	fn := nn + 1
	sc.Queues = []Queue{{Name: "d1", Parent: 0, Prio: 100, GQ: -1, GL: -1, GW: 1, CQ: -1, CL: -1, MQ: -1, ML: -1},
		{Name: "qa", Parent: 1, Prio: 100, GQ: pick(0, 1000), GL: -1, GW: 1, CQ: -1, CL: -1, MQ: -1, ML: -1},
		{Name: "qb", Parent: 1, Prio: 100, GQ: pick(2000, 3000, 4000), GL: -1, GW: 1, CQ: -1, CL: -1, MQ: -1, ML: -1}}
	free := make([]int, nn)
	for i := range free {
		free[i] = g
	}
	k := 0
	// the gang with a foreign pod: 2-3 pods, at its minimum or elastic above it
	size := pick(2, 2, 3)
	min := size
	if r.Intn(3) == 0 {
		min = size - 1
	}
	k++
	sc.Jobs = append(sc.Jobs, Job{Name: fmt.Sprintf("j%d", k), Queue: 2, Prio: 50, Preempt: 1, Min: min, Age: pick(600, 7200, 9000), LastStart: 36000})
	sc.Pods = append(sc.Pods, Pod{Name: fmt.Sprintf("j%d-p1", k), Job: k, Cpu: 500, Mem: 500, Gpu: 1, Phase: "R", Node: fn})
	for i := 1; i < size; i++ {
		ni := r.Intn(nn)
		if free[ni] == 0 {
			ni = (ni + 1) % nn
		}
		if free[ni] == 0 {
			break
		}
		sc.Pods = append(sc.Pods, Pod{Name: fmt.Sprintf("j%d-p%d", k, i+1), Job: k, Cpu: 500, Mem: 500, Gpu: 1, Phase: "R", Node: ni + 1})
		free[ni]--
	}
	// single-pod victims fill the owned nodes
	for ni := 0; ni < nn; ni++ {
		for free[ni] > 0 {
			sz := pick(1, 1, 2)
			if sz > free[ni] {
				sz = free[ni]
			}
			k++
			sc.Jobs = append(sc.Jobs, Job{Name: fmt.Sprintf("j%d", k), Queue: 2, Prio: 50, Preempt: pick(1, 1, 1, 0), Min: 1, Age: 1200 + 60*r.Intn(60), LastStart: 36000})
			sc.Pods = append(sc.Pods, Pod{Name: fmt.Sprintf("j%d-p1", k), Job: k, Cpu: 500, Mem: 500, Gpu: sz, Phase: "R", Node: ni + 1})
			free[ni] -= sz
		}
	}
	// claimants: of the deserving queue (reclaim) or of higher priority in the victims' queue (preempt)
	for i := 0; i < pick(1, 1, 2); i++ {
		k++
		q, prio := 3, 50
		if r.Intn(3) == 0 {
			q, prio = 2, 75
		}
		sc.Jobs = append(sc.Jobs, Job{Name: fmt.Sprintf("j%d", k), Queue: q, Prio: prio, Preempt: 1, Min: 1, Age: 300 + 60*i, LastStart: -1})
		sc.Pods = append(sc.Pods, Pod{Name: fmt.Sprintf("j%d-p1", k), Job: k, Cpu: 500, Mem: 500, Gpu: pick(1, 1, 2), Phase: "P"})
	}
	sc.Normalize()
	return sc
}
