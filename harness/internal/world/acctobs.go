package world

// Node accounting of REAL scheduling cycles, observed at every simulation step (property C14, stage
// checks/st_cycleacct.py, trace specification spec/NodeAcctCycleTrace.tla).
//
// While the real actions run, the statement hook (framework.VerifStatementHook: linearization point of
// every virtual operation, begin / end of Checkpoint / Rollback / Discard / Commit / Convert) and the
// action boundaries call observe(). An observation of one node consists of
//
//  1. what the scheduler BELIEVES: the projection of the session's node_info.NodeInfo (Idle / Used /
//     Releasing and their vector twins, the GPU-sharing maps, PodInfos) - the same projection that
//     harness/cmd/nodeacct logs, and
//  2. the accounting ENTRIES that are the ground truth, computed WITHOUT looking at the NodeInfo: from the
//     job side of the session (ssn.ClusterInfo.PodGroupInfos -> every task: status, NodeName, GPUGroups,
//     resource request), from the reservation pods of the API store (they belong to no job) and from the
//     recorder's own book of incarnations that a re-nomination leaves behind (see book below).
//
// TLC evaluates the declarative-truth predicates of spec/NodeAcct.tla (C14_Node*, C02_*) on every
// observation. One trace "Scenario" per (cluster scenario, node, cycle): every cycle starts from a fresh
// snapshot, so a drift in one cycle does not mask the next one.
//
// The book. A task has one status on the job side, but a pod that a statement evicts (virtually: status
// Releasing on node A) and then nominates elsewhere (Statement.Pipeline: status Pipelined on node B, or on
// another GPU group of A) has two incarnations: the terminating one, which keeps its resources on A until
// the pod is gone, and the nominated one. Statement.Pipeline leaves the terminating clone in A's PodInfos
// (other node) or replaces only the PodInfos entry and keeps the resources (same node, other GPU group:
// ConsolidateSharedPodInfoToDifferentGPU). The recorder notes such an incarnation when the hook reports a
// "pipeline" of a task whose previous job-side status was Releasing, and forgets it when the task's own
// job-side incarnation is back at that place (unpipeline). `nom` marks a Releasing entry whose previous
// status was Pipelined (an eviction of a pod that was only nominated; only C02_ looks at it).

import (
	"context"
	"encoding/json"
	"fmt"
	"math"
	"os"
	"sort"

	v1 "k8s.io/api/core/v1"
	metav1 "k8s.io/apimachinery/pkg/apis/meta/v1"

	commonconstants "github.com/NVIDIA/KAI-scheduler/pkg/common/constants"
	"github.com/NVIDIA/KAI-scheduler/pkg/scheduler/api/node_info"
	"github.com/NVIDIA/KAI-scheduler/pkg/scheduler/api/pod_info"
	"github.com/NVIDIA/KAI-scheduler/pkg/scheduler/api/pod_status"
	"github.com/NVIDIA/KAI-scheduler/pkg/scheduler/api/resource_info"
	"github.com/NVIDIA/KAI-scheduler/pkg/scheduler/framework"
)

// AcctMaxObs bounds the observations kept per cycle and node (the rest of the cycle is counted as dropped).
var AcctMaxObs = 300

// AcctStats counts what the recorder did over the whole process (printed by cmd/cluster).
var AcctStats = map[string]int{}

type acctKind struct {
	K     string `json:"k"` // cpu | whole | frac | resv
	Cpu   int64  `json:"cpu"`
	Gpus  int64  `json:"gpus"`
	Mem   int64  `json:"mem"`
	Dev   int64  `json:"dev"`
	ByMem int64  `json:"bymem"`
}

type jobRec struct {
	st   string
	node string
	grp  []string
}

// left is a terminating incarnation that a re-nomination left behind on a node.
type left struct {
	node string
	grp  []string
	nom  int
	gh   int // 1: same node, other GPU group (the PodInfos entry was replaced); 0: other node (the clone stays in PodInfos)
}

type nodeBuf struct {
	obs    []map[string]any
	groups map[string]bool
	last   string
	drop   int
}

type acctRec struct {
	w        *World
	out      Emitter
	ssn      *framework.Session
	cycle    int
	seq      int
	tasks    map[int]*pod_info.PodInfo // scenario pod index -> job-side task of this session
	resv     []resvPod
	resvIdx  map[string]int
	prev     map[int]jobRec
	nom      map[int]bool
	lefts    map[int][]left
	bufs     []*nodeBuf
	unsup    string // why this cycle is outside the vocabulary of NodeAcct ("" = supported)
	errNote  string
	disabled bool
}

type resvPod struct {
	idx  int
	name string
	node string
	st   string
	cpu  int64
}

func newAcctRec(w *World, out Emitter) *acctRec {
	a := &acctRec{w: w, out: out}
	// static part of the vocabulary check: no MIG / extended resources (NodeAcct knows cpu, whole GPUs, GPU
	// memory of shared devices and pod slots)
	for i := range w.Sc.Nodes {
		if len(w.Sc.Nodes[i].Ext) > 0 {
			a.disabled = true
		}
	}
	for i := range w.Sc.Pods {
		if len(w.Sc.Pods[i].Ext) > 0 {
			a.disabled = true
		}
	}
	if a.disabled {
		AcctStats["scenarios_outside_vocabulary"]++
	}
	return a
}

func amilli(f float64) int64 { return int64(math.Round(f * 1000)) }

func resProj(r *resource_info.Resource) map[string]any {
	return map[string]any{"cpu": int64(math.Round(r.Cpu())), "gpu": amilli(r.GPUs()),
		"pods": r.ScalarResources()[resource_info.PodsResourceName]}
}

func vecProj(vm *resource_info.ResourceVectorMap, v resource_info.ResourceVector) map[string]any {
	return map[string]any{"cpu": int64(math.Round(v.Get(vm.GetIndex(string(v1.ResourceCPU))))),
		"gpu":  amilli(v.Get(vm.GetIndex(commonconstants.GpuResource))),
		"pods": int64(math.Round(v.Get(vm.GetIndex(string(v1.ResourcePods)))))}
}

func cpStr(s []string) []string { return append([]string{}, s...) }

func eqStr(a, b []string) bool {
	if len(a) != len(b) {
		return false
	}
	for i := range a {
		if a[i] != b[i] {
			return false
		}
	}
	return true
}

func isSharedReq(t *pod_info.PodInfo) bool { return t.IsFractionRequest() || t.IsMemoryRequest() }

// open is called right after OpenSession of cycle c.
func (a *acctRec) open(ssn *framework.Session, c int) {
	a.ssn, a.cycle, a.seq, a.unsup, a.errNote = ssn, c, 0, "", ""
	a.prev = map[int]jobRec{}
	a.nom = map[int]bool{}
	a.lefts = map[int][]left{}
	a.resv = nil
	a.resvIdx = map[string]int{}
	a.bufs = make([]*nodeBuf, len(a.w.Sc.Nodes))
	for i := range a.bufs {
		a.bufs[i] = &nodeBuf{groups: map[string]bool{}}
	}
	if a.disabled {
		return
	}
	byName := map[string]bool{}
	a.collect()
	for _, t := range a.tasks {
		byName[t.Pod.Name] = true
		if len(t.ResReq.MigResources()) > 0 || t.ResReq.GetDraGpusCount() > 0 || len(t.ResourceClaimInfo) > 0 {
			a.unsup = "MIG / DRA request"
		}
		for r := range t.ResReq.ScalarResources() {
			if r != resource_info.PodsResourceName {
				a.unsup = "extended resource " + string(r)
			}
		}
	}
	// every workload pod of the API store that can hold a node must be visible on the job side (pod groups
	// outside the scheduler's node pool are not: their pods are on the nodes but in no job of the session)
	ctx := context.TODO()
	pods, _ := a.w.Kube.CoreV1().Pods(Namespace).List(ctx, metav1.ListOptions{})
	for i := range pods.Items {
		p := &pods.Items[i]
		if !byName[p.Name] && p.Status.Phase != v1.PodSucceeded && p.Status.Phase != v1.PodFailed {
			a.unsup = "pod outside every job of the session: " + p.Name
		}
	}
	// reservation pods: in no job; taken from the API store
	rp, _ := a.w.Kube.CoreV1().Pods(ReservationNS).List(ctx, metav1.ListOptions{})
	items := rp.Items
	sort.Slice(items, func(i, j int) bool { return items[i].Name < items[j].Name })
	for i := range items {
		p := &items[i]
		if p.Spec.NodeName == "" || p.Status.Phase == v1.PodSucceeded || p.Status.Phase == v1.PodFailed {
			continue
		}
		st := "Running"
		if p.DeletionTimestamp != nil {
			st = "Releasing"
		} else if p.Status.Phase == v1.PodPending {
			st = "Bound"
		}
		var cpu int64
		for _, c := range p.Spec.Containers {
			q := c.Resources.Requests[v1.ResourceCPU]
			cpu += q.MilliValue()
		}
		idx := len(a.w.Sc.Pods) + len(a.resv) + 1
		a.resv = append(a.resv, resvPod{idx: idx, name: p.Name, node: p.Spec.NodeName, st: st, cpu: cpu})
		a.resvIdx[p.Name] = idx
	}
	if a.unsup != "" {
		AcctStats["cycles_outside_vocabulary"]++
		return
	}
	AcctStats["cycles"]++
	a.observe("open", nil)
}

// collect reads the job side of the session: scenario pod index -> the task object the job holds NOW (the jobs
// replace their task objects: ConvertAllAllocatedToPipelined works on the clone kept by the allocate operation).
func (a *acctRec) collect() {
	a.tasks = map[int]*pod_info.PodInfo{}
	for _, job := range a.ssn.ClusterInfo.PodGroupInfos {
		for _, t := range job.GetAllPodsMap() {
			idx := a.w.podIndex[t.Pod.Name]
			if idx == 0 {
				a.unsup = "job-side task that is no scenario pod: " + t.Pod.Name
				continue
			}
			if _, dup := a.tasks[idx]; dup {
				a.unsup = "two job-side tasks for scenario pod " + a.w.Sc.Pods[idx-1].Name
			}
			a.tasks[idx] = t
		}
	}
}

func (a *acctRec) active() bool { return a != nil && !a.disabled && a.ssn != nil && a.unsup == "" }

func (a *acctRec) jobSide(idx int) jobRec {
	t := a.tasks[idx]
	return jobRec{st: t.Status.String(), node: t.NodeName, grp: cpStr(t.GPUGroups)}
}

// observe records the state of every node after the hook event / action boundary `op`.
func (a *acctRec) observe(op string, task *pod_info.PodInfo) {
	if !a.active() {
		return
	}
	a.seq++
	tidx := 0
	if task != nil && task.Pod != nil {
		tidx = a.w.podIndex[task.Pod.Name]
	}
	// ---- the book -------------------------------------------------------------------------------
	a.collect()
	cur := map[int]jobRec{}
	for idx := range a.tasks {
		cur[idx] = a.jobSide(idx)
	}
	if tidx > 0 {
		pr, seen := a.prev[tidx]
		cu := cur[tidx]
		switch op {
		case "evict":
			a.nom[tidx] = seen && pr.st == "Pipelined"
		case "pipeline":
			if seen && pr.st == "Releasing" && pr.node != "" && cu.st == "Pipelined" {
				n := 0
				if a.nom[tidx] {
					n = 1
				}
				if pr.node != cu.node {
					a.lefts[tidx] = append(a.lefts[tidx], left{node: pr.node, grp: cpStr(pr.grp), nom: n, gh: 0})
				} else if isSharedReq(a.tasks[tidx]) && !eqStr(pr.grp, cu.grp) {
					a.lefts[tidx] = append(a.lefts[tidx], left{node: pr.node, grp: cpStr(pr.grp), nom: n, gh: 1})
				}
			}
		}
	}
	for idx, cu := range cur {
		if cu.st != "Releasing" {
			delete(a.nom, idx)
		}
		// the task's own incarnation is back where an incarnation was left behind: it is that incarnation
		if ls := a.lefts[idx]; len(ls) > 0 && pod_status.IsActiveUsedStatus(a.tasks[idx].Status) {
			keep := ls[:0]
			for _, l := range ls {
				if l.node == cu.node && (!isSharedReq(a.tasks[idx]) || eqStr(l.grp, cu.grp)) {
					if cu.st == "Releasing" && l.nom == 1 {
						a.nom[idx] = true // the incarnation that comes back was an evicted nomination
					}
					continue
				}
				keep = append(keep, l)
			}
			a.lefts[idx] = keep
		}
	}
	a.prev = cur
	// ---- one observation per node ---------------------------------------------------------------
	for ni := range a.w.Sc.Nodes {
		name := a.w.Sc.Nodes[ni].Name
		node := a.ssn.ClusterInfo.Nodes[name]
		if node == nil {
			continue // outside the scheduler's node pool / deleted
		}
		buf := a.bufs[ni]
		ev := map[string]any{}
		ok := a.entries(name, cur, ev) && a.project(node, ev, buf)
		if !ok {
			AcctStats["observations_unjudged"]++
			if os.Getenv("VERIF_ACCT_DEBUG") != "" {
				b, _ := json.Marshal(ev["pods"])
				fmt.Fprintf(os.Stderr, "ACCT-UNJUDGED %s n%d c%d k%d %s: %s lefts=%v\n", a.w.Sc.ID, ni+1, a.cycle, a.seq, op, b, a.lefts)
			}
			continue
		}
		b, _ := json.Marshal(ev)
		if string(b) == buf.last {
			continue
		}
		buf.last = string(b)
		if len(buf.obs) >= AcctMaxObs {
			buf.drop++
			AcctStats["observations_dropped"]++
			continue
		}
		ev["ev"], ev["op"], ev["p"], ev["act"], ev["k"], ev["err"] = "Obs", op, tidx, a.w.curAction, a.seq, a.errNote
		buf.obs = append(buf.obs, ev)
		AcctStats["observations"]++
	}
}

// entries: the ground truth for node `name` (never reads the NodeInfo).
func (a *acctRec) entries(name string, cur map[int]jobRec, ev map[string]any) bool {
	pods := []map[string]any{}
	seen := map[string]bool{}
	ok := true
	add := func(p int, st string, grp []string, gh, nom int) {
		key := fmt.Sprint(p, st, grp, gh, nom)
		if seen[key] {
			ok = false // two identical incarnations of one pod: a SET of entries cannot express it (the observation is not judged)
		}
		seen[key] = true
		pods = append(pods, map[string]any{"p": p, "st": st, "grp": cpStr(grp), "gh": gh, "nom": nom})
	}
	for idx, cu := range cur {
		if cu.node != name || !pod_status.IsActiveUsedStatus(a.tasks[idx].Status) {
			continue
		}
		n := 0
		if cu.st == "Releasing" && a.nom[idx] {
			n = 1
		}
		add(idx, cu.st, cu.grp, 0, n)
	}
	for idx, ls := range a.lefts {
		for _, l := range ls {
			if l.node == name {
				add(idx, "Releasing", l.grp, l.gh, l.nom)
			}
		}
	}
	for _, r := range a.resv {
		if r.node == name {
			add(r.idx, r.st, nil, 0, 0)
		}
	}
	sort.Slice(pods, func(i, j int) bool {
		if pods[i]["p"].(int) != pods[j]["p"].(int) {
			return pods[i]["p"].(int) < pods[j]["p"].(int)
		}
		return pods[i]["gh"].(int) < pods[j]["gh"].(int)
	})
	ev["pods"] = pods
	return ok
}

// project: what the scheduler believes (same projection as harness/cmd/nodeacct).
func (a *acctRec) project(ni *node_info.NodeInfo, ev map[string]any, buf *nodeBuf) bool {
	ev["idle"], ev["used"], ev["rel"] = resProj(ni.Idle), resProj(ni.Used), resProj(ni.Releasing)
	vm := ni.VectorMap
	ev["idlev"], ev["usedv"], ev["relv"] = vecProj(vm, ni.IdleVector), vecProj(vm, ni.UsedVector), vecProj(vm, ni.ReleasingVector)
	gm := map[string]map[string]int64{}
	get := func(g string) map[string]int64 {
		if gm[g] == nil {
			gm[g] = map[string]int64{}
			buf.groups[g] = true
		}
		return gm[g]
	}
	for g, x := range ni.UsedSharedGPUsMemory {
		get(g)["u"] = x
	}
	for g, x := range ni.AllocatedSharedGPUsMemory {
		get(g)["a"] = x
		get(g)["k"] = 1
	}
	for g, x := range ni.ReleasingSharedGPUsMemory {
		get(g)["r"] = x
	}
	for g, x := range ni.ReleasingSharedGPUs {
		if x {
			get(g)["m"] = 1
		} else {
			get(g)["m"] = 0
		}
	}
	ev["gm"] = gm
	present := []map[string]any{}
	for _, c := range ni.PodInfos {
		p := a.w.podIndex[c.Pod.Name]
		if p == 0 {
			p = a.resvIdx[c.Pod.Name] // 0: a pod the truth does not know (C14_NodePods fails)
		}
		present = append(present, map[string]any{"p": p, "st": c.Status.String(), "grp": cpStr(c.GPUGroups)})
		for _, g := range c.GPUGroups {
			buf.groups[g] = true
		}
	}
	sort.Slice(present, func(i, j int) bool {
		if present[i]["p"].(int) != present[j]["p"].(int) {
			return present[i]["p"].(int) < present[j]["p"].(int)
		}
		return present[i]["st"].(string) < present[j]["st"].(string)
	})
	ev["present"] = present
	ev["npresent"] = len(ni.PodInfos)
	for _, e := range ev["pods"].([]map[string]any) {
		for _, g := range e["grp"].([]string) {
			buf.groups[g] = true
		}
	}
	return true
}

// kindsFor maps the pods of the scenario to the vocabulary of NodeAcct for node ni (GPU memory of a
// fraction request depends on the node's GPU memory).
func (a *acctRec) kindsFor(ni int) []acctKind {
	n := &a.w.Sc.Nodes[ni]
	gpuMem := int64(n.GpuMem) - int64(n.GpuMem)%100 // node_info floors the label to a multiple of 100
	kinds := make([]acctKind, len(a.w.Sc.Pods)+len(a.resv))
	for i := range a.w.Sc.Pods {
		t := a.tasks[i+1]
		if t == nil {
			kinds[i] = acctKind{K: "cpu"} // not in this session (gone / finished): never an entry
			continue
		}
		cpu := int64(math.Round(t.ResReq.Cpu()))
		switch {
		case isSharedReq(t):
			k := acctKind{K: "frac", Cpu: cpu, Dev: t.ResReq.GetNumOfGpuDevices()}
			if t.ResReq.GpuMemory() > 0 {
				k.Mem, k.ByMem = t.ResReq.GpuMemory(), 1
			} else {
				k.Mem = int64(t.ResReq.GpuFractionalPortion() * float64(gpuMem))
			}
			kinds[i] = k
		case t.ResReq.GPUs() > 0:
			kinds[i] = acctKind{K: "whole", Cpu: cpu, Gpus: int64(math.Round(t.ResReq.GPUs()))}
		default:
			kinds[i] = acctKind{K: "cpu", Cpu: cpu}
		}
	}
	for _, r := range a.resv {
		kinds[r.idx-1] = acctKind{K: "resv", Cpu: r.cpu, Gpus: 1}
	}
	return kinds
}

// flush writes the cycle: per node one Scenario line and its observations.
func (a *acctRec) flush() {
	if !a.active() {
		a.ssn = nil
		return
	}
	for ni, buf := range a.bufs {
		if len(buf.obs) == 0 {
			continue
		}
		n := &a.w.Sc.Nodes[ni]
		groups := []string{}
		for g := range buf.groups {
			groups = append(groups, g)
		}
		sort.Strings(groups)
		// whole-GPU pods with a fractional request count (e.g. 1.5 GPUs) are outside the vocabulary
		gpumem := n.GpuMem - n.GpuMem%100
		if n.Gpus == 0 {
			gpumem = 0
		}
		a.out(map[string]any{"ev": "Scenario", "id": fmt.Sprintf("%s/n%d/c%d", a.w.Sc.ID, ni+1, a.cycle), "class": a.w.Sc.Class,
			"scid": a.w.Sc.ID, "node": ni + 1, "cycle": a.cycle,
			"n": n.Gpus, "gpumem": gpumem, "cpu": n.Cpu, "maxpods": n.Pods, "kinds": a.kindsFor(ni), "groups": groups,
			"dropped": buf.drop})
		AcctStats["node_cycles"]++
		for _, ev := range buf.obs {
			gm := ev["gm"].(map[string]map[string]int64)
			um, am, rm, mk, ak := []int64{}, []int64{}, []int64{}, []int64{}, []int64{}
			for _, g := range groups {
				r := gm[g]
				if r == nil {
					r = map[string]int64{}
				}
				um, am, rm, mk, ak = append(um, r["u"]), append(am, r["a"]), append(rm, r["r"]), append(mk, r["m"]), append(ak, r["k"])
			}
			delete(ev, "gm")
			ev["um"], ev["am"], ev["rm"], ev["mk"], ev["ak"] = um, am, rm, mk, ak
			a.out(ev)
		}
	}
	a.ssn = nil
}
