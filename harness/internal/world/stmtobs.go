package world

// Statement scopes of REAL scheduling cycles that the real actions / solvers ABANDON (property C13, stage
// checks/st_cyclestmt.py, trace specification spec/StmtCycleTrace.tla).
//
// While the real actions run, the statement hook (framework.VerifStatementHook: after the state change of every
// virtual operation, at Checkpoint, at begin / end of Rollback / Discard / Commit / Convert) and the action boundaries
// call the recorder. At every such point it takes the canonical projection of the session view - the projection
// harness/cmd/stmt logs as its observation: every pod's status / node / GPU groups / virtual flag / accepted GPU
// quota, every node's Idle / Used / Releasing (+ vector twins), the GPU-sharing maps, PodInfos and the pod set of its
// pod-affinity info, every workload's allocated resources, pod counts per status, active-allocated counter and pod-set
// counters, every queue's allocated / non-preemptible allocated / requested amounts of the proportion plugin - and keeps
// it as `last`. Per live Statement (pointer identity) it remembers
//
//	pre      the projection before the statement's first operation: `last` when the operation that makes the
//	         operation log non-empty is reported (the hook fires AFTER the change; the cycle is single threaded and the
//	         projected view changes through statement operations only - see "outside" below),
//	cps[k]   the projection at the latest Checkpoint() that returned k (the hook fires before Checkpoint returns).
//
// and emits one trace "Scenario" per abandoned scope:
//
//	rollback-end  {kind: "rollback", cp, pre: cps[cp], post: projection now, ops: the operation log at rollback-begin}
//	discard-end   {kind: "discard",      pre: pre,     post: projection now, ops: the operation log at discard-begin}
//
// Both projections are logged in full; the comparison is TLC's (C13_RollbackCycleObs / C13_DiscardCycleObs), not Go's.
// Identical (kind, pre, post) records of one cluster scenario are logged once (the solvers repeat attempts).
//
// The single-writer assumption is itself observed: at every point that is reported BEFORE a change (Checkpoint,
// *-begin, action boundaries) the projection must equal `last`. Where the canonical strings differ the recorder logs
// {kind: "outside", pre: last, post: now}; TLC judges it with the normalisation of the property (D_SingleWriter: drift,
// never a violation). A change outside a statement that happens right before an operation is attributed to that
// operation (it cannot be told apart from it); the known one - gpu_sharing assigns task.GPUGroups of a Pending pod
// before Allocate / Pipeline - is normalised by the specification as in spec/StmtTrace.tla.

import (
	"crypto/sha1"
	"encoding/json"
	"fmt"
	"math"
	"sort"
	"strconv"

	"github.com/NVIDIA/KAI-scheduler/pkg/scheduler/api/common_info"
	"github.com/NVIDIA/KAI-scheduler/pkg/scheduler/api/node_info"
	"github.com/NVIDIA/KAI-scheduler/pkg/scheduler/api/pod_info"
	"github.com/NVIDIA/KAI-scheduler/pkg/scheduler/api/pod_status"
	"github.com/NVIDIA/KAI-scheduler/pkg/scheduler/api/resource_info"
	"github.com/NVIDIA/KAI-scheduler/pkg/scheduler/cache/cluster_info"
	"github.com/NVIDIA/KAI-scheduler/pkg/scheduler/framework"
	"github.com/NVIDIA/KAI-scheduler/pkg/scheduler/plugins/proportion"
)

// StmtMaxScopes bounds the scopes logged per cluster scenario (the rest is counted as dropped).
var StmtMaxScopes = 400

// StmtMaxOps bounds the operation-log summary of a scope (the newest entries are kept).
var StmtMaxOps = 80

// StmtStats counts what the recorder did over the whole process (printed by cmd/cluster).
var StmtStats = map[string]int{}

var stmtStatuses = []pod_status.PodStatus{pod_status.Pending, pod_status.Gated, pod_status.Allocated, pod_status.Pipelined,
	pod_status.Binding, pod_status.Bound, pod_status.Running, pod_status.Releasing, pod_status.Succeeded, pod_status.Failed,
	pod_status.Unknown, pod_status.Deleted}

type sproj struct {
	obj map[string]any
	js  string
}

type stmtScope struct {
	id    int
	n     int            // length of the operation log after the last event of this statement
	pre   *sproj         // projection before the first operation (nil: log empty)
	cps   map[int]*sproj // checkpoint index -> projection at the latest Checkpoint() that returned it
	ops   []string       // operation log at rollback-begin / discard-begin
	nops  int
	feat  map[string]bool
	il    bool // operations of another statement were interleaved with this one's (not judged)
	begun string
}

type stmtRec struct {
	w      *World
	out    Emitter
	ssn    *framework.Session
	cycle  int
	seq    int
	last   *sproj
	stmts  map[*framework.Statement]*stmtScope
	seen   map[[20]byte]bool
	logged int
	prevSt map[int]string // pod index -> job-side status after the previous event (shape word nomevict)
}

func newStmtRec(w *World, out Emitter) *stmtRec {
	return &stmtRec{w: w, out: out, seen: map[[20]byte]bool{}}
}

func smilli(f float64) int { return int(math.Round(f * 1000)) }
func sint(f float64) int   { return int(math.Round(f)) }
func smb(f float64) int    { return int(math.Round(f / 1e6)) }

func (r *stmtRec) podKey(name string) string {
	if i := r.w.podIndex[name]; i > 0 {
		return "p" + strconv.Itoa(i)
	}
	return "x-" + name
}

func pairs(m map[string]int64) []map[string]any {
	out := []map[string]any{}
	for g, v := range m {
		if v != 0 { // a zero entry of a per-group map is equal to an absent one (group ids are fresh UUIDs)
			out = append(out, map[string]any{"g": g, "v": v})
		}
	}
	sort.Slice(out, func(i, j int) bool { return out[i]["g"].(string) < out[j]["g"].(string) })
	return out
}

func (r *stmtRec) vec(vm *resource_info.ResourceVectorMap, v resource_info.ResourceVector, name string, gpu bool) int {
	if vm == nil || len(v) == 0 {
		return -1
	}
	i := vm.GetIndex(name)
	if i < 0 {
		return -1
	}
	if gpu {
		return smilli(v.Get(i))
	}
	return sint(v.Get(i))
}

// project: the canonical projection of the session view (integers and strings only, sorted keys / lists).
func (r *stmtRec) project() *sproj {
	ci := r.ssn.ClusterInfo
	pods, jobs, nodes, queues := map[string]any{}, map[string]any{}, map[string]any{}, map[string]any{}
	for jid, job := range ci.PodGroupInfos {
		jk := "x-" + string(jid)
		if i := r.w.jobIndex[job.Name]; i > 0 {
			jk = "j" + strconv.Itoa(i)
		}
		for _, t := range job.GetAllPodsMap() {
			pods[r.podKey(t.Pod.Name)] = map[string]any{"st": t.Status.String(), "node": t.NodeName, "groups": cpStr(t.GPUGroups),
				"virt": b2iS(t.IsVirtualStatus), "acc": smilli(t.AcceptedResource.GetGpusQuota()), "ncl": len(t.ResourceClaimInfo)}
		}
		idx := map[string]any{}
		known := map[pod_status.PodStatus]bool{}
		for _, s := range stmtStatuses {
			idx[s.String()] = len(job.PodStatusIndex[s])
			known[s] = true
		}
		for s, m := range job.PodStatusIndex {
			if !known[s] && len(m) > 0 {
				idx["Unknown"] = idx["Unknown"].(int) + len(m)
			}
		}
		sets := []map[string]any{}
		for name, ps := range job.PodSets {
			sets = append(sets, map[string]any{"s": name, "aa": ps.GetNumActiveAllocatedTasks(), "au": ps.GetNumActiveUsedTasks(),
				"al": ps.GetNumAliveTasks(), "n": len(ps.GetPodInfos())})
		}
		sort.Slice(sets, func(i, j int) bool { return sets[i]["s"].(string) < sets[j]["s"].(string) })
		jobs[jk] = map[string]any{"ag": smilli(job.Allocated.GPUs()), "ac": sint(job.Allocated.Cpu()), "am": smb(job.Allocated.Memory()),
			"naa": job.GetActiveAllocatedTasksCount(), "idx": idx, "sets": sets,
			"vg": r.vec(job.VectorMap, job.AllocatedVector, "nvidia.com/gpu", true), "vc": r.vec(job.VectorMap, job.AllocatedVector, "cpu", false)}
	}
	for name, ni := range ci.Nodes {
		nk := "x-" + name
		if i := r.w.nodeIndex[name]; i > 0 {
			nk = "n" + strconv.Itoa(i)
		}
		nodes[nk] = r.projectNode(ni)
	}
	if pp, ok := r.ssn.VerifPlugins()["proportion"]; ok {
		qa := proportion.VerifQueues(pp)
		for i := range r.w.Sc.Queues {
			q := qa[common_info.QueueID(r.w.Sc.Queues[i].Name)]
			if q == nil {
				continue
			}
			queues["q"+strconv.Itoa(i+1)] = map[string]any{
				"ag": smilli(q.GPU.Allocated), "anpg": smilli(q.GPU.AllocatedNotPreemptible), "rqg": smilli(q.GPU.Request),
				"ac": sint(q.CPU.Allocated), "anpc": sint(q.CPU.AllocatedNotPreemptible), "rqc": sint(q.CPU.Request),
				"am": smb(q.Memory.Allocated), "anpm": smb(q.Memory.AllocatedNotPreemptible), "rqm": smb(q.Memory.Request)}
		}
	}
	obj := map[string]any{"pods": pods, "jobs": jobs, "nodes": nodes, "queues": queues}
	b, err := json.Marshal(obj) // map keys are written sorted: canonical
	if err != nil {
		panic(err)
	}
	return &sproj{obj: obj, js: string(b)}
}

func b2iS(b bool) int {
	if b {
		return 1
	}
	return 0
}

func (r *stmtRec) projectNode(ni *node_info.NodeInfo) map[string]any {
	mark := []string{}
	for g, v := range ni.ReleasingSharedGPUs {
		if v {
			mark = append(mark, g)
		}
	}
	sort.Strings(mark)
	present := []map[string]any{}
	for _, c := range ni.PodInfos {
		present = append(present, map[string]any{"p": r.podKey(c.Pod.Name), "st": c.Status.String(), "groups": cpStr(c.GPUGroups)})
	}
	sort.Slice(present, func(i, j int) bool {
		a, b := present[i], present[j]
		if a["p"].(string) != b["p"].(string) {
			return a["p"].(string) < b["p"].(string)
		}
		return a["st"].(string) < b["st"].(string)
	})
	aff := []string{}
	if k, ok := ni.PodAffinityInfo.(*cluster_info.K8sNodePodAffinityInfo); ok && k != nil && k.NodeInfo != nil {
		for _, p := range k.NodeInfo.Pods {
			aff = append(aff, r.podKey(p.GetPod().Name))
		}
	}
	sort.Strings(aff)
	// scalar / MIG resources (pod slots, extended resources)
	names := map[string]bool{}
	for _, res := range []*resource_info.Resource{ni.Idle, ni.Used, ni.Releasing} {
		for n := range res.ScalarResources() {
			names[string(n)] = true
		}
		for n := range res.MigResources() {
			names[string(n)] = true
		}
	}
	get := func(res *resource_info.Resource, n string) int64 {
		for k, v := range res.ScalarResources() {
			if string(k) == n {
				return v
			}
		}
		for k, v := range res.MigResources() {
			if string(k) == n {
				return v
			}
		}
		return 0
	}
	ext := []map[string]any{}
	for n := range names {
		i, u, x := get(ni.Idle, n), get(ni.Used, n), get(ni.Releasing, n)
		if i != 0 || u != 0 || x != 0 {
			ext = append(ext, map[string]any{"r": n, "i": i, "u": u, "x": x})
		}
	}
	sort.Slice(ext, func(i, j int) bool { return ext[i]["r"].(string) < ext[j]["r"].(string) })
	vm := ni.VectorMap
	return map[string]any{
		"ig": smilli(ni.Idle.GPUs()), "rg": smilli(ni.Releasing.GPUs()), "ug": smilli(ni.Used.GPUs()),
		"ic": sint(ni.Idle.Cpu()), "rc": sint(ni.Releasing.Cpu()), "uc": sint(ni.Used.Cpu()),
		"im": smb(ni.Idle.Memory()), "rmem": smb(ni.Releasing.Memory()), "umem": smb(ni.Used.Memory()),
		"vig": r.vec(vm, ni.IdleVector, "nvidia.com/gpu", true), "vrg": r.vec(vm, ni.ReleasingVector, "nvidia.com/gpu", true), "vug": r.vec(vm, ni.UsedVector, "nvidia.com/gpu", true),
		"vic": r.vec(vm, ni.IdleVector, "cpu", false), "vrc": r.vec(vm, ni.ReleasingVector, "cpu", false), "vuc": r.vec(vm, ni.UsedVector, "cpu", false),
		"um": pairs(ni.UsedSharedGPUsMemory), "rm": pairs(ni.ReleasingSharedGPUsMemory), "am": pairs(ni.AllocatedSharedGPUsMemory),
		"mark": mark, "pods": present, "aff": aff, "ext": ext,
	}
}

// open is called right after OpenSession of cycle c.
func (r *stmtRec) open(ssn *framework.Session, c int) {
	r.ssn, r.cycle, r.seq = ssn, c, 0
	r.stmts = map[*framework.Statement]*stmtScope{}
	r.prevSt = map[int]string{}
	r.last = r.project()
	r.noteStatuses()
	StmtStats["cycles"]++
}

func (r *stmtRec) noteStatuses() {
	for _, job := range r.ssn.ClusterInfo.PodGroupInfos {
		for _, t := range job.GetAllPodsMap() {
			if i := r.w.podIndex[t.Pod.Name]; i > 0 {
				r.prevSt[i] = t.Status.String()
			}
		}
	}
}

// features of the current view that name known root causes in signatures (shape words of checks/st_stmt.py)
func (r *stmtRec) viewFeatures(f map[string]bool) {
	for _, ni := range r.ssn.ClusterInfo.Nodes {
		pipe, shared := false, false
		for _, c := range ni.PodInfos {
			if c.Status == pod_status.Pipelined {
				pipe = true
			}
		}
		for _, v := range ni.UsedSharedGPUsMemory {
			if v != 0 {
				shared = true
			}
		}
		if pipe && shared {
			f["pipeonshared"] = true // a nominated pod on a node that has shared GPUs (finding G27)
		}
	}
}

func (r *stmtRec) emitScope(kind string, s *stmtScope, cp int, pre, post *sproj) {
	if pre == nil || post == nil {
		StmtStats[kind+"_without_reference"]++
		return
	}
	feat := []string{}
	for k := range s.feat {
		feat = append(feat, k)
	}
	sort.Strings(feat)
	h := sha1.Sum([]byte(kind + "\x00" + pre.js + "\x00" + post.js + "\x00" + fmt.Sprint(feat, s.il)))
	if r.seen[h] {
		StmtStats[kind+"_duplicates"]++
		return
	}
	r.seen[h] = true
	if r.logged >= StmtMaxScopes {
		StmtStats["scopes_dropped"]++
		return
	}
	r.logged++
	StmtStats[kind+"s"]++
	ops := s.ops
	if ops == nil {
		ops = []string{}
	}
	r.out(map[string]any{"ev": "Scenario", "id": fmt.Sprintf("%s/c%d/s%d/k%d", r.w.Sc.ID, r.cycle, s.id, r.seq), "class": r.w.Sc.Class,
		"scid": r.w.Sc.ID, "cycle": r.cycle, "stmt": s.id, "k": r.seq, "act": r.w.curAction, "kind": kind, "cp": cp,
		"nops": s.nops, "ops": ops, "feat": feat, "il": b2iS(s.il), "pre": pre.obj, "post": post.obj})
}

func (r *stmtRec) opsSummary(s *framework.Statement) ([]string, int) {
	vo := s.VerifOps()
	out := []string{}
	from := 0
	if len(vo) > StmtMaxOps {
		from = len(vo) - StmtMaxOps
	}
	for i := from; i < len(vo); i++ {
		o := vo[i]
		t := fmt.Sprintf("%d:%s", i, o.Name)
		if o.Target >= 0 {
			t += fmt.Sprintf(">%d", o.Target)
		} else if o.Task != nil && o.Task.Pod != nil {
			t += " " + r.podKey(o.Task.Pod.Name)
		}
		if !o.Valid {
			t += " (undone)"
		}
		out = append(out, t)
	}
	return out, len(vo)
}

// outside: the projection changed although no statement operation was reported since `last`
func (r *stmtRec) checkUnchanged(cur *sproj, where string) {
	if r.last == nil {
		return
	}
	StmtStats["single_writer_checks"]++
	if cur.js == r.last.js {
		return
	}
	StmtStats["outside_candidates"]++
	h := sha1.Sum([]byte("outside\x00" + r.last.js + "\x00" + cur.js))
	if r.seen[h] || r.logged >= StmtMaxScopes {
		return
	}
	r.seen[h] = true
	r.logged++
	r.out(map[string]any{"ev": "Scenario", "id": fmt.Sprintf("%s/c%d/k%d/%s", r.w.Sc.ID, r.cycle, r.seq, where), "class": r.w.Sc.Class,
		"scid": r.w.Sc.ID, "cycle": r.cycle, "stmt": 0, "k": r.seq, "act": r.w.curAction, "kind": "outside", "cp": 0,
		"nops": 0, "ops": []string{where}, "feat": []string{}, "il": 0, "pre": r.last.obj, "post": cur.obj})
}

// boundary is called at the start and at the end of every action.
func (r *stmtRec) boundary(where string) {
	if r == nil || r.ssn == nil {
		return
	}
	r.seq++
	cur := r.project()
	r.checkUnchanged(cur, where)
	r.last = cur
	r.noteStatuses()
}

// observe is called from the statement hook.
func (r *stmtRec) observe(s *framework.Statement, ev string, task *pod_info.PodInfo, arg string) {
	if r == nil || r.ssn == nil || s.VerifSession() != r.ssn {
		return
	}
	r.seq++
	cur := r.project()
	sc := r.stmts[s]
	if sc == nil {
		sc = &stmtScope{id: len(r.stmts) + 1, cps: map[int]*sproj{}, feat: map[string]bool{}}
		r.stmts[s] = sc
		StmtStats["statements"]++
	}
	n := len(s.VerifOps())
	switch ev {
	case "checkpoint", "rollback-begin", "discard-begin", "commit-begin", "convert-begin":
		// reported BEFORE anything changes
		r.checkUnchanged(cur, ev)
	}
	switch ev {
	case "evict", "pipeline", "allocate", "unevict", "unpipeline", "unallocate":
		if sc.n == 0 && n > 0 && sc.begun == "" {
			// the operation that makes the log non-empty: the view before it is the view after the previous event
			sc.pre = r.last
			sc.feat = map[string]bool{}
			sc.il = false
			StmtStats["statements_with_operations"]++
		}
		for other, o := range r.stmts {
			if other != s && o.n > 0 {
				o.il, sc.il = true, true
				StmtStats["interleaved_operations"]++
			}
		}
		if ev == "evict" && task != nil && task.Pod != nil {
			if i := r.w.podIndex[task.Pod.Name]; i > 0 && r.prevSt[i] == "Pipelined" {
				sc.feat["nomevict"] = true // a pod that is only nominated is taken as a victim (finding G37)
			}
		}
		if ev == "pipeline" && task != nil && task.Pod != nil && (task.IsFractionRequest() || task.IsMemoryRequest()) {
			// Statement.Pipeline replaced the entry of a virtually evicted sharer on its own node by a nomination on
			// other GPU groups of that node (ConsolidateSharedPodInfoToDifferentGPU)
			if g, st, found := r.prevEntry(arg, r.podKey(task.Pod.Name)); found && st == "Releasing" && !eqStr(g, task.GPUGroups) {
				sc.feat["movegpu"] = true
			}
		}
	case "checkpoint":
		sc.cps[n] = cur
		StmtStats["checkpoints"]++
	case "rollback-begin", "discard-begin":
		sc.ops, sc.nops = r.opsSummary(s)
		sc.begun = ev
	case "convert-begin":
		sc.feat["convert"] = true
		sc.begun = ev
	case "commit-begin":
		sc.begun = ev
	case "rollback-end":
		cp, _ := strconv.Atoi(arg)
		ref := sc.cps[cp]
		if ref == nil && cp == 0 {
			ref = sc.pre
		}
		r.viewFeatures(sc.feat)
		StmtStats["rollbacks_seen"]++
		if sc.nops > cp { // a rollback that undoes nothing is not a scope
			r.emitScope("rollback", sc, cp, ref, cur)
		} else {
			StmtStats["rollbacks_empty"]++
		}
		for k := range sc.cps {
			if k > cp {
				delete(sc.cps, k)
			}
		}
		sc.begun = ""
	case "discard-end":
		r.viewFeatures(sc.feat)
		StmtStats["discards_seen"]++
		r.emitScope("discard", sc, 0, sc.pre, cur)
		sc.cps, sc.pre, sc.begun = map[int]*sproj{}, nil, ""
	case "commit-end":
		StmtStats["commits_seen"]++
		sc.cps, sc.pre, sc.begun = map[int]*sproj{}, nil, ""
	case "convert-end":
		// the log was rewritten (allocate operations replaced by pipeline operations): checkpoint indices taken
		// before are void; the view before the statement's first operation is still what a Discard must restore
		sc.cps, sc.begun = map[int]*sproj{}, ""
	}
	r.viewFeatures(sc.feat)
	sc.n = n
	r.last = cur
	r.noteStatuses()
}

// prevEntry: the PodInfos entry of pod `key` on node `name` in the previous projection
func (r *stmtRec) prevEntry(name, key string) (groups []string, st string, found bool) {
	if r.last == nil {
		return nil, "", false
	}
	nk := "x-" + name
	if i := r.w.nodeIndex[name]; i > 0 {
		nk = "n" + strconv.Itoa(i)
	}
	nd, ok := r.last.obj["nodes"].(map[string]any)[nk].(map[string]any)
	if !ok {
		return nil, "", false
	}
	for _, e := range nd["pods"].([]map[string]any) {
		if e["p"] == key {
			return e["groups"].([]string), e["st"].(string), true
		}
	}
	return nil, "", false
}

// close is called after the last action of the cycle.
func (r *stmtRec) close() {
	if r == nil || r.ssn == nil {
		return
	}
	for s, sc := range r.stmts {
		if len(s.VerifOps()) > 0 {
			StmtStats["statements_left_open"]++ // neither committed nor discarded: its virtual state stays in the session
		}
		_ = sc
	}
	r.ssn, r.stmts, r.last = nil, nil, nil
}
