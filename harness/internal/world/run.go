package world

import (
	"context"
	"fmt"
	"math"
	"net/http"
	"sort"
	"strconv"
	"strings"
	"sync"
	"time"

	v1 "k8s.io/api/core/v1"
	metav1 "k8s.io/apimachinery/pkg/apis/meta/v1"
	"k8s.io/apimachinery/pkg/runtime"
	"k8s.io/client-go/kubernetes/fake"
	k8stesting "k8s.io/client-go/testing"
	"sigs.k8s.io/yaml"

	kaifake "github.com/NVIDIA/KAI-scheduler/pkg/apis/client/clientset/versioned/fake"
	schedulingv1alpha2 "github.com/NVIDIA/KAI-scheduler/pkg/apis/scheduling/v1alpha2"
	enginev2alpha2 "github.com/NVIDIA/KAI-scheduler/pkg/apis/scheduling/v2alpha2"
	commonconstants "github.com/NVIDIA/KAI-scheduler/pkg/common/constants"
	"github.com/NVIDIA/KAI-scheduler/pkg/scheduler/actions"
	"github.com/NVIDIA/KAI-scheduler/pkg/scheduler/api/common_info"
	"github.com/NVIDIA/KAI-scheduler/pkg/scheduler/api/eviction_info"
	"github.com/NVIDIA/KAI-scheduler/pkg/scheduler/api/pod_info"
	"github.com/NVIDIA/KAI-scheduler/pkg/scheduler/api/podgroup_info"
	"github.com/NVIDIA/KAI-scheduler/pkg/scheduler/cache"
	"github.com/NVIDIA/KAI-scheduler/pkg/scheduler/conf"
	"github.com/NVIDIA/KAI-scheduler/pkg/scheduler/conf_util"
	"github.com/NVIDIA/KAI-scheduler/pkg/scheduler/framework"
	"github.com/NVIDIA/KAI-scheduler/pkg/scheduler/plugins"
	"github.com/NVIDIA/KAI-scheduler/pkg/scheduler/plugins/proportion"
	rs "github.com/NVIDIA/KAI-scheduler/pkg/scheduler/plugins/proportion/resource_share"
)

var initOnce sync.Once

func InitScheduler() {
	initOnce.Do(func() {
		actions.InitDefaultActions()
		plugins.InitDefaultPlugins()
	})
}

// Emitter receives trace events (the linearization order is the call order: the scheduling cycle
// is single threaded, cache calls are recorded synchronously inside the call).
type Emitter func(ev map[string]any)

// World owns the fake API stores of one scenario.
type World struct {
	Sc   *Scenario
	Kube *fake.Clientset
	Kai  *kaifake.Clientset
	Now  time.Time

	gen        []int // re-creation generation per pod index
	cache      cache.Cache
	stop       chan struct{}
	emit       Emitter
	nBind      int
	nEvict     int
	stmtIDs    map[*framework.Statement]int
	curStmt    int
	curAction  string
	podIndex   map[string]int // pod object name -> 1-based scenario pod index
	slow       map[string]bool // env slowbind: BindRequests of multi-device pods that were left half way once
	acct       *acctRec        // optional (Options.Acct): node accounting observed at every simulation step (acctobs.go)
	stmtobs    *stmtRec        // optional (Options.Stmt): abandoned statement scopes of real cycles (stmtobs.go)
	nodeIndex  map[string]int
	jobIndex   map[string]int
	queueIndex map[string]int
}

func NewWorld(sc *Scenario, emit Emitter) (*World, error) {
	sc.Normalize()
	w := &World{Sc: sc, Kube: fake.NewSimpleClientset(), Kai: kaifake.NewSimpleClientset(), Now: time.Now(), emit: emit,
		gen: make([]int, len(sc.Pods)), stmtIDs: map[*framework.Statement]int{},
		podIndex: map[string]int{}, nodeIndex: map[string]int{}, jobIndex: map[string]int{}, queueIndex: map[string]int{}}
	ctx := context.TODO()
	for i := range sc.Nodes {
		w.nodeIndex[sc.Nodes[i].Name] = i + 1
		if _, err := w.Kube.CoreV1().Nodes().Create(ctx, BuildNode(&sc.Nodes[i]), metav1.CreateOptions{}); err != nil {
			return nil, err
		}
	}
	for i := range sc.Queues {
		w.queueIndex[sc.Queues[i].Name] = i + 1
		if _, err := w.Kai.SchedulingV2().Queues("").Create(ctx, BuildQueue(sc, i), metav1.CreateOptions{}); err != nil {
			return nil, err
		}
	}
	if sc.Topo.Name != "" {
		if _, err := w.Kai.KaiV1alpha1().Topologies().Create(ctx, BuildTopology(sc), metav1.CreateOptions{}); err != nil {
			return nil, err
		}
	}
	prios := map[int]bool{}
	for j := range sc.Jobs {
		w.jobIndex[sc.Jobs[j].Name] = j + 1
		if !prios[sc.Jobs[j].Prio] {
			prios[sc.Jobs[j].Prio] = true
			if _, err := w.Kube.SchedulingV1().PriorityClasses().Create(ctx, BuildPriorityClass(sc.Jobs[j].Prio), metav1.CreateOptions{}); err != nil {
				return nil, err
			}
		}
		if _, err := w.Kai.SchedulingV2alpha2().PodGroups(Namespace).Create(ctx, BuildPodGroup(sc, j, w.Now), metav1.CreateOptions{}); err != nil {
			return nil, err
		}
	}
	resv := map[string]bool{}
	for i := range sc.Pods {
		pod := BuildPod(sc, i, 0, w.Now)
		w.podIndex[pod.Name] = i + 1
		if _, err := w.Kube.CoreV1().Pods(Namespace).Create(ctx, pod, metav1.CreateOptions{}); err != nil {
			return nil, err
		}
		p := &sc.Pods[i]
		if p.Phase == "R" {
			for _, g := range p.Groups {
				key := sc.Nodes[p.Node-1].Name + "/" + g
				if !resv[key] {
					resv[key] = true
					if _, err := w.Kube.CoreV1().Pods(ReservationNS).Create(ctx, BuildReservationPod(sc.Nodes[p.Node-1].Name, g), metav1.CreateOptions{}); err != nil {
						return nil, err
					}
				}
			}
		}
	}
	// Evictions mark the pod terminating instead of removing it (as the API server does with a
	// grace period / finalizer); the environment step removes it later.
	w.Kube.PrependReactor("delete", "pods", func(action k8stesting.Action) (bool, runtime.Object, error) {
		da := action.(k8stesting.DeleteAction)
		if da.GetNamespace() != Namespace {
			return false, nil, nil
		}
		obj, err := w.Kube.Tracker().Get(action.GetResource(), da.GetNamespace(), da.GetName())
		if err != nil {
			return true, nil, err
		}
		pod := obj.(*v1.Pod).DeepCopy()
		if pod.DeletionTimestamp == nil {
			t := metav1.NewTime(time.Now())
			pod.DeletionTimestamp = &t
			pod.Finalizers = append(pod.Finalizers, "verif/terminating")
			if err := w.Kube.Tracker().Update(action.GetResource(), pod, da.GetNamespace()); err != nil {
				return true, nil, err
			}
		}
		return true, nil, nil
	})
	// The API server updates only .status on the status sub-resource; the fake tracker would replace
	// the whole object (and with it the metadata the scheduler is about to patch separately).
	w.Kai.PrependReactor("update", "podgroups", func(action k8stesting.Action) (bool, runtime.Object, error) {
		ua := action.(k8stesting.UpdateAction)
		if ua.GetSubresource() != "status" {
			return false, nil, nil
		}
		in := ua.GetObject().(*enginev2alpha2.PodGroup)
		obj, err := w.Kai.Tracker().Get(action.GetResource(), in.Namespace, in.Name)
		if err != nil {
			return true, nil, err
		}
		cur := obj.(*enginev2alpha2.PodGroup).DeepCopy()
		cur.Status = *in.Status.DeepCopy()
		if err := w.Kai.Tracker().Update(action.GetResource(), cur, in.Namespace); err != nil {
			return true, nil, err
		}
		return true, cur, nil
	})
	// Fault injection: the k-th BindRequest creation of the run fails.
	w.Kai.PrependReactor("create", "bindrequests", func(action k8stesting.Action) (bool, runtime.Object, error) {
		for _, k := range sc.Cfg.BindFail {
			if k == w.nBind {
				return true, nil, fmt.Errorf("verif: injected BindRequest creation failure #%d", k)
			}
		}
		return false, nil, nil
	})
	return w, nil
}

// ---------------------------------------------------------------------------------------------
// projection of the API store (ground truth, independent of the scheduler's own snapshot)
// ---------------------------------------------------------------------------------------------

type PodState struct {
	St     string   `json:"st"`     // gone | pending | binding | bound | running | terminating | done
	Node   int      `json:"node"`   // node charged: spec.nodeName, or the live BindRequest's selected node
	Groups []string `json:"groups"` // GPU groups as an independent reader of the API objects sees them (labels / BindRequest)
	Lbl    []string `json:"lbl"`    // GPU groups by labels only, with the binder's label conventions
}

func groupsFromLabels(pod *v1.Pod) []string {
	gs := []string{}
	if g, ok := pod.Labels[commonconstants.GPUGroup]; ok {
		gs = append(gs, g)
	}
	for k, v := range pod.Labels {
		if strings.HasPrefix(k, commonconstants.MultiGpuGroupLabelPrefix) {
			gs = append(gs, v)
		}
	}
	sort.Strings(gs)
	return gs
}

func (w *World) currentName(i int) string {
	if w.gen[i] == 0 {
		return w.Sc.Pods[i].Name
	}
	return fmt.Sprintf("%s-r%d", w.Sc.Pods[i].Name, w.gen[i])
}

func (w *World) Project() (pods []PodState, resv []map[string]any) {
	ctx := context.TODO()
	brs, _ := w.Kai.SchedulingV1alpha2().BindRequests(Namespace).List(ctx, metav1.ListOptions{})
	brByPod := map[string]*schedulingv1alpha2.BindRequest{}
	for i := range brs.Items {
		brByPod[brs.Items[i].Spec.PodName] = &brs.Items[i]
	}
	nodes, _ := w.Kube.CoreV1().Nodes().List(ctx, metav1.ListOptions{})
	nodeExists := map[string]bool{}
	for _, n := range nodes.Items {
		nodeExists[n.Name] = true
	}
	for i := range w.Sc.Pods {
		ps := PodState{St: "gone", Groups: []string{}, Lbl: []string{}}
		pod, err := w.Kube.CoreV1().Pods(Namespace).Get(ctx, w.currentName(i), metav1.GetOptions{})
		if err == nil {
			ps.Lbl = groupsFromLabels(pod)
			ps.Groups = ps.Lbl
			ps.Node = w.nodeIndex[pod.Spec.NodeName]
			switch {
			case pod.Status.Phase == v1.PodSucceeded || pod.Status.Phase == v1.PodFailed:
				ps.St = "done"
			case pod.DeletionTimestamp != nil:
				ps.St = "terminating"
				// a pod that is being bound (live BindRequest) and deleted at the same time still claims the
				// selected node until it is gone (the binder may complete the bind)
				if br, ok := brByPod[pod.Name]; ok && pod.Spec.NodeName == "" && nodeExists[br.Spec.SelectedNode] && !brFailed(br) {
					ps.Node = w.nodeIndex[br.Spec.SelectedNode]
					gs := append([]string{}, br.Spec.SelectedGPUGroups...)
					sort.Strings(gs)
					ps.Groups = gs
				}
			case pod.Status.Phase == v1.PodRunning:
				ps.St = "running"
			case pod.Spec.NodeName != "":
				ps.St = "bound"
			default:
				ps.St = "pending"
				if br, ok := brByPod[pod.Name]; ok && nodeExists[br.Spec.SelectedNode] && !brFailed(br) {
					ps.St = "binding"
					ps.Node = w.nodeIndex[br.Spec.SelectedNode]
					gs := append([]string{}, br.Spec.SelectedGPUGroups...)
					sort.Strings(gs)
					ps.Groups = gs
				}
			}
			if ps.Node == 0 && ps.St != "pending" && ps.St != "done" && pod.Spec.NodeName == "" {
				ps.St = "pending"
			}
		}
		pods = append(pods, ps)
	}
	rp, _ := w.Kube.CoreV1().Pods(ReservationNS).List(ctx, metav1.ListOptions{})
	resv = []map[string]any{}
	for _, p := range rp.Items {
		resv = append(resv, map[string]any{"n": w.nodeIndex[p.Spec.NodeName], "g": p.Labels[commonconstants.GPUGroup]})
	}
	sort.Slice(resv, func(a, b int) bool { return fmt.Sprint(resv[a]) < fmt.Sprint(resv[b]) })
	return
}

func brFailed(br *schedulingv1alpha2.BindRequest) bool {
	if br.Status.Phase != schedulingv1alpha2.BindRequestPhaseFailed {
		return false
	}
	if br.Spec.BackoffLimit == nil {
		return true
	}
	return br.Status.FailedAttempts >= *br.Spec.BackoffLimit
}

// ---------------------------------------------------------------------------------------------
// recording cache decorator
// ---------------------------------------------------------------------------------------------

type recCache struct {
	cache.Cache
	w *World
}

func (r *recCache) Bind(pi *pod_info.PodInfo, hostname string, ann map[string]string) error {
	r.w.nBind++
	err := r.Cache.Bind(pi, hostname, ann)
	gs := append([]string{}, pi.GPUGroups...)
	sort.Strings(gs)
	ok := 1
	if err != nil {
		ok = 0
	}
	r.w.emit(map[string]any{"ev": "Bind", "p": r.w.podIndex[pi.Pod.Name], "n": r.w.nodeIndex[hostname], "groups": gs,
		"ok": ok, "act": r.w.curAction, "stmt": r.w.curStmt})
	return err
}

func (r *recCache) Evict(pod *v1.Pod, job *podgroup_info.PodGroupInfo, md eviction_info.EvictionMetadata, message string) error {
	r.w.nEvict++
	var err error
	injected := false
	for _, k := range r.w.Sc.Cfg.EvictFail {
		if k == r.w.nEvict {
			injected = true
		}
	}
	if injected {
		err = fmt.Errorf("verif: injected eviction failure #%d", r.w.nEvict)
	} else {
		err = r.Cache.Evict(pod, job, md, message)
	}
	ok := 1
	if err != nil {
		ok = 0
	}
	pre := 0
	if md.Preemptor != nil {
		pre = r.w.jobIndex[md.Preemptor.Name]
	}
	r.w.emit(map[string]any{"ev": "Evict", "p": r.w.podIndex[pod.Name], "ok": ok, "act": r.w.curAction, "mdact": md.Action,
		"pre": pre, "stmt": r.w.curStmt})
	return err
}

func (r *recCache) TaskPipelined(task *pod_info.PodInfo, message string) {
	r.Cache.TaskPipelined(task, message)
	gs := append([]string{}, task.GPUGroups...)
	sort.Strings(gs)
	r.w.emit(map[string]any{"ev": "Pipeline", "p": r.w.podIndex[task.Pod.Name], "n": r.w.nodeIndex[task.NodeName], "groups": gs,
		"act": r.w.curAction, "stmt": r.w.curStmt})
}

// ---------------------------------------------------------------------------------------------
// configuration
// ---------------------------------------------------------------------------------------------

func (w *World) config() (*conf.SchedulerConfiguration, *conf.SchedulerParams, error) {
	c := w.Sc.Cfg
	acts := "allocate, consolidation, reclaim, preempt, stalegangeviction"
	if c.Consolidation == 0 {
		acts = "allocate, reclaim, preempt, stalegangeviction"
	}
	if c.Actions != "" {
		acts = c.Actions
	}
	minRtArgs := ""
	if c.DefMinRtP > 0 || c.DefMinRtR > 0 || c.MinRtMethod != "" {
		minRtArgs = "\n    arguments:"
		if c.DefMinRtP > 0 {
			minRtArgs += fmt.Sprintf("\n      defaultPreemptMinRuntime: \"%ds\"", c.DefMinRtP)
		}
		if c.DefMinRtR > 0 {
			minRtArgs += fmt.Sprintf("\n      defaultReclaimMinRuntime: \"%ds\"", c.DefMinRtR)
		}
		if c.MinRtMethod != "" {
			minRtArgs += fmt.Sprintf("\n      reclaimResolveMethod: \"%s\"", c.MinRtMethod)
		}
	}
	y := fmt.Sprintf(`
actions: "%s"
tiers:
- plugins:
  - name: predicates
  - name: proportion
    arguments:
      relcaimerSaturationMultiplier: "%s"
  - name: priority
  - name: elastic
  - name: kubeflow
  - name: ray
  - name: nodeavailability
  - name: gpusharingorder
  - name: %s
  - name: resourcetype
  - name: subgrouporder
  - name: taskorder
  - name: nominatednode
  - name: dynamicresources
  - name: nodeplacement
    arguments:
      cpu: %s
      gpu: %s
  - name: minruntime%s
  - name: topology
`, acts, strconv.FormatFloat(float64(c.SatMult)/1000, 'f', -1, 64), map[string]string{"binpack": "gpupack", "spread": "gpuspread"}[c.Placement], c.Placement, c.Placement, minRtArgs)
	sconf := &conf.SchedulerConfiguration{}
	if err := yaml.Unmarshal([]byte(y), sconf); err != nil {
		return nil, nil, err
	}
	if _, err := conf_util.GetActionsFromConfig(sconf); err != nil {
		return nil, nil, err
	}
	params := &conf.SchedulerParams{
		SchedulerName:                     SchedulerName,
		PartitionParams:                   &conf.SchedulingNodePoolParams{NodePoolLabelKey: c.PoolKey, NodePoolLabelValue: c.PoolVal},
		MaxNumberConsolidationPreemptees:  16,
		UseSchedulingSignatures:           c.Signatures == 1,
		FullHierarchyFairness:             c.FullHier != 0,
		AllowConsolidatingReclaim:         c.ConsReclaim == 1,
		NumOfStatusRecordingWorkers:       2,
		GlobalDefaultStalenessGracePeriod: 60 * time.Second,
	}
	return sconf, params, nil
}

// ---------------------------------------------------------------------------------------------
// one scheduling cycle of the REAL scheduler (cmd/snapshot-tool style, runOnce)
// ---------------------------------------------------------------------------------------------

var mux = &http.ServeMux{}

func milli(f float64) int {
	if f < 0 {
		return -1
	}
	return int(f*1000 + 0.5)
}

// exact reports whether the logged (rounded) integer is the float itself
func exact(f float64) int {
	if f < 0 || math.Abs(f-math.Floor(f+0.5)) < 1e-9 {
		return 1
	}
	return 0
}

// rnd rounds to the nearest integer, negative values included (Releasing goes negative by design when
// more is nominated onto a node than is being released)
func rnd(f float64) int { return int(math.Floor(f + 0.5)) }

func mb(f float64) int {
	if f < 0 {
		return -1
	}
	return int(f/1e6 + 0.5)
}

func unl(f float64) int {
	if f < 0 {
		return -1
	}
	return int(f + 0.5)
}

func (w *World) queueInfo(ssn *framework.Session) { w.sessionInfo(ssn, "QueueInfo") }

// sessionInfo emits the fair-share state and the node / queue accounting of the session: as
// "QueueInfo" right after OpenSession and as "SessionEnd" after the last action of the cycle.
func (w *World) sessionInfo(ssn *framework.Session, evName string) {
	p, ok := ssn.VerifPlugins()["proportion"]
	if !ok {
		return
	}
	qs := proportion.VerifQueues(p)
	tot, k := proportion.VerifTotals(p)
	out := make([]map[string]any, len(w.Sc.Queues))
	for i := range w.Sc.Queues {
		qa := qs[common_info.QueueID(w.Sc.Queues[i].Name)]
		if qa == nil {
			out[i] = map[string]any{"present": 0, "fsG": 0, "desG": 0, "limG": 0, "allocG": 0, "npG": 0, "reqG": 0, "fsC": 0, "allocC": 0, "reqC": 0,
				"fsM": 0, "allocM": 0, "desC": 0, "desM": 0, "w": 0, "useG": 0, "xG": 0, "xC": 0,
				"limC": 0, "limM": 0, "reqM": 0, "useC": 0, "useM": 0, "xM": 0}
			continue
		}
		g := qa.ResourceShare(rs.GpuResource)
		c := qa.ResourceShare(rs.CpuResource)
		mm := qa.ResourceShare(rs.MemoryResource)
		out[i] = map[string]any{"present": 1, "fsG": milli(g.FairShare), "desG": milli(g.Deserved), "limG": milli(g.MaxAllowed),
			"allocG": rnd(g.Allocated * 1000), "npG": rnd(g.AllocatedNotPreemptible * 1000), "reqG": milli(g.Request),
			"fsC": int(c.FairShare + 0.5), "allocC": rnd(c.Allocated), "reqC": int(c.Request + 0.5),
			"fsM": mb(mm.FairShare), "allocM": rnd(mm.Allocated / 1e6), "desC": unl(c.Deserved), "desM": mb(mm.Deserved),
			"w": int(g.OverQuotaWeight), "useG": milli(g.Usage),
			"xG": exact(g.FairShare * 1000), "xC": exact(c.FairShare),
			"limC": unl(c.MaxAllowed), "limM": mb(mm.MaxAllowed), "reqM": mb(mm.Request), "useC": milli(c.Usage), "useM": milli(mm.Usage),
			"xM": exact(mm.FairShare / 1e6)}
	}
	// node accounting of the fresh session (C14 at snapshot construction): Idle / Used / Releasing per node
	nodes := make([]map[string]any, len(w.Sc.Nodes))
	for i := range w.Sc.Nodes {
		ni := ssn.ClusterInfo.Nodes[w.Sc.Nodes[i].Name]
		if ni == nil {
			nodes[i] = map[string]any{"present": 0, "ic": 0, "uc": 0, "rc": 0, "im": 0, "um": 0, "rm": 0, "ig": 0, "rg": 0, "np": 0}
			continue
		}
		nodes[i] = map[string]any{"present": 1,
			"ic": rnd(ni.Idle.Cpu()), "uc": rnd(ni.Used.Cpu()), "rc": rnd(ni.Releasing.Cpu()),
			"im": rnd(ni.Idle.Memory() / 1e6), "um": rnd(ni.Used.Memory() / 1e6), "rm": rnd(ni.Releasing.Memory() / 1e6),
			"ig": rnd(ni.Idle.GPUs() * 1000), "rg": rnd(ni.Releasing.GPUs() * 1000), "np": len(ni.PodInfos)}
	}
	w.emit(map[string]any{"ev": evName, "q": out, "n": nodes, "totG": milli(tot[rs.GpuResource]), "totC": int(tot[rs.CpuResource] + 0.5), "totM": mb(tot[rs.MemoryResource]), "k": milli(k)})
}

func (w *World) stmtHook(s *framework.Statement, ev string, task *pod_info.PodInfo, arg string) {
	id, ok := w.stmtIDs[s]
	if !ok {
		id = len(w.stmtIDs) + 1
		w.stmtIDs[s] = id
	}
	switch ev {
	case "commit-begin":
		w.curStmt = id
		w.emit(map[string]any{"ev": "CommitBegin", "stmt": id, "act": w.curAction})
	case "commit-end":
		w.emit(map[string]any{"ev": "CommitEnd", "stmt": id, "act": w.curAction})
		w.curStmt = 0
	}
	if w.acct != nil {
		w.acct.observe(ev, task)
	}
	if w.stmtobs != nil {
		w.stmtobs.observe(s, ev, task, arg)
	}
}

// RunCycle runs one cycle; panics are caught and reported in the CycleEnd event.
func (w *World) RunCycle(c int) (err error) {
	InitScheduler()
	sconf, params, err := w.config()
	if err != nil {
		return err
	}
	pods, resv := w.Project()
	w.emit(map[string]any{"ev": "CycleStart", "c": c, "pods": pods, "resv": resv})
	if w.cache == nil {
		w.cache = cache.New(&cache.SchedulerCacheParams{
			KubeClient: w.Kube, KAISchedulerClient: w.Kai, SchedulerName: params.SchedulerName,
			NodePoolParams: params.PartitionParams, FullHierarchyFairness: params.FullHierarchyFairness,
			AllowConsolidatingReclaim: params.AllowConsolidatingReclaim, NumOfStatusRecordingWorkers: params.NumOfStatusRecordingWorkers,
			DiscoveryClient: w.Kube.Discovery(),
		})
		w.stop = make(chan struct{})
		w.cache.Run(w.stop)
		w.cache.WaitForCacheSync(w.stop)
	}
	sc := w.cache
	stop := w.stop
	if err := w.waitSynced(); err != nil {
		return err
	}
	rec := &recCache{Cache: sc, w: w}
	w.stmtIDs = map[*framework.Statement]int{}
	w.curStmt = 0
	framework.VerifStatementHook = w.stmtHook
	panicMsg := ""
	func() {
		defer func() {
			if r := recover(); r != nil {
				panicMsg = fmt.Sprint(r)
			}
		}()
		ssn, err2 := framework.OpenSession(rec, sconf, params, fmt.Sprintf("c%d", c), mux)
		if err2 != nil {
			panicMsg = "open-session: " + err2.Error()
			return
		}
		defer framework.CloseSession(ssn)
		w.queueInfo(ssn)
		if w.acct != nil {
			w.acct.open(ssn, c)
		}
		if w.stmtobs != nil {
			w.stmtobs.open(ssn, c)
			defer w.stmtobs.close()
		}
		acts, _ := conf_util.GetActionsFromConfig(sconf)
		for _, a := range acts {
			w.curAction = string(a.Name())
			w.emit(map[string]any{"ev": "ActionStart", "name": w.curAction})
			if w.stmtobs != nil {
				w.stmtobs.boundary("action-start")
			}
			a.Execute(ssn)
			w.emit(map[string]any{"ev": "ActionDone", "name": w.curAction})
			if w.stmtobs != nil {
				w.stmtobs.boundary("action-done")
			}
			if w.acct != nil {
				w.acct.observe("action-done", nil)
			}
		}
		w.curAction = ""
		w.sessionInfo(ssn, "SessionEnd")
	}()
	framework.VerifStatementHook = nil
	if w.acct != nil {
		w.acct.flush()
	}
	sc.WaitForWorkers(stop)
	w.drain()
	w.emit(map[string]any{"ev": "CycleEnd", "c": c, "panic": panicMsg})
	return nil
}

// Close stops the informers and workers of the scenario's cache.
func (w *World) Close() {
	if w.stop != nil {
		close(w.stop)
		w.stop = nil
	}
}

// waitSynced blocks until the scheduler's informer caches reflect the API store (the harness only
// lets a cycle start on a quiescent, fully observed store: informer races are out of scope).
func (w *World) waitSynced() error {
	ctx := context.TODO()
	dl := w.cache.GetDataLister()
	deadline := time.Now().Add(20 * time.Second)
	for {
		ok := true
		storePods, _ := w.Kube.CoreV1().Pods("").List(ctx, metav1.ListOptions{})
		cached, err := dl.ListPods()
		if err != nil || len(cached) != len(storePods.Items) {
			ok = false
		} else {
			byKey := map[string]*v1.Pod{}
			for _, p := range cached {
				byKey[p.Namespace+"/"+p.Name] = p
			}
			for i := range storePods.Items {
				sp := &storePods.Items[i]
				cp := byKey[sp.Namespace+"/"+sp.Name]
				if cp == nil || cp.Spec.NodeName != sp.Spec.NodeName || cp.Status.Phase != sp.Status.Phase ||
					(cp.DeletionTimestamp == nil) != (sp.DeletionTimestamp == nil) || len(cp.Labels) != len(sp.Labels) {
					ok = false
					break
				}
			}
		}
		if ok {
			brs, _ := w.Kai.SchedulingV1alpha2().BindRequests("").List(ctx, metav1.ListOptions{})
			cbr, err := dl.ListBindRequests()
			if err != nil || len(cbr) != len(brs.Items) {
				ok = false
			}
		}
		if ok {
			return nil
		}
		if time.Now().After(deadline) {
			return fmt.Errorf("informer caches did not converge to the API store within 20s")
		}
		time.Sleep(5 * time.Millisecond)
	}
}

// drain waits until the asynchronous status writers are quiet (the API action logs stop growing).
func (w *World) drain() {
	last := -1
	for i := 0; i < 100; i++ {
		n := len(w.Kube.Actions()) + len(w.Kai.Actions())
		if n == last {
			return
		}
		last = n
		time.Sleep(15 * time.Millisecond)
	}
}

// ---------------------------------------------------------------------------------------------
// environment between cycles
// ---------------------------------------------------------------------------------------------

// EnvStep plays kubelet, binder and workload controllers between two cycles.
//   closed: every live BindRequest is completed the way the binder does it (pod bound + Running,
//           GPU-group labels with the binder's conventions, reservation pod per group, request
//           deleted); terminating pods disappear, reservation pods without consumers are removed
//           and every evicted pod is recreated as a fresh pending pod.
//   stall:  nothing happens (binder slow, pods keep terminating).
func (w *World) EnvStep() error {
	if w.Sc.Cfg.Env == "stall" {
		return nil
	}
	ctx := context.TODO()
	brs, err := w.Kai.SchedulingV1alpha2().BindRequests(Namespace).List(ctx, metav1.ListOptions{})
	if err != nil {
		return err
	}
	for i := range brs.Items {
		br := &brs.Items[i]
		pod, err := w.Kube.CoreV1().Pods(Namespace).Get(ctx, br.Spec.PodName, metav1.GetOptions{})
		if err == nil && pod.DeletionTimestamp == nil && pod.Spec.NodeName == "" {
			idx := w.podIndex[pod.Name]
			multi := idx > 0 && w.Sc.Pods[idx-1].Devs > 1
			if w.Sc.Cfg.Env == "slowbind" && multi && len(br.Spec.SelectedGPUGroups) > 1 && !w.slow[br.Name] {
				// the binder reserves the devices of a multi-device fraction pod one at a time: this request is caught
				// half way - the first group is labelled and has its reservation pod, the pod is not bound yet, the
				// request stays in flight until the next environment step
				if w.slow == nil {
					w.slow = map[string]bool{}
				}
				w.slow[br.Name] = true
				pod = pod.DeepCopy()
				ApplyGroupLabels(pod, br.Spec.SelectedGPUGroups[:1], true)
				if _, err := w.Kube.CoreV1().Pods(Namespace).Update(ctx, pod, metav1.UpdateOptions{}); err != nil {
					return err
				}
				rp := BuildReservationPod(br.Spec.SelectedNode, br.Spec.SelectedGPUGroups[0])
				if _, err := w.Kube.CoreV1().Pods(ReservationNS).Get(ctx, rp.Name, metav1.GetOptions{}); err != nil {
					if _, err := w.Kube.CoreV1().Pods(ReservationNS).Create(ctx, rp, metav1.CreateOptions{}); err != nil {
						return err
					}
				}
				continue
			}
			if w.Sc.Cfg.Env == "lagpod" && !w.slow[br.Name] {
				// the view of lagging informers: the binder has bound the pod and marked the request Succeeded, the
				// scheduler has seen the BindRequest update but not yet the pod update (spec.nodeName) - for one cycle
				// the request says Succeeded while the pod still looks unbound; the next environment step catches up
				if w.slow == nil {
					w.slow = map[string]bool{}
				}
				w.slow[br.Name] = true
				brc := br.DeepCopy()
				brc.Status.Phase = schedulingv1alpha2.BindRequestPhaseSucceeded
				if _, err := w.Kai.SchedulingV1alpha2().BindRequests(Namespace).UpdateStatus(ctx, brc, metav1.UpdateOptions{}); err != nil {
					return err
				}
				continue
			}
			delete(w.slow, br.Name)
			pod = pod.DeepCopy()
			pod.Spec.NodeName = br.Spec.SelectedNode
			pod.Status.Phase = v1.PodRunning
			ApplyGroupLabels(pod, br.Spec.SelectedGPUGroups, multi)
			if pod.Annotations == nil {
				pod.Annotations = map[string]string{}
			}
			if br.Spec.ReceivedResourceType != "" {
				pod.Annotations[commonconstants.ReceivedResourceType] = br.Spec.ReceivedResourceType
			}
			if _, err := w.Kube.CoreV1().Pods(Namespace).Update(ctx, pod, metav1.UpdateOptions{}); err != nil {
				return err
			}
			for _, g := range br.Spec.SelectedGPUGroups {
				rp := BuildReservationPod(br.Spec.SelectedNode, g)
				if _, err := w.Kube.CoreV1().Pods(ReservationNS).Get(ctx, rp.Name, metav1.GetOptions{}); err != nil {
					if _, err := w.Kube.CoreV1().Pods(ReservationNS).Create(ctx, rp, metav1.CreateOptions{}); err != nil {
						return err
					}
				}
			}
		}
		if err := w.Kai.SchedulingV1alpha2().BindRequests(Namespace).Delete(ctx, br.Name, metav1.DeleteOptions{}); err != nil {
			return err
		}
	}
	// terminating pods vanish; closed system: recreate them pending
	gvr := v1.SchemeGroupVersion.WithResource("pods")
	for i := range w.Sc.Pods {
		name := w.currentName(i)
		pod, err := w.Kube.CoreV1().Pods(Namespace).Get(ctx, name, metav1.GetOptions{})
		if err != nil || pod.DeletionTimestamp == nil {
			continue
		}
		if err := w.Kube.Tracker().Delete(gvr, Namespace, name); err != nil {
			return err
		}
		delete(w.podIndex, name)
		w.gen[i]++
		np := BuildPod(w.Sc, i, w.gen[i], w.Now)
		w.podIndex[np.Name] = i + 1
		if _, err := w.Kube.CoreV1().Pods(Namespace).Create(ctx, np, metav1.CreateOptions{}); err != nil {
			return err
		}
	}
	// the binder's sync: reservation pods without any consumer are deleted
	used := map[string]bool{}
	all, _ := w.Kube.CoreV1().Pods(Namespace).List(ctx, metav1.ListOptions{})
	for _, p := range all.Items {
		for _, g := range groupsFromLabels(&p) {
			used[g] = true
		}
	}
	rp, _ := w.Kube.CoreV1().Pods(ReservationNS).List(ctx, metav1.ListOptions{})
	for _, p := range rp.Items {
		if !used[p.Labels[commonconstants.GPUGroup]] {
			_ = w.Kube.Tracker().Delete(gvr, ReservationNS, p.Name)
		}
	}
	w.emit(map[string]any{"ev": "Env", "step": "closed"})
	return nil
}

// Options are optional recordings next to the decision trace.
type Options struct {
	// Acct, when set, receives the node-accounting observations of every simulation step (acctobs.go): a second
	// trace in the record shapes of spec/NodeAcctCycleTrace.tla. The decision trace is not affected.
	Acct Emitter
	// Stmt, when set, receives one record per statement scope that the real actions / solvers abandon (Rollback to a
	// checkpoint, Discard) with the projections of the session view before and after (stmtobs.go): a third trace in the
	// record shapes of spec/StmtCycleTrace.tla. The decision trace is not affected.
	Stmt Emitter
}

// Run executes the whole scenario: Scenario line, then cycles with environment steps in between.
func Run(sc *Scenario, emit Emitter) error { return RunWith(sc, emit, Options{}) }

func RunWith(sc *Scenario, emit Emitter, opt Options) error {
	w, err := NewWorld(sc, emit)
	if err != nil {
		return err
	}
	defer w.Close()
	if opt.Acct != nil {
		w.acct = newAcctRec(w, opt.Acct)
	}
	if opt.Stmt != nil {
		w.stmtobs = newStmtRec(w, opt.Stmt)
	}
	emit(map[string]any{"ev": "Scenario", "id": sc.ID, "class": sc.Class, "cfg": sc.Cfg, "nodes": sc.Nodes, "queues": sc.Queues,
		"jobs": sc.Jobs, "pods": sc.Pods, "topo": sc.Topo})
	for c := 1; c <= sc.Cfg.Cycles; c++ {
		if err := w.RunCycle(c); err != nil {
			return err
		}
		if c < sc.Cfg.Cycles {
			if err := w.EnvStep(); err != nil {
				return err
			}
		}
	}
	return nil
}
