// Package tracefmt writes ndjson traces (one JSON object per line; integers and strings only).
package tracefmt

import (
	"bufio"
	"encoding/json"
	"os"
	"sync"
)

type Writer struct {
	mu sync.Mutex
	f  *os.File
	w  *bufio.Writer
	n  int
}

func Create(path string) (*Writer, error) {
	f, err := os.Create(path)
	if err != nil {
		return nil, err
	}
	return &Writer{f: f, w: bufio.NewWriterSize(f, 1<<20)}, nil
}

// Emit appends one event. The caller decides the linearization point.
func (t *Writer) Emit(ev map[string]any) {
	t.mu.Lock()
	defer t.mu.Unlock()
	b, err := json.Marshal(ev)
	if err != nil {
		panic(err)
	}
	t.w.Write(b)
	t.w.WriteByte('\n')
	t.n++
}

func (t *Writer) Count() int { return t.n }

func (t *Writer) Close() error {
	t.mu.Lock()
	defer t.mu.Unlock()
	if err := t.w.Flush(); err != nil {
		return err
	}
	return t.f.Close()
}
