// Package totalitysim runs the REAL KAI scheduler end-to-end in-process, exactly as
// cmd/snapshot-tool does: client-go / kai fake clientsets -> cache.New -> Run / WaitForCacheSync ->
// framework.OpenSession -> every configured action's Execute -> framework.CloseSession, with the
// default scheduler configuration (conf_util.GetDefaultSchedulerConf) and the default server
// options of cmd/scheduler (full hierarchy fairness, scheduling signatures, ...).
//
// Used by cmd/totality (C10) and cmd/gpureq (C19, to obtain the BindRequests the scheduler really
// creates for admitted pods).
package totalitysim

import (
	"context"
	"fmt"
	"net/http"
	"runtime/debug"
	"sort"
	"sync"
	"time"

	v1 "k8s.io/api/core/v1"
	schedulingv1 "k8s.io/api/scheduling/v1"
	"k8s.io/apimachinery/pkg/api/resource"
	metav1 "k8s.io/apimachinery/pkg/apis/meta/v1"
	"k8s.io/apimachinery/pkg/types"
	"k8s.io/client-go/kubernetes/fake"

	kaifake "github.com/NVIDIA/KAI-scheduler/pkg/apis/client/clientset/versioned/fake"
	schedv1alpha2 "github.com/NVIDIA/KAI-scheduler/pkg/apis/scheduling/v1alpha2"
	queuev2 "github.com/NVIDIA/KAI-scheduler/pkg/apis/scheduling/v2"
	pgv2alpha2 "github.com/NVIDIA/KAI-scheduler/pkg/apis/scheduling/v2alpha2"
	"github.com/NVIDIA/KAI-scheduler/pkg/common/constants"
	"github.com/NVIDIA/KAI-scheduler/pkg/scheduler/actions"
	"github.com/NVIDIA/KAI-scheduler/pkg/scheduler/cache"
	"github.com/NVIDIA/KAI-scheduler/pkg/scheduler/conf"
	"github.com/NVIDIA/KAI-scheduler/pkg/scheduler/conf_util"
	"github.com/NVIDIA/KAI-scheduler/pkg/scheduler/framework"
	"github.com/NVIDIA/KAI-scheduler/pkg/scheduler/log"
	"github.com/NVIDIA/KAI-scheduler/pkg/scheduler/plugins"
)

const (
	Namespace     = "verif"
	SchedulerName = constants.DefaultSchedulerName
)

// Cluster is the content of the API store the scheduler reads.
type Cluster struct {
	Nodes           []*v1.Node
	Pods            []*v1.Pod
	PodGroups       []*pgv2alpha2.PodGroup
	Queues          []*queuev2.Queue
	PriorityClasses []*schedulingv1.PriorityClass
	ConfigMaps      []*v1.ConfigMap
}

// Result of one scheduling cycle.
type Result struct {
	Completed    bool   // OpenSession .. CloseSession returned
	OpenErr      string // OpenSession returned an error (cycle skipped, as runOnce does)
	Panic        string // recovered panic value (+ top of stack)
	PanicStack   string
	BindRequests []*schedv1alpha2.BindRequest // created by the cycle, sorted by pod name
	DurationMs   int64
}

var initOnce sync.Once

// Init sets up the process-wide pieces (loggers, action and plugin registries) once.
func Init(verbosity int) {
	initOnce.Do(func() {
		_ = log.InitLoggers(verbosity)
		log.InfraLogger.SetSessionID("verif")
		actions.InitDefaultActions()
		plugins.InitDefaultPlugins()
	})
}

// DefaultParams are the defaults of cmd/scheduler/app/options.
func DefaultParams() *conf.SchedulerParams {
	return &conf.SchedulerParams{
		SchedulerName:                     SchedulerName,
		RestrictSchedulingNodes:           false,
		PartitionParams:                   &conf.SchedulingNodePoolParams{NodePoolLabelKey: constants.DefaultNodePoolLabelKey, NodePoolLabelValue: ""},
		MaxNumberConsolidationPreemptees:  16,
		ScheduleCSIStorage:                false,
		UseSchedulingSignatures:           true,
		FullHierarchyFairness:             true,
		AllowConsolidatingReclaim:         true,
		NumOfStatusRecordingWorkers:       5,
		GlobalDefaultStalenessGracePeriod: 60 * time.Second,
		SchedulePeriod:                    time.Second,
		DetailedFitErrors:                 false,
		UpdatePodEvictionCondition:        false,
		QueueLabelKey:                     constants.DefaultQueueLabel,
	}
}

// RunCycle materialises the cluster in fresh fake clientsets and runs one real scheduling cycle in
// the calling goroutine. A panic of the cycle is recovered and reported; a non-terminating cycle
// does not return (the caller owns the watchdog: cmd/totality runs scenarios in a child process).
// `started` (optional) is called after the cache has synced, right before the cycle; `onSnapshot`
// (optional) receives the queue names of an extra real cache.Snapshot() taken inside the guarded
// cycle, before OpenSession (which snapshots again).
func RunCycle(c *Cluster, started func(), onSnapshot func(queues []string)) (res *Result) {
	Init(0)
	res = &Result{}
	kubeClient := fake.NewSimpleClientset()
	kaiClient := kaifake.NewSimpleClientset()
	ctx := context.TODO()
	for _, o := range c.PriorityClasses {
		if _, err := kubeClient.SchedulingV1().PriorityClasses().Create(ctx, o, metav1.CreateOptions{}); err != nil {
			panic(fmt.Sprintf("harness: create priority class: %v", err))
		}
	}
	for _, o := range c.Nodes {
		if _, err := kubeClient.CoreV1().Nodes().Create(ctx, o, metav1.CreateOptions{}); err != nil {
			panic(fmt.Sprintf("harness: create node: %v", err))
		}
	}
	for _, o := range c.ConfigMaps {
		if _, err := kubeClient.CoreV1().ConfigMaps(o.Namespace).Create(ctx, o, metav1.CreateOptions{}); err != nil {
			panic(fmt.Sprintf("harness: create configmap: %v", err))
		}
	}
	for _, o := range c.Pods {
		if _, err := kubeClient.CoreV1().Pods(o.Namespace).Create(ctx, o, metav1.CreateOptions{}); err != nil {
			panic(fmt.Sprintf("harness: create pod: %v", err))
		}
	}
	for _, o := range c.Queues {
		if _, err := kaiClient.SchedulingV2().Queues(o.Namespace).Create(ctx, o, metav1.CreateOptions{}); err != nil {
			panic(fmt.Sprintf("harness: create queue: %v", err))
		}
	}
	for _, o := range c.PodGroups {
		if _, err := kaiClient.SchedulingV2alpha2().PodGroups(o.Namespace).Create(ctx, o, metav1.CreateOptions{}); err != nil {
			panic(fmt.Sprintf("harness: create podgroup: %v", err))
		}
	}

	params := DefaultParams()
	config, err := conf_util.GetDefaultSchedulerConf()
	if err != nil {
		panic(fmt.Sprintf("harness: default scheduler conf: %v", err))
	}
	schedulerCache := cache.New(&cache.SchedulerCacheParams{
		KubeClient:                  kubeClient,
		KAISchedulerClient:          kaiClient,
		SchedulerName:               params.SchedulerName,
		NodePoolParams:              params.PartitionParams,
		RestrictNodeScheduling:      params.RestrictSchedulingNodes,
		DetailedFitErrors:           params.DetailedFitErrors,
		ScheduleCSIStorage:          params.ScheduleCSIStorage,
		FullHierarchyFairness:       params.FullHierarchyFairness,
		AllowConsolidatingReclaim:   params.AllowConsolidatingReclaim,
		NumOfStatusRecordingWorkers: params.NumOfStatusRecordingWorkers,
		UpdatePodEvictionCondition:  params.UpdatePodEvictionCondition,
		DiscoveryClient:             kubeClient.Discovery(),
	})
	stopCh := make(chan struct{})
	defer close(stopCh)
	schedulerCache.Run(stopCh)
	schedulerCache.WaitForCacheSync(stopCh)

	if started != nil {
		started()
	}
	t0 := time.Now()
	func() {
		defer func() {
			if r := recover(); r != nil {
				res.Panic = fmt.Sprint(r)
				res.PanicStack = string(debug.Stack())
			}
		}()
		if onSnapshot != nil {
			snap, err := schedulerCache.Snapshot()
			if err == nil && snap != nil {
				names := []string{}
				for id := range snap.Queues {
					names = append(names, string(id))
				}
				sort.Strings(names)
				onSnapshot(names)
			}
		}
		// --- scheduler.runOnce ---
		ssn, err := framework.OpenSession(schedulerCache, config, params, "verif", &http.ServeMux{})
		if err != nil {
			res.OpenErr = err.Error()
			return
		}
		defer framework.CloseSession(ssn)
		acts, _ := conf_util.GetActionsFromConfig(config)
		for _, action := range acts {
			log.InfraLogger.SetAction(string(action.Name()))
			action.Execute(ssn)
		}
		log.InfraLogger.RemoveActionLogger()
	}()
	res.DurationMs = time.Since(t0).Milliseconds()
	res.Completed = res.Panic == ""

	brs, err := kaiClient.SchedulingV1alpha2().BindRequests("").List(ctx, metav1.ListOptions{})
	if err == nil {
		for i := range brs.Items {
			res.BindRequests = append(res.BindRequests, &brs.Items[i])
		}
		sort.Slice(res.BindRequests, func(i, j int) bool { return res.BindRequests[i].Name < res.BindRequests[j].Name })
	}
	return res
}

// ---------------------------------------------------------------------------------------------
// object builders
// ---------------------------------------------------------------------------------------------

// Node with n whole GPUs (0 = CPU node), ample cpu / memory / pods, GPU labels as
// gpu-feature-discovery writes them.
func Node(name string, gpus int, gpuMemMiB int) *v1.Node {
	alloc := v1.ResourceList{
		v1.ResourceCPU:    resource.MustParse("64"),
		v1.ResourceMemory: resource.MustParse("256Gi"),
		v1.ResourcePods:   resource.MustParse("110"),
	}
	labels := map[string]string{"kubernetes.io/hostname": name}
	if gpus > 0 {
		alloc[constants.NvidiaGpuResource] = *resource.NewQuantity(int64(gpus), resource.DecimalSI)
		labels[constants.GpuCountLabel] = fmt.Sprint(gpus)
		labels[constants.NvidiaGpuMemory] = fmt.Sprint(gpuMemMiB)
	}
	return &v1.Node{
		ObjectMeta: metav1.ObjectMeta{Name: name, Labels: labels},
		Status: v1.NodeStatus{
			Allocatable: alloc, Capacity: alloc.DeepCopy(),
			Conditions: []v1.NodeCondition{{Type: v1.NodeReady, Status: v1.ConditionTrue}},
		},
	}
}

// Queue with unlimited quota / limit and over-quota weight 1.
func Queue(name, parent string) *queuev2.Queue {
	unl := queuev2.QueueResource{Quota: -1, OverQuotaWeight: 1, Limit: -1}
	return &queuev2.Queue{
		ObjectMeta: metav1.ObjectMeta{Name: name, CreationTimestamp: metav1.NewTime(time.Date(2024, 1, 1, 0, 0, 0, 0, time.UTC))},
		Spec: queuev2.QueueSpec{
			ParentQueue: parent,
			Resources:   &queuev2.QueueResources{GPU: unl, CPU: unl, Memory: unl},
		},
	}
}

func PodGroup(name, queue string, minMember int32) *pgv2alpha2.PodGroup {
	return &pgv2alpha2.PodGroup{
		ObjectMeta: metav1.ObjectMeta{Name: name, Namespace: Namespace, UID: types.UID("pg-" + name),
			CreationTimestamp: metav1.NewTime(time.Date(2024, 1, 1, 0, 0, 0, 0, time.UTC))},
		Spec: pgv2alpha2.PodGroupSpec{MinMember: minMember, Queue: queue},
	}
}

// Pod is a pending pod of pod group `group` with one container requesting 100m cpu.
func Pod(name, group string) *v1.Pod {
	return &v1.Pod{
		ObjectMeta: metav1.ObjectMeta{Name: name, Namespace: Namespace, UID: types.UID("pod-" + name),
			Annotations:       map[string]string{constants.PodGroupAnnotationForPod: group},
			Labels:            map[string]string{},
			CreationTimestamp: metav1.NewTime(time.Date(2024, 1, 1, 0, 0, 0, 0, time.UTC))},
		Spec: v1.PodSpec{
			SchedulerName: SchedulerName,
			Containers: []v1.Container{{Name: "main", Image: "x",
				Resources: v1.ResourceRequirements{Requests: v1.ResourceList{v1.ResourceCPU: resource.MustParse("100m")}}}},
		},
		Status: v1.PodStatus{Phase: v1.PodPending},
	}
}

// SetGPU sets request = limit = n whole GPUs on a container.
func SetGPU(c *v1.Container, n int64) {
	if c.Resources.Requests == nil {
		c.Resources.Requests = v1.ResourceList{}
	}
	if c.Resources.Limits == nil {
		c.Resources.Limits = v1.ResourceList{}
	}
	q := *resource.NewQuantity(n, resource.DecimalSI)
	c.Resources.Requests[constants.NvidiaGpuResource] = q
	c.Resources.Limits[constants.NvidiaGpuResource] = q
}
