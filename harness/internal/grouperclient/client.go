// Package grouperclient builds a controller-runtime fake client for the controller harnesses
// (C18 pod-grouper, C20 status controllers / operator):
//
//   - every mutating call (Create/Update/Patch/Delete/DeleteAllOf and the sub-resource writes) made
//     while counting is switched on is counted by verb and by kind; a merge patch whose body is
//     "{}" is counted separately (an API server treats it as a no-op: no write, no new
//     resourceVersion);
//   - typed Get/List results carry their GroupVersionKind, like the manager's cache-backed client
//     (cache.CacheReader sets it), which the production reconcilers read through. The plain fake
//     client strips TypeMeta from typed objects, which would make e.g. the Deployment grouper
//     build an owner reference with an empty kind.
package grouperclient

import (
	"context"
	"sort"
	"sync"

	"k8s.io/apimachinery/pkg/api/meta"
	metav1 "k8s.io/apimachinery/pkg/apis/meta/v1"
	"k8s.io/apimachinery/pkg/runtime"
	"sigs.k8s.io/controller-runtime/pkg/client"
	"sigs.k8s.io/controller-runtime/pkg/client/apiutil"
	"sigs.k8s.io/controller-runtime/pkg/client/fake"
	"sigs.k8s.io/controller-runtime/pkg/client/interceptor"
)

// Counts is the tally of mutating calls since the last Reset.
type Counts struct {
	Create, Update, Patch, Delete, EmptyPatch int
	ByKind                                    map[string]int // effective writes (empty patches excluded) by object kind
}

func (c Counts) Effective() int { return c.Create + c.Update + c.Patch + c.Delete }

type Counter struct {
	// OnWrite, if set, is called (while counting) before every mutating call with the object as passed by the caller.
	OnWrite func(verb string, obj runtime.Object)
	// BeforeUpdate, if set, is called on every Update after it was counted and before it is handed to the store,
	// with the un-intercepted client: whatever it writes through `inner` is not counted and lands in the store
	// between the caller's read and the caller's Update (the store's optimistic concurrency check then decides).
	BeforeUpdate func(ctx context.Context, inner client.WithWatch, obj client.Object)
	mu           sync.Mutex
	on           bool
	c            Counts
	scheme       *runtime.Scheme
}

func (k *Counter) Start() {
	k.mu.Lock()
	defer k.mu.Unlock()
	k.on = true
	k.c = Counts{ByKind: map[string]int{}}
}

func (k *Counter) Stop() Counts {
	k.mu.Lock()
	defer k.mu.Unlock()
	k.on = false
	return k.c
}

func (k *Counter) kind(obj runtime.Object) string {
	gvk, err := apiutil.GVKForObject(obj, k.scheme)
	if err != nil {
		return obj.GetObjectKind().GroupVersionKind().Kind
	}
	return gvk.Kind
}

func (k *Counter) add(verb string, obj runtime.Object) {
	k.mu.Lock()
	defer k.mu.Unlock()
	if !k.on {
		return
	}
	if k.OnWrite != nil {
		k.OnWrite(verb, obj)
	}
	switch verb {
	case "create":
		k.c.Create++
	case "update":
		k.c.Update++
	case "patch":
		k.c.Patch++
	case "delete":
		k.c.Delete++
	case "emptypatch":
		k.c.EmptyPatch++
		return
	}
	k.c.ByKind[k.kind(obj)]++
}

func (k *Counter) patchVerb(obj client.Object, p client.Patch) string {
	data, err := p.Data(obj)
	if err == nil && (string(data) == "{}" || len(data) == 0) {
		return "emptypatch"
	}
	return "patch"
}

func isTyped(obj runtime.Object) bool {
	if _, ok := obj.(runtime.Unstructured); ok {
		return false
	}
	switch obj.(type) {
	case *metav1.PartialObjectMetadata, *metav1.PartialObjectMetadataList:
		return false
	}
	return true
}

func (k *Counter) setGVK(obj runtime.Object) {
	if !isTyped(obj) {
		return
	}
	if gvk, err := apiutil.GVKForObject(obj, k.scheme); err == nil && gvk.Kind != "" && gvk.Kind != "PartialObjectMetadata" && gvk.Kind != "PartialObjectMetadataList" {
		obj.GetObjectKind().SetGroupVersionKind(gvk)
	}
}

// New returns the client and its counter. configure may add indexes, status sub-resources, objects.
func New(scheme *runtime.Scheme, configure func(b *fake.ClientBuilder)) (client.WithWatch, *Counter) {
	k := &Counter{scheme: scheme, c: Counts{ByKind: map[string]int{}}}
	funcs := interceptor.Funcs{
		Get: func(ctx context.Context, c client.WithWatch, key client.ObjectKey, obj client.Object, opts ...client.GetOption) error {
			if err := c.Get(ctx, key, obj, opts...); err != nil {
				return err
			}
			k.setGVK(obj)
			return nil
		},
		List: func(ctx context.Context, c client.WithWatch, list client.ObjectList, opts ...client.ListOption) error {
			if err := c.List(ctx, list, opts...); err != nil {
				return err
			}
			if isTyped(list) {
				_ = meta.EachListItem(list, func(o runtime.Object) error { k.setGVK(o); return nil })
			}
			return nil
		},
		Create: func(ctx context.Context, c client.WithWatch, obj client.Object, opts ...client.CreateOption) error {
			k.add("create", obj)
			return c.Create(ctx, obj, opts...)
		},
		Update: func(ctx context.Context, c client.WithWatch, obj client.Object, opts ...client.UpdateOption) error {
			k.add("update", obj)
			if k.BeforeUpdate != nil {
				k.BeforeUpdate(ctx, c, obj)
			}
			return c.Update(ctx, obj, opts...)
		},
		Patch: func(ctx context.Context, c client.WithWatch, obj client.Object, p client.Patch, opts ...client.PatchOption) error {
			k.add(k.patchVerb(obj, p), obj)
			return c.Patch(ctx, obj, p, opts...)
		},
		Delete: func(ctx context.Context, c client.WithWatch, obj client.Object, opts ...client.DeleteOption) error {
			k.add("delete", obj)
			return c.Delete(ctx, obj, opts...)
		},
		DeleteAllOf: func(ctx context.Context, c client.WithWatch, obj client.Object, opts ...client.DeleteAllOfOption) error {
			k.add("delete", obj)
			return c.DeleteAllOf(ctx, obj, opts...)
		},
		SubResourceCreate: func(ctx context.Context, c client.Client, sub string, obj client.Object, subObj client.Object, opts ...client.SubResourceCreateOption) error {
			k.add("create", obj)
			return c.SubResource(sub).Create(ctx, obj, subObj, opts...)
		},
		SubResourceUpdate: func(ctx context.Context, c client.Client, sub string, obj client.Object, opts ...client.SubResourceUpdateOption) error {
			k.add("update", obj)
			return c.SubResource(sub).Update(ctx, obj, opts...)
		},
		SubResourcePatch: func(ctx context.Context, c client.Client, sub string, obj client.Object, p client.Patch, opts ...client.SubResourcePatchOption) error {
			k.add(k.patchVerb(obj, p), obj)
			return c.SubResource(sub).Patch(ctx, obj, p, opts...)
		},
	}
	b := fake.NewClientBuilder().WithScheme(scheme).WithInterceptorFuncs(funcs)
	if configure != nil {
		configure(b)
	}
	return b.Build(), k
}

// KindsString renders ByKind deterministically ("PodGroup=1,Pod=1").
func (c Counts) KindsString() string {
	keys := make([]string, 0, len(c.ByKind))
	for k := range c.ByKind {
		keys = append(keys, k)
	}
	sort.Strings(keys)
	s := ""
	for i, k := range keys {
		if i > 0 {
			s += ","
		}
		s += k + "=" + itoa(c.ByKind[k])
	}
	return s
}

func itoa(i int) string {
	if i == 0 {
		return "0"
	}
	neg := i < 0
	if neg {
		i = -i
	}
	b := []byte{}
	for i > 0 {
		b = append([]byte{byte('0' + i%10)}, b...)
		i /= 10
	}
	if neg {
		b = append([]byte{'-'}, b...)
	}
	return string(b)
}
