// Command stmt drives the REAL framework.Statement of a REAL framework.Session (C13, C14).
//
//	stmt -cfg scenario.json -in programs.ndjson -out trace.ndjson     replay TLC-exported programs
//	stmt -random N -seed S -out trace.ndjson [-len L] [-draworlds K]  seeded random well-formed programs
//
// A scenario (nodes, queues, workloads, pods, GPU group ids; the record cfg of spec/Stmt.tla) is
// materialised as Node/Pod/PodGroup/Queue objects in fake clientsets; the real SchedulerCache takes
// the real snapshot, the real plugins (proportion, dynamicresources ...) are registered by the real OpenSession;
// scenarios with DRA devices / resource claims (see dra.go) additionally get DeviceClass / ResourceSlice /
// ResourceClaim objects and a discovery answer from which the scheduler cache enables DynamicResourceAllocation; only
// Session.Cache is wrapped by a recorder that can fail the k-th call. Every program runs on a fresh
// session of that world. The trace (ndjson) is validated by spec/StmtTrace.tla.
package main

import (
	"bufio"
	"encoding/json"
	"flag"
	"fmt"
	"os"

	"github.com/NVIDIA/KAI-scheduler/pkg/scheduler/actions"
	"github.com/NVIDIA/KAI-scheduler/pkg/scheduler/conf"
	"github.com/NVIDIA/KAI-scheduler/pkg/scheduler/conf_util"
	"github.com/NVIDIA/KAI-scheduler/pkg/scheduler/plugins"

	"verif/harness/internal/tracefmt"
)

func die(f string, a ...any) {
	fmt.Fprintf(os.Stderr, "stmt: "+f+"\n", a...)
	os.Exit(2)
}

func loadConfig() *conf.SchedulerConfiguration {
	actions.InitDefaultActions()
	plugins.InitDefaultPlugins()
	config, err := conf_util.ResolveConfigurationFromFile("")
	if err != nil {
		die("config: %v", err)
	}
	return config
}

func main() {
	cfgPath := flag.String("cfg", "", "scenario json (replay mode)")
	in := flag.String("in", "", "programs ndjson (replay mode)")
	out := flag.String("out", "", "trace ndjson")
	nrandom := flag.Int("random", 0, "number of random programs")
	seed := flag.Int64("seed", 1, "seed")
	plen := flag.Int("len", 60, "length of random programs (operations)")
	nworlds := flag.Int("worlds", 8, "number of random scenarios (random mode)")
	ndra := flag.Int("draworlds", 2, "number of additional random scenarios whose GPUs are DRA devices and whose pods have resource claims (random mode)")
	flag.Parse()
	if *out == "" {
		die("-out required")
	}
	config := loadConfig()
	tw, err := tracefmt.Create(*out)
	if err != nil {
		die("%v", err)
	}
	nprog, rebuilt := 0, 0
	if *nrandom > 0 {
		nprog, rebuilt = runRandom(config, tw, *nrandom, *seed, *plen, *nworlds, *ndra)
	} else {
		var cfg Cfg
		b, err := os.ReadFile(*cfgPath)
		if err != nil {
			die("%v", err)
		}
		if err := json.Unmarshal(b, &cfg); err != nil {
			die("cfg: %v", err)
		}
		w, err := NewWorld(&cfg, config)
		if err != nil {
			die("world: %v", err)
		}
		f, err := os.Open(*in)
		if err != nil {
			die("%v", err)
		}
		sc := bufio.NewScanner(f)
		sc.Buffer(make([]byte, 1<<20), 1<<26)
		r := &Runner{w: w, cfg: &cfg, out: tw}
		for sc.Scan() {
			if len(sc.Bytes()) == 0 {
				continue
			}
			var p Program
			if err := json.Unmarshal(sc.Bytes(), &p); err != nil {
				die("program: %v", err)
			}
			if err := r.Run(&p); err != nil {
				die("program %s: %v", p.ID, err)
			}
			nprog++
		}
		r.Close()
		rebuilt = r.rebuilt
	}
	if err := tw.Close(); err != nil {
		die("%v", err)
	}
	fmt.Printf("programs=%d events=%d worlds_rebuilt=%d\n", nprog, tw.Count(), rebuilt)
}
