package main

// world.go - builds a REAL scheduler cache (fake clientsets, real informers, real
// cluster_info.Snapshot) from an abstract scenario and opens REAL sessions on it.

import (
	"context"
	"fmt"
	"net/http"
	"sort"
	"time"

	v1 "k8s.io/api/core/v1"
	"k8s.io/apimachinery/pkg/api/resource"
	metav1 "k8s.io/apimachinery/pkg/apis/meta/v1"
	"k8s.io/apimachinery/pkg/types"
	"k8s.io/apimachinery/pkg/version"
	fakediscovery "k8s.io/client-go/discovery/fake"
	"k8s.io/client-go/kubernetes/fake"

	kaifake "github.com/NVIDIA/KAI-scheduler/pkg/apis/client/clientset/versioned/fake"
	enginev2 "github.com/NVIDIA/KAI-scheduler/pkg/apis/scheduling/v2"
	enginev2alpha2 "github.com/NVIDIA/KAI-scheduler/pkg/apis/scheduling/v2alpha2"
	"github.com/NVIDIA/KAI-scheduler/pkg/scheduler/api/eviction_info"
	"github.com/NVIDIA/KAI-scheduler/pkg/scheduler/api/pod_info"
	"github.com/NVIDIA/KAI-scheduler/pkg/scheduler/api/podgroup_info"
	"github.com/NVIDIA/KAI-scheduler/pkg/scheduler/cache"
	"github.com/NVIDIA/KAI-scheduler/pkg/scheduler/conf"
	"github.com/NVIDIA/KAI-scheduler/pkg/scheduler/framework"
)

// ---- abstract scenario (same record shape as cfg in spec/Stmt.tla) ---------------------------

type NodeCfg struct {
	Gpu  int `json:"gpu"`
	Cpu  int `json:"cpu"`  // milli
	Gmem int `json:"gmem"` // memory units of one GPU device; 100 = no nvidia.com/gpu.memory label (the code's default), else MiB
	Dra  int `json:"dra"`  // > 0: the node's GPUs (dra == gpu) are published as DRA devices "0".."dra-1" by one ResourceSlice, not as the extended resource nvidia.com/gpu
}
type QueueCfg struct {
	Parent string `json:"parent"`
}
type JobCfg struct {
	Queue string `json:"queue"`
	NP    int    `json:"np"`  // 1 = non-preemptible
	Min   int    `json:"min"` // minMember
}
type PodCfg struct {
	Job    string   `json:"job"`
	Kind   string   `json:"kind"` // whole | frac (gpu-fraction annotation) | mem (gpu-memory annotation)
	Gpu    int      `json:"gpu"`  // whole: number of devices; else 0
	Gq     int      `json:"gq"`   // GPU quota of the request in milli-GPU (whole: 1000*gpu, frac: portion*1000, mem: 0)
	Mem    int      `json:"mem"`  // mem: requested GPU memory (MiB); else 0
	Cpu    int      `json:"cpu"`  // milli
	St     string   `json:"st"`   // Running | Pending | Releasing
	Node   string   `json:"node"`
	Groups []string `json:"groups"`
	Ord    int      `json:"ord"` // position in the (sorted) pod list; the model folds the initial node accounting in this order
	// one DRA ResourceClaim (one GPU device of class draClass): the pod then requests its GPU through the claim
	// (kind whole, gpu 1 in the model), not through the extended resource
	Claim string `json:"claim"` // name of the ResourceClaim object; "" = the pod has no claim
	Pcn   string `json:"pcn"`   // name of the entry in pod.spec.resourceClaims; differs from Claim for a claim generated from a ResourceClaimTemplate
	Dev   int    `json:"dev"`   // Running / Releasing pods: index of the device of Node the claim is allocated to (reserved for the pod); else -1
}
type Cfg struct {
	Nodes  map[string]NodeCfg  `json:"nodes"`
	Queues map[string]QueueCfg `json:"queues"`
	Jobs   map[string]JobCfg   `json:"jobs"`
	Pods   map[string]PodCfg   `json:"pods"`
	Groups []string            `json:"groups"`
}

const ns = "vns"

var epoch = time.Date(2024, 1, 1, 0, 0, 0, 0, time.UTC)

func sortedKeys[T any](m map[string]T) []string {
	ks := make([]string, 0, len(m))
	for k := range m {
		ks = append(ks, k)
	}
	sort.Strings(ks)
	return ks
}

type World struct {
	cfg    *Cfg
	cache  cache.Cache
	stop   chan struct{}
	config *conf.SchedulerConfiguration
	params conf.SchedulerParams
}

func unlimited() enginev2.QueueResource {
	return enginev2.QueueResource{Quota: -1, Limit: -1, OverQuotaWeight: 1}
}

func NewWorld(cfg *Cfg, config *conf.SchedulerConfiguration) (*World, error) {
	kube := fake.NewSimpleClientset()
	kai := kaifake.NewSimpleClientset()
	ctx := context.TODO()

	dra := cfg.hasDRA()
	if dra {
		// the scheduler enables DynamicResourceAllocation from what the API server's discovery reports
		// (cache.New -> featuregates.SetDRAFeatureGate): a 1.34 server that serves resource.k8s.io/v1
		fd, ok := kube.Discovery().(*fakediscovery.FakeDiscovery)
		if !ok {
			return nil, fmt.Errorf("fake clientset without fake discovery")
		}
		fd.FakedServerVersion = &version.Info{Major: "1", Minor: "34", GitVersion: "v1.34.2"}
		kube.Resources = append(kube.Resources, &metav1.APIResourceList{GroupVersion: "resource.k8s.io/v1",
			APIResources: []metav1.APIResource{
				{Name: "resourceclaims", Namespaced: true, Kind: "ResourceClaim"},
				{Name: "resourceslices", Kind: "ResourceSlice"},
				{Name: "deviceclasses", Kind: "DeviceClass"}}})
		if err := createDRAObjects(ctx, kube, cfg); err != nil {
			return nil, err
		}
	}

	for _, name := range sortedKeys(cfg.Nodes) {
		n := cfg.Nodes[name]
		rl := v1.ResourceList{
			v1.ResourceCPU:    *resource.NewMilliQuantity(int64(n.Cpu), resource.DecimalSI),
			v1.ResourceMemory: resource.MustParse("64Gi"),
			v1.ResourcePods:   resource.MustParse("110"),
		}
		if n.Dra > 0 && n.Dra != n.Gpu {
			return nil, fmt.Errorf("node %s: dra %d != gpu %d", name, n.Dra, n.Gpu)
		}
		if n.Gpu > 0 && n.Dra == 0 {
			rl["nvidia.com/gpu"] = *resource.NewQuantity(int64(n.Gpu), resource.DecimalSI)
		}
		labels := map[string]string{"nvidia.com/gpu.count": fmt.Sprint(n.Gpu)}
		if n.Gmem != 100 {
			labels["nvidia.com/gpu.memory"] = fmt.Sprint(n.Gmem)
		}
		node := &v1.Node{
			ObjectMeta: metav1.ObjectMeta{Name: name, UID: types.UID(name), CreationTimestamp: metav1.NewTime(epoch), Labels: labels},
			Status: v1.NodeStatus{Allocatable: rl, Capacity: rl, Phase: v1.NodeRunning,
				Conditions: []v1.NodeCondition{{Type: v1.NodeReady, Status: v1.ConditionTrue}}},
		}
		if _, err := kube.CoreV1().Nodes().Create(ctx, node, metav1.CreateOptions{}); err != nil {
			return nil, err
		}
	}
	for _, name := range sortedKeys(cfg.Queues) {
		q := cfg.Queues[name]
		obj := &enginev2.Queue{
			ObjectMeta: metav1.ObjectMeta{Name: name, UID: types.UID(name), CreationTimestamp: metav1.NewTime(epoch)},
			Spec: enginev2.QueueSpec{DisplayName: name, ParentQueue: q.Parent,
				Resources: &enginev2.QueueResources{GPU: unlimited(), CPU: unlimited(), Memory: unlimited()}},
		}
		if _, err := kai.SchedulingV2().Queues("").Create(ctx, obj, metav1.CreateOptions{}); err != nil {
			return nil, err
		}
	}
	for i, name := range sortedKeys(cfg.Jobs) {
		j := cfg.Jobs[name]
		pre := enginev2alpha2.Preemptible
		if j.NP == 1 {
			pre = enginev2alpha2.NonPreemptible
		}
		pg := &enginev2alpha2.PodGroup{
			ObjectMeta: metav1.ObjectMeta{Name: name, Namespace: ns, UID: types.UID(name),
				CreationTimestamp: metav1.NewTime(epoch.Add(time.Duration(i) * time.Minute))},
			Spec: enginev2alpha2.PodGroupSpec{Queue: j.Queue, MinMember: int32(j.Min), Preemptibility: pre},
		}
		if _, err := kai.SchedulingV2alpha2().PodGroups(ns).Create(ctx, pg, metav1.CreateOptions{}); err != nil {
			return nil, err
		}
	}
	for i, name := range sortedKeys(cfg.Pods) {
		p := cfg.Pods[name]
		req := v1.ResourceList{v1.ResourceCPU: *resource.NewMilliQuantity(int64(p.Cpu), resource.DecimalSI)}
		ann := map[string]string{"pod-group-name": p.Job}
		lab := map[string]string{}
		if p.Claim != "" && (p.Kind != "whole" || p.Gpu != 1) {
			return nil, fmt.Errorf("pod %s: a claim pod is kind whole with gpu 1 in the model", name)
		}
		if p.Kind == "whole" && p.Gpu > 0 && p.Claim == "" {
			req["nvidia.com/gpu"] = *resource.NewQuantity(int64(p.Gpu), resource.DecimalSI)
		}
		if p.Kind == "frac" {
			ann["gpu-fraction"] = fmt.Sprintf("%.2f", float64(p.Gq)/1000.0)
		}
		if p.Kind == "mem" {
			ann["gpu-memory"] = fmt.Sprint(p.Mem)
		}
		if p.Kind != "whole" && len(p.Groups) > 0 {
			lab["runai-gpu-group"] = p.Groups[0]
		}
		pod := &v1.Pod{
			ObjectMeta: metav1.ObjectMeta{Name: name, Namespace: ns, UID: types.UID(name), Annotations: ann, Labels: lab,
				CreationTimestamp: metav1.NewTime(epoch.Add(time.Duration(i) * time.Second))},
			Spec: v1.PodSpec{SchedulerName: "kai-scheduler", Containers: []v1.Container{{Name: "c", Image: "i",
				Resources: v1.ResourceRequirements{Requests: req, Limits: req}}}},
			Status: v1.PodStatus{Phase: v1.PodPending},
		}
		if p.Claim != "" {
			claimName := p.Claim
			if p.Pcn == p.Claim {
				// the pod refers to a ResourceClaim object directly
				pod.Spec.ResourceClaims = []v1.PodResourceClaim{{Name: p.Pcn, ResourceClaimName: &claimName}}
			} else {
				// generated from a ResourceClaimTemplate: the object's name is published in the pod's status
				tmpl := p.Pcn + "-template"
				pod.Spec.ResourceClaims = []v1.PodResourceClaim{{Name: p.Pcn, ResourceClaimTemplateName: &tmpl}}
				pod.Status.ResourceClaimStatuses = []v1.PodResourceClaimStatus{{Name: p.Pcn, ResourceClaimName: &claimName}}
			}
			pod.Spec.Containers[0].Resources.Claims = []v1.ResourceClaim{{Name: p.Pcn}}
		}
		switch p.St {
		case "Running":
			pod.Spec.NodeName = p.Node
			pod.Status.Phase = v1.PodRunning
		case "Releasing":
			pod.Spec.NodeName = p.Node
			pod.Status.Phase = v1.PodRunning
			t := metav1.NewTime(epoch.Add(time.Hour))
			pod.DeletionTimestamp = &t
			pod.Finalizers = []string{"verif/keep"}
		case "Pending":
		default:
			return nil, fmt.Errorf("unsupported initial status %q", p.St)
		}
		if _, err := kube.CoreV1().Pods(ns).Create(ctx, pod, metav1.CreateOptions{}); err != nil {
			return nil, err
		}
	}

	params := &cache.SchedulerCacheParams{
		KubeClient: kube, KAISchedulerClient: kai, SchedulerName: "kai-scheduler",
		NodePoolParams:        &conf.SchedulingNodePoolParams{},
		FullHierarchyFairness: true, NumOfStatusRecordingWorkers: 1, DiscoveryClient: kube.Discovery(),
	}
	c := cache.New(params)
	stop := make(chan struct{})
	c.Run(stop)
	c.WaitForCacheSync(stop)
	if dra {
		if err := waitForDRA(c, cfg); err != nil {
			close(stop)
			return nil, err
		}
	}
	w := &World{cfg: cfg, cache: c, stop: stop, config: config,
		params: conf.SchedulerParams{SchedulerName: "kai-scheduler", FullHierarchyFairness: true,
			PartitionParams: &conf.SchedulingNodePoolParams{}, QueueLabelKey: "kai.scheduler/queue"}}
	return w, nil
}

func (w *World) Close() { close(w.stop) }

// ---- recording Cache decorator ----------------------------------------------------------------

type CacheCall struct {
	Kind string // bind | evict | pipelined
	Pod  string
	Node string
	OK   bool
}

// recCache wraps the real cache: Bind/Evict/TaskPipelined are recorded (and never reach the store,
// so that every session opened on the same world starts from the same snapshot); the k-th Cache
// call of the session fails when k is in failAt (0-based; TaskPipelined cannot fail).
type recCache struct {
	cache.Cache
	calls  []CacheCall
	failAt map[int]bool // index over all Cache calls (bind, evict, pipelined) of the session
	onCall func(c CacheCall)
}

func (r *recCache) record(c CacheCall) {
	r.calls = append(r.calls, c)
	if r.onCall != nil {
		r.onCall(c)
	}
}

func (r *recCache) Bind(p *pod_info.PodInfo, hostname string, _ map[string]string) error {
	ok := !r.failAt[len(r.calls)]
	r.record(CacheCall{"bind", string(p.UID), hostname, ok})
	if !ok {
		return fmt.Errorf("verif: injected bind failure")
	}
	return nil
}

func (r *recCache) Evict(pod *v1.Pod, _ *podgroup_info.PodGroupInfo, _ eviction_info.EvictionMetadata, _ string) error {
	ok := !r.failAt[len(r.calls)]
	r.record(CacheCall{"evict", string(pod.UID), pod.Spec.NodeName, ok})
	if !ok {
		return fmt.Errorf("verif: injected evict failure")
	}
	return nil
}

func (r *recCache) TaskPipelined(p *pod_info.PodInfo, _ string) {
	r.record(CacheCall{"pipelined", string(p.UID), p.NodeName, true})
}

// OpenSession takes a fresh real snapshot and registers the configured real plugins.
func (w *World) OpenSession() (*framework.Session, *recCache, error) {
	ssn, err := framework.OpenSession(w.cache, w.config, &w.params, "verif", &http.ServeMux{})
	if err != nil {
		return nil, nil, err
	}
	rc := &recCache{Cache: w.cache, failAt: map[int]bool{}}
	ssn.Cache = rc
	return ssn, rc, nil
}
